//go:build verif

package main

import (
	"fmt"
	"net/http"
	"net/url"
	"sort"
	"strings"
	"sync"
	"time"

	"github.com/nais/wonderwall/pkg/cookie"
	"github.com/nais/wonderwall/pkg/session"
)

// Driver "fault": for every handler and pre-state, the request's sequence of store commands, lock scripts and provider calls is first
// recorded without faults; then a fault is injected at each position: one failure, two failures, a fault outlasting the retry budget, and for
// the provider HTTP 5xx (transient / persistent), 4xx, and a non-JSON 200. Observation: status, what the upstream received, store afterwards,
// provider log. The Lean oracle maps the fault to `Ww.Model.Faults` and evaluates the C11 Spec.
func init() { register("fault", "fault injection at every store/provider position of every handler (C11)", runFault) }

type faultPlan struct {
	pos   int    // position in the fault-free step sequence (0 = first command after START)
	kind  string // store | idp5xx | idp4xx | idpgarbage
	count int    // number of consecutive failures at that position; -1 = persistent
}

type faultCase struct {
	handler string // proxy | fwdauth | session | refresh | logoutlocal | logout | frontchannel
	pre     string // fresh | due | expired
	plan    *faultPlan
}

func runFaultCase(c *ctx, fc faultCase) (labels []string) {
	o := sutOpts{tokenDuration: 10 * time.Minute, sidRequired: true, maxLifetime: time.Hour, forwardAuth: true}
	s := newSut(o)
	defer s.close()
	login := s.replica("L")
	base := "http://wonderwall"
	b := newBrowser()
	if _, err := s.login(b, login, base, ""); err != nil {
		panic(err)
	}
	ticket := s.ticketOf(b)
	switch fc.pre {
	case "fresh":
		s.shift(ticket, 2*time.Minute)
	case "due":
		s.shift(ticket, 7*time.Minute)
	case "expired":
		s.shift(ticket, 12*time.Minute)
	}
	rc := mustRedis(s)
	defer rc.Close()
	if l := session.NewRedisLock(rc, "warmup"); l.Acquire(ctxBg(), time.Second) == nil { // load the lock scripts: EVALSHA then needs no NOSCRIPT/EVAL round trip
		l.Release(ctxBg())
	}
	sc := newScheduler(s)
	// fault kinds for the provider
	idpFaultKind := ""
	s.idp.mu.Lock()
	inner := s.idp.gate
	s.idp.gate = func(kind string, form url.Values) *idpFault {
		f := inner(kind, form)
		if f == nil {
			return nil
		}
		switch idpFaultKind {
		case "idp4xx":
			return clientRejection(0)
		case "idp4xx-html":
			return clientRejection(1)
		case "idp4xx-empty":
			return clientRejection(2)
		case "idpgarbage":
			return brokenTokenResponse(0)
		case "idpgarbage-typed":
			return brokenTokenResponse(1)
		case "idplost":
			return &idpFault{lost: true}
		}
		return f
	}
	s.idp.mu.Unlock()
	rp := s.replica("A")
	pb := newBrowser()
	if jc := b.get(cookie.Session); jc != nil {
		pb.jar = append(pb.jar, *jc)
	}
	method, target := "GET", ""
	hdr := http.Header{"Sec-Fetch-Mode": {"navigate"}, "Sec-Fetch-Dest": {"document"}}
	switch fc.handler {
	case "proxy":
		target = base + "/some/page"
	case "fwdauth":
		target = base + "/oauth2/session/forwardauth"
	case "session":
		target = base + "/oauth2/session"
	case "refresh":
		method, target = "POST", base+"/oauth2/session/refresh"
	case "logoutlocal":
		target = base + "/oauth2/logout/local"
	case "logout":
		target = base + "/oauth2/logout"
	case "frontchannel":
		sid := ""
		if d := s.storedData(ticket); d != nil {
			sid = d.ExternalSessionID
		}
		target = base + "/oauth2/logout/frontchannel?sid=" + url.QueryEscape(sid) + "&iss=" + url.QueryEscape(s.idp.issuer)
	}
	hr := &histRun{c: c, s: s, b: b}
	pre := hr.readState()
	nUp, nCalls := s.upCount(), s.idp.callCount()
	now := time.Now()
	sc.spawn("A", rp, pb, method, target, hdr)
	sc.step("A", stepProceed) // START
	pos, injected := 0, 0
	for guard := 0; guard < 400 && !sc.isDone("A"); guard++ {
		pend := sc.pending("A")
		if pend == "" {
			break
		}
		k := stepProceed
		if p := fc.plan; p != nil && pos == p.pos && (p.count < 0 || injected < p.count) {
			k = stepFault
			idpFaultKind = p.kind
			injected++
		}
		sc.step("A", k)
		if k == stepProceed {
			labels = append(labels, pend)
			pos++
		}
	}
	sc.stop()
	took := time.Since(now)
	resp := (*response)(nil)
	sc.mu.Lock()
	if ps := sc.procs["A"]; ps != nil {
		resp = ps.resp
	}
	sc.mu.Unlock()
	if resp == nil {
		resp = &response{Status: 0, Header: http.Header{}}
	}
	post := hr.readState()
	if post.ticket == nil && pre.ticket != nil {
		post.ticket = pre.ticket
	}
	// a browser follows the automatic-retry redirect of a failed logout (the fault has cleared by then): where does the CHAIN end, and is the entry gone?
	finalStatus, finalExists := resp.Status, s.mr.Exists(ticket.Key())
	if (fc.handler == "logout" || fc.handler == "logoutlocal") && resp.Status == 307 {
		cur := resp
		for hop := 0; hop < 5 && cur.Status == 307 && cur.Location != ""; hop++ {
			next := cur.Location
			if strings.HasPrefix(next, "/") {
				next = base + next
			}
			cur = pb.do(rp, "GET", next, hdr)
		}
		finalStatus, finalExists = cur.Status, s.mr.Exists(ticket.Key())
	}
	ups := s.upSince(nUp)
	upAuth := "-"
	if len(ups) > 0 {
		if v := ups[0].Header.Get("Authorization"); strings.HasPrefix(v, "Bearer ") {
			upAuth = "w:" + atNameOf(s, strings.TrimPrefix(v, "Bearer "))
		}
	}
	contacted, granted := 0, 0
	for _, cl := range s.idp.callsSince(nCalls) {
		if cl.Grant == "refresh_token" {
			contacted++
			if cl.Outcome == "ok" {
				granted++
			}
		}
	}
	if fc.plan == nil {
		return labels
	}
	faultLabel := ""
	// the label at the faulted position is the one the dry run recorded
	if fc.plan.pos < len(c.faultLabels(fc)) {
		faultLabel = c.faultLabels(fc)[fc.plan.pos]
	}
	// which occurrence of that label it is (first GET = lookup, second GET = re-read under the lock)
	occ := 0
	for i, l := range c.faultLabels(fc) {
		if i < fc.plan.pos && l == faultLabel {
			occ++
		}
	}
	kv := []any{"handler", fc.handler, "prestate", fc.pre, "fpos", fc.plan.pos, "flabel", hx(faultLabel), "focc", occ, "fkind", fc.plan.kind, "fcount", fc.plan.count, "now", now,
		"newat", hx(fmt.Sprintf("at%d", hr.genNext(pre))), "newrt", hx(fmt.Sprintf("rt%d", hr.genNext(pre))), "secs", int64(600), "tookms", took.Milliseconds(), "trace", sc.trace}
	kv = append(kv, hr.stFields("", pre)...)
	kv = append(kv, "status", resp.Status, "fwd", len(ups) > 0, "upauth", upAuth, "contacted", contacted, "granted", granted, "cleared", clearedSession(resp), "finalstatus", finalStatus, "finalexists", finalExists)
	kv = append(kv, hr.stFields("p", post)...)
	c.count("fault:" + fc.plan.kind)
	c.emit("fault", kv...)
	return labels
}

func clearedSession(r *response) bool {
	for _, ck := range r.Cookies {
		if ck.Name == cookie.Session && ck.MaxAge < 0 {
			return true
		}
	}
	return false
}

var faultDry = map[string][]string{}
var faultDryMu sync.Mutex

func (c *ctx) faultLabels(fc faultCase) []string {
	faultDryMu.Lock()
	defer faultDryMu.Unlock()
	return faultDry[fc.handler+"/"+fc.pre]
}

func runFault(c *ctx) {
	var cases []faultCase
	handlers := []string{"proxy", "fwdauth", "session", "refresh", "logoutlocal", "logout", "frontchannel"}
	pres := []string{"fresh", "due", "expired"}
	for _, h := range handlers {
		for _, p := range pres {
			if (h == "logoutlocal" || h == "logout" || h == "frontchannel" || h == "session") && p != "due" {
				continue
			}
			labels := runFaultCase(c, faultCase{h, p, nil})
			faultDryMu.Lock()
			faultDry[h+"/"+p] = labels
			faultDryMu.Unlock()
			c.emit("faultdry", "handler", h, "prestate", p, "labels", labels)
			for i, l := range labels {
				if strings.HasPrefix(l, "IDP") {
					for _, k := range []faultPlan{{i, "idp5xx", 1}, {i, "idp5xx", 2}, {i, "idp5xx", -1}, {i, "idp4xx", -1}, {i, "idp4xx-html", -1}, {i, "idp4xx-empty", -1}, {i, "idpgarbage", -1}, {i, "idpgarbage-typed", -1}, {i, "idplost", 1}} {
						k := k
						cases = append(cases, faultCase{h, p, &k})
					}
				} else {
					for _, n := range []int{1, 2, -1} {
						cases = append(cases, faultCase{h, p, &faultPlan{i, "store", n}})
					}
				}
			}
		}
	}
	if !c.thorough() {
		// quick: keep every persistent / 4xx / garbage case and the single-failure cases; drop the double failures except at the lookup
		var keep []faultCase
		for _, fc := range cases {
			if fc.plan.count == 2 && fc.plan.pos != 0 {
				continue
			}
			keep = append(keep, fc)
		}
		cases = keep
	}
	sort.SliceStable(cases, func(i, j int) bool { return cases[i].plan.count < cases[j].plan.count }) // the slow (persistent) ones first
	var wg sync.WaitGroup
	sem := make(chan struct{}, 24)
	for _, fc := range cases {
		fc := fc
		wg.Add(1)
		sem <- struct{}{}
		go func() {
			defer wg.Done()
			defer func() { <-sem }()
			runFaultCase(c, fc)
		}()
	}
	wg.Wait()
}
