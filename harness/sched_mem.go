//go:build verif

package main

import (
	"context"
	"time"
	"net/url"
	"strings"

	"github.com/redis/go-redis/v9"
)

func ctxBg() context.Context { return context.Background() }

func mustRedis(s *sut) *redis.Client {
	return redis.NewClient(&redis.Options{Addr: s.mr.Addr()})
}

// newMemoryScheduler: for the in-memory store every store method is one critical section of the process, so the provider call is the only
// scheduling point.
func newMemoryScheduler(s *sut) *scheduler {
	sc := &scheduler{s: s, procs: map[string]*procState{}, events: make(chan string, 64), dead: map[string]bool{}, clientPids: map[string][]string{}, blockAfter: 120 * time.Millisecond}
	s.idp.mu.Lock()
	s.idp.gate = func(kind string, form url.Values) *idpFault {
		// the parked process is identified by being the one that is currently running
		sc.mu.Lock()
		ps := sc.procs[sc.current]
		active := sc.active
		sc.mu.Unlock()
		if !active || ps == nil || ps.done {
			return nil
		}
		if sc.park(ps, "IDP "+strings.TrimPrefix(kind, "token:")) == stepFault {
			return &idpFault{status: 503, body: "injected provider fault"}
		}
		return nil
	}
	s.idp.mu.Unlock()
	return sc
}
