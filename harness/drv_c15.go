//go:build verif

package main

import (
	"time"
	"net/url"
	"fmt"
	"net/http"
	"net/http/httptest"
	"regexp"
	"strings"

	"github.com/nais/wonderwall/pkg/config"
	"github.com/nais/wonderwall/pkg/ingress"
	"github.com/nais/wonderwall/pkg/router"
)

// Driver "c15": (a) routing decisions of the REAL router.New over a recording router.Source, for generated (method, request target)
// pairs, prefixes and configurations — compared with the Lean routing function over the regenerated route table;
// (b) the non-navigation guard on the real interactive endpoints; (c) the error page with hostile request-supplied text.
func init() { register("c15", "owned endpoints: routing table, non-navigation guard, error page escaping (C15)", runC15) }

type recSource struct {
	ing  *ingress.Ingresses
	last string
}

func (s *recSource) hit(n string) func(http.ResponseWriter, *http.Request) {
	return func(w http.ResponseWriter, r *http.Request) { s.last = n; w.WriteHeader(200) }
}
func (s *recSource) Login(w http.ResponseWriter, r *http.Request)          { s.hit("src.Login")(w, r) }
func (s *recSource) LoginCallback(w http.ResponseWriter, r *http.Request)  { s.hit("src.LoginCallback")(w, r) }
func (s *recSource) Logout(w http.ResponseWriter, r *http.Request)         { s.hit("src.Logout")(w, r) }
func (s *recSource) LogoutCallback(w http.ResponseWriter, r *http.Request) { s.hit("src.LogoutCallback")(w, r) }
func (s *recSource) LogoutFrontChannel(w http.ResponseWriter, r *http.Request) {
	s.hit("src.LogoutFrontChannel")(w, r)
}
func (s *recSource) LogoutLocal(w http.ResponseWriter, r *http.Request)    { s.hit("src.LogoutLocal")(w, r) }
func (s *recSource) Session(w http.ResponseWriter, r *http.Request)        { s.hit("src.Session")(w, r) }
func (s *recSource) SessionRefresh(w http.ResponseWriter, r *http.Request) { s.hit("src.SessionRefresh")(w, r) }
func (s *recSource) SessionForwardAuth(w http.ResponseWriter, r *http.Request) {
	s.hit("src.SessionForwardAuth")(w, r)
}
func (s *recSource) Wildcard(w http.ResponseWriter, r *http.Request) { s.hit("src.Wildcard")(w, r) }
func (s *recSource) GetIngresses() *ingress.Ingresses               { return s.ing }

var c15Tails = []string{"", "/", "/login", "/login/", "/logout", "/logout/", "/callback", "/logout/callback", "/logout/frontchannel", "/logout/local", "/ping",
	"/session", "/session/", "/session/refresh", "/session/refresh/", "/session/forwardauth", "/session/x", "/nope", "/LOGIN", "/log%69n", "/login%2F", "/./login", "/../oauth2/login",
	"/login/extra", "//login", "/session//refresh", "/%6cogin", "/login;x=1", "/logout/callback/", "/logout/nope", "/*"}
var c15Outside = []string{"/", "/x", "/oauth2x/login", "/oauth", "/oauth2%2Flogin", "/xoauth2/login", "/app", "/app/", "/app/oauth2x", "/OAUTH2/login", "/a/b/oauth2/login", "//oauth2/login", "/./oauth2/login", "/app/../oauth2/login"}

func runC15(c *ctx) {
	r := c.rng
	methods := []string{"GET", "HEAD", "POST", "PUT", "DELETE", "OPTIONS", "PATCH", "TRACE", "CONNECT", "PROPFIND"}
	// (the last two: ingress paths that need percent-encoding on the wire - a non-ASCII letter, a space; the router mounts the DECODED path, which is what it matches against)
	prefixSets := [][]string{{""}, {"/app"}, {"", "/app"}, {"/a/b"}, {"/app", "/app2"}, {"/s%C3%B8knad"}, {"/min%20side", "/app"}}
	n := 700
	if c.thorough() {
		n = 20000
	}
	for _, sso := range []bool{false, true} {
		for _, idp := range []bool{false, true} {
			for _, ps := range prefixSets {
				cfg := &config.Config{}
				for _, p := range ps {
					cfg.Ingresses = append(cfg.Ingresses, "http://host"+p)
				}
				cfg.OpenID.Provider = "openid"
				if idp {
					cfg.OpenID.Provider = config.ProviderIDPorten
				}
				if sso {
					cfg.SSO.Enabled, cfg.SSO.Mode, cfg.SSO.Domain = true, config.SSOModeServer, "example.com"
				}
				ing, err := ingress.ParseIngresses(cfg)
				if err != nil {
					panic(err)
				}
				src := &recSource{ing: ing}
				h := router.New(src, cfg)
				var psDecoded []string
				for _, p := range ps {
					d, err := url.PathUnescape(p)
					if err != nil {
						d = p
					}
					psDecoded = append(psDecoded, d)
				}
				for i := 0; i < n; i++ {
					var target string
					if r.chance(4, 5) {
						p := pick(r, append(ps, "", "/app", "/other"))
						target = p + "/oauth2" + pick(r, c15Tails)
					} else {
						target = pick(r, c15Outside)
					}
					if r.chance(1, 4) {
						target += "?redirect=/x"
					}
					m := pick(r, methods)
					req, ok := safeRequest(m, "http://host"+target)
					if !ok {
						continue
					}
					src.last = ""
					rec := httptest.NewRecorder()
					h.ServeHTTP(rec, req)
					impl := src.last
					if impl == "" {
						switch rec.Code {
						case 404:
							impl = "404"
						case 405:
							impl = "405"
						default:
							impl = "inline" // ping / sso root redirect / cors preflight noop
						}
					}
					rpath := req.URL.RawPath
					if rpath == "" {
						rpath = req.URL.Path
					}
					cc := rec.Header().Get("Cache-Control")
					c.count("route:" + impl)
					c.emit("route", "sso", sso, "idporten", idp, "prefixes", psDecoded, "method", m, "wire", hx(req.URL.EscapedPath()), "rpath", hx(rpath), "impl", impl,
						"status", rec.Code, "nocache", strings.Contains(cc, "no-store") || strings.Contains(cc, "no-cache"))
				}
			}
		}
	}
	// (b) guard on the real handlers; (c) error page
	s := newSut(sutOpts{})
	defer s.close()
	rp := s.replica("A")
	type fm struct{ mode, dest string }
	for _, ep := range []string{"/oauth2/login", "/oauth2/logout", "/oauth2/callback?code=x&state=y", "/oauth2/logout/callback?state=z"} {
		for _, f := range []fm{{"", ""}, {"navigate", "document"}, {"cors", "empty"}, {"no-cors", "image"}, {"navigate", "iframe"}, {"same-origin", "document"}, {"navigate", ""}, {"", "document"}, {"websocket", "websocket"}} {
			for _, m := range []string{"GET", "HEAD"} {
				if m == "HEAD" && strings.Contains(ep, "callback") {
					continue
				}
				hdr := http.Header{}
				if f.mode != "" {
					hdr.Set("Sec-Fetch-Mode", f.mode)
				}
				if f.dest != "" {
					hdr.Set("Sec-Fetch-Dest", f.dest)
				}
				acc := r.chance(1, 2)
				if acc {
					hdr.Set("Accept", "text/html")
				}
				nc := s.idp.callCount()
				resp := newBrowser().do(rp, m, "http://wonderwall"+ep, hdr)
				c.emit("guard", "ep", hx(ep), "method", m, "mode", hx(f.mode), "dest", hx(f.dest), "acc", acc, "status", resp.Status, "hasloc", resp.Location != "",
					"idpcalls", len(s.idp.callsSince(nc)), "nocache", strings.Contains(resp.Header.Get("Cache-Control"), "no-store") || strings.Contains(resp.Header.Get("Cache-Control"), "no-cache"))
			}
		}
	}
	// (b'') a browser WITH a session that keeps being sent to the login endpoint, login rate limit on: the redirects and then the 429 pages are generated by wonderwall
	// on an owned endpoint and are non-cacheable like everything else there (a cached 429 would keep answering after the window)
	{
		s := newSut(sutOpts{ingresses: []string{"http://wonderwall"}, sidRequired: true, rateLimit: &config.RateLimit{Enabled: true, Logins: 3, Window: 5 * time.Second}})
		rp := s.replica("A")
		b := newBrowser()
		if _, err := s.login(b, rp, "http://wonderwall", ""); err == nil {
			for i := 0; i < 7; i++ {
				resp := b.do(rp, "GET", "http://wonderwall/oauth2/login", http.Header{"Sec-Fetch-Mode": {"navigate"}, "Sec-Fetch-Dest": {"document"}})
				cc := resp.Header.Get("Cache-Control")
				c.emit("owncache", "ep", hx("/oauth2/login"), "n", i, "status", resp.Status, "cc", hx(cc), "nocache", strings.Contains(cc, "no-store") || strings.Contains(cc, "no-cache"))
			}
		}
		s.close()
	}
	// (b') the responses an SSO PROXY generates itself on owned endpoints (redirects to the SSO server, the callback bounce): marked non-cacheable like any other
	{
		ps := newSut(sutOpts{mode: "sso-proxy", ingresses: []string{"http://app.example.com"}, ssoServerURL: "http://sso.example.com", ssoDomain: "example.com"})
		prp := ps.replica("P")
		for _, ep := range []string{"/oauth2/login", "/oauth2/login?redirect=/x", "/oauth2/logout", "/oauth2/callback?code=x&state=y", "/oauth2/logout/callback", "/oauth2/nope", "/oauth2/"} {
			for _, f := range []fm{{"navigate", "document"}, {"", ""}} {
				hdr := http.Header{}
				if f.mode != "" {
					hdr.Set("Sec-Fetch-Mode", f.mode)
					hdr.Set("Sec-Fetch-Dest", f.dest)
				}
				resp := newBrowser().do(prp, "GET", "http://app.example.com"+ep, hdr)
				cc := resp.Header.Get("Cache-Control")
				c.count("proxyown")
				c.emit("proxyown", "ep", hx(ep), "mode", hx(f.mode), "status", resp.Status, "nocache", strings.Contains(cc, "no-store") || strings.Contains(cc, "no-cache"))
			}
		}
		ps.close()
	}
	hostile := []string{`"><script>alert(1)</script>`, `javascript:alert(1)`, `'onmouseover='x`, `</a><img src=x onerror=y>`, `%22%3E%3Cscript%3E`, "\"\n<b>", "ABSFORM:javascript", "ABSFORM:data", "ABSFORM:vbscript"}
	hrefRe := regexp.MustCompile(`href="([^"]*)"`)
	for _, hs := range hostile {
		for _, ep := range []string{"/oauth2/callback", "/oauth2/logout/callback", "/oauth2/login", "/oauth2/logout"} {
			for _, variant := range []string{"", "nonnav", "otherhost"} { // otherhost: no configured ingress matches -> EVERY interactive endpoint takes the error path (retry link = the request itself)
				nonnav := variant == "nonnav"
				host := "wonderwall"
				if variant == "otherhost" {
					host = "x.example"
				}
				b := newBrowser()
				var resp *response
				hdr := http.Header{"X-Correlation-Id": {hs}, "X-Request-Id": {hs}, "Referer": {"http://wonderwall/" + hs}}
				if nonnav {
					hdr.Set("Sec-Fetch-Mode", "cors")
					hdr.Set("Sec-Fetch-Dest", "empty")
				}
				target := "http://" + host + ep + "?state=" + urlQueryEscape(hs) + "&redirect=" + urlQueryEscape(hs) + "&error=" + urlQueryEscape(hs)
				if strings.HasPrefix(hs, "ABSFORM:") {
					// absolute-form request target (RFC 9112 §3.2.2) with a script scheme: whatever the error page links to must not carry it
					target = strings.TrimPrefix(hs, "ABSFORM:") + "://" + host + ep + "?state=x&error=y&%0aalert(1)"
				}
				bad := ""
				for k := 0; k < 6; k++ {
					if _, ok := safeRequest("GET", target); !ok {
						break
					}
					resp = b.do(rp, "GET", target, hdr)
					if resp.Status != 307 {
						break
					}
					// the automatic retry must point back into this origin's own endpoints: a path, never a scheme or another authority
					if l := strings.ToLower(strings.TrimSpace(resp.Location)); !(strings.HasPrefix(l, "/") && !strings.HasPrefix(l, "//") && !strings.HasPrefix(l, "/\\")) {
						bad = "retryloc:" + resp.Location
					}
				}
				if resp == nil {
					continue
				}
				html := strings.Contains(resp.Body, "<html")
				low := strings.ToLower(resp.Body)
				for _, needle := range []string{"<script>alert", "<img src=x", "onmouseover='x", "<b>"} {
					if strings.Contains(low, needle) {
						bad = "raw:" + needle
					}
				}
				for _, m := range hrefRe.FindAllStringSubmatch(resp.Body, -1) {
					if !html {
						break // the stub body net/http writes for a redirect is not wonderwall's page; its Location is C04's subject
					}
					v := strings.ToLower(strings.TrimSpace(m[1]))
					if !(strings.HasPrefix(v, "/") && !strings.HasPrefix(v, "//") || v == "http://wonderwall" || v == "#zgotmplz") {
						bad = "href:" + m[1]
					}
				}
				c.count(fmt.Sprintf("errpage:html=%v,status=%d", html, resp.Status))
				c.emit("errpage", "ep", hx(ep), "hostile", hx(hs), "variant", variant, "html", html, "status", resp.Status, "bad", hx(bad),
					"nocache", strings.Contains(resp.Header.Get("Cache-Control"), "no-store") || strings.Contains(resp.Header.Get("Cache-Control"), "no-cache"))
			}
		}
	}
}

func urlQueryEscape(s string) string {
	const hexd = "0123456789ABCDEF"
	var b strings.Builder
	for i := 0; i < len(s); i++ {
		ch := s[i]
		if ch >= 'a' && ch <= 'z' || ch >= 'A' && ch <= 'Z' || ch >= '0' && ch <= '9' {
			b.WriteByte(ch)
		} else {
			b.WriteByte('%')
			b.WriteByte(hexd[ch>>4])
			b.WriteByte(hexd[ch&15])
		}
	}
	return b.String()
}
