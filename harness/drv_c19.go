//go:build verif

package main

import (
	"net"
	"bufio"
	"bytes"
	"encoding/base64"
	"encoding/json"
	"fmt"
	"io"
	"net/http"
	"net/http/httptest"
	"os"
	"os/exec"
	"strconv"
	"strings"
	"sync"
	"syscall"
	"time"
)

// Driver "c19": the REAL binary proxies to a slow upstream; SIGTERM / SIGINT is sent at a chosen moment while requests are in flight and new ones
// arrive before, during and after the wait-before period; per request: completed / refused / cut; exit status and exit time relative to the signal.
func init() { register("c19", "graceful shutdown of the real binary under signals (C19)", runC19) }

type c19Req struct {
	arrive, dur int  // ms relative to the signal
	ka          bool // sent as POST over the scenario's ONE persistent (keep-alive) connection, like an ingress' connection pool does
}

type c19Scenario struct {
	wait, grace int
	sig         syscall.Signal
	reqs        []c19Req
}

func runC19(c *ctx) {
	bin := os.Getenv("VERIF_WW_BIN")
	if bin == "" {
		bin = "/verif/.build/wonderwall"
	}
	up := httptest.NewServer(http.HandlerFunc(func(w http.ResponseWriter, r *http.Request) {
		d, _ := strconv.Atoi(r.URL.Query().Get("d"))
		time.Sleep(time.Duration(d) * time.Millisecond)
		w.WriteHeader(200)
		w.Write([]byte("slow-done"))
	}))
	defer up.Close()
	idp := newFakeIdp()
	defer idp.close()
	disco := httptest.NewServer(http.HandlerFunc(func(w http.ResponseWriter, rq *http.Request) {
		json.NewEncoder(w).Encode(map[string]any{"issuer": idp.issuer, "authorization_endpoint": idp.srv.URL + "/authorize", "token_endpoint": idp.srv.URL + "/token", "jwks_uri": idp.srv.URL + "/jwks",
			"end_session_endpoint": idp.srv.URL + "/endsession", "id_token_signing_alg_values_supported": []string{"RS256"}})
	}))
	defer disco.Close()
	if sharedClient == nil {
		s := newSut(sutOpts{})
		s.close()
	}
	jwkJSON, _ := json.Marshal(sharedClient.ClientJWK())
	key32 := base64.StdEncoding.EncodeToString([]byte("0123456789abcdef0123456789abcdef"))
	var scs []c19Scenario
	// a LONG wait-before period: a request that finishes after (graceful - wait-before) but well before graceful must be drained - the deadline clock starts
	// after the wait, not at the signal; a request arriving during the wait is served, one arriving after it is refused
	scs = append(scs, c19Scenario{1200, 2600, syscall.SIGTERM, []c19Req{{-200, 2100, false}, {600, 100, false}, {1500, 20, false}, {-350, 20, true}, {450, 20, true}, {800, 20, true}}})
	scs = append(scs, c19Scenario{1000, 2400, syscall.SIGINT, []c19Req{{-100, 1750, false}, {300, 1300, false}, {1300, 20, false}, {-300, 20, true}, {500, 20, true}}})
	for _, wg := range [][2]int{{0, 1600}, {400, 2200}, {400, 1800}} {
		w, g := wg[0], wg[1]
		for _, sig := range []syscall.Signal{syscall.SIGTERM, syscall.SIGINT} {
			// in flight & finishing in time, arriving during the wait, arriving after it, and one that cannot finish
			scs = append(scs, c19Scenario{w, g, sig, []c19Req{{-300, 500, false}, {-200, g - 800, false}, {w + 250, 20, false}}})
			scs = append(scs, c19Scenario{w, g, sig, []c19Req{{-250, 100, false}, {-150, g + 900, false}, {w + 250, 20, false}}})
			if w > 0 {
				scs = append(scs, c19Scenario{w, g, sig, []c19Req{{100, 300, false}, {w - 250, g - w - 700, false}, {w + 300, 10, false}}})
			}
		}
	}
	if !c.thorough() {
		scs = scs[:12]
	}
	var wg sync.WaitGroup
	for si, sc := range scs {
		sc := sc
		// in every second scenario the first (in-flight) request OFFERS an upgrade to cleartext HTTP/2 (curl --http2, some proxies): whatever the server does with the
		// offer, the request is an accepted request like any other and is drained, not cut
		h2cFirst := si%2 == 1
		wg.Add(1)
		go func() {
			defer wg.Done()
			bind := fmt.Sprintf("127.0.0.1:%d", freePort())
			args := []string{"--bind-address=" + bind, fmt.Sprintf("--metrics-bind-address=127.0.0.1:%d", freePort()), "--encryption-key=" + key32, "--ingress=http://localhost:3000",
				"--cookie.secure=false", "--openid.client-id=client-id", "--openid.client-jwk=" + string(jwkJSON), "--openid.well-known-url=" + disco.URL,
				"--upstream-host=" + strings.TrimPrefix(up.URL, "http://"), fmt.Sprintf("--shutdown-wait-before-period=%dms", sc.wait), fmt.Sprintf("--shutdown-graceful-period=%dms", sc.grace)}
			cmd := exec.Command(bin, args...)
			cmd.Env = []string{"PATH=" + os.Getenv("PATH"), "HOME=/tmp"}
			// scenarios with a request that cannot finish (forced exit) also run with tracing ON towards a collector that accepts connections and never answers:
			// whatever is registered to run at exit, the forced exit happens at the end of the graceful period
			stalled := false
			for _, rq := range sc.reqs {
				if rq.dur > sc.grace {
					stalled = true
				}
			}
			if stalled {
				if bl, err := net.Listen("tcp", "127.0.0.1:0"); err == nil {
					defer bl.Close()
					go func() {
						for {
							cn, err := bl.Accept()
							if err != nil {
								return
							}
							defer cn.Close() // held open, never answered
						}
					}()
					cmd.Env = append(cmd.Env, "OTEL_EXPORTER_OTLP_ENDPOINT=http://"+bl.Addr().String(), "OTEL_EXPORTER_OTLP_PROTOCOL=http/protobuf")
				}
			}
			var out bytes.Buffer
			cmd.Stdout, cmd.Stderr = &out, &out
			if err := cmd.Start(); err != nil {
				panic(err)
			}
			exited := make(chan error, 1)
			go func() { exited <- cmd.Wait() }()
			up2 := false
			for i := 0; i < 200 && !up2; i++ {
				hc := &http.Client{Timeout: 200 * time.Millisecond}
				if resp, err := hc.Get("http://" + bind + "/oauth2/ping"); err == nil {
					resp.Body.Close()
					up2 = resp.StatusCode == 200
				}
				if !up2 {
					time.Sleep(20 * time.Millisecond)
				}
			}
			if !up2 {
				cmd.Process.Kill()
				c.emit("shutdown19", "wait", sc.wait, "grace", sc.grace, "started", false)
				return
			}
			// t0 = the moment of the signal; earliest request at t0 - 300
			t0 := time.Now().Add(400 * time.Millisecond)
			type res struct {
				outcome string
				endMs   int64
			}
			results := make([]res, len(sc.reqs))
			var kaMu sync.Mutex
			var kaConn net.Conn
			var kaRd *bufio.Reader
			defer func() {
				if kaConn != nil {
					kaConn.Close()
				}
			}()
			var rw sync.WaitGroup
			for i, rq := range sc.reqs {
				i, rq := i, rq
				rw.Add(1)
				go func() {
					defer rw.Done()
					time.Sleep(time.Until(t0.Add(time.Duration(rq.arrive) * time.Millisecond)))
					tr := &http.Transport{DisableKeepAlives: true}
					hc := &http.Client{Transport: tr, Timeout: 6 * time.Second}
					var resp *http.Response
					var err error
					if rq.ka {
						// one raw persistent connection, like an ingress controller's upstream pool: requests are written to the SAME socket; no transparent
						// re-dial, no replay - a server that drops idle connections before the wait-before period is over is seen as a failed request
						kaMu.Lock()
						if kaConn == nil {
							kaConn, err = net.DialTimeout("tcp", bind, time.Second)
							if err == nil {
								kaRd = bufio.NewReader(kaConn)
							}
						}
						if err == nil {
							kaConn.SetDeadline(time.Now().Add(6 * time.Second))
							_, err = fmt.Fprintf(kaConn, "POST /slow?d=%d HTTP/1.1\r\nHost: localhost:3000\r\nContent-Type: text/plain\r\nContent-Length: 1\r\n\r\nx", rq.dur)
							if err == nil {
								resp, err = http.ReadResponse(kaRd, nil)
							}
						}
						kaMu.Unlock()
					} else if h2cFirst && i == 0 {
						var uc net.Conn
						uc, err = net.DialTimeout("tcp", bind, time.Second)
						if err == nil {
							defer uc.Close()
							uc.SetDeadline(time.Now().Add(6 * time.Second))
							_, err = fmt.Fprintf(uc, "GET /slow?d=%d HTTP/1.1\r\nHost: localhost:3000\r\nConnection: Upgrade, HTTP2-Settings\r\nUpgrade: h2c\r\nHTTP2-Settings: AAMAAABkAAQCAAAAAAIAAAAA\r\n\r\n", rq.dur)
							if err == nil {
								resp, err = http.ReadResponse(bufio.NewReader(uc), nil)
							}
						}
					} else {
						resp, err = hc.Get(fmt.Sprintf("http://%s/slow?d=%d", bind, rq.dur))
					}
					o := "refused"
					if err == nil {
						body, rerr := io.ReadAll(resp.Body)
						resp.Body.Close()
						if rerr == nil && resp.StatusCode == 200 && string(body) == "slow-done" {
							o = "complete"
						} else {
							o = "cut"
						}
					} else if !strings.Contains(err.Error(), "refused") && !strings.Contains(err.Error(), "connection reset") {
						o = "cut" // accepted, then the connection died (EOF / broken pipe)
						if strings.Contains(err.Error(), "connect:") {
							o = "refused"
						}
					}
					results[i] = res{o, time.Since(t0).Milliseconds()}
				}()
			}
			time.Sleep(time.Until(t0))
			cmd.Process.Signal(sc.sig)
			exitCode, exitMs := -1, int64(-1)
			select {
			case err := <-exited:
				exitMs = time.Since(t0).Milliseconds()
				exitCode = 0
				if ee, ok := err.(*exec.ExitError); ok {
					exitCode = ee.ExitCode()
				}
			case <-time.After(time.Duration(sc.grace+3000) * time.Millisecond):
				cmd.Process.Kill()
				<-exited
			}
			rw.Wait()
			var rs, os2 []string
			for i, rq := range sc.reqs {
				rs = append(rs, fmt.Sprintf("%d/%d", rq.arrive, rq.dur))
				os2 = append(os2, fmt.Sprintf("%s@%d", results[i].outcome, results[i].endMs))
			}
			c.count("scenario")
			c.emit("shutdown19", "wait", sc.wait, "grace", sc.grace, "signal", int(sc.sig), "started", true, "reqs", rs, "outcomes", os2, "exitcode", exitCode, "exitms", exitMs,
				"timeoutlogged", strings.Contains(out.String(), "graceful shutdown timed out"))
		}()
	}
	wg.Wait()
}
