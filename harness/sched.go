//go:build verif

package main

import (
	"fmt"
	"os"
	"net/http"
	"net/url"
	"strings"
	"sync"
	"time"

	"github.com/alicebob/miniredis/v2/server"
)

// scheduler: a deterministic schedule executor. Every controlled process is one HTTP request served by its own replica (own go-redis client,
// identified by client_name); every store command of a controlled replica and every provider call is a SCHEDULING POINT: it is parked until
// the scheduler releases that process, may be answered with an injected fault, or is never released (crash). Exactly one process runs at a time.

type stepKind int

const (
	stepProceed stepKind = iota
	stepFault
	stepCrash
)

type parkedStep struct {
	pid   string
	what  string // GET k | SET k | SETXX k | DEL k | LOCK | UNLOCK | IDP refresh | IDP code | …
	reply chan stepKind
}

type procState struct {
	pid     string
	late    bool // this process' session reads are executed when released but their REPLY is delivered only at a later step of its own
	replica *replica
	parked  *parkedStep
	done    bool
	crashed bool
	resp    *response
	steps   []string // executed steps, in order
}

type scheduler struct {
	s       *sut
	mu      sync.Mutex
	procs   map[string]*procState
	order   []string
	events  chan string // pid whose state changed (parked or done)
	current string      // the process that is running (owner of provider calls)
	active  bool
	trace   []string // global trace "pid:step"
	faultAt map[string]int
	blockAfter time.Duration // > 0: a process that does not settle within this time is considered blocked on an in-process lock
	dead    map[string]bool
	clientPids map[string][]string // store-client name (= replica) -> controlled processes served by that replica
	outstanding map[*parkedStep]bool // every step that is parked right now (stop releases them all, whatever happened to the bookkeeping)
	anomalies  []string              // commands that arrived while their process already had a parked step: something runs outside the schedule
}

func classifyCmd(cmd string, args []string) (string, bool) {
	c := strings.ToUpper(cmd)
	key := ""
	if len(args) > 0 {
		key = args[0]
	}
	cls := "session"
	if strings.HasSuffix(key, ".lock") {
		cls = "lock"
	}
	switch c {
	case "GET":
		return "GET " + cls, true
	case "DEL":
		return "DEL " + cls, true
	case "SET":
		xx, keep, ex := false, false, false
		for _, a := range args[2:] {
			switch strings.ToUpper(a) {
			case "XX":
				xx = true
			case "KEEPTTL":
				keep = true
			case "EX", "PX":
				ex = true
			}
		}
		mode := "SET"
		if xx {
			mode += "XX"
		}
		if keep {
			mode += "-KEEPTTL"
		}
		if ex {
			mode += "-EX"
		}
		return mode + " " + cls, true
	case "EVALSHA", "EVAL":
		// redislock: obtain has 3 ARGV (token, tokenlen, ttl) – release has 1; both carry the lock key
		n := len(args)
		if n >= 6 {
			return "LOCK", true
		}
		return "UNLOCK", true
	}
	return "", false
}

func newScheduler(s *sut) *scheduler {
	sc := &scheduler{s: s, procs: map[string]*procState{}, events: make(chan string, 64), dead: map[string]bool{}, clientPids: map[string][]string{}}
	s.installHook(func(p *server.Peer, cmd string, args ...string) bool {
		name := p.ClientName
		sc.mu.Lock()
		// which process issued this command: the only one on that replica, or - when several requests are served by one replica - the one that is running
		var ps *procState
		switch pids := sc.clientPids[name]; {
		case len(pids) == 1:
			ps = sc.procs[pids[0]]
		case len(pids) > 1:
			for _, pid := range pids {
				if pid == sc.current {
					ps = sc.procs[pid]
				}
			}
		}
		active := sc.active
		dead := sc.dead[name]
		sc.mu.Unlock()
		if dead {
			p.WriteError("ERR connection of a crashed process")
			return true
		}
		if !active || ps == nil || ps.done {
			return false
		}
		what, ok := classifyCmd(cmd, args)
		if !ok {
			return false
		}
		switch sc.park(ps, what) {
		case stepFault:
			p.WriteError("ERR injected store fault")
			return true
		case stepCrash:
			p.WriteError("ERR connection of a crashed process")
			return true
		}
		if ps.late && what == "GET session" && len(args) > 0 {
			// the store executes the read NOW; its reply travels back only when this process is scheduled again (a slow network, a busy client)
			val, err := s.mr.Get(args[0])
			k := sc.park(ps, "REPLY")
			if k != stepProceed {
				p.WriteError("ERR connection of a crashed process")
				return true
			}
			if err != nil {
				p.WriteNull()
			} else {
				p.WriteBulk(val)
			}
			return true
		}
		return false
	})
	s.idp.mu.Lock()
	s.idp.gate = func(kind string, form url.Values) *idpFault {
		sc.mu.Lock()
		ps := sc.procs[sc.current]
		active := sc.active
		sc.mu.Unlock()
		if !active || ps == nil || ps.done {
			return nil
		}
		what := "IDP " + strings.TrimPrefix(kind, "token:")
		switch sc.park(ps, what) {
		case stepFault:
			return &idpFault{status: 503, body: "injected provider fault"}
		case stepCrash:
			return &idpFault{status: 503, body: "crashed", hang: 50 * time.Millisecond}
		}
		return nil
	}
	s.idp.mu.Unlock()
	return sc
}

func (sc *scheduler) park(ps *procState, what string) stepKind {
	st := &parkedStep{pid: ps.pid, what: what, reply: make(chan stepKind, 1)}
	sc.mu.Lock()
	if !sc.active { // stop() ran in between: nobody would ever release this step
		sc.mu.Unlock()
		return stepProceed
	}
	if ps.parked != nil {
		// the process this command is attributed to is already parked: two requests of one replica are running at the same time (one of them was
		// reported "blocked" and has woken up). It cannot be scheduled any more; let it run and make it visible in the trace.
		sc.anomalies = append(sc.anomalies, ps.pid+":UNSCHEDULED "+what)
		sc.mu.Unlock()
		return stepProceed
	}
	ps.parked = st
	if sc.outstanding == nil {
		sc.outstanding = map[*parkedStep]bool{}
	}
	sc.outstanding[st] = true
	sc.mu.Unlock()
	if os.Getenv("VERIF_DEBUG") != "" {
		fmt.Fprintln(os.Stderr, "      park", ps.pid, what)
	}
	select {
	case sc.events <- ps.pid:
	default: // nobody is listening right now; step() polls anyway
	}
	k := <-st.reply
	sc.mu.Lock()
	delete(sc.outstanding, st)
	sc.mu.Unlock()
	return k
}

// spawn registers a process; it starts running when first scheduled.
func (sc *scheduler) spawn(pid string, rp *replica, b *browser, method, target string, hdr http.Header) {
	ps := &procState{pid: pid, replica: rp}
	sc.mu.Lock()
	sc.procs[pid] = ps
	sc.order = append(sc.order, pid)
	sc.clientPids[rp.name] = append(sc.clientPids[rp.name], pid)
	sc.mu.Unlock()
	ps.parked = &parkedStep{pid: pid, what: "START", reply: make(chan stepKind, 1)}
	go func(start *parkedStep) {
		<-start.reply
		resp := b.do(rp, method, target, hdr)
		sc.mu.Lock()
		ps.resp, ps.done, ps.parked = resp, true, nil
		sc.mu.Unlock()
		select {
		case sc.events <- pid:
		default:
		}
	}(ps.parked)
}

// step releases the pending step of pid with the given disposition and waits until pid is parked again or finished.
// Returns the step that was executed ("" if pid has nothing to do). A process that is running but neither parks nor finishes within
// blockAfter (it is polling an in-process lock) is reported as BLOCKED / WAIT and left running.
func (sc *scheduler) step(pid string, k stepKind) string {
	sc.mu.Lock()
	ps := sc.procs[pid]
	if ps == nil || ps.done || ps.crashed {
		sc.mu.Unlock()
		return ""
	}
	st := ps.parked
	ps.parked = nil
	sc.current = pid
	sc.active = true
	if k == stepCrash && st != nil {
		ps.crashed = true
		sc.dead[pid] = true
	}
	sc.mu.Unlock()
	label := "WAIT"
	if st != nil {
		label = st.what
		if k == stepFault {
			label += " !fault"
		}
		if k == stepCrash {
			label += " !crash"
		}
		st.reply <- k
		if k == stepCrash {
			// the request goroutine keeps failing against a dead connection until it gives up; we do not wait for it
			ps.steps = append(ps.steps, label)
			sc.trace = append(sc.trace, pid+":"+label)
			return label
		}
	}
	limit := sc.blockAfter
	if limit == 0 {
		limit = 20 * time.Second
	}
	deadline := time.Now().Add(limit)
	for {
		sc.mu.Lock()
		settled := ps.parked != nil || ps.done
		sc.mu.Unlock()
		if settled {
			break
		}
		if time.Now().After(deadline) {
			if sc.blockAfter > 0 {
				label += " (blocked)"
			} else {
				label += " !stuck"
			}
			break
		}
		select {
		case <-sc.events:
		case <-time.After(2 * time.Millisecond):
		}
	}
	ps.steps = append(ps.steps, label)
	sc.trace = append(sc.trace, pid+":"+label)
	return label
}

func (sc *scheduler) pending(pid string) string {
	sc.mu.Lock()
	defer sc.mu.Unlock()
	ps := sc.procs[pid]
	if ps == nil || ps.done || ps.crashed || ps.parked == nil {
		return ""
	}
	return ps.parked.what
}

func (sc *scheduler) isDone(pid string) bool {
	sc.mu.Lock()
	defer sc.mu.Unlock()
	ps := sc.procs[pid]
	return ps == nil || ps.done || ps.crashed
}

// drain runs all unfinished processes to completion, round-robin in spawn order.
func (sc *scheduler) drain(maxSteps int) {
	for n := 0; n < maxSteps; n++ {
		progressed := false
		for _, pid := range sc.order {
			if !sc.isDone(pid) {
				if sc.step(pid, stepProceed) != "" {
					progressed = true
				}
			}
		}
		if !progressed {
			return
		}
	}
}

func (sc *scheduler) stop() {
	sc.mu.Lock()
	sc.active = false
	var pend []*parkedStep
	for _, ps := range sc.procs {
		ps.parked = nil
	}
	for st := range sc.outstanding {
		pend = append(pend, st)
	}
	sc.mu.Unlock()
	for _, st := range pend {
		select {
		case st.reply <- stepProceed: // let stragglers run on unscheduled; nothing observes them any more
		default:
		}
	}
}

// fullTrace: the scheduled steps plus the commands that arrived outside the schedule
func (sc *scheduler) fullTrace() []string {
	sc.mu.Lock()
	defer sc.mu.Unlock()
	return append(append([]string{}, sc.trace...), sc.anomalies...)
}

func (sc *scheduler) status(pid string) int {
	sc.mu.Lock()
	defer sc.mu.Unlock()
	if ps := sc.procs[pid]; ps != nil && ps.resp != nil {
		return ps.resp.Status
	}
	return 0
}

var _ = fmt.Sprintf
