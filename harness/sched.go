//go:build verif

package main

// scheduler: deterministic schedule executor over store commands and provider calls (filled in by drv_sched.go)
type scheduler struct{}
