//go:build verif

package main

import (
	"bufio"
	"go/scanner"
	"go/token"
	"net/http"
	"net/http/httptest"
	"net/url"
	"os"
	"path/filepath"
	"regexp"
	"strconv"
	"strings"
	"time"

	"github.com/nais/wonderwall/pkg/config"
	"github.com/nais/wonderwall/pkg/ingress"
	mw "github.com/nais/wonderwall/pkg/middleware"
	urlpkg "github.com/nais/wonderwall/pkg/url"
)

// Driver "c04": (a) function level — net/url, the validators, Canonical/Clean of the three modes and net/http's Redirect on generated
// strings, compared field by field with the Lean model; (b) HTTP level — the same strings as redirect parameter / Referer / request
// target through every Location emitter of the real handlers in all three modes; the Location bytes are judged by the browser model.
func init() { register("c04", "redirect targets: net/url + validators + Canonical + http.Redirect vs model; every emitter's Location (C04)", runC04) }

var c04Pieces = struct{ schemes, hosts, seps, segs, queries, frags []string }{
	schemes: []string{"", "", "", "http:", "https:", "HTTPS:", "hTtP:", "javascript:", "data:", "ftp:", "file:", "mailto:", "x:", "1:", ":", "a+b.c-d:", "http", "https"},
	hosts: []string{"evil.com", "app.example.com", "sso.example.com", "example.com", "evilexample.com", "example.com.evil.com", "example.com:80", "example.com:443", "EXAMPLE.com",
		"example.com.", "[::1]", "[::1]:80", "[fe80::1%25en0]", "[fe80::1%25en0]:8080", "127.0.0.1", "localhost", "localhost:3000", "user@example.com", "user:pw@evil.com",
		"example.com@evil.com", "evil.com@example.com", "evil.com%2f.example.com", "evil.com%25.example.com", "evil.com\\.example.com", "evil.com\\@example.com",
		"a.example.com", "a.b.example.com", ".example.com", "xn--e1afmkfd.example.com", "evil.com\uff0f.example.com", "evil\u3002example.com", "ex\u00e4mple.com",
		"evil.com#.example.com", "evil.com?.example.com", "evil.com;.example.com", "evil.com:.example.com", "evil.com:x", "evil.com:80:80", "", "%65vil.com", "evil.com%e4.example.com",
		"example.com%00", "a b.example.com", "evil.com<.example.com", "app.example.com:8443", "wonderwall",
		// look-alikes of the allowed domains: the dot replaced, a label glued on, case and width variants
		"example-com", "exampleXcom", "a.example-com", "a.exampleXcom", "example.com.", "example.comx", "xexample.com", "a.xexample.com", "example.co", "a.example.co", "example.com.evil.io",
		"app-example.com", "appXexample.com", "other-example.com:8443", "a.example.com:443", "a.example.com:8443", "example.com:", "a.example.com:", "EXAMPLE.COM", "a.Example.com", "sso-example.com", "ssoXexample.com"},
	seps: []string{"/", "/", "/", "//", "///", "\\", "\\\\", "/\\", "\\/", "/./", "/../", "/ /", "/\t/", "/%2f", "/%5c", "/%2F/", "/%5C/", "/.\\", "/..\\", "%2f", "%5c", "/\n/", "/%09/", "/%0a/", "/%2e/", "/%2e%2e/", "/.%2e/", "/;/", "/:/", "/@/"},
	segs: []string{"", "a", "app", "api", "oauth2", "login", "callback", "evil.com", "example.com", ".", "..", "...", "*", "%", "%zz", "%41", "a b", "a+b", "a%20b", "\u00e5", "%c3%a5", "a:b", ":", "@", "a@b", "a;b=c",
		"a,b", "=", "&", "'", "(", ")", "!", "[", "]", "~", "$", "^", "|", "{", "}", "`", "<", ">", "\"", "\x7f", "\x00", "\x01", "\x1f", "\xff", "\xc0\xaf"},
	queries: []string{"", "", "", "?", "?a=b", "?a=b&c=d", "?redirect=/x", "?//evil.com", "?\\evil.com", "?a=b?c", "??", "?a b", "?%", "?%zz", "?a=\\", "?/./", "?/../x", "?a=/ /"},
	frags:   []string{"", "", "", "#", "#frag", "#//evil.com", "#\\evil.com", "#a#b", "#a b", "#%", "#%zz", "#!()*", "#/./", "#?x"},
}

// genTarget produces a mostly-structured URL-ish string; a separate stream (mutate) damages corpus entries at byte level.
func genTarget(r *rng) string {
	var b strings.Builder
	b.WriteString(pick(r, c04Pieces.schemes))
	switch r.intn(6) {
	case 0, 1: // authority form
		b.WriteString(pick(r, []string{"//", "//", "//", "/", "///", "\\\\", "/\\", "\\/", "", "////"}))
		b.WriteString(pick(r, c04Pieces.hosts))
	case 2: // host without slashes (scheme-only / opaque forms)
		if r.chance(1, 2) {
			b.WriteString(pick(r, c04Pieces.hosts))
		}
	}
	n := r.intn(4)
	for i := 0; i < n; i++ {
		b.WriteString(pick(r, c04Pieces.seps))
		b.WriteString(pick(r, c04Pieces.segs))
	}
	if r.chance(1, 4) {
		b.WriteString(pick(r, c04Pieces.seps))
	}
	b.WriteString(pick(r, c04Pieces.queries))
	b.WriteString(pick(r, c04Pieces.frags))
	s := b.String()
	if r.chance(1, 12) {
		s = pick(r, []string{" ", "\t", "\n", "\r", "\x00", "\x0b", "\x0c", " \t"}) + s
	}
	if r.chance(1, 20) {
		s += pick(r, []string{" ", "\t", "\n", "/", "?", "#", "\\", ".", "..", "/.", "/.."})
	}
	return s
}

func mutate(r *rng, s string) string {
	b := []byte(s)
	for k := 1 + r.intn(3); k > 0; k-- {
		alphabet := "/\\.:@?#% \t%2f%5c%2e;[]*+-_~=&aZ09\x00\x7f\xe4"
		switch op := r.intn(4); {
		case op == 0 && len(b) > 0: // delete
			i := r.intn(len(b))
			b = append(b[:i], b[i+1:]...)
		case op == 1: // insert
			i := r.intn(len(b) + 1)
			c := alphabet[r.intn(len(alphabet))]
			b = append(b[:i], append([]byte{c}, b[i:]...)...)
		case op == 2 && len(b) > 0: // replace
			b[r.intn(len(b))] = alphabet[r.intn(len(alphabet))]
		case op == 3 && len(b) > 1: // duplicate a slice
			i := r.intn(len(b))
			j := i + r.intn(len(b)-i)
			b = append(b[:j], append(append([]byte{}, b[i:j]...), b[j:]...)...)
		}
	}
	return string(b)
}

// corpus: every string literal of the repository's own pkg/url tests, the curated attack list and the minimised past failures.
func c04Corpus() []string {
	repo := os.Getenv("VERIF_REPO")
	if repo == "" {
		repo = "/repo"
	}
	seen := map[string]bool{}
	var out []string
	add := func(s string) {
		if !seen[s] && len(s) < 300 {
			seen[s] = true
			out = append(out, s)
		}
	}
	files, _ := filepath.Glob(filepath.Join(repo, "pkg/url/*_test.go"))
	for _, f := range files {
		src, err := os.ReadFile(f)
		if err != nil {
			continue
		}
		var sc scanner.Scanner
		fs := token.NewFileSet()
		sc.Init(fs.AddFile(f, fs.Base(), len(src)), src, nil, 0)
		for {
			_, tok, lit := sc.Scan()
			if tok == token.EOF {
				break
			}
			if tok == token.STRING {
				if s, err := strconv.Unquote(lit); err == nil {
					add(s)
				}
			}
		}
	}
	for _, s := range c04Attacks {
		add(s)
	}
	if f, err := os.Open(filepath.Join(verifDir(), "corpus/C04/regress.txt")); err == nil {
		sc := bufio.NewScanner(f)
		for sc.Scan() {
			if s, err := strconv.Unquote(sc.Text()); err == nil {
				add(s)
			}
		}
		f.Close()
	}
	return out
}

func verifDir() string {
	if d := os.Getenv("VERIF_DIR"); d != "" {
		return d
	}
	return "/verif"
}

var c04Attacks = []string{
	"", "/", "//", "///", "/\\", "\\", "\\\\", "\\/", "/\\evil.com", "//evil.com", "///evil.com", "////evil.com", "\\\\evil.com", "\\/evil.com", "/\\/evil.com", "/\t/evil.com", "/\n/evil.com",
	"/%09/evil.com", "/%0a/evil.com", "/%2f/evil.com", "/%5cevil.com", "/%2fevil.com", "/%2f%2fevil.com", "%2f%2fevil.com", "/.//evil.com", "/..//evil.com", "/./\\evil.com", "/a/..//evil.com", "/a/../\\evil.com",
	"/a/../%5cevil.com", "/ /evil.com", "/%20/evil.com", "/.evil.com", "/..evil.com", "/...//evil.com", "http://evil.com", "https://evil.com", "HTTPS://evil.com", "http:evil.com", "https:evil.com", "http:/evil.com",
	"https:/evil.com", "https:///evil.com", "https:\\\\evil.com", "https:\\evil.com", "https:/\\evil.com", "http:\\\\evil.com", "javascript:alert(1)", "JavaScript:alert(1)", "java\tscript:alert(1)", " javascript:alert(1)",
	"data:text/html,x", "//evil.com/%2f..", "//evil.com@app.example.com", "//app.example.com@evil.com", "//user@/x", "//@evil.com", "//@/evil.com", "/@evil.com", "/@/evil.com", "?//evil.com", "#//evil.com", "/?//evil.com",
	"/#//evil.com", "/x?y#//evil.com", "/x#\\\\evil.com", "/#\\evil.com", "/#\\\\evil.com", "/#/../\\evil.com", "/x/#/..//evil.com", ".//evil.com", "./\\evil.com", "./evil.com", "../evil.com", "evil.com", "evil.com/x", "x:y",
	"x:/y", "x://y", ":", "://evil.com", "*", "/*", "%", "/%", "/%zz", "/%2", "/a%", "/a b", "/a\x7fb", "/a\x00b", "/\xff", "/\xc0\xaf/evil.com", "/\u3002/evil.com", "/\uff0f/evil.com", "/\uff0fevil.com", "\uff0f\uff0fevil.com",
	"https://app.example.com", "https://app.example.com/", "https://app.example.com/x?y=z#f", "https://app.example.com:443/x", "https://app.example.com:8443/x", "https://app.example.com.evil.com/", "https://evilapp.example.com/",
	"https://example.com/", "https://a.example.com/", "https://a.b.example.com/x", "https://example.com.", "https://.example.com/", "https://evil.com/.example.com", "https://evil.com#.example.com", "https://evil.com?.example.com",
	"https://evil.com\\.example.com", "https://evil.com\\@a.example.com", "https://evil.com%2f.example.com", "https://evil.com%25.example.com", "https://evil.com%5c.example.com", "https://evil.com;.example.com",
	"https://evil.com:.example.com", "https://evil.com:80.example.com", "https://evil.com:@a.example.com", "https://a.example.com@evil.com", "https://a.example.com:x@evil.com", "https://evil.com\uff0f.example.com",
	"https://evil.com\u3002example.com", "https://evil\u3002com.example.com", "https://[::1].example.com", "https://[evil.com].example.com", "https://EXAMPLE.COM/", "https://A.example.com/", "http://a.example.com/", "ftp://a.example.com/",
	"https://example-com/", "https://exampleXcom/", "https://a.example-com/x", "https://a.exampleXcom/x", "https://xexample.com/", "https://example.comx/", "https://app-example.com/", "https://a.example.com:8443/x", "https://a.example.com:/x",
	"https:a.example.com", "https:/a.example.com", "https:///a.example.com", "//a.example.com", "//a.example.com/x", "/\\a.example.com", "https://a.example.com\\@evil.com", "https://a.example.com%40evil.com",
	"https://a.example.com/../../x", "https://a.example.com/.//evil.com", "https://a.example.com//evil.com", "https://a.example.com/\\evil.com", "https://a.example.com?x#y", "https://a.example.com#x?y", "https://a.example.com:0/", "https://a.example.com:65536/",
	"https://a.example.com:00443/", "https://a.example.com:/", "/sub", "/sub/", "/sub/x", "/sub/../x", "/sub/oauth2/login", "/oauth2/login?redirect=//evil.com", "/x?redirect=https://evil.com", "/x;y", "/x;/y", "/;/evil.com", "/:/evil.com",
	"/x:y", "x:y/z", "a/b:c", "/a:b", "a:b", "1:b", "/1:b", "/./x:y", "./x:y", "/x/./y", "/x/../y", "/x/.../y", "/x/..", "/x/.", "/..", "/.", "/...", "/x//y", "/x/?y", "/x?/./", "/x?y=/../z", "/x?y=//z", "/x? y", "/x?y z", "/x#/ /",
}

type c04URLFields struct {
	ok                                                                bool
	scheme, opaque, user, pass, host, path, rawpath, rawquery, frag, rawfrag string
	hasuser, haspass, omithost, forcequery                            bool
	str, hostname, escpath                                            string
}

func emitURL04(c *ctx, s string) {
	u, err := url.Parse(s)
	kv := []any{"s", hx(s), "ok", err == nil}
	if err == nil {
		user, pass, hasuser, haspass := "", "", u.User != nil, false
		if hasuser {
			user = u.User.Username()
			pass, haspass = u.User.Password()
		}
		kv = append(kv, "scheme", hx(u.Scheme), "opaque", hx(u.Opaque), "hasuser", hasuser, "user", hx(user), "haspass", haspass, "pass", hx(pass), "host", hx(u.Host), "path", hx(u.Path),
			"rawpath", hx(u.RawPath), "omithost", u.OmitHost, "forcequery", u.ForceQuery, "rawquery", hx(u.RawQuery), "fragment", hx(u.Fragment), "rawfragment", hx(u.RawFragment),
			"str", hx(u.String()), "hostname", hx(u.Hostname()), "escpath", hx(u.EscapedPath()))
		c.count("parse:ok")
	} else {
		c.count("parse:" + classifyURLErr(err))
	}
	ru, rerr := url.ParseRequestURI(s)
	kv = append(kv, "rok", rerr == nil)
	if rerr == nil {
		kv = append(kv, "rstr", hx(ru.String()), "rhost", hx(ru.Host), "rscheme", hx(ru.Scheme))
		c.count("parserequesturi:ok")
	} else {
		c.count("parserequesturi:err")
	}
	c.emit("url04", kv...)
}

func classifyURLErr(err error) string {
	m := err.Error()
	for _, k := range []string{"control character", "missing protocol scheme", "first path segment", "invalid port", "invalid URL escape", "invalid character", "invalid userinfo", "missing ']'", "empty url", "invalid URI for request"} {
		if strings.Contains(m, k) {
			return strings.ReplaceAll(k, " ", "_")
		}
	}
	return "other"
}

var c04Regex = regexp.MustCompile(`[/\\](?:[\s\v]*|\.{1,2})[/\\]`)

func emitValid04(c *ctx, s string, allowed []string) {
	req := httptest.NewRequest("GET", "http://wonderwall/oauth2/login", nil)
	rel := urlpkg.NewRelativeValidator().IsValidRedirect(req, s)
	abs := urlpkg.NewAbsoluteValidator(allowed).IsValidRedirect(req, s)
	c.count("valid:rel=" + fmtVal(rel) + ",abs=" + fmtVal(abs))
	c.emit("valid04", "s", hx(s), "allowed", allowed, "rel", rel, "abs", abs, "regex", c04RegexOf().MatchString(s))
}

// the regular expression compiled from the source of the CURRENT tree (pkg/url/validator.go), not from a copy kept here
var c04RegexCached *regexp.Regexp

func c04RegexOf() *regexp.Regexp {
	if c04RegexCached != nil {
		return c04RegexCached
	}
	repo := os.Getenv("VERIF_REPO")
	if repo == "" {
		repo = "/repo"
	}
	c04RegexCached = c04Regex
	src, err := os.ReadFile(filepath.Join(repo, "pkg/url/validator.go"))
	if err == nil {
		if m := regexp.MustCompile("invalidRedirectRegex\\s*=\\s*regexp\\.MustCompile\\((`[^`]*`|\"(?:[^\"\\\\]|\\\\.)*\")\\)").FindSubmatch(src); m != nil {
			if lit, err := strconv.Unquote(string(m[1])); err == nil {
				if re, err := regexp.Compile(lit); err == nil {
					c04RegexCached = re
				}
			}
		}
	}
	return c04RegexCached
}

type locWriter struct {
	h    http.Header
	code int
}

func (w *locWriter) Header() http.Header         { return w.h }
func (w *locWriter) Write(b []byte) (int, error) { return len(b), nil }
func (w *locWriter) WriteHeader(code int)        { w.code = code }

func goRedirect(reqPath, target string) string {
	req := &http.Request{Method: "GET", URL: &url.URL{Path: reqPath}, Header: http.Header{}}
	w := &locWriter{h: http.Header{}}
	http.Redirect(w, req, target, http.StatusFound)
	return w.h.Get("Location")
}

func reqWithRedirect(base, path, target string) *http.Request {
	req := httptest.NewRequest("GET", base+path, nil)
	req.URL.RawQuery = "redirect=" + url.QueryEscape(target)
	return req
}

type c04Env struct {
	mode        string
	ingresses   []string
	domain      string
	defaultURL  string
	standalone  *urlpkg.StandaloneRedirect
	server      *urlpkg.SSOServerRedirect
	proxy       *urlpkg.SSOProxyRedirect
	ings        *ingress.Ingresses
}

func newC04Env(mode string, ingresses []string, domain, defaultURL string) *c04Env {
	e := &c04Env{mode: mode, ingresses: ingresses, domain: domain, defaultURL: defaultURL}
	cfg := &config.Config{Ingresses: ingresses}
	cfg.SSO.Domain = domain
	cfg.SSO.ServerDefaultRedirectURL = defaultURL
	ings, err := ingress.ParseIngresses(cfg)
	if err != nil {
		panic(err)
	}
	e.ings = ings
	switch mode {
	case "standalone":
		e.standalone = urlpkg.NewStandaloneRedirect()
	case "sso-server":
		e.server, err = urlpkg.NewSSOServerRedirect(cfg)
		if err != nil {
			panic(err)
		}
	case "sso-proxy":
		e.proxy = urlpkg.NewSSOProxyRedirect(ings)
	}
	return e
}

// canonical runs Canonical + Clean + http.Redirect for a request on ingress number i.
func (e *c04Env) canonical(c *ctx, target string, i int) {
	ing := e.ingresses[i%len(e.ingresses)]
	iu, _ := url.Parse(ing)
	ipath := strings.TrimRight(iu.Path, "/")
	reqPath := ipath + "/oauth2/callback"
	req := reqWithRedirect(iu.Scheme+"://"+iu.Host, ipath+"/oauth2/login", target)
	var out, out2 string
	kv := []any{"mode", hx(e.mode), "target", hx(target), "reqpath", hx(reqPath), "basescheme", hx(iu.Scheme)}
	// the request context as the ingress middleware builds it
	var served *http.Request
	mwi := mw.Ingress(ingSource{e.ings})
	mwi.Handler(http.HandlerFunc(func(w http.ResponseWriter, r *http.Request) { served = r })).ServeHTTP(httptest.NewRecorder(), req)
	switch e.mode {
	case "standalone":
		out = e.standalone.Canonical(served)
		out2 = e.standalone.Clean(served, out)
		kv = append(kv, "ingresspath", hx(ipath))
	case "sso-server":
		out = e.server.Canonical(served)
		out2 = e.server.Clean(served, out)
		kv = append(kv, "domain", hx(e.domain), "fallback", hx(e.defaultURL))
	case "sso-proxy":
		out = e.proxy.Canonical(served)
		out2 = e.proxy.Clean(served, out)
		// which ingress NewSSOProxyRedirect picked as its fallback (map iteration order): ask the object itself
		kv = append(kv, "hosts", e.ings.Hosts(), "ingress", hx(strings.TrimRight(ing, "/")), "fallback", hx(e.proxy.Clean(served, "")))
	}
	loc := goRedirect(reqPath, out)
	c.count("canon:" + e.mode + ":" + canonOutcome(target, out))
	kv = append(kv, "out", hx(out), "out2", hx(out2), "loc", hx(loc))
	c.emit("canon04", kv...)
}

func canonOutcome(target, out string) string {
	if target == "" {
		return "empty"
	}
	if strings.Contains(out, strings.Trim(target, "/ ")) && len(strings.Trim(target, "/ ")) > 0 {
		return "kept"
	}
	return "replaced-or-rewritten"
}

type ingSource struct{ i *ingress.Ingresses }

func (s ingSource) GetIngresses() *ingress.Ingresses { return s.i }

func runC04(c *ctx) {
	r := c.rng
	t0 := time.Now()
	corpus := c04Corpus()
	c.count("corpus:size=" + strconv.Itoa(len(corpus)))
	nGen, nHTTP := 6000, 2*len(c04Attacks)+20
	if c.thorough() {
		nGen, nHTTP = 150000, 2500
	}
	next := func(i int) string {
		if i < len(corpus) {
			return corpus[i]
		}
		switch r.intn(5) {
		case 0:
			return mutate(r, pick(r, corpus))
		case 1:
			return mutate(r, genTarget(r))
		}
		return genTarget(r)
	}
	envs := []*c04Env{
		newC04Env("standalone", []string{"https://app.example.com"}, "", ""),
		newC04Env("standalone", []string{"https://app.example.com/sub", "http://localhost:3000"}, "", ""),
		newC04Env("sso-server", []string{"https://sso.example.com"}, "example.com", "https://default.example.com/start"),
		newC04Env("sso-server", []string{"https://sso.example.com"}, ".example.com", "https://www.nav.no/"),
		newC04Env("sso-proxy", []string{"https://app.example.com"}, "", ""),
		newC04Env("sso-proxy", []string{"https://app.example.com/sub", "https://other.example.com:8443/x"}, "", ""),
	}
	allowedSets := [][]string{{"example.com"}, {".example.com"}, {"app.example.com", "localhost:3000"}, {"other.example.com:8443"}, {}, {""}}
	reqPaths := []string{"/oauth2/callback", "/sub/oauth2/callback", "/", "/a/b", "/a/b/", ""}
	total := len(corpus) + nGen
	for i := 0; i < total; i++ {
		s := next(i)
		emitURL04(c, s)
		emitValid04(c, s, allowedSets[i%len(allowedSets)])
		if i%3 == 0 {
			pu, perr := url.PathUnescape(s)
			qu, qerr := url.QueryUnescape(s)
			c.emit("esc04", "s", hx(s), "pathesc", hx(url.PathEscape(s)), "queryesc", hx(url.QueryEscape(s)), "pathunesc", hx(pu), "pathunescok", perr == nil, "queryunesc", hx(qu), "queryunescok", qerr == nil)
		}
		for k, e := range envs {
			if i < len(corpus) || (i+k)%2 == 0 {
				e.canonical(c, s, i/7)
			}
		}
		rp := reqPaths[i%len(reqPaths)]
		c.emit("redir04", "reqpath", hx(rp), "url", hx(s), "loc", hx(goRedirect(rp, s)))
	}
	if os.Getenv("VERIF_DEBUG") != "" {
		println("c04 function level done", time.Since(t0).String())
	}
	c04Whatwg(c)
	c04HTTP(c, corpus, nHTTP, next)
	if os.Getenv("VERIF_DEBUG") != "" {
		println("c04 http level done", time.Since(t0).String())
	}
	finishLogScan(c)
}

// the browser model against a hand-kept table of WHATWG expectations (corpus/C04/whatwg.tsv: basescheme <TAB> input (Go-quoted) <TAB> expectation)
func c04Whatwg(c *ctx) {
	f, err := os.Open(filepath.Join(verifDir(), "corpus/C04/whatwg.tsv"))
	if err != nil {
		panic("corpus/C04/whatwg.tsv: " + err.Error())
	}
	defer f.Close()
	sc := bufio.NewScanner(f)
	for sc.Scan() {
		line := sc.Text()
		if line == "" || strings.HasPrefix(line, "#") {
			continue
		}
		f := strings.Split(line, "\t")
		if len(f) != 3 {
			panic("whatwg.tsv: bad line " + line)
		}
		in, err := strconv.Unquote(f[1])
		if err != nil {
			panic("whatwg.tsv: bad input " + f[1])
		}
		c.count("whatwg:" + strings.SplitN(f[2], ":", 2)[0])
		c.emit("whatwg04", "basescheme", hx(f[0]), "loc", hx(in), "expect", hx(f[2]))
	}
}

var _ = time.Second

// ---- HTTP level -----------------------------------------------------------------------------------------------------

type c04Site struct {
	s       *sut
	rp      *replica
	mode    string
	bases   []string // request bases: scheme://host + ingress path
	origins []string // operator-configured URLs a Location may name (ingresses, provider endpoints, default URL, SSO server URL)
	domain  string
}

func (st *c04Site) emitLoc(c *ctx, emitter, base string, resp *response, embOrigins []string) {
	if resp == nil || resp.Location == "" {
		c.count("http:" + st.mode + ":" + emitter + ":no-location")
		return
	}
	bu, _ := url.Parse(base)
	hasEmb, emb := false, ""
	if i := strings.Index(resp.Location, "?"); i >= 0 {
		if q, err := url.ParseQuery(resp.Location[i+1:]); err == nil && q.Has("redirect") {
			hasEmb, emb = true, q.Get("redirect")
		}
	}
	c.count("http:" + st.mode + ":" + emitter + ":" + strconv.Itoa(resp.Status))
	c.emit("loc04", "mode", hx(st.mode), "emitter", hx(emitter), "basescheme", hx(bu.Scheme), "basehost", hx(bu.Host), "origins", st.origins, "domain", hx(st.domain),
		"status", resp.Status, "loc", hx(resp.Location), "hasembedded", hasEmb && embOrigins != nil, "embedded", hx(emb), "embeddedorigins", embOrigins)
}

// doSafe: httptest.NewRequest panics on request targets net/http's own server would answer with 400 — those never reach wonderwall.
func doSafe(b *browser, rp *replica, method, target string, hdr http.Header) (resp *response) {
	defer func() {
		if recover() != nil {
			resp = nil
		}
	}()
	return b.do(rp, method, target, hdr)
}

// resolve a Location the way the harness's own client follows it (only used to continue a flow on the SAME site)
func follow(base, loc string) string {
	bu, _ := url.Parse(base)
	if strings.HasPrefix(loc, "/") && !strings.HasPrefix(loc, "//") {
		return bu.Scheme + "://" + bu.Host + loc
	}
	return loc
}

var navHdr = http.Header{"Sec-Fetch-Mode": {"navigate"}, "Sec-Fetch-Dest": {"document"}, "Accept": {"text/html"}}

// loginFlow: /oauth2/login?redirect=t → provider → /oauth2/callback; emits both Locations. Returns the browser (logged in) or nil.
func (st *c04Site) loginFlow(c *ctx, base, loginTarget, tag string) *browser {
	b := newBrowser()
	r1 := doSafe(b, st.rp, "GET", loginTarget, nil)
	st.emitLoc(c, tag+"login", base, r1, nil)
	if r1 == nil || r1.Status != 302 {
		return nil
	}
	lu, err := url.Parse(r1.Location)
	if err != nil {
		return nil
	}
	code, areq, err := st.s.idp.authorize(lu)
	if err != nil {
		return nil
	}
	r2 := doSafe(b, st.rp, "GET", base+"/oauth2/callback?"+url.Values{"code": {code}, "state": {areq.State}}.Encode(), nil)
	st.emitLoc(c, tag+"login-callback", base, r2, nil)
	if r2 == nil || r2.Status != 302 {
		return nil
	}
	return b
}

func (st *c04Site) logoutFlow(c *ctx, b *browser, base, t string) {
	r1 := doSafe(b, st.rp, "GET", base+"/oauth2/logout?redirect="+url.QueryEscape(t), nil)
	st.emitLoc(c, "logout", base, r1, nil)
	if r1 == nil || r1.Status != 302 {
		return
	}
	lu, err := url.Parse(r1.Location)
	if err != nil {
		return
	}
	r2 := doSafe(b, st.rp, "GET", base+"/oauth2/logout/callback?state="+url.QueryEscape(lu.Query().Get("state")), nil)
	st.emitLoc(c, "logout-callback", base, r2, nil)
}

func c04HTTP(c *ctx, corpus []string, n int, next func(int) string) {
	mk := func(o sutOpts, bases []string, extraOrigins []string) *c04Site {
		s := newSut(o)
		st := &c04Site{s: s, rp: s.replica("A"), mode: o.mode, bases: bases, domain: o.ssoDomain}
		st.origins = append(st.origins, o.ingresses...)
		st.origins = append(st.origins, s.idp.srv.URL)
		st.origins = append(st.origins, extraOrigins...)
		return st
	}
	sites := []*c04Site{
		mk(sutOpts{mode: "standalone", ingresses: []string{"http://app.example.com"}, autoLogin: true}, []string{"http://app.example.com"}, nil),
		mk(sutOpts{mode: "standalone", ingresses: []string{"http://app.example.com/sub", "http://other.example.com"}, autoLogin: true}, []string{"http://app.example.com/sub", "http://other.example.com"}, nil),
		mk(sutOpts{mode: "sso-server", ingresses: []string{"http://sso.example.com"}, ssoDomain: "example.com", ssoDefaultURL: "http://default.example.com/start"}, []string{"http://sso.example.com"}, []string{"http://default.example.com/start"}),
		// operator URLs WITHOUT a path: a look-alike may then extend the host itself (default.example.com -> default.example.com.evil.net)
		mk(sutOpts{mode: "sso-server", ingresses: []string{"http://login.example.com"}, ssoDomain: ".example.com", ssoDefaultURL: "http://www.example.com"}, []string{"http://login.example.com"}, []string{"http://www.example.com"}),
		// the operator's default redirect URL lies OUTSIDE the SSO domain (a corporate landing page): being the default does not make its host - let alone its sub-domains - a valid target
		mk(sutOpts{mode: "sso-server", ingresses: []string{"http://sso.apps.example.org"}, ssoDomain: "apps.example.org", ssoDefaultURL: "http://example.org/landing"}, []string{"http://sso.apps.example.org"}, []string{"http://example.org/landing"}),
		mk(sutOpts{mode: "sso-proxy", ingresses: []string{"http://app.example.com"}, ssoServerURL: "http://sso.example.com", autoLogin: true}, []string{"http://app.example.com"}, []string{"http://sso.example.com"}),
		mk(sutOpts{mode: "sso-proxy", ingresses: []string{"http://app.example.com/sub"}, ssoServerURL: "http://sso.example.com/base", autoLogin: true}, []string{"http://app.example.com/sub"}, []string{"http://sso.example.com"}),
	}
	defer func() {
		for _, st := range sites {
			st.s.close()
		}
	}()
	// probe sends one redirect target through every emitter of one site
	probe := func(st *c04Site, i int, t string) {
		esc := url.QueryEscape(t)
			base := st.bases[i%len(st.bases)]
			ingOrigins := append([]string{}, st.s.o.ingresses...)
			switch st.mode {
			case "standalone", "sso-server":
				b := st.loginFlow(c, base, base+"/oauth2/login?redirect="+esc, "")
				if b != nil {
					st.logoutFlow(c, b, base, t)
				}
				// automatic retry: failed callback without / with a login cookie
				st.emitLoc(c, "retry-callback", base, doSafe(newBrowser(), st.rp, "GET", base+"/oauth2/callback?state=x&code=y&redirect="+esc, nil), ingOrigins)
				b2 := newBrowser()
				if r1 := doSafe(b2, st.rp, "GET", base+"/oauth2/login?redirect="+esc, nil); r1 != nil && r1.Status == 302 {
					st.emitLoc(c, "retry-callback-cookie", base, doSafe(b2, st.rp, "GET", base+"/oauth2/callback?state=wrong&code=y", nil), ingOrigins)
				}
				st.emitLoc(c, "retry-logout-callback", base, doSafe(newBrowser(), st.rp, "GET", base+"/oauth2/logout/callback?redirect="+esc, nil), nil)
				// a host that matches no ingress: the login handler fails and the generic retry echoes the request URL
				st.emitLoc(c, "retry-generic", "http://unknown.example.net", doSafe(newBrowser(), st.rp, "GET", "http://unknown.example.net/oauth2/login?redirect="+esc, nil), nil)
				if st.mode == "sso-server" {
					st.emitLoc(c, "wildcard", base, doSafe(newBrowser(), st.rp, "GET", base+"/"+strings.TrimLeft(pathOnly(t), "/"), nil), nil)
				}
			case "sso-proxy":
				st.emitLoc(c, "proxy-login", base, doSafe(newBrowser(), st.rp, "GET", base+"/oauth2/login?redirect="+esc, nil), ingOrigins)
				st.emitLoc(c, "proxy-logout", base, doSafe(newBrowser(), st.rp, "GET", base+"/oauth2/logout?redirect="+esc, nil), ingOrigins)
				st.emitLoc(c, "proxy-login-callback", base, doSafe(newBrowser(), st.rp, "GET", base+"/oauth2/callback?redirect="+esc, nil), nil)
				st.emitLoc(c, "proxy-logout-callback", base, doSafe(newBrowser(), st.rp, "GET", base+"/oauth2/logout/callback?redirect="+esc, nil), nil)
			}
			if st.s.o.autoLogin {
				// the request target itself (navigation) and the Referer (non-navigation) as redirect source
				bu, _ := url.Parse(base)
				if rt := requestTarget(t); rt != "" {
					r := doSafe(newBrowser(), st.rp, "GET", bu.Scheme+"://"+bu.Host+rt, navHdr)
					st.emitLoc(c, "autologin", base, r, nil)
					if r != nil && r.Status == 302 && st.mode == "standalone" && strings.HasPrefix(r.Location, "/") {
						st.loginFlow(c, base, follow(base, r.Location), "autologin-")
					}
				}
				hdr := http.Header{"Accept": {"application/json"}}
				if t != "" && !strings.ContainsAny(t, "\r\n\x00") {
					hdr.Set("Referer", t)
				}
				r := doSafe(newBrowser(), st.rp, "GET", base+"/api/data", hdr)
				st.emitLoc(c, "autologin-401", base, r, nil)
				if r != nil && r.Status == 401 && st.mode == "standalone" && strings.HasPrefix(r.Location, "/") {
					st.loginFlow(c, base, follow(base, r.Location), "autologin-401-")
				}
			}
	}
	total := n
	for i := 0; i < total; i++ {
		var t string
		switch {
		case i%2 == 0 && i/2 < len(c04Attacks): // the curated attack list first, interleaved with corpus samples and generated strings
			t = c04Attacks[i/2]
		case i%4 == 1 && len(corpus) > 0:
			t = corpus[(i*7)%len(corpus)]
		default:
			t = next(len(corpus) + i)
		}
		for _, st := range sites {
			probe(st, i, t)
		}
		if i%10 == 9 {
			scanLogs(c, "c04")
		}
	}
	// targets DERIVED FROM WHAT THE OPERATOR CONFIGURED for this very site (ingresses, default redirect URL, SSO server URL, provider): strings that merely
	// begin with, contain or wrap an allowed URL must not be mistaken for it
	for _, st := range sites {
		k := 0
		for _, o := range st.origins {
			ot := strings.TrimSuffix(o, "/")
			ou, err := url.Parse(o)
			if err != nil {
				continue
			}
			ho := ou.Scheme + "://" + ou.Host
			for _, t := range []string{ot + ".evil.net/x", ot + "@evil.net/x", ot + "evil.net/x", ot + "%40evil.net/x", ot + "\\@evil.net/x", ot + ":x@evil.net/", ot + "/../../x", ot + "/..//evil.net",
				ho + ".evil.net/", ho + "@evil.net/", ou.Scheme + "://evil." + ou.Host + "/phish", ou.Scheme + "://" + ou.Host + "/other/path", ho + ":80@evil.net/", "//evil.net/" + o, "https://evil.net/?" + o, "https://evil.net/#" + o, "https://evil.net/" + ou.Host, "https://evil.net\\@" + ou.Host + "/",
				o, ot + "/", ot + "/inside?x=1", strings.ToUpper(ho) + "/x", ho + ":65536/", ho + ":/x", strings.Replace(ho, "://", ":/", 1) + "/x", strings.Replace(ho, "http://", "https://", 1) + "/x"} {
				probe(st, k, t)
				k++
			}
		}
	}
	scanLogs(c, "c04")
}

func pathOnly(t string) string {
	if i := strings.IndexAny(t, "?#"); i >= 0 {
		t = t[:i]
	}
	return t
}

// requestTarget turns a generated string into an origin-form request target a client could send ("" if impossible)
func requestTarget(t string) string {
	if !strings.HasPrefix(t, "/") {
		t = "/" + t
	}
	if i := strings.Index(t, "#"); i >= 0 {
		t = t[:i]
	}
	var b strings.Builder
	for i := 0; i < len(t); i++ {
		ch := t[i]
		if ch <= ' ' || ch >= 0x7f {
			b.WriteString("%" + strings.ToUpper(strconv.FormatInt(int64(ch)+0x100, 16)[1:]))
		} else {
			b.WriteByte(ch)
		}
	}
	return b.String()
}
