//go:build verif

package main

import (
	"net/http"
	"net/http/httptest"
	"net/url"
	"sort"
	"strconv"
	"strings"
	"time"

	"github.com/nais/wonderwall/pkg/config"
	"github.com/nais/wonderwall/pkg/cookie"
)

// Driver "cook": every Set-Cookie of every endpoint and error path under a grid of configurations (C14), the jar of a standards-following
// browser after callback / logout (C14), chains of failing requests followed by a cookie-keeping browser (C17) and the login rate limit (C17).
func init() {
	register("cook", "cookie attributes and scope, jar after callback/logout, retry chains, login rate limit (C14 C17)", runCook)
}

func cookieClass(name string) string {
	switch name {
	case cookie.Session:
		return "session"
	case cookie.Login:
		return "login"
	case cookie.Logout:
		return "logout"
	case cookie.Retry:
		return "retry"
	case cookie.LoginCount:
		return "logincount"
	case "selvbetjening-idtoken":
		return "legacy"
	}
	return "other:" + name
}

func sameSiteName(s http.SameSite) string {
	switch s {
	case http.SameSiteLaxMode:
		return "lax"
	case http.SameSiteStrictMode:
		return "strict"
	case http.SameSiteNoneMode:
		return "none"
	}
	return "default"
}

type cookCfg struct {
	sso      bool
	domain   string
	secure   bool
	sameSite config.SameSite
	ingress  string // scheme://host/path
}

func (cc cookCfg) emitCookies(c *ctx, op string, resp *response, ingressPath string) {
	for _, ck := range resp.Cookies {
		c.count("setcookie:" + cookieClass(ck.Name))
		c.emit("setcookie", "sso", cc.sso, "ssodomain", hx(cc.domain), "cfgsecure", cc.secure, "cfgsamesite", strings.ToLower(string(cc.sameSite)), "ingresspath", hx(ingressPath),
			"op", op, "class", cookieClass(ck.Name), "clear", ck.MaxAge < 0, "domain", hx(ck.Domain), "path", hx(ck.Path), "secure", ck.Secure, "httponly", ck.HttpOnly,
			"samesite", sameSiteName(ck.SameSite), "maxage", ck.MaxAge, "expirespast", !ck.Expires.IsZero() && ck.Expires.Before(time.Now()), "valuelen", len(ck.Value))
	}
}

func jarNames(b *browser) []string {
	var out []string
	for _, e := range b.jar {
		if !e.Expires.IsZero() && !e.Expires.After(b.vnow()) {
			continue
		}
		out = append(out, cookieClass(e.Name))
	}
	sort.Strings(out)
	return out
}

// cookieValidation: config.Cookie.Validate (the start-up rule "insecure cookies only with all-localhost plain-http ingresses") on every single and
// paired ingress drawn from look-alike host names x {http, https} x secure on/off x same-site values.
func cookieValidation(c *ctx) {
	hosts := []string{"localhost", "localhost:3000", "LOCALHOST:8080", "LocalHost", "localhost.example.com", "localhost.nais.io:3000", "notlocalhost", "app.localhost", "localhostx",
		"localhost-dev.example.com", "127.0.0.1:3000", "[::1]:8080", "app.example.com", "localhost.", "xn--lcalhost-7ya"}
	var single []string
	for _, h := range hosts {
		single = append(single, "http://"+h, "https://"+h, "http://"+h+"/some/path")
	}
	var lists [][]string
	lists = append(lists, []string{})
	for _, a := range single {
		lists = append(lists, []string{a})
	}
	for i := 0; i < 80; i++ {
		lists = append(lists, []string{pick(c.rng, single[:9]), pick(c.rng, single)}) // first element: one of the genuine localhost spellings
	}
	lists = append(lists, []string{"http://localhost:3000", "http://localhost.nais.io"}, []string{"http://localhost", "http://localhost:8080/app"}, []string{"://bad"})
	for _, l := range lists {
		for _, secure := range []bool{true, false} {
			for _, ss := range []config.SameSite{config.SameSiteLax, config.SameSiteNone, config.SameSiteStrict, "Bogus", ""} {
				if ss != config.SameSiteLax && len(l) != 1 {
					continue
				}
				cfg := &config.Config{Ingresses: l}
				cfg.Cookie.Secure, cfg.Cookie.SameSite = secure, ss
				err := cfg.Cookie.Validate(cfg)
				var schemes, names []string
				parses := true
				for _, in := range l {
					u, perr := url.ParseRequestURI(in)
					if perr != nil {
						parses = false
						schemes, names = append(schemes, "?"), append(names, "?")
						continue
					}
					schemes, names = append(schemes, u.Scheme), append(names, u.Hostname())
				}
				c.count("cookieval:" + fmtVal(err == nil))
				c.emit("cookieval14", "secure", secure, "samesite", hx(string(ss)), "ingresses", l, "schemes", schemes, "hostnames", names, "parses", parses, "accepted", err == nil)
			}
		}
	}
}

func runCook(c *ctx) {
	{
		// a logged-in browser whose proxied request is abandoned while the upstream hangs (the logs are scanned for secrets at the end of the driver)
		s := newSut(sutOpts{sidRequired: true, ingresses: []string{"http://wonderwall"}})
		rp := s.replica("A")
		b := newBrowser()
		if _, err := s.login(b, rp, "http://wonderwall", ""); err == nil {
			b.do(rp, "GET", "http://wonderwall/some/page", http.Header{"Sec-Fetch-Mode": {"navigate"}, "Sec-Fetch-Dest": {"document"}})
			s.abortedProxy(rp, b, "http://wonderwall")
			c.count("aborted-proxy")
		}
		s.close()
	}
	_ = c.rng
	cookieValidation(c)
	nav := http.Header{"Sec-Fetch-Mode": {"navigate"}, "Sec-Fetch-Dest": {"document"}}
	cfgs := []cookCfg{
		{false, "", true, config.SameSiteLax, "https://app.example.com"},
		{false, "", true, config.SameSiteNone, "https://app.example.com/team/app"},
		{false, "", false, config.SameSiteLax, "http://localhost:3000"},
		{false, "", false, config.SameSiteStrict, "http://localhost/deep/er"},
		// SSO switched OFF but its settings still present (a deployment that moved back to standalone): they must have no effect on the cookies
		{false, "example.com", true, config.SameSiteNone, "https://app.example.com/svc"},
		{true, "example.com", true, config.SameSiteLax, "https://sso.example.com"},
		{true, ".example.com", true, config.SameSiteNone, "https://sso.example.com"},
		{true, "example.com", true, config.SameSiteStrict, "https://login.sso.example.com"},
	}
	for ci, cc := range cfgs {
		cc := cc
		o := sutOpts{ingresses: []string{cc.ingress}, secure: cc.secure, sidRequired: true, legacyCookie: ci%3 == 1, // deterministic: the legacy flag is always exercised (known finding F7)
			tweak: func(cfg *config.Config) {
				cfg.Cookie.SameSite = cc.sameSite
				if !cc.sso && cc.domain != "" { // leftovers of a disabled SSO set-up
					cfg.SSO.Domain, cfg.SSO.SessionCookieName, cfg.SSO.ServerDefaultRedirectURL = cc.domain, "sso.session", "https://www.example.com"
				}
			}}
		if cc.sso {
			o.mode, o.ssoDomain, o.ssoDefaultURL = "sso-server", cc.domain, "https://app.example.com/"
			cookie.ConfigureCookieNamesWithPrefix("sso.session")
			cookie.Session = "sso.session"
		}
		s := newSut(o)
		rp := s.replica("A")
		iu, _ := url.Parse(cc.ingress)
		base := iu.Scheme + "://" + iu.Host + strings.TrimRight(iu.Path, "/")
		ipath := strings.TrimRight(iu.Path, "/")
		b := newBrowser()
		// happy path, then each logout variant from a fresh login
		for _, variant := range []string{"logout", "logoutlocal", "frontchannel", "logout+callback"} {
			r1 := b.do(rp, "GET", base+"/oauth2/login?redirect="+url.QueryEscape(ipath+"/after"), nav)
			cc.emitCookies(c, "login", r1, ipath)
			lu, _ := url.Parse(r1.Location)
			code, req, err := s.idp.authorize(lu)
			if err != nil {
				panic(err)
			}
			r2 := b.do(rp, "GET", base+"/oauth2/callback?"+url.Values{"code": {code}, "state": {req.State}}.Encode(), nav)
			cc.emitCookies(c, "callback", r2, ipath)
			c.emit("jar", "after", "callback", "status", r2.Status, "names", jarNames(b), "cfgsecure", cc.secure, "sso", cc.sso)
			sid := ""
			if d := s.storedData(s.ticketOf(b)); d != nil {
				sid = d.ExternalSessionID
			}
			var r3 *response
			switch variant {
			case "logout", "logout+callback":
				r3 = b.do(rp, "GET", base+"/oauth2/logout?redirect="+url.QueryEscape(ipath+"/bye"), nav)
			case "logoutlocal":
				r3 = b.do(rp, "GET", base+"/oauth2/logout/local", nil)
			case "frontchannel":
				r3 = b.do(rp, "GET", base+"/oauth2/logout/frontchannel?sid="+url.QueryEscape(sid)+"&iss="+url.QueryEscape(s.idp.issuer), nil)
			}
			cc.emitCookies(c, variant, r3, ipath)
			c.emit("jar", "after", variant, "status", r3.Status, "names", jarNames(b), "cfgsecure", cc.secure, "sso", cc.sso)
			if variant == "logout+callback" {
				lu2, _ := url.Parse(r3.Location)
				r4 := b.do(rp, "GET", base+"/oauth2/logout/callback?state="+url.QueryEscape(lu2.Query().Get("state")), nav)
				cc.emitCookies(c, "logoutcallback", r4, ipath)
				c.emit("jar", "after", "logoutcallback", "status", r4.Status, "names", jarNames(b), "cfgsecure", cc.secure, "sso", cc.sso)
			}
		}
		// the same logouts issued THROUGH AN SSO PROXY: it relays /oauth2/logout/local and /oauth2/logout/frontchannel to the SSO server (a real HTTP hop), and the
		// cookie-clearing answer of the server must reach the browser - after either, the domain-wide session cookie is gone from the jar
		if cc.sso {
			relay := httptest.NewServer(rp.h)
			saveIng, saveURL := s.o.ingresses, s.o.ssoServerURL
			appHost := "app." + strings.TrimPrefix(cc.domain, ".")
			s.o.ingresses, s.o.ssoServerURL = []string{iu.Scheme + "://" + appHost}, relay.URL
			prx := s.replicaMode("P-relay", "sso-proxy")
			s.o.ingresses, s.o.ssoServerURL = saveIng, saveURL
			for _, variant := range []string{"logoutlocal", "frontchannel"} {
				pb := newBrowser()
				if _, err := s.login(pb, rp, base, ""); err != nil {
					panic(err)
				}
				sid := ""
				if d := s.storedData(s.ticketOf(pb)); d != nil {
					sid = d.ExternalSessionID
				}
				var r3 *response
				if variant == "logoutlocal" {
					r3 = pb.do(prx, "GET", iu.Scheme+"://"+appHost+"/oauth2/logout/local", nil)
				} else {
					r3 = pb.do(prx, "GET", iu.Scheme+"://"+appHost+"/oauth2/logout/frontchannel?sid="+url.QueryEscape(sid)+"&iss="+url.QueryEscape(s.idp.issuer), nil)
				}
				c.count("jar:via-proxy")
				c.emit("jar", "after", variant, "status", r3.Status, "names", jarNames(pb), "cfgsecure", cc.secure, "sso", cc.sso, "via", "proxy", "stored", s.storedData(s.ticketOf(pb)) != nil)
			}
			relay.Close()
		}
		// error paths (C17 chains): a cookie-keeping browser follows 307s while the cause persists
		s.replicaKey = []byte("K2-another-deployment-key-32byte")
		rpOtherKey := s.replica("K2")
		s.replicaKey = nil
		causes := []string{"callback-nocookie", "callback-badstate", "callback-idpdown", "callback-idp4xx", "logout-unknownhost", "callback-otherkey", "login-pardown"}
		for _, cause := range causes {
			if cause == "login-pardown" {
				continue // exercised by the PAR variant below
			}
			// gap: time that passes IN THE BROWSER between two failures (its clock decides when a cookie with Max-Age / Expires lapses): a slow loop must be
			// bounded like a fast one - the counter may not quietly lapse between two failures
			for _, gap := range []time.Duration{0, 7 * time.Second, 2 * time.Hour} {
				if gap > 0 && (cause == "callback-otherkey" || cause == "callback-idp4xx") {
					continue
				}
				fb := newBrowser()
				var skew time.Duration
				fb.vnow = func() time.Time { return time.Now().Add(skew) }
				s.idp.mu.Lock()
				s.idp.gate = nil
				if cause == "callback-idpdown" {
					s.idp.gate = func(kind string, f url.Values) *idpFault { return &idpFault{status: 503, body: "down"} }
				}
				if cause == "callback-idp4xx" {
					s.idp.gate = func(kind string, f url.Values) *idpFault {
						return &idpFault{status: 400, body: `{"error":"invalid_grant","error_description":"no"}`}
					}
				}
				s.idp.mu.Unlock()
				unknownHost := "unknown.example"
				if cc.sso {
					unknownHost = "unknown." + strings.TrimPrefix(cc.domain, ".") // inside the cookie domain: cookies keep working
				}
				// failing returns the next failing request of this cause (a browser that is sent round the loop again)
				hopNo := 0
				failing := func() string {
					switch cause {
					case "callback-nocookie":
						return base + "/oauth2/callback?code=x&state=y"
					case "logout-unknownhost":
						return iu.Scheme + "://" + unknownHost + ipath + "/oauth2/logout"
					}
					lrp := rp
					if cause == "callback-otherkey" && hopNo%2 == 1 {
						lrp = rpOtherKey
					}
					r1 := fb.do(lrp, "GET", base+"/oauth2/login", nav)
					lu, err := url.Parse(r1.Location)
					if err != nil || r1.Status != 302 {
						return ""
					}
					code, req, _ := s.idp.authorize(lu)
					st := req.State
					if cause == "callback-badstate" {
						st = "wrong"
					}
					return base + "/oauth2/callback?" + url.Values{"code": {code}, "state": {st}}.Encode()
				}
				var statuses, retryVals []string
				cur := failing()
				for hop := 0; hop < 7 && cur != ""; hop++ {
					hrp := rp
					if cause == "callback-otherkey" && hop%2 == 0 {
						hrp = rpOtherKey // replicas holding different deployment keys behind one ingress: the login was served by one, its callback lands on the other
					}
					resp := fb.do(hrp, "GET", cur, nav)
					hopNo = hop + 1
					cc.emitCookies(c, "error:"+cause, resp, ipath)
					statuses = append(statuses, strconv.Itoa(resp.Status))
					v := "-"
					if jc := fb.get(cookie.Retry); jc != nil {
						v = jc.Value
					}
					retryVals = append(retryVals, v)
					// whatever the answer (retry redirect or error page), the browser ends up failing the same way again - at once or after a while
					skew += gap
					cur = failing()
				}
				c.count("chain:" + cause + " gap=" + gap.String())
				c.emit("retrychain", "cause", cause, "statuses", statuses, "retryvals", retryVals, "sso", cc.sso, "ingresspath", hx(ipath), "gap", int64(gap/time.Second))
			}
		}
		s.idp.mu.Lock()
		s.idp.gate = nil
		s.idp.mu.Unlock()
		// success after failures clears the counter
		fb := newBrowser()
		fb.do(rp, "GET", base+"/oauth2/callback?code=x&state=y", nav)
		before := fb.get(cookie.Retry) != nil
		if _, err := s.login(fb, rp, base, ""); err == nil {
			c.emit("retryreset", "via", "login", "before", before, "after", fb.get(cookie.Retry) != nil)
		}
		fb.do(rp, "GET", base+"/oauth2/callback?code=x&state=y", nav)
		lr := fb.do(rp, "GET", base+"/oauth2/logout", nav)
		lu2, _ := url.Parse(lr.Location)
		fb.do(rp, "GET", base+"/oauth2/callback?code=x&state=y", nav)
		before = fb.get(cookie.Retry) != nil
		fb.do(rp, "GET", base+"/oauth2/logout/callback?state="+url.QueryEscape(lu2.Query().Get("state")), nav)
		c.emit("retryreset", "via", "logoutcallback", "before", before, "after", fb.get(cookie.Retry) != nil)
		s.close()
		cookie.ConfigureCookieNamesWithPrefix(cookie.DefaultPrefix)
	}
	// login rate limit
	for _, enabled := range []bool{true, false} {
		for _, logins := range []int{0, 1, 2, 5} {
			for _, window := range []time.Duration{500 * time.Millisecond, time.Second, 5 * time.Second, 90 * time.Second} {
				for _, withSession := range []bool{true, false} {
					s := newSut(sutOpts{rateLimit: &config.RateLimit{Enabled: enabled, Logins: logins, Window: window}, ingresses: []string{"http://wonderwall/app"}})
					rp := s.replica("A")
					b := newBrowser()
					vclock := time.Now()
					b.vnow = func() time.Time { return vclock }
					if withSession {
						s.login(b, rp, "http://wonderwall/app", "")
					}
					var statuses []string
					maxAge := -999
					visit := func() {
						resp := b.do(rp, "GET", "http://wonderwall/app/oauth2/login", nav)
						statuses = append(statuses, strconv.Itoa(resp.Status))
						for _, ck := range resp.Cookies {
							if ck.Name == cookie.LoginCount {
								maxAge = ck.MaxAge
							}
						}
					}
					for i := 0; i < logins+3; i++ {
						visit()
					}
					// let the window pass on the browser's clock: the counter must lapse
					vclock = vclock.Add(window + 2*time.Second)
					n1 := len(statuses)
					visit()
					c.count("ratelimit")
					c.emit("ratelimit", "enabled", enabled, "logins", logins, "windowms", int64(window/time.Millisecond), "session", withSession, "statuses", statuses[:n1],
						"afterwindow", statuses[n1], "maxage", maxAge)
					s.close()
				}
			}
		}
	}
}
