//go:build verif

package main

import (
	"bytes"
	"crypto/rand"
	"encoding/base64"
	"encoding/json"
	"fmt"
	"net/http"
	"net/url"
	"strings"
	"sync"
	"sync/atomic"
	"time"

	"github.com/nais/wonderwall/internal/crypto"
	"github.com/nais/wonderwall/pkg/cookie"
	"github.com/nais/wonderwall/pkg/session"
)

// Driver "c09": (i) the real Crypter on plaintexts of sizes 0..1 MiB: every single-bit flip (sampled for large sizes), every truncation,
// extension, other key, nonce freshness over many encryptions; (ii) cookie.Decrypt on malformed values; (iii) tampered / swapped cookies and store
// values through the real router: never authenticated, never a 5xx; (iv) every Set-Cookie value and every store value produced during the run is
// scanned for the secrets the harness knows, in clear (the output monitor also runs at the end of every other driver).
func init() { register("c09", "AEAD use: tamper evidence, key separation, nonce freshness, type confusion, output scan (C09)", runC09) }

func runC09(c *ctx) {
	r := c.rng
	k1 := []byte("0123456789abcdef0123456789abcdef")
	k2 := []byte("fedcba9876543210fedcba9876543210")
	c1, c2 := crypto.NewCrypter(k1), crypto.NewCrypter(k2)
	sizes := []int{0, 1, 15, 16, 17, 255, 4096, 65536}
	if c.thorough() {
		sizes = append(sizes, 1<<20)
	}
	safeDecrypt := func(cr crypto.Crypter, b []byte) (ok bool, panicked bool) {
		defer func() {
			if recover() != nil {
				panicked = true
			}
		}()
		_, err := cr.Decrypt(b)
		return err == nil, false
	}
	for _, n := range sizes {
		pt := make([]byte, n)
		rand.Read(pt)
		ct, err := c1.Encrypt(pt)
		if err != nil {
			panic(err)
		}
		back, err := c1.Decrypt(ct)
		roundtrip := err == nil && bytes.Equal(back, pt)
		nbits := len(ct) * 8
		flips, flipAccepted, panics := 0, 0, 0
		stride := 1
		if nbits > 20000 && !c.thorough() {
			stride = nbits / 4000
		} else if nbits > 200000 {
			stride = nbits / 20000
		}
		for bit := 0; bit < nbits; bit += stride {
			m := append([]byte{}, ct...)
			m[bit/8] ^= 1 << (bit % 8)
			ok, p := safeDecrypt(c1, m)
			flips++
			if ok {
				flipAccepted++
			}
			if p {
				panics++
			}
		}
		truncs, truncAccepted := 0, 0
		tstride := 1
		if len(ct) > 5000 {
			tstride = len(ct) / 2000
		}
		for l := 0; l < len(ct); l += tstride {
			ok, p := safeDecrypt(c1, ct[:l])
			truncs++
			if ok {
				truncAccepted++
			}
			if p {
				panics++
			}
		}
		okExt, _ := safeDecrypt(c1, append(append([]byte{}, ct...), 0))
		okOther, _ := safeDecrypt(c2, ct)
		okPlain, _ := safeDecrypt(c1, pt)
		containsPlain := n >= 16 && bytes.Contains(ct, pt[:16])
		c.count("crypt")
		c.emit("crypt", "size", n, "roundtrip", roundtrip, "flips", flips, "flipaccepted", flipAccepted, "truncs", truncs, "truncaccepted", truncAccepted, "extaccepted", okExt,
			"otherkeyaccepted", okOther, "plainaccepted", okPlain, "panics", panics, "containsplain", containsPlain, "overhead", len(ct)-n)
	}
	// nonce freshness
	nEnc := 20000
	if c.thorough() {
		nEnc = 300000
	}
	seen := map[string]bool{}
	dups := 0
	pt := []byte("same plaintext every time")
	for i := 0; i < nEnc; i++ {
		ct, _ := c1.Encrypt(pt)
		nonce := string(ct[:24])
		if seen[nonce] {
			dups++
		}
		seen[nonce] = true
	}
	c.emit("nonces", "encryptions", nEnc, "dups", dups)
	// (ii) cookie.Decrypt on malformed values
	good, _ := cookie.Make("n", "secret-value", cookie.DefaultOptions()).Encrypt(c1)
	for _, v := range []string{"", "%%%", good.Value[:10], good.Value + "A", strings.ToUpper(good.Value), "AAAA", base64.RawURLEncoding.EncodeToString([]byte("short")), good.Value[1:], "=" + good.Value} {
		panicked, accepted := false, false
		func() {
			defer func() {
				if recover() != nil {
					panicked = true
				}
			}()
			ck := &cookie.Cookie{Cookie: &http.Cookie{Name: "n", Value: v}}
			_, err := ck.Decrypt(c1)
			accepted = err == nil
		}()
		c.emit("cookiedec", "value", hx(v), "accepted", accepted, "panicked", panicked)
	}
	// (ii') a key that is not exactly 256 bits is never usable: no padding, no truncation (an EMPTY data key is what a foreign cookie type decodes to)
	for _, n := range []int{0, 1, 16, 31, 33, 48, 64} {
		k := make([]byte, n)
		encOK, decOK := false, false
		func() {
			defer func() { recover() }()
			cr := crypto.NewCrypter(k)
			if _, err := cr.Encrypt([]byte("plaintext")); err == nil {
				encOK = true
			}
			full := make([]byte, 32)
			copy(full, k)
			if ct, err := crypto.NewCrypter(full).Encrypt([]byte("plaintext")); err == nil {
				if _, err := cr.Decrypt(ct); err == nil {
					decOK = true // opens what was sealed under the zero-padded / truncated key
				}
			}
		}()
		c.emit("keylen09", "n", n, "encok", encOK, "decok", decOK)
	}
	// (iii) through the router
	s := newSut(sutOpts{sidRequired: true, forwardAuth: true})
	defer s.close()
	rp := s.replica("A")
	base := "http://wonderwall"
	nav := http.Header{"Sec-Fetch-Mode": {"navigate"}, "Sec-Fetch-Dest": {"document"}}
	a, b := newBrowser(), newBrowser()
	s.login(a, rp, base, "")
	s.login(b, rp, base, "")
	la := newBrowser()
	lr := la.do(rp, "GET", base+"/oauth2/login", nav)
	_ = lr
	lo := newBrowser()
	lo.do(rp, "GET", base+"/oauth2/logout", nav)
	sessA := a.get(cookie.Session).Value
	ta, tb := s.ticketOf(a), s.ticketOf(b)
	valA, _ := s.mr.Get(ta.Key())
	valB, _ := s.mr.Get(tb.Key())
	raw, _ := base64.RawURLEncoding.DecodeString(sessA)
	// an attacker with write access to the STORE (not to any key) plants a session record under the empty store key, sealed with the all-zero key: a login /
	// logout cookie presented as session cookie decodes to a ticket with an empty id and an empty data key - it must not open that record
	if dA := s.storedData(ta); dA != nil {
		if enc, err := dA.Encrypt(crypto.NewCrypter(make([]byte, 32))); err == nil {
			s.mr.Set("", string(enc.Ciphertext))
			s.mr.SetTTL("", time.Hour)
		}
	}
	type variant struct{ name, cookie string }
	vars := []variant{{"own", sessA}, {"truncated", sessA[:len(sessA)/2]}, {"extended", sessA + "AAAA"}, {"notbase64", "!!!" + sessA}, {"empty", ""},
		{"logincookie-as-session", la.get(cookie.Login).Value}, {"logoutcookie-as-session", lo.get(cookie.Logout).Value},
		{"otherkey", base64.RawURLEncoding.EncodeToString(func() []byte { x, _ := c2.Encrypt([]byte(`{"id":"` + ta.Key() + `","dek":"AAAA"}`)); return x }())}}
	// forged tickets, sealed with the deployment key (which the harness owns): A's session id with another / a null / a random data key.
	// Key separation: the store value opens only under the data key in that user's OWN cookie, however often the genuine ticket was used before.
	sealTicket := func(id string, dek []byte) string {
		pt, _ := json.Marshal(map[string]any{"id": id, "dek": dek})
		ct, _ := s.crypter.Encrypt(pt)
		return base64.RawURLEncoding.EncodeToString(ct)
	}
	rndDek := make([]byte, 32)
	rand.Read(rndDek)
	vars = append(vars, variant{"ticket:A-id+B-dek", sealTicket(ta.Key(), tb.EncryptionKey)}, variant{"ticket:A-id+zero-dek", sealTicket(ta.Key(), make([]byte, 32))},
		variant{"ticket:A-id+random-dek", sealTicket(ta.Key(), rndDek)}, variant{"ticket:B-id+A-dek", sealTicket(tb.Key(), ta.EncryptionKey)},
		variant{"ticket:unknown-id+A-dek", sealTicket(ta.Key()+"x", ta.EncryptionKey)})
	nFlip := 40
	if c.thorough() {
		nFlip = len(raw) * 8
	}
	for i := 0; i < nFlip; i++ {
		bit := r.intn(len(raw) * 8)
		if c.thorough() {
			bit = i
		}
		m := append([]byte{}, raw...)
		m[bit/8] ^= 1 << (bit % 8)
		vars = append(vars, variant{fmt.Sprintf("bitflip:%d", bit), base64.RawURLEncoding.EncodeToString(m)})
	}
	ttlA := s.mr.TTL(ta.Key())
	var restore func()
	probe := func(name, ck string, what string) {
		for _, ep := range []string{"/some/page", "/oauth2/session", "/oauth2/session/refresh", "/oauth2/session/forwardauth", "/oauth2/logout", "/oauth2/logout/local"} {
			if (ep == "/oauth2/logout/local" || ep == "/oauth2/logout") && name == "own" {
				continue
			}
			br := newBrowser()
			br.jar = append(br.jar, jarCookie{Name: cookie.Session, Value: ck, Domain: "wonderwall", Path: "/", HostOnly: true})
			nUp := s.upCount()
			m := "GET"
			if ep == "/oauth2/session/refresh" {
				m = "POST"
			}
			resp := br.do(rp, m, base+ep, nav)
			auth := false
			for _, u := range s.upSince(nUp) {
				if u.Header.Get("Authorization") != "" {
					auth = true
				}
			}
			if (ep == "/oauth2/logout/local" || ep == "/oauth2/logout") && restore != nil {
				restore() // a local logout may have removed the entry: put it back so that the next variant is probed against a live session
			}
			c.count("tamper:" + what)
			c.emit("tamper09", "what", what, "variant", name, "ep", ep, "status", resp.Status, "authenticated", auth, "genuine", name == "own")
		}
	}
	restore = func() { s.mr.Set(ta.Key(), valA); s.mr.SetTTL(ta.Key(), ttlA) }
	for _, v := range vars {
		probe(v.name, v.cookie, "cookie")
	}
	// store-side: A's cookie with B's ciphertext in A's slot, a flipped value, a truncated value, a plaintext JSON value
	for _, sv := range []struct{ name, val string }{{"other-session-value", valB}, {"flipped", func() string { x := []byte(valA); x[len(x)/2] ^= 4; return string(x) }()},
		{"truncated", valA[:len(valA)/2]}, {"plaintext-json", `{"access_token":"x","refresh_token":"y"}`}, {"empty", ""}} {
		ttl := s.mr.TTL(ta.Key())
		s.mr.Set(ta.Key(), sv.val)
		s.mr.SetTTL(ta.Key(), ttl)
		val := sv.val
		restore = func() { s.mr.Set(ta.Key(), val); s.mr.SetTTL(ta.Key(), ttlA) }
		probe("store:"+sv.name, sessA, "store")
	}
	s.mr.Set(ta.Key(), valA)
	_ = url.Values{}
	// a second login that lands on the SAME external session id (the provider re-issues the sid): the entry is re-created under the data key of
	// the NEW cookie; the superseded cookie's key must not open it, the new one must (checked with crypters built here from the cookie contents).
	s.idp.fixedSid = "sid-shared"
	c1b, c2b := newBrowser(), newBrowser()
	s.login(c1b, rp, base, "")
	t1 := s.ticketOf(c1b)
	s.login(c2b, rp, base, "")
	t2 := s.ticketOf(c2b)
	s.idp.fixedSid = ""
	if t1 != nil && t2 != nil {
		sameKey := t1.Key() == t2.Key()
		v, _ := s.mr.Get(t2.Key())
		_, e1 := (&session.EncryptedData{Ciphertext: []byte(v)}).Decrypt(crypto.NewCrypter(t1.EncryptionKey))
		_, e2 := (&session.EncryptedData{Ciphertext: []byte(v)}).Decrypt(crypto.NewCrypter(t2.EncryptionKey))
		c.emit("relogin09", "samekey", sameKey, "samedek", bytes.Equal(t1.EncryptionKey, t2.EncryptionKey), "oldopens", e1 == nil, "newopens", e2 == nil)
		restore = nil
		probe("superseded-cookie", c1b.get(cookie.Session).Value, "relogin")
	} else {
		c.emit("relogin09", "samekey", false, "samedek", false, "oldopens", false, "newopens", false)
	}
	c09Concurrent(c, s, rp, base)
}

// c09Concurrent: key separation under load. Several users, each with an own session (own data key), hammer the proxy and the session endpoint at the
// same time through one replica; a request carrying user i's cookie must be served with user i's token and nobody else's, and an untouched cookie /
// store value must never be reported undecodable (shared decrypt buffers, caches keyed too coarsely and the like show up here).
func c09Concurrent(c *ctx, s *sut, rp *replica, base string) {
	const users = 6
	type user struct {
		b   *browser
		tok string
	}
	var us []user
	for i := 0; i < users; i++ {
		b := newBrowser()
		if _, err := s.login(b, rp, base, ""); err != nil {
			panic(err)
		}
		d := s.storedData(s.ticketOf(b))
		if d == nil {
			panic("c09Concurrent: no stored session")
		}
		us = append(us, user{b, d.AccessToken})
	}
	// a private upstream log: request path carries the user index, so each upstream request can be attributed
	dur := 400 * time.Millisecond
	if c.thorough() {
		dur = 4 * time.Second
	}
	var wg sync.WaitGroup
	var stop atomic.Bool
	var n, foreign, unauth, crashed, infoBad atomic.Int64
	nUp := s.upCount()
	for w := 0; w < 2*users; w++ {
		ui := w % users
		wg.Add(1)
		go func() {
			defer wg.Done()
			u := us[ui]
			for !stop.Load() {
				wb := newBrowser() // each request presents the user's cookie from its own copy of the jar
				wb.jar = append(wb.jar, u.b.jar...)
				if w < users {
					resp := wb.do(rp, "GET", fmt.Sprintf("%s/u/%d", base, ui), http.Header{"Sec-Fetch-Mode": {"navigate"}, "Sec-Fetch-Dest": {"document"}})
					if resp.Status >= 500 {
						crashed.Add(1)
					}
				} else {
					resp := wb.do(rp, "GET", base+"/oauth2/session", nil)
					if resp.Status >= 500 {
						crashed.Add(1)
					} else if resp.Status != 200 {
						infoBad.Add(1)
					}
				}
				n.Add(1)
			}
		}()
	}
	time.Sleep(dur)
	stop.Store(true)
	wg.Wait()
	for _, up := range s.upSince(nUp) {
		var ui int
		if _, err := fmt.Sscanf(up.Path, "/u/%d", &ui); err != nil || ui < 0 || ui >= users {
			continue
		}
		a := strings.TrimPrefix(up.Header.Get("Authorization"), "Bearer ")
		switch {
		case a == "":
			unauth.Add(1)
		case a != us[ui].tok:
			foreign.Add(1)
		}
	}
	c.count("concurrent09")
	c.emit("concurrent09", "users", users, "n", n.Load(), "foreign", foreign.Load(), "unauth", unauth.Load(), "infobad", infoBad.Load(), "crashed", crashed.Load())
}
