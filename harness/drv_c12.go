//go:build verif

package main

import (
	"sync"
	"net/http"
	"net/http/httptest"
	"net/url"
	"strings"

	"github.com/bmatcuk/doublestar/v4"

	"github.com/nais/wonderwall/pkg/config"
	"github.com/nais/wonderwall/pkg/handler/autologin"
)

// Driver "c12": (a) doublestar.Match vs the Lean matcher on generated (pattern, path) pairs over the alphabet {literal, *, **, /};
// (b) autologin.New(...).NeedsLogin on generated pattern sets and raw request paths (dot segments, doubled / trailing slashes, encoded
// separators); (c) the full handler through the router: status, Location, what the upstream received.
func init() { register("c12", "auto-login: glob matcher, NeedsLogin, handler short-circuit (C12)", runC12) }

var c12Lits = []string{"a", "b", "public", "admin", "static", "x.js", "app.css", "any", "anything", "deep", "v1", "é", "a b", "..a", "a..", "...", ".a"}
var c12PatSegs = []string{"*", "**", "*.js", "any*", "a*b", "*a*", "**a", "a**", "***", "pub*"}
var c12PathSegs = []string{"", ".", "..", "admin", "public", "a", "b", "bundle.js", "anything", "x", "deep", "é", "a b", "...", "..a"}

func genPattern(r *rng) string {
	n := 1 + r.intn(4)
	var segs []string
	for i := 0; i < n; i++ {
		if r.chance(1, 2) {
			segs = append(segs, pick(r, c12Lits))
		} else {
			segs = append(segs, pick(r, c12PatSegs))
		}
	}
	p := "/" + strings.Join(segs, "/")
	if r.chance(1, 6) {
		p += "/"
	}
	if r.chance(1, 20) {
		p = strings.TrimPrefix(p, "/")
	}
	return p
}

func genPath(r *rng, pats []string) string {
	// mostly derived from a pattern so that matches are frequent
	var segs []string
	if len(pats) > 0 && r.chance(3, 4) {
		for _, s := range strings.Split(strings.Trim(pick(r, pats), "/"), "/") {
			switch {
			case s == "**":
				for k := r.intn(3); k > 0; k-- {
					segs = append(segs, pick(r, c12PathSegs))
				}
			case strings.Contains(s, "*"):
				segs = append(segs, strings.ReplaceAll(s, "*", pick(r, []string{"", "x", "thing", "a/b", "."})))
			default:
				segs = append(segs, s)
			}
		}
	} else {
		for k := 1 + r.intn(4); k > 0; k-- {
			segs = append(segs, pick(r, c12PathSegs))
		}
	}
	// mutations: dot segments, doubled slashes, trailing slash
	for k := r.intn(3); k > 0 && len(segs) > 0; k-- {
		i := r.intn(len(segs) + 1)
		ins := pick(r, []string{"..", ".", "", "x", "../..", "admin"})
		segs = append(segs[:i], append([]string{ins}, segs[i:]...)...)
	}
	p := "/" + strings.Join(segs, "/")
	if r.chance(1, 4) {
		p += "/"
	}
	return p
}

func runC12(c *ctx) {
	r := c.rng
	nGlob, nNL, nReq := 6000, 6000, 1200
	if c.thorough() {
		nGlob, nNL, nReq = 150000, 150000, 12000
	}
	// corpus first: the documented examples and past findings
	corpus := [][2]string{{"/public/**", "/public/../admin"}, {"/x/*", "/x/.."}, {"/public/**", "/public"}, {"/public/*", "/public/a/b"}, {"/any*", "/any/thing"},
		{"/static/**/*.js", "/static/bundle.js"}, {"/", "/"}, {"/**", "/"}, {"/a/*/*", "/a//b"}, {"/trailing/", "/trailing"}, {"/nested/**", "/nested/very/deep/../../.."}}
	for _, pp := range corpus {
		emitGlob(c, pp[0], pp[1])
		emitNeedsLogin(c, []string{pp[0]}, pp[1])
	}
	for i := 0; i < nGlob; i++ {
		p := genPattern(r)
		emitGlob(c, p, genPath(r, []string{p}))
	}
	for i := 0; i < nNL; i++ {
		var pats []string
		for k := r.intn(4); k > 0; k-- {
			pats = append(pats, genPattern(r))
		}
		if r.chance(1, 10) {
			pats = append(pats, "")
		}
		emitNeedsLogin(c, pats, genPath(r, pats))
	}
	c12CacheSound(c)
	// (c) handler level
	for _, prefix := range []string{"", "/app"} {
		pats := []string{"/public/**", "/open/*", "/exact", "/static/**/*.js"}
		var prefixed []string
		for _, p := range pats {
			prefixed = append(prefixed, prefix+p)
		}
		s := newSut(sutOpts{autoLogin: true, ignorePaths: prefixed, ingresses: []string{"http://wonderwall" + prefix}})
		rp := s.replica("A")
		auth := newBrowser()
		s.login(auth, rp, "http://wonderwall"+prefix, "")
		for i := 0; i < nReq/2; i++ {
			path := prefix + genPath(r, pats)
			if r.chance(1, 5) {
				path = strings.ReplaceAll(path, "..", "%2e%2e")
			}
			if r.chance(1, 10) {
				path = strings.Replace(path, "/", "%2f", 1+r.intn(2))
				if !strings.HasPrefix(path, "/") {
					path = "/" + path
				}
			}
			q := pick(r, []string{"", "?x=1", "?a=b&c=d%20e", "?redirect=/evil"})
			method := pick(r, []string{"GET", "GET", "GET", "POST", "HEAD", "PUT", "DELETE"})
			hdr := http.Header{}
			switch r.intn(8) {
			case 0:
				hdr.Set("Sec-Fetch-Mode", "navigate")
				hdr.Set("Sec-Fetch-Dest", "document")
			case 1:
				hdr.Set("Sec-Fetch-Mode", "cors")
				hdr.Set("Sec-Fetch-Dest", "empty")
			case 2:
				hdr.Set("Accept", "text/html,application/xhtml+xml;q=0.9")
			case 3:
				hdr.Set("Accept", "application/json")
			case 4: // Fetch metadata present but not a top-level navigation / only half of it
				hdr.Set("Sec-Fetch-Mode", pick(r, []string{"navigate", "no-cors", "same-origin", "websocket", ""}))
				hdr.Set("Sec-Fetch-Dest", pick(r, []string{"iframe", "image", "empty", "document", ""}))
				if r.chance(1, 2) {
					hdr.Set("Accept", "text/html")
				}
			case 5, 6: // no Fetch metadata (older browsers, API clients, curl): the Accept header decides
				hdr.Set("Accept", pick(r, []string{"*/*", "application/json, text/plain, */*", "text/plain, */*;q=0.8", "TEXT/HTML", " text/html ;q=0.9", "application/xhtml+xml,text/html;q=0.9,*/*;q=0.8",
					"text/htmlx", "text/*", "image/avif,image/webp,*/*", "application/json;q=0.9,text/html;q=0.1", ""}))
			}
			if r.chance(1, 6) { // a CORS preflight (all three markers are the client's to choose): no cookie, no session - it is an unauthenticated request like any other
				method = "OPTIONS"
				hdr.Set("Origin", "https://spa.example")
				hdr.Set("Access-Control-Request-Method", pick(r, []string{"POST", "GET", "DELETE"}))
				if r.chance(1, 2) {
					hdr.Set("Access-Control-Request-Headers", "authorization, content-type")
				}
			}
			referer := ""
			if r.chance(1, 2) {
				referer = "http://wonderwall" + prefix + "/some/page?y=2"
				hdr.Set("Referer", referer)
			}
			b := newBrowser()
			authed := r.chance(1, 5)
			if authed {
				b = auth
			}
			target := "http://wonderwall" + path + q
			req, ok := safeRequest(method, target)
			if !ok {
				continue
			}
			if authed && len(b.cookiesFor(&url.URL{Scheme: "http", Host: "wonderwall", Path: req.URL.Path})) == 0 {
				authed = false // the session cookie is scoped to the ingress path and is not sent for this path
			}
			nUp := s.upCount()
			resp := b.do(rp, method, target, hdr)
			ups := s.upSince(nUp)
			upPath, upQ := "", ""
			if len(ups) > 0 {
				upPath, upQ = ups[0].Path, ups[0].RawQuery
			}
			locPath, locRedirect := "", ""
			if resp.Location != "" {
				if lu, err := url.Parse(resp.Location); err == nil {
					locPath, locRedirect = lu.Path, lu.Query().Get("redirect")
				}
			}
			nav := isNav(method, hdr)
			owned := strings.HasPrefix(req.URL.EscapedPath(), prefix+"/oauth2/") || req.URL.EscapedPath() == prefix+"/oauth2"
			if owned {
				continue
			}
			c.count("req:" + method)
			c.emit("alog", "prefix", hx(prefix), "pats", prefixed, "method", method, "urlpath", hx(req.URL.Path), "reqstr", hx(req.URL.String()), "rawquery", hx(req.URL.RawQuery),
				"nav", nav, "sfmode", hx(hdr.Get("Sec-Fetch-Mode")), "sfdest", hx(hdr.Get("Sec-Fetch-Dest")), "accept", hx(hdr.Get("Accept")), "referer", hx(referer), "authed", authed, "status", resp.Status, "fwd", len(ups) > 0, "uppath", hx(upPath), "upquery", hx(upQ),
				"locpath", hx(locPath), "locredirect", hx(locRedirect), "hasloc", resp.Location != "")
		}
		s.close()
	}
}

func isNav(method string, h http.Header) bool {
	if method != "GET" {
		return false
	}
	m, d := h.Get("Sec-Fetch-Mode"), h.Get("Sec-Fetch-Dest")
	if m == "" && d == "" {
		for _, v := range strings.Split(h.Get("Accept"), ",") {
			v = strings.TrimSpace(strings.ToLower(v))
			if strings.Split(v, ";")[0] == "text/html" {
				return true
			}
		}
		return false
	}
	return m == "navigate" && d == "document"
}

func safeRequest(method, target string) (req *http.Request, ok bool) {
	defer func() {
		if recover() != nil {
			ok = false
		}
	}()
	return httptest.NewRequest(method, target, nil), true
}

func emitGlob(c *ctx, pat, path string) {
	m, err := doublestar.Match(pat, path)
	res := "0"
	if err != nil {
		res = "e"
	} else if m {
		res = "1"
	}
	c.count("glob:" + res)
	c.emit("glob", "pat", hx(pat), "path", hx(path), "dm", res)
}

func emitNeedsLogin(c *ctx, pats []string, path string) {
	a, err := autologin.New(&config.Config{AutoLogin: true, AutoLoginIgnorePaths: pats})
	if err != nil {
		return
	}
	req := &http.Request{URL: &url.URL{Path: path}}
	nl := a.NeedsLogin(req, false)
	// the per-path cache must not change the answer
	nl2 := a.NeedsLogin(req, false)
	c.count("needslogin:" + fmtVal(nl))
	c.emit("needslogin", "pats", pats, "path", hx(path), "nl", nl, "nl2", nl2, "authnl", a.NeedsLogin(req, true))
}

// c12CacheSound: NeedsLogin keeps per-path state between requests. Whatever it memoises, the answer for a path must be the answer a FRESH instance gives for that
// path alone: a long-lived instance is sent millions of distinct paths (half inside an ignored subtree, half outside, alternating, so that neighbours differ in
// their decision) and every answer is compared with the stateless decision (pattern match on the cleaned path, computed here with the same matcher through a fresh
// instance on first sight of a mismatch). 8 instances in parallel.
func c12CacheSound(c *ctx) {
	perWorker := 2000000
	if c.thorough() {
		perWorker = 12000000
	}
	pats := []string{"/public/**", "/assets/*", "/health"}
	type miss struct {
		path string
		got  bool
		at   int
	}
	var mu sync.Mutex
	var misses []miss
	total := 0
	var wg sync.WaitGroup
	for w := 0; w < 8; w++ {
		wg.Add(1)
		r := newRng(c.seed*1315423911 + uint64(w))
		go func() {
			defer wg.Done()
			a, err := autologin.New(&config.Config{AutoLogin: true, AutoLoginIgnorePaths: pats})
			if err != nil {
				return
			}
			u := &url.URL{}
			req := &http.Request{URL: u}
			const alphabet = "abcdefghijklmnopqrstuvwxyz0123456789-_"
			buf := make([]byte, 0, 40)
			for i := 0; i < perWorker; i++ {
				if i%250000 == 249999 { // the unchanged code remembers every path it has seen: bound the memory, a fresh long-lived instance every 250 000 requests
					if a, err = autologin.New(&config.Config{AutoLogin: true, AutoLoginIgnorePaths: pats}); err != nil {
						return
					}
				}
				buf = buf[:0]
				ignored := i%2 == 0
				if ignored {
					buf = append(buf, "/public/"...)
				} else {
					buf = append(buf, "/app/"...)
				}
				for k := 6 + r.intn(8); k > 0; k-- {
					buf = append(buf, alphabet[r.intn(len(alphabet))])
				}
				u.Path = string(buf)
				got := a.NeedsLogin(req, false)
				if got == ignored { // an ignored path needs no login; every other path does
					mu.Lock()
					if len(misses) < 5 {
						misses = append(misses, miss{u.Path, got, i})
					}
					mu.Unlock()
				}
			}
			mu.Lock()
			total += perWorker
			mu.Unlock()
		}()
	}
	wg.Wait()
	first, fresh := "", false
	if len(misses) > 0 {
		first = misses[0].path
		if a, err := autologin.New(&config.Config{AutoLogin: true, AutoLoginIgnorePaths: pats}); err == nil {
			fresh = a.NeedsLogin(&http.Request{URL: &url.URL{Path: first}}, false)
		}
	}
	got := false
	if len(misses) > 0 {
		got = misses[0].got
	}
	c.count("cachesound")
	c.emit("cachesound", "pats", pats, "n", total, "mismatches", len(misses), "path", hx(first), "got", got, "fresh", fresh)
}
