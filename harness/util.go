//go:build verif

package main

import (
	"encoding/hex"
	"encoding/json"
	"fmt"
	"math/big"
	"os"
	"strconv"
	"time"
)

// splitmix64: every random choice of a run derives from VERIF_SEED, so a disagreement replays exactly.
type rng struct{ s uint64 }

func newRng(seed uint64) *rng { return &rng{s: seed*0x9E3779B97F4A7C15 + 0x1234567} }
func (r *rng) next() uint64 {
	r.s += 0x9E3779B97F4A7C15
	z := r.s
	z = (z ^ (z >> 30)) * 0xBF58476D1CE4E5B9
	z = (z ^ (z >> 27)) * 0x94D049BB133111EB
	return z ^ (z >> 31)
}
func (r *rng) intn(n int) int {
	if n <= 0 {
		return 0
	}
	return int(r.next() % uint64(n))
}
func (r *rng) chance(num, den int) bool { return r.intn(den) < num }
func pick[T any](r *rng, xs []T) T      { return xs[r.intn(len(xs))] }

type hexstr string // emitted hex-encoded (byte exact)

func hx(s string) hexstr { return hexstr(s) }

var goZeroToUnix = big.NewInt(62135596800) // seconds from 0001-01-01 to 1970-01-01

// tns renders a time as ns since Go's zero time (so IsZero <-> 0), exactly.
func tns(t time.Time) string {
	if t.IsZero() {
		return "0"
	}
	s := new(big.Int).Add(big.NewInt(t.Unix()), goZeroToUnix)
	s.Mul(s, big.NewInt(1000000000))
	s.Add(s, big.NewInt(int64(t.Nanosecond())))
	return s.String()
}

func fmtVal(v any) string {
	switch x := v.(type) {
	case hexstr:
		return "x" + hex.EncodeToString([]byte(x))
	case string:
		return x
	case int:
		return strconv.Itoa(x)
	case int64:
		return strconv.FormatInt(x, 10)
	case uint64:
		return strconv.FormatUint(x, 10)
	case bool:
		if x {
			return "1"
		}
		return "0"
	case time.Time:
		return tns(x)
	case time.Duration:
		return strconv.FormatInt(int64(x), 10)
	case []string:
		s := ""
		for i, e := range x {
			if i > 0 {
				s += ","
			}
			s += "x" + hex.EncodeToString([]byte(e))
		}
		if s == "" {
			return "-"
		}
		return s
	}
	return fmt.Sprint(v)
}

func writeJSON(path string, v any) {
	b, _ := json.MarshalIndent(v, "", " ")
	os.WriteFile(path, b, 0o644)
}
