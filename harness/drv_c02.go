//go:build verif

package main

import (
	"sync"
	"time"
	"encoding/base64"
	"encoding/json"
	"net/http"
	"net/url"
	"sort"
	"strings"

	"github.com/nais/wonderwall/internal/crypto"
	"github.com/nais/wonderwall/pkg/cookie"
	"github.com/nais/wonderwall/pkg/openid"
)

// Driver "c02": the callback lattice {login-cookie condition} x {state} x {code} x {error} x {iss} x {iss supported} against the real
// handler; observation = token-endpoint request log (code, verifier, redirect_uri), store key set before/after, Set-Cookie names, status.
func init() { register("c02", "login callback gate: cookie x state x code x error x iss lattice (C02)", runC02) }

type attempt struct {
	b      *browser
	cookie string // login cookie value
	state  string
	code   string
}

func (s *sut) newAttempt(rp *replica, base string) *attempt {
	b := newBrowser()
	r1 := b.do(rp, "GET", base+"/oauth2/login", http.Header{"Sec-Fetch-Mode": {"navigate"}, "Sec-Fetch-Dest": {"document"}})
	lu, err := url.Parse(r1.Location)
	if err != nil || r1.Status != 302 {
		panic("login failed")
	}
	code, req, err := s.idp.authorize(lu)
	if err != nil {
		panic(err)
	}
	return &attempt{b: b, cookie: b.get(cookie.Login).Value, state: req.State, code: code}
}

// c02Race: the authorization code of attempt A is presented by browser B - with B's OWN login cookie and state, so B's browser-side checks pass - WHILE A's
// redemption of that code is still in flight at the provider. B may only ever obtain a session through a redemption carrying the verifier bound in B's cookie
// (which the provider refuses: the code belongs to A's challenge); it must not ride on A's redemption. Executed on the schedule executor: the provider call is a
// scheduling point.
func c02Race(c *ctx) {
	for _, order := range []string{"A-parked-then-B", "B-parked-then-A"} {
		s := newSut(sutOpts{sidRequired: true})
		rp := s.replica("A")
		base := "http://wonderwall"
		a, b := s.newAttempt(rp, base), s.newAttempt(rp, base)
		sc := newScheduler(s)
		sc.blockAfter = 300 * time.Millisecond
		nav := http.Header{"Sec-Fetch-Mode": {"navigate"}, "Sec-Fetch-Dest": {"document"}}
		sc.spawn("A", rp, a.b, "GET", base+"/oauth2/callback?"+url.Values{"code": {a.code}, "state": {a.state}}.Encode(), nav)
		sc.spawn("B", rp, b.b, "GET", base+"/oauth2/callback?"+url.Values{"code": {a.code}, "state": {b.state}}.Encode(), nav)
		nc := s.idp.callCount()
		first, second := "A", "B"
		if order == "B-parked-then-A" {
			first, second = "B", "A"
		}
		sc.step(first, stepProceed)  // START: runs into its token request, which is parked
		sc.step(second, stepProceed) // START: parks at its own token request - or waits inside the replica for the other one's
		sc.step(first, stepProceed)  // the provider answers the first
		sc.drain(40)
		sc.stop()
		calls := s.idp.callsSince(nc)
		verA, verB := loginCookieVerifier(s, a.cookie), loginCookieVerifier(s, b.cookie)
		nA, nB, okB := 0, 0, 0
		for _, cl := range calls {
			if cl.Verifier == verA {
				nA++
			}
			if cl.Verifier == verB {
				nB++
				if cl.Outcome == "ok" {
					okB++
				}
			}
		}
		c.count("race:" + order)
		c.emit("cbrace", "order", order, "astatus", sc.status("A"), "bstatus", sc.status("B"), "asession", a.b.get(cookie.Session) != nil, "bsession", b.b.get(cookie.Session) != nil,
			"callsa", nA, "callsb", nB, "okb", okB, "trace", sc.fullTrace())
		s.close()
	}
}

func loginCookieVerifier(s *sut, v string) string {
	raw, err := base64.RawURLEncoding.DecodeString(v)
	if err != nil {
		return ""
	}
	pt, err := s.crypter.Decrypt(raw)
	if err != nil {
		return ""
	}
	var lc openid.LoginCookie
	json.Unmarshal(pt, &lc)
	return lc.CodeVerifier
}

// c02Burst: many callbacks of DIFFERENT browsers at the same moment on one replica. Every token request the provider sees must carry the code, the verifier
// and the redirect URI of ONE attempt (those bound in that browser's cookie), every code is redeemed once, every browser ends up with its own session.
func c02Burst(c *ctx) {
	rounds := 3
	if c.thorough() {
		rounds = 12
	}
	// first: pairs whose second callback starts a little after the first (inside the time the first spends signing its client assertion), then the bursts
	type shape struct {
		n       int
		stagger time.Duration
	}
	var shapes []shape
	for round := 0; round < rounds; round++ {
		for _, st := range []time.Duration{100 * time.Microsecond, 300 * time.Microsecond, 600 * time.Microsecond, 1200 * time.Microsecond} {
			shapes = append(shapes, shape{2, st})
		}
	}
	for round := 0; round < rounds; round++ {
		shapes = append(shapes, shape{24, 0})
	}
	for _, sh := range shapes {
		c.flush() // a data race inside the implementation can bring the whole process down: keep what was observed so far
		s := newSut(sutOpts{sidRequired: true, ingresses: []string{"http://wonderwall", "http://other.example"}})
		rp := s.replica("A")
		n := sh.n
		atts := make([]*attempt, n)
		bases := make([]string, n)
		codeOf, verOf := map[string]int{}, map[string]int{}
		for i := range atts {
			bases[i] = "http://wonderwall"
			if i%3 == 2 {
				bases[i] = "http://other.example" // another redirect URI is bound in this attempt's cookie
			}
			atts[i] = s.newAttempt(rp, bases[i])
			codeOf[atts[i].code] = i
			verOf[loginCookieVerifier(s, atts[i].cookie)] = i
		}
		nc := s.idp.callCount()
		nav := http.Header{"Sec-Fetch-Mode": {"navigate"}, "Sec-Fetch-Dest": {"document"}}
		statuses := make([]int, n)
		var wg sync.WaitGroup
		start := make(chan struct{})
		for i := range atts {
			wg.Add(1)
			go func() {
				defer wg.Done()
				<-start
				time.Sleep(time.Duration(i) * sh.stagger)
				r := atts[i].b.do(rp, "GET", bases[i]+"/oauth2/callback?"+url.Values{"code": {atts[i].code}, "state": {atts[i].state}}.Encode(), nav)
				statuses[i] = r.Status
			}()
		}
		close(start)
		wg.Wait()
		mixed, dup, sessions, redirMixed := 0, 0, 0, 0
		seen := map[string]int{}
		for _, cl := range s.idp.callsSince(nc) {
			if cl.Grant != "authorization_code" {
				continue
			}
			ci, okc := codeOf[cl.Code]
			vi, okv := verOf[cl.Verifier]
			if !okc || !okv || ci != vi {
				mixed++
			} else if !strings.HasPrefix(cl.RedirectURI, bases[ci]+"/") {
				redirMixed++
			}
			seen[cl.Code]++
			if seen[cl.Code] == 2 {
				dup++
			}
		}
		for i := range atts {
			if atts[i].b.get(cookie.Session) != nil {
				sessions++
			}
		}
		c.count("burst")
		c.emit("cbburst", "n", n, "staggerus", int64(sh.stagger/time.Microsecond), "mixed", mixed, "redirmixed", redirMixed, "dup", dup, "sessions", sessions, "redeemed", len(seen))
		s.close()
	}
}

func runC02(c *ctx) {
	c02Race(c)
	c02Burst(c)
	r := c.rng
	otherKey := crypto.NewCrypter([]byte("0123456789abcdef0123456789abcdef"))
	kinds := []string{"own", "absent", "notbase64", "truncated", "bitflip", "otherkey", "otherattempt", "logoutcipher", "sessioncipher", "plaintext", "empty"}
	qstates := []string{"equal", "absent", "empty", "other", "garbage", "cookie"}
	qcodes := []string{"valid", "absent", "empty", "othercode"}
	qerrors := []string{"", "access_denied"}
	qisses := []string{"absent", "equal", "different"}
	for _, issSup := range []bool{false, true} {
		// several ingresses: the callback may arrive through another ingress (path prefix / forwarded host) than the login that minted the cookie;
		// the code must still be redeemed with the redirect URI BOUND IN THE COOKIE
		s := newSut(sutOpts{issParam: issSup, sidRequired: true, ingresses: []string{"http://other.example", "http://wonderwall", "http://wonderwall/app"}})
		rp := s.replica("A")
		base := "http://wonderwall"
		// a logged-in browser (session cookie ciphertext) and a logout cookie
		sb := newBrowser()
		if _, err := s.login(sb, rp, base, ""); err != nil {
			panic(err)
		}
		sessionCipher := sb.get(cookie.Session).Value
		sessKey := s.ticketOf(sb).Key()
		sessVal, _ := s.mr.Get(sessKey)
		lb := newBrowser()
		lr := lb.do(rp, "GET", base+"/oauth2/logout", http.Header{"Sec-Fetch-Mode": {"navigate"}, "Sec-Fetch-Dest": {"document"}})
		logoutCipher := lb.get(cookie.Logout).Value
		lu, _ := url.Parse(lr.Location)
		logoutState := lu.Query().Get("state")
		for _, kind := range kinds {
			for _, qs := range qstates {
				for _, qc := range qcodes {
					for _, qe := range qerrors {
						for _, qi := range qisses {
							// thin the full product in the quick tier (all single and pairwise deviations stay)
							dev := 0
							for _, d := range []bool{kind != "own", qs != "equal", qc != "valid", qe != "", qi != map[bool]string{true: "equal", false: "absent"}[issSup]} {
								if d {
									dev++
								}
							}
							if !c.thorough() && dev > 2 && !r.chance(1, 12) {
								continue
							}
							a := s.newAttempt(rp, base)
							o := s.newAttempt(rp, base)
							val := ""
							switch kind {
							case "own":
								val = a.cookie
							case "absent":
							case "empty":
								val = ""
							case "notbase64":
								val = "%%%not-base64%%%"
							case "truncated":
								val = a.cookie[:20]
							case "bitflip":
								raw, _ := base64.RawURLEncoding.DecodeString(a.cookie)
								raw[len(raw)/2] ^= 1
								val = base64.RawURLEncoding.EncodeToString(raw)
							case "otherkey":
								pt, _ := json.Marshal(openid.LoginCookie{State: a.state, CodeVerifier: "v", Nonce: "n", RedirectURI: base + "/oauth2/callback"})
								ct, _ := otherKey.Encrypt(pt)
								val = base64.RawURLEncoding.EncodeToString(ct)
							case "otherattempt":
								val = o.cookie
							case "logoutcipher":
								val = logoutCipher
							case "sessioncipher":
								val = sessionCipher
							case "plaintext":
								pt, _ := json.Marshal(openid.LoginCookie{State: a.state, CodeVerifier: "v", Nonce: "n", RedirectURI: base + "/oauth2/callback"})
								val = base64.RawURLEncoding.EncodeToString(pt)
							}
							// what the presented value decrypts to under the deployment key (harness-side, for the oracle)
							var lc openid.LoginCookie
							dec := "undecryptable"
							if kind == "absent" {
								dec = "absent"
							} else if raw, err := base64.RawURLEncoding.DecodeString(val); err == nil {
								if pt, err := s.crypter.Decrypt(raw); err == nil && json.Unmarshal(pt, &lc) == nil {
									dec = "authentic"
								}
							}
							q := url.Values{}
							qstate := ""
							switch qs {
							case "equal":
								qstate = a.state
							case "empty":
								q.Set("state", "")
							case "other":
								qstate = o.state
							case "garbage":
								qstate = "zzz"
							case "cookie": // whatever state the presented cookie carries (the attacker knows the logout state)
								qstate = lc.State
								if kind == "logoutcipher" {
									qstate = logoutState
								}
							}
							if qstate != "" {
								q.Set("state", qstate)
							}
							qcode := ""
							switch qc {
							case "valid":
								qcode = a.code
							case "empty":
								q.Set("code", "")
							case "othercode":
								qcode = o.code
							}
							if qcode != "" {
								q.Set("code", qcode)
							}
							if qe != "" {
								q.Set("error", qe)
							}
							qiss := ""
							switch qi {
							case "equal":
								qiss = s.idp.issuer
							case "different":
								qiss = "https://evil.example"
							}
							if qiss != "" {
								q.Set("iss", qiss)
							}
							b := newBrowser()
							if kind != "absent" {
								b.jar = append(b.jar, jarCookie{Name: cookie.Login, Value: val, Domain: "wonderwall", Path: "/", HostOnly: true})
							}
							// the browser may also still hold a valid session of an earlier login: a callback that fails a check must leave that store entry alone too
							withSession := dev <= 1 || r.chance(1, 2)
							if withSession {
								b.jar = append(b.jar, jarCookie{Name: cookie.Session, Value: sessionCipher, Domain: "wonderwall", Path: "/", HostOnly: true})
								if !s.mr.Exists(sessKey) { // (a changed tree may have removed it in an earlier case: every case starts from a live session)
									s.mr.Set(sessKey, sessVal)
									s.mr.SetTTL(sessKey, time.Hour)
								}
							}
							keysBefore := s.mr.Keys()
							nc := s.idp.callCount()
							cbBase, cbHdr := base, http.Header{"Sec-Fetch-Mode": {"navigate"}, "Sec-Fetch-Dest": {"document"}}
							via := "same"
							if dev <= 1 || r.chance(1, 6) {
								switch r.intn(3) {
								case 1:
									via, cbBase = "prefix", base+"/app"
								case 2:
									via = "xfh"
									cbHdr.Set("X-Forwarded-Host", "other.example")
								}
							}
							resp := b.do(rp, "GET", cbBase+"/oauth2/callback?"+q.Encode(), cbHdr)
							calls := s.idp.callsSince(nc)
							keysAfter := s.mr.Keys()
							sort.Strings(keysBefore)
							sort.Strings(keysAfter)
							sentCode, sentVer, sentRedir := "", "", ""
							if len(calls) > 0 {
								sentCode, sentVer, sentRedir = calls[0].Code, calls[0].Verifier, calls[0].RedirectURI
							}
							sessSet, loginCleared := false, false
							for _, ck := range resp.Cookies {
								if ck.Name == cookie.Session && ck.MaxAge >= 0 && ck.Value != "" {
									sessSet = true
								}
								if ck.Name == cookie.Login && ck.MaxAge < 0 {
									loginCleared = true
								}
							}
							minted := map[string]string{"own": "login", "otherattempt": "login", "logoutcipher": "logout", "sessioncipher": "session"}[kind]
							c.count("kind:" + kind)
							c.emit("cb", "isssup", issSup, "issuer", hx(s.idp.issuer), "kind", kind, "dec", dec, "minted", minted,
								"cstate", hx(lc.State), "cverifier", hx(lc.CodeVerifier), "credirect", hx(lc.RedirectURI), "cnonce", hx(lc.Nonce),
								"qstate", hx(q.Get("state")), "qcode", hx(q.Get("code")), "qerror", hx(q.Get("error")), "qiss", hx(q.Get("iss")),
								"status", resp.Status, "calls", len(calls), "sentcode", hx(sentCode), "sentverifier", hx(sentVer), "sentredirect", hx(sentRedir),
								"storechanged", strings.Join(keysBefore, ",") != strings.Join(keysAfter, ","), "sesscookie", sessSet, "logincleared", loginCleared,
								"via", via, "withsession", withSession, "cls", kind+"/"+qs+"/"+qc+"/"+qe+"/"+qi+"/"+fmtVal(issSup)+"/"+via)
						}
					}
				}
			}
		}
		s.close()
	}
}
