//go:build verif

package main

import (
	"net/url"
	"bytes"
	"encoding/base64"
	"encoding/json"
	"fmt"
	"net"
	"net/http"
	"net/http/httptest"
	"os"
	"os/exec"
	"strings"
	"sync"
	"time"

	"github.com/alicebob/miniredis/v2"
)

// Driver "c20": the REAL binary (built from the working tree) is launched with generated combinations of settings - supplied as flags or as
// WONDERWALL_* environment variables - against a loopback discovery document, JWKS and Redis; observation: does it accept TCP connections on its
// bind address (started) or exit before listening. The same launches feed the start-up log scan of C18.
func init() { register("c20", "start-up: real binary x configuration combinations (C20, start-up part of C18)", runC20) }

type startCase struct {
	key          string // absent | ok | short | notb64 | crlf
	ingress      string // https | http-localhost | absent | ftp | garbage | nohost | https+localhost
	clientID     bool
	jwk          string // valid | absent | malformed
	secret       bool
	wellKnown    string // ok | absent | unreachable
	mode         string // standalone | server | proxy | badmode
	redis        string // none | ok | unreachable
	cookieName   bool
	serverURL    string // ok | bad
	domain       bool
	defaultURL   string // ok | bad
	secure       bool
	sameSite     string // Lax | Bogus
	upstream     string // none | both | iponly | portonly | port70000 | portneg
	shutdown     string // ok | equal | less
	alg          string // RS256 | BOGUS | ES256
	acr          string // none | supported | legacy | unsupported
	locale       string // none | supported | unsupported
	viaEnv       bool
	redisSecret  string // how a Redis password is supplied (C18): none | flag | env | uri
	disco        string // shape of the discovery document: ok | noacr | emptyacr | nolocale | noalg
	provider     string // openid | idporten | azure (provider flavours: other env names and - for idporten - defaults; the same completeness rules)
}

func baseCase() startCase {
	return startCase{key: "ok", ingress: "https", clientID: true, jwk: "valid", wellKnown: "ok", mode: "standalone", redis: "none", cookieName: true, serverURL: "ok", domain: true,
		defaultURL: "ok", secure: true, sameSite: "Lax", upstream: "none", shutdown: "ok", alg: "RS256", acr: "none", locale: "none", redisSecret: "none", disco: "ok", provider: "openid"}
}

var c20Dims = []struct {
	name string
	vals []string
}{
	{"key", []string{"absent", "short", "notb64", "crlf", "short31", "long33", "long64"}},
	{"ingress", []string{"http-localhost", "absent", "ftp", "garbage", "nohost", "nohost-oneslash", "valid+nohost", "https+localhost", "http-localhost-upper", "http-localhost-prefix", "http-localhost+prefix", "http-remote"}},
	{"clientID", []string{"false"}}, {"jwk", []string{"absent", "malformed"}}, {"secret", []string{"true"}}, {"wellKnown", []string{"absent", "unreachable"}},
	{"mode", []string{"server", "proxy", "badmode"}}, {"redis", []string{"ok", "unreachable"}}, {"cookieName", []string{"false"}}, {"serverURL", []string{"bad"}},
	{"domain", []string{"false"}}, {"defaultURL", []string{"bad"}}, {"secure", []string{"false"}}, {"sameSite", []string{"Bogus"}},
	{"upstream", []string{"both", "iponly", "portonly", "port70000", "portneg"}}, {"shutdown", []string{"equal", "less"}}, {"alg", []string{"BOGUS", "ES256"}},
	{"acr", []string{"supported", "legacy", "unsupported"}}, {"locale", []string{"supported", "unsupported"}}, {"redisSecret", []string{"flag", "env", "uri", "uri-enc", "uri-dup", "flag-special", "env-special"}},
	{"disco", []string{"noacr", "emptyacr", "nolocale", "noalg"}},
	{"provider", []string{"idporten", "azure"}},
}

func (sc *startCase) set(name, v string) {
	b := v == "true"
	switch name {
	case "key":
		sc.key = v
	case "ingress":
		sc.ingress = v
	case "clientID":
		sc.clientID = b
	case "jwk":
		sc.jwk = v
	case "secret":
		sc.secret = b
	case "wellKnown":
		sc.wellKnown = v
	case "mode":
		sc.mode = v
	case "redis":
		sc.redis = v
	case "cookieName":
		sc.cookieName = b
	case "serverURL":
		sc.serverURL = v
	case "domain":
		sc.domain = b
	case "defaultURL":
		sc.defaultURL = v
	case "secure":
		sc.secure = b
	case "sameSite":
		sc.sameSite = v
	case "upstream":
		sc.upstream = v
	case "shutdown":
		sc.shutdown = v
	case "alg":
		sc.alg = v
	case "acr":
		sc.acr = v
	case "locale":
		sc.locale = v
	case "redisSecret":
		sc.redisSecret = v
	case "disco":
		sc.disco = v
	case "provider":
		sc.provider = v
	}
}

var portMu sync.Mutex
var nextPort = 10000 + os.Getpid()%1000*20 // below the ephemeral range (32768+): a dial can then never self-connect

// freePort hands out each port at most once per harness process (parallel launches must never share a bind address).
func freePort() int {
	portMu.Lock()
	defer portMu.Unlock()
	for {
		nextPort++
		if nextPort > 32000 {
			nextPort = 10000
		}
		l, err := net.Listen("tcp", fmt.Sprintf("127.0.0.1:%d", nextPort))
		if err == nil {
			l.Close()
			return nextPort
		}
	}
}

const redisPassword = "r3d1s-p4ssw0rd-s3cr3t"
const clientSecretValue = "cl13nt-s3cr3t-v4lu3"
const redisPasswordSpecial = "p@ss/w:rd#1%+x"

func runC20(c *ctx) {
	r := c.rng
	bin := os.Getenv("VERIF_WW_BIN")
	if bin == "" {
		bin = "/verif/.build/wonderwall"
	}
	mr, err := miniredis.Run()
	if err != nil {
		panic(err)
	}
	defer mr.Close()
	mrAuth, _ := miniredis.Run()
	mrAuth.RequireAuth(redisPassword)
	defer mrAuth.Close()
	mrDup, _ := miniredis.Run()
	mrDup.RequireUserAuth(redisPassword, redisPassword)
	defer mrDup.Close()
	mrSpecial, _ := miniredis.Run()
	mrSpecial.RequireAuth(redisPasswordSpecial)
	defer mrSpecial.Close()
	idp := newFakeIdp()
	defer idp.close()
	disco := httptest.NewServer(http.HandlerFunc(func(w http.ResponseWriter, rq *http.Request) {
		doc := map[string]any{
			"issuer": idp.issuer, "authorization_endpoint": idp.srv.URL + "/authorize", "token_endpoint": idp.srv.URL + "/token", "jwks_uri": idp.srv.URL + "/jwks",
			"end_session_endpoint": idp.srv.URL + "/endsession", "acr_values_supported": []string{"idporten-loa-substantial", "idporten-loa-high"},
			"ui_locales_supported": []string{"nb", "en"}, "id_token_signing_alg_values_supported": []string{"RS256"},
		}
		switch strings.Trim(rq.URL.Path, "/") { // the member a provider may legitimately leave out
		case "noacr":
			delete(doc, "acr_values_supported")
		case "emptyacr":
			doc["acr_values_supported"] = []string{}
		case "nolocale":
			delete(doc, "ui_locales_supported")
		case "noalg":
			delete(doc, "id_token_signing_alg_values_supported")
		}
		json.NewEncoder(w).Encode(doc)
	}))
	defer disco.Close()
	if sharedClient == nil {
		s := newSut(sutOpts{})
		s.close()
	}
	jwkJSON, _ := json.Marshal(sharedClient.ClientJWK())
	key32 := base64.StdEncoding.EncodeToString([]byte("0123456789abcdef0123456789abcdef"))
	key16 := base64.StdEncoding.EncodeToString([]byte("0123456789abcdef"))
	keyN := func(n int) string { return base64.StdEncoding.EncodeToString([]byte(strings.Repeat("0123456789abcdef", 5)[:n])) }

	var cases []startCase
	cases = append(cases, baseCase())
	for _, d := range c20Dims {
		for _, v := range d.vals {
			sc := baseCase()
			sc.set(d.name, v)
			cases = append(cases, sc)
			// the same deviation in the two SSO modes with a store configured
			for _, m := range []string{"server", "proxy"} {
				if d.name == "mode" {
					continue
				}
				sc2 := baseCase()
				sc2.mode, sc2.redis = m, "ok"
				sc2.set(d.name, v)
				cases = append(cases, sc2)
			}
		}
	}
	// combinations in which two settings interact: insecure cookies x every ingress shape; configured acr / locale / algorithm x every discovery shape
	for _, ing := range c20Dims[1].vals {
		sc := baseCase()
		sc.secure = false
		sc.ingress = ing
		cases = append(cases, sc)
	}
	for _, dv := range []string{"ok", "noacr", "emptyacr", "nolocale", "noalg"} {
		for _, a := range []string{"supported", "legacy", "unsupported"} {
			sc := baseCase()
			sc.disco, sc.acr = dv, a
			cases = append(cases, sc)
		}
		for _, lc := range []string{"supported", "unsupported"} {
			sc := baseCase()
			sc.disco, sc.locale = dv, lc
			cases = append(cases, sc)
		}
		scp := baseCase() // an SSO proxy never reads the discovery document
		scp.mode, scp.redis, scp.disco, scp.acr = "proxy", "ok", dv, "supported"
		cases = append(cases, scp)
	}
	// every provider flavour x each thing that can be MISSING (client id, credentials, discovery URL) and x every discovery shape: the completeness rules are the
	// same whichever flavour is configured (only the environment names and, for idporten, the defaults differ)
	for _, pv := range []string{"idporten", "azure"} {
		for _, miss := range []string{"clientID", "jwk", "wellKnown", "wellKnownUnreachable"} {
			sc := baseCase()
			sc.provider = pv
			switch miss {
			case "clientID":
				sc.clientID = false
			case "jwk":
				sc.jwk = "absent"
			case "wellKnown":
				sc.wellKnown = "absent"
			case "wellKnownUnreachable":
				sc.wellKnown = "unreachable"
			}
			cases = append(cases, sc)
			sc.viaEnv = true
			cases = append(cases, sc)
		}
		for _, dv := range []string{"noacr", "emptyacr", "nolocale", "noalg"} {
			sc := baseCase()
			sc.provider, sc.disco = pv, dv
			cases = append(cases, sc)
		}
	}
	nPairs := 60
	if c.thorough() {
		nPairs = 1500
	}
	for i := 0; i < nPairs; i++ {
		sc := baseCase()
		for k := 2 + r.intn(2); k > 0; k-- {
			d := c20Dims[r.intn(len(c20Dims))]
			sc.set(d.name, pick(r, d.vals))
		}
		cases = append(cases, sc)
	}
	for i := range cases {
		cases[i].viaEnv = r.chance(1, 2)
	}
	var wg sync.WaitGroup
	sem := make(chan struct{}, 16)
	for _, sc := range cases {
		sc := sc
		wg.Add(1)
		sem <- struct{}{}
		go func() {
			defer wg.Done()
			defer func() { <-sem }()
			settings := map[string]string{}
			bind := fmt.Sprintf("127.0.0.1:%d", freePort())
			settings["bind-address"] = bind
			settings["metrics-bind-address"] = fmt.Sprintf("127.0.0.1:%d", freePort())
			settings["log-level"] = "debug"
			switch sc.key {
			case "ok":
				settings["encryption-key"] = key32
			case "short":
				settings["encryption-key"] = key16
			case "notb64":
				settings["encryption-key"] = "!!!not base64!!!"
			case "crlf":
				settings["encryption-key"] = "\r\n\r\n"
			case "short31":
				settings["encryption-key"] = keyN(31)
			case "long33":
				settings["encryption-key"] = keyN(33)
			case "long64":
				settings["encryption-key"] = keyN(64)
			}
			switch sc.ingress {
			case "https":
				settings["ingress"] = "https://app.example.com"
			case "http-localhost":
				settings["ingress"] = "http://localhost:3000"
			case "ftp":
				settings["ingress"] = "ftp://app.example.com"
			case "garbage":
				settings["ingress"] = "app.example.com/no-scheme"
			case "nohost":
				settings["ingress"] = "https:///path-only"
			case "nohost-oneslash":
				settings["ingress"] = "https:/app.example.com"
			case "valid+nohost":
				settings["ingress"] = "https://app.example.com,http:///"
			case "https+localhost":
				settings["ingress"] = "https://app.example.com,http://localhost:3000"
			case "http-localhost-upper":
				settings["ingress"] = "http://LocalHost:8080"
			case "http-localhost-prefix":
				settings["ingress"] = "http://localhost.example.com"
			case "http-localhost+prefix":
				settings["ingress"] = "http://localhost:3000,http://localhost.nais.io"
			case "http-remote":
				settings["ingress"] = "http://app.example.com"
			}
			if sc.clientID {
				settings["openid.client-id"] = "client-id"
			}
			switch sc.jwk {
			case "valid":
				settings["openid.client-jwk"] = string(jwkJSON)
			case "malformed":
				settings["openid.client-jwk"] = `{"kty":"RSA","n":"broken`
			}
			if sc.secret {
				settings["openid.client-secret"] = clientSecretValue
			}
			switch sc.wellKnown {
			case "ok":
				settings["openid.well-known-url"] = disco.URL + "/" + sc.disco
			case "unreachable":
				settings["openid.well-known-url"] = "http://127.0.0.1:1/.well-known/openid-configuration"
			}
			switch sc.mode {
			case "server":
				settings["sso.enabled"], settings["sso.mode"] = "true", "server"
			case "proxy":
				settings["sso.enabled"], settings["sso.mode"] = "true", "proxy"
			case "badmode":
				settings["sso.enabled"], settings["sso.mode"] = "true", "both"
			}
			if sc.mode != "standalone" {
				if sc.cookieName {
					settings["sso.session-cookie-name"] = "sso.session"
				}
				if sc.serverURL == "ok" {
					settings["sso.server-url"] = "https://sso.example.com"
				} else {
					settings["sso.server-url"] = "sso.example.com"
				}
				if sc.domain {
					settings["sso.domain"] = "example.com"
				}
				if sc.defaultURL == "ok" {
					settings["sso.server-default-redirect-url"] = "https://www.example.com"
				} else {
					settings["sso.server-default-redirect-url"] = "www.example.com"
				}
			}
			redisAddr := ""
			switch sc.redis {
			case "ok":
				redisAddr = mr.Addr()
			case "unreachable":
				redisAddr = "127.0.0.1:1"
			}
			secretsGiven := []string{}
			switch sc.redisSecret {
			case "flag", "env":
				if redisAddr == "" || sc.redis == "ok" {
					redisAddr = mrAuth.Addr()
				}
				settings["redis.password"] = redisPassword
				secretsGiven = append(secretsGiven, redisPassword)
			case "flag-special", "env-special": // address + password settings, the password has characters that mean something inside a URI
				redisAddr = mrSpecial.Addr()
				settings["redis.password"] = redisPasswordSpecial
				secretsGiven = append(secretsGiven, redisPasswordSpecial, url.QueryEscape(redisPasswordSpecial), url.PathEscape(redisPasswordSpecial))
			case "uri":
				settings["redis.uri"] = "redis://:" + redisPassword + "@" + mrAuth.Addr()
				secretsGiven = append(secretsGiven, redisPassword)
				redisAddr = ""
			case "uri-enc": // a generated password with characters that must be percent-encoded inside a URI
				settings["redis.uri"] = "redis://:" + url.QueryEscape(redisPasswordSpecial) + "@" + mrSpecial.Addr()
				secretsGiven = append(secretsGiven, redisPasswordSpecial, url.QueryEscape(redisPasswordSpecial), url.PathEscape(redisPasswordSpecial))
				redisAddr = ""
			case "uri-dup": // user name equal to the password: the secret's text occurs twice in the URI
				settings["redis.uri"] = "redis://" + redisPassword + ":" + redisPassword + "@" + mrDup.Addr()
				secretsGiven = append(secretsGiven, ":"+redisPassword+"@")
				redisAddr = ""
			}
			if redisAddr != "" {
				settings["redis.address"] = redisAddr
				settings["redis.tls"] = "false"
			}
			if !sc.secure {
				settings["cookie.secure"] = "false"
			}
			settings["cookie.same-site"] = sc.sameSite
			switch sc.upstream {
			case "both":
				settings["upstream-ip"], settings["upstream-port"] = "127.0.0.1", "8081"
			case "iponly":
				settings["upstream-ip"] = "127.0.0.1"
			case "portonly":
				settings["upstream-port"] = "8081"
			case "port70000":
				settings["upstream-ip"], settings["upstream-port"] = "127.0.0.1", "70000"
			case "portneg":
				settings["upstream-ip"], settings["upstream-port"] = "127.0.0.1", "-5"
			}
			switch sc.shutdown {
			case "equal":
				settings["shutdown-graceful-period"], settings["shutdown-wait-before-period"] = "5s", "5s"
			case "less":
				settings["shutdown-graceful-period"], settings["shutdown-wait-before-period"] = "2s", "5s"
			}
			settings["openid.id-token-signing-alg"] = sc.alg
			if sc.provider != "" && sc.provider != "openid" {
				settings["openid.provider"] = sc.provider
			}
			switch sc.acr {
			case "supported":
				settings["openid.acr-values"] = "idporten-loa-high"
			case "legacy":
				settings["openid.acr-values"] = "Level3"
			case "unsupported":
				settings["openid.acr-values"] = "Level9"
			}
			switch sc.locale {
			case "supported":
				settings["openid.ui-locales"] = "en"
			case "unsupported":
				settings["openid.ui-locales"] = "xx"
			}
			secretsGiven = append(secretsGiven, key32, clientSecretValue)
			var jw map[string]any
			json.Unmarshal(jwkJSON, &jw)
			for _, m := range []string{"d", "p", "q", "dp", "dq", "qi"} {
				if v, ok := jw[m].(string); ok {
					secretsGiven = append(secretsGiven, v)
				}
			}
			var args []string
			env := []string{"PATH=" + os.Getenv("PATH"), "HOME=/tmp"}
			for k, v := range settings {
				viaEnv := sc.viaEnv
				if k == "redis.password" {
					viaEnv = strings.HasPrefix(sc.redisSecret, "env")
				}
				if viaEnv && k != "bind-address" && k != "metrics-bind-address" {
					env = append(env, "WONDERWALL_"+strings.ToUpper(strings.NewReplacer(".", "_", "-", "_").Replace(k))+"="+v)
				} else {
					args = append(args, "--"+k+"="+v)
				}
			}
			cmd := exec.Command(bin, args...)
			cmd.Env = env
			var out bytes.Buffer
			cmd.Stdout, cmd.Stderr = &out, &out
			if err := cmd.Start(); err != nil {
				panic(err)
			}
			exited := make(chan error, 1)
			go func() { exited <- cmd.Wait() }()
			listening, exitCode := false, -1
			deadline := time.Now().Add(4 * time.Second)
		loop:
			for time.Now().Before(deadline) {
				select {
				case err := <-exited:
					exitCode = 0
					if ee, ok := err.(*exec.ExitError); ok {
						exitCode = ee.ExitCode()
					} else if err != nil {
						exitCode = 1
					}
					break loop
				default:
				}
				// "listening" = THIS wonderwall answers an HTTP request on its bind address (its /oauth2/ping says pong) - the endpoint lives under the path
				// prefix of each configured ingress, whatever else that ingress looks like
				hc := &http.Client{Timeout: 300 * time.Millisecond}
				pingPaths := []string{"/oauth2/ping"}
				for _, in := range strings.Split(settings["ingress"], ",") {
					if iu, err := url.Parse(strings.TrimSpace(in)); err == nil && strings.Trim(iu.Path, "/") != "" {
						pingPaths = append(pingPaths, "/"+strings.Trim(iu.Path, "/")+"/oauth2/ping")
					}
				}
				for _, pp := range pingPaths {
					if resp, err := hc.Get("http://" + bind + pp); err == nil {
						buf := make([]byte, 8)
						n, _ := resp.Body.Read(buf)
						resp.Body.Close()
						if resp.StatusCode == 200 && string(buf[:n]) == "pong" {
							listening = true
						}
					}
				}
				if listening {
					break
				}
				time.Sleep(20 * time.Millisecond)
			}
			if exitCode == -1 {
				cmd.Process.Kill()
				<-exited
			}
			logs := out.String()
			if listening && !strings.Contains(logs, "server: listening on "+bind) {
				listening = false // something answered, but it was not this process
				c.count("listening-without-banner")
			}
			leak := ""
			for _, sec := range secretsGiven {
				if sec != "" && strings.Contains(logs, sec) {
					switch sec {
					case redisPassword, ":" + redisPassword + "@", redisPasswordSpecial, url.QueryEscape(redisPasswordSpecial), url.PathEscape(redisPasswordSpecial):
						leak = "redis_password_via_" + sc.redisSecret
					case key32:
						leak = "encryption_key"
					case clientSecretValue:
						leak = "client_secret"
					default:
						leak = "client_jwk_private_member"
					}
				}
			}
			// the ID-porten flavour configures a default level (idporten-loa-high) and locale (nb) when none is given: the discovery document must then support THOSE
			effAcr, effLocale := sc.acr, sc.locale
			if sc.provider == "idporten" {
				if effAcr == "none" {
					effAcr = "supported"
				}
				if effLocale == "none" {
					effLocale = "supported"
				}
			}
			c.count("start:" + fmtVal(listening))
			c.emit("start20", "key", sc.key, "ingress", sc.ingress, "clientid", sc.clientID, "jwk", sc.jwk, "secret", sc.secret, "wellknown", sc.wellKnown, "mode", sc.mode, "redis", sc.redis,
				"cookiename", sc.cookieName, "serverurl", sc.serverURL, "domain", sc.domain, "defaulturl", sc.defaultURL, "secure", sc.secure, "samesite", sc.sameSite, "upstream", sc.upstream,
				"shutdown", sc.shutdown, "alg", sc.alg, "acr", effAcr, "locale", effLocale, "provider", sc.provider, "viaenv", sc.viaEnv, "redissecret", sc.redisSecret, "disco", sc.disco,
				"listening", listening, "exitcode", exitCode, "leak", hx(leak), "loglen", len(logs))
		}()
	}
	wg.Wait()
}
