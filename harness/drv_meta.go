//go:build verif

package main

import (
	"errors"
	"testing/synctest"
	"time"

	"github.com/nais/wonderwall/pkg/session"
)

// Driver "meta": exact-boundary evaluation of every exported Metadata/Data method of pkg/session inside a
// synctest bubble (time.Now() is frozen at 2000-01-01T00:00:00Z, ns precision). The same lines are evaluated by the
// Lean functions REGENERATED from data.go (tie G is thereby also covered by H) and by the C06/C08 Spec.
func init() {
	register("meta", "pkg/session Metadata/Data methods on a boundary grid + random points (synctest)", runMeta)
}

var lifetimes = []time.Duration{0, time.Second, 59 * time.Second, 60 * time.Second, 61 * time.Second, 119 * time.Second,
	120 * time.Second, 121 * time.Second, 299 * time.Second, 300 * time.Second, 301 * time.Second, 10 * time.Minute, time.Hour, 10 * time.Hour}
var inactivities = []time.Duration{0, 30 * time.Second, 5 * time.Minute, 30 * time.Minute, 2 * time.Hour}
var offsets = []time.Duration{-time.Second, -1, 0, 1, time.Second}
var landmarks = []string{"refreshed", "cooldown", "halflife", "leeway", "expire", "timeout", "end"}

func errList(err error) []string {
	var out []string
	if err == nil {
		return out
	}
	for _, s := range []struct {
		e error
		n string
	}{{session.ErrInvalid, "ErrInvalid"}, {session.ErrInactive, "ErrInactive"}, {session.ErrInvalidExternal, "ErrInvalidExternal"}, {session.ErrNotFound, "ErrNotFound"}} {
		if errors.Is(err, s.e) {
			out = append(out, s.n)
		}
	}
	if len(out) == 0 {
		out = append(out, "other")
	}
	return out
}

func emitMeta(c *ctx, m session.Metadata, access, refresh bool) {
	d := session.Data{Metadata: m}
	if access {
		d.AccessToken = "a"
	}
	if refresh {
		d.RefreshToken = "r"
	}
	now := time.Now()
	v := m.Verbose()
	c.emit("meta",
		"now", now, "created", m.Session.CreatedAt, "ends", m.Session.EndsAt, "timeout", m.Session.TimeoutAt,
		"expire", m.Tokens.ExpireAt, "refreshed", m.Tokens.RefreshedAt, "access", access, "refresh", refresh,
		"isEnded", m.IsEnded(), "isExpired", m.IsExpired(), "isTimedOut", m.IsTimedOut(), "onCooldown", m.IsRefreshOnCooldown(),
		"shouldRefresh", m.ShouldRefresh(), "nextRefresh", m.NextRefresh(), "cooldown", m.RefreshCooldown(), "lifetime", m.TokenLifetime(),
		"validate", errList(d.Validate()), "hasActive", d.HasActiveAccessToken(),
		"vEndsIn", v.Session.EndsInSeconds, "vActive", v.Session.Active, "vTimeoutIn", v.Session.TimeoutInSeconds,
		"vExpireIn", v.Tokens.ExpireInSeconds, "vNextAuto", v.Tokens.NextAutoRefreshInSeconds, "vCooldown", v.Tokens.RefreshCooldown,
		"vCooldownSecs", v.Tokens.RefreshCooldownSeconds)
}

func runMeta(c *ctx) {
	synctest.Run(func() {
		now := time.Now()
		mk := func(refreshed time.Time, L, inact, age, maxLife time.Duration) session.Metadata {
			m := session.Metadata{}
			m.Tokens.RefreshedAt = refreshed
			m.Tokens.ExpireAt = refreshed.Add(L)
			m.Session.CreatedAt = refreshed.Add(-age)
			m.Session.EndsAt = m.Session.CreatedAt.Add(maxLife)
			if inact > 0 {
				m.Session.TimeoutAt = refreshed.Add(inact)
				if m.Session.TimeoutAt.Before(m.Tokens.ExpireAt) {
					m.Tokens.ExpireAt = m.Session.TimeoutAt
				}
			}
			return m
		}
		// 1. exhaustive boundary grid
		for _, L := range lifetimes {
			for _, inact := range inactivities {
				for _, ageLife := range [][2]time.Duration{{0, time.Hour}, {50 * time.Minute, time.Hour}, {0, 10 * time.Hour}, {9*time.Hour + 59*time.Minute, 10 * time.Hour}} {
					probe := mk(now, L, inact, ageLife[0], ageLife[1])
					for _, lm := range landmarks {
						var pos time.Duration // landmark position relative to refreshed
						switch lm {
						case "refreshed":
							pos = 0
						case "cooldown":
							pos = probe.RefreshCooldown().Sub(now)
						case "halflife":
							if inact == 0 {
								continue
							}
							pos = inact / 2
						case "leeway":
							pos = probe.Tokens.ExpireAt.Sub(now) - session.RefreshLeeway
						case "expire":
							pos = probe.Tokens.ExpireAt.Sub(now)
						case "timeout":
							if inact == 0 {
								continue
							}
							pos = inact
						case "end":
							pos = probe.Session.EndsAt.Sub(now)
						}
						for _, off := range offsets {
							refreshed := now.Add(-pos - off)
							m := mk(refreshed, L, inact, ageLife[0], ageLife[1])
							c.count("grid:" + lm)
							emitMeta(c, m, true, true)
						}
					}
				}
			}
		}
		// 2. token presence x regions for Validate / HasActiveAccessToken
		for _, acc := range []bool{false, true} {
			for _, ref := range []bool{false, true} {
				for _, d := range []time.Duration{-time.Hour, -1, 0, 1, time.Hour} {
					m := mk(now.Add(-10*time.Minute), 20*time.Minute, 30*time.Minute, 0, time.Hour)
					m.Session.EndsAt = now.Add(d)
					emitMeta(c, m, acc, ref)
					m = mk(now.Add(-10*time.Minute), 20*time.Minute, 30*time.Minute, 0, time.Hour)
					m.Session.TimeoutAt = now.Add(d)
					emitMeta(c, m, acc, ref)
					m = mk(now.Add(-10*time.Minute), 20*time.Minute, 0, 0, time.Hour)
					m.Tokens.ExpireAt = now.Add(d)
					emitMeta(c, m, acc, ref)
					c.stats["presence"] += 3
				}
			}
		}
		// 3. random points: unconstrained field placement (also inconsistent records, as a store could hold)
		n := 3000
		if c.thorough() {
			n = 60000
		}
		span := []time.Duration{time.Second, 3 * time.Minute, 20 * time.Minute, 3 * time.Hour, 20 * time.Hour}
		rt := func() time.Time {
			s := pick(c.rng, span)
			d := time.Duration(c.rng.next()%uint64(2*s)) - s
			if c.rng.chance(1, 4) {
				d = d / time.Second * time.Second
			}
			return now.Add(d)
		}
		for i := 0; i < n; i++ {
			var m session.Metadata
			m.Session.CreatedAt, m.Session.EndsAt = rt(), rt()
			m.Tokens.ExpireAt, m.Tokens.RefreshedAt = rt(), rt()
			if c.rng.chance(2, 3) {
				m.Session.TimeoutAt = rt()
			}
			c.count("random")
			emitMeta(c, m, !c.rng.chance(1, 8), !c.rng.chance(1, 8))
		}
		// 4. mutators: Refresh(n), WithTimeout(d), NewMetadata(expiresIn, endsIn)
		for _, L := range lifetimes {
			for _, inact := range inactivities {
				for _, secs := range []int64{0, 1, 59, 60, 61, 119, 120, 121, 299, 300, 301, 3600, 36000} {
					m := mk(now.Add(-7*time.Minute), L, inact, 20*time.Minute, time.Hour)
					before := m
					m.Refresh(secs)
					if inact > 0 {
						m.WithTimeout(inact)
					}
					c.count("mutator:refresh")
					c.emit("mrefresh", "now", now, "created", before.Session.CreatedAt, "ends", before.Session.EndsAt, "timeout", before.Session.TimeoutAt,
						"expire", before.Tokens.ExpireAt, "refreshed", before.Tokens.RefreshedAt, "secs", secs, "inact", inact,
						"rcreated", m.Session.CreatedAt, "rends", m.Session.EndsAt, "rtimeout", m.Session.TimeoutAt, "rexpire", m.Tokens.ExpireAt, "rrefreshed", m.Tokens.RefreshedAt)
				}
				nm := session.NewMetadata(L, time.Hour)
				if inact > 0 {
					nm.WithTimeout(inact)
				}
				c.count("mutator:new")
				c.emit("mnew", "now", now, "expiresIn", L, "endsIn", time.Hour, "inact", inact,
					"rcreated", nm.Session.CreatedAt, "rends", nm.Session.EndsAt, "rtimeout", nm.Session.TimeoutAt, "rexpire", nm.Tokens.ExpireAt, "rrefreshed", nm.Tokens.RefreshedAt)
			}
		}
	})
}
