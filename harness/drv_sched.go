//go:build verif

package main

import (
	"fmt"
	"os"
	"net/http"
	"net/url"
	"strings"
	"time"

	"github.com/nais/wonderwall/pkg/cookie"
	"github.com/nais/wonderwall/pkg/session"
)

// Driver "sched": concurrent requests on one session, each served by its own replica over one shared miniredis (or one in-memory store),
// executed under explicit schedules at the granularity of store commands, lock scripts and provider calls; optional crash of a process at a
// chosen step followed by the passage of the lock lease. Per schedule one line: processes, executed trace, final store/provider/follow-up observations.
// The Lean oracle replays the schedule in Ww.Model.Sched step by step (tie H) and evaluates the C05/C07/C10 Spec.
func init() { register("sched", "schedules of concurrent refresh / read / logout on one session, with crashes (C05 C07 C10)", runSched) }

type procSpec struct {
	pid  string
	kind string // refresh | proxy | info | logoutlocal | logout | frontchannel | relogin (callback of a NEW login landing on the same store key)
}

type schedCase struct {
	store    string // redis | memory
	procs    []procSpec
	schedule []string // pids; after it is exhausted everything is drained round-robin
	crash    int      // index into schedule at which that pid crashes instead of proceeding (-1 = none)
}

func (sc schedCase) String() string {
	var ps []string
	for _, p := range sc.procs {
		ps = append(ps, p.pid+":"+p.kind)
	}
	return sc.store + " " + strings.Join(ps, ",") + " [" + strings.Join(sc.schedule, "") + fmt.Sprintf("] crash=%d", sc.crash)
}

func runSchedCase(c *ctx, tc schedCase) {
	o := sutOpts{memoryStore: tc.store == "memory", tokenDuration: 10 * time.Minute, sidRequired: true, maxLifetime: time.Hour}
	if tc.store == "memory" {
		o.tokenDuration = time.Second
	}
	t00 := time.Now()
	s := newSut(o)
	defer func() {
		t1 := time.Now()
		s.close()
		if os.Getenv("VERIF_DEBUG") != "" {
			fmt.Fprintln(os.Stderr, "   close", time.Since(t1), "total", time.Since(t00))
		}
	}()
	if os.Getenv("VERIF_DEBUG") != "" {
		fmt.Fprintln(os.Stderr, "   newSut", time.Since(t00))
	}
	login := s.replica("L")
	base := "http://wonderwall"
	b := newBrowser()
	if _, err := s.login(b, login, base, ""); err != nil {
		panic(err)
	}
	if os.Getenv("VERIF_DEBUG") != "" {
		fmt.Fprintln(os.Stderr, "   login", time.Since(t00))
	}
	// the first token lives 1 s: after 0.6 s the cooldown (0.5 s) is over and the session is inside the refresh window; later tokens live 10 min
	s.idp.mu.Lock()
	s.idp.tokenDuration = 10 * time.Minute
	s.idp.mu.Unlock()
	if tc.store == "memory" {
		time.Sleep(620 * time.Millisecond)
	} else {
		s.shift(s.ticketOf(b), 6*time.Minute) // inside the refresh window, cooldown over
	}
	ticket := s.ticketOf(b)
	sid := ""
	if d := s.storedData(ticket); d != nil {
		sid = d.ExternalSessionID
	} else if tc.store == "memory" {
		sid = "sid-1"
	}
	if tc.store == "redis" {
		// warm the lock scripts so that EVALSHA does not need the NOSCRIPT/EVAL round trip
		tw := time.Now()
		rc := mustRedis(s)
		l := session.NewRedisLock(rc, "warmup")
		if err := l.Acquire(ctxBg(), time.Second); err == nil {
			l.Release(ctxBg())
		}
		rc.Close()
		if os.Getenv("VERIF_DEBUG") != "" {
			fmt.Fprintln(os.Stderr, "   warmup", time.Since(tw))
		}
	}
	var sc *scheduler
	if tc.store == "redis" {
		sc = newScheduler(s)
	} else {
		sc = newMemoryScheduler(s)
	}
	var newBrowsers []*browser
	for _, p := range tc.procs {
		var rp *replica
		// kind grammar: <kind>[+late][@<pid of the process whose replica serves this request too>]
		pkind, late, on := p.kind, false, p.pid
		if i := strings.Index(pkind, "@"); i >= 0 {
			pkind, on = pkind[:i], pkind[i+1:]
			sc.blockAfter = 300 * time.Millisecond // a request may wait inside the replica for another one's store read instead of issuing its own
		}
		if strings.HasSuffix(pkind, "+late") {
			pkind, late = strings.TrimSuffix(pkind, "+late"), true
		}
		p.kind = pkind
		if tc.store == "memory" {
			rp = login // the in-memory store lives in one process
		} else {
			rp = s.replica(on)
		}
		pb := newBrowser()
		if jc := b.get(cookie.Session); jc != nil && p.kind != "relogin" {
			pb.jar = append(pb.jar, *jc)
		}
		method, target := "GET", ""
		// all concurrent requests of a case carry the SAME correlation / trace identifiers (a client that re-uses X-Request-Id, one distributed trace fanning out):
		// nothing request-scoped may stand in for the identity of a lock holder
		hdr := http.Header{"Sec-Fetch-Mode": {"navigate"}, "Sec-Fetch-Dest": {"document"}, "X-Request-Id": {"shared-request-id"}, "X-Correlation-Id": {"shared-correlation-id"},
			"Traceparent": {"00-4bf92f3577b34da6a3ce929d0e0e4736-00f067aa0ba902b7-01"}}
		switch p.kind {
		case "refresh":
			method, target = "POST", base+"/oauth2/session/refresh"
		case "proxy":
			target = base + "/some/page"
		case "info":
			target = base + "/oauth2/session"
		case "logoutlocal":
			target = base + "/oauth2/logout/local"
		case "logout":
			target = base + "/oauth2/logout"
		case "frontchannel":
			target = base + "/oauth2/logout/frontchannel?sid=" + url.QueryEscape(sid) + "&iss=" + url.QueryEscape(s.idp.issuer)
		case "relogin":
			// another browser of the same user logs in again: the provider keeps its own session, so the new wonderwall session gets the SAME sid
			// and therefore the same store key. Only the callback (code redemption + session creation) runs under the schedule.
			s.idp.mu.Lock()
			s.idp.fixedSid = sid
			s.idp.mu.Unlock()
			r1 := pb.do(login, "GET", base+"/oauth2/login", nil)
			lu, err := url.Parse(r1.Location)
			if r1.Status != 302 || err != nil {
				panic(fmt.Sprintf("relogin: login status %d", r1.Status))
			}
			code, req, err := s.idp.authorize(lu)
			if err != nil {
				panic(err)
			}
			target = base + "/oauth2/callback?" + url.Values{"code": {code}, "state": {req.State}}.Encode()
			newBrowsers = append(newBrowsers, pb)
		}
		sc.spawn(p.pid, rp, pb, method, target, hdr)
		sc.procs[p.pid].late = late
	}
	if os.Getenv("VERIF_DEBUG") != "" {
		fmt.Fprintln(os.Stderr, "   setup", time.Since(t00))
	}
	tDbg := time.Now()
	dbg := func(w string) {
		if os.Getenv("VERIF_DEBUG") != "" {
			fmt.Fprintln(os.Stderr, "  ", w, time.Since(tDbg))
		}
	}
	nUp := s.upCount()
	for i, pid := range tc.schedule {
		k := stepProceed
		if i == tc.crash {
			k = stepCrash
		}
		sc.step(pid, k)
	}
	dbg("schedule")
	sc.drain(60)
	dbg("drain")
	sc.stop()
	crashed := tc.crash >= 0
	lockAfter := false
	if tc.store == "redis" {
		if crashed {
			s.mr.FastForward(11 * time.Second) // the lock lease passes
		}
		lockAfter = s.mr.Exists(ticket.Key() + ".lock")
	}
	// final observations
	exists, ttl := false, time.Duration(0)
	atName, rtNameV := "", ""
	if tc.store == "redis" {
		exists = s.mr.Exists(ticket.Key())
		if exists {
			ttl = s.mr.TTL(ticket.Key())
			if d := s.storedData(ticket); d != nil {
				atName, rtNameV = atNameOf(s, d.AccessToken), rtName(d.RefreshToken)
			} else {
				atName = "undecryptable"
			}
		}
	}
	var presented []string
	s.idp.mu.Lock()
	for _, cl := range s.idp.calls {
		if cl.Grant == "refresh_token" {
			presented = append(presented, rtName(cl.RefreshToken)+"/"+cl.Outcome)
		}
	}
	maxInflight := s.idp.maxInflight
	pairs := len(s.idp.issuedPairs)
	s.idp.mu.Unlock()
	var statuses []string
	for _, p := range tc.procs {
		statuses = append(statuses, fmt.Sprintf("%s=%d", p.pid, sc.status(p.pid)))
	}
	// tokens the upstream saw during the schedule (C07: every concurrent request is served with the previous or the new token)
	var upTokens []string
	for _, u := range s.upSince(nUp) {
		if a := u.Header.Get("Authorization"); strings.HasPrefix(a, "Bearer ") {
			upTokens = append(upTokens, atNameOf(s, strings.TrimPrefix(a, "Bearer ")))
		} else {
			upTokens = append(upTokens, "-")
		}
	}
	// follow-up with the OLD cookie on the uncontrolled replica
	fb := newBrowser()
	if jc := b.get(cookie.Session); jc != nil {
		fb.jar = append(fb.jar, *jc)
	}
	n2 := s.upCount()
	fr := fb.do(login, "GET", base+"/after", http.Header{"Sec-Fetch-Mode": {"navigate"}, "Sec-Fetch-Dest": {"document"}})
	followAuth := false
	for _, u := range s.upSince(n2) {
		if u.Header.Get("Authorization") != "" {
			followAuth = true
		}
	}
	si := fb.do(login, "GET", base+"/oauth2/session", nil)
	// the NEW login's cookie (if any): is it authenticated?
	newAuth := false
	for _, nb := range newBrowsers {
		n3 := s.upCount()
		nb.do(login, "GET", base+"/after-new", http.Header{"Sec-Fetch-Mode": {"navigate"}, "Sec-Fetch-Dest": {"document"}})
		for _, u := range s.upSince(n3) {
			if u.Header.Get("Authorization") != "" {
				newAuth = true
			}
		}
	}
	dbg("followup")
	var procs []string
	for _, p := range tc.procs {
		procs = append(procs, p.pid+":"+p.kind)
	}
	c.count("case:" + tc.store)
	c.emit("sched", "store", tc.store, "procs", procs, "schedule", tc.schedule, "crash", tc.crash, "trace", sc.fullTrace(), "statuses", statuses,
		"exists", exists, "ttl", ttl, "at", hx(atName), "rt", hx(rtNameV), "presented", presented, "maxinflight", maxInflight, "pairs", pairs, "uptokens", upTokens,
		"lockafter", lockAfter, "followauth", followAuth, "newauth", newAuth, "followstatus", fr.Status, "infostatus", si.Status, "maxlife", time.Hour)
}

func atNameOf(s *sut, tok string) string {
	if tok == "" {
		return ""
	}
	s.idp.mu.Lock()
	defer s.idp.mu.Unlock()
	if k, ok := s.idp.accessIdx[tok]; ok {
		return fmt.Sprintf("at%d", k)
	}
	return "at?"
}

func runSched(c *ctx) {
	r := c.rng
	var cases []schedCase
	add := func(store string, procs []procSpec, schedule []string, crash int) {
		cases = append(cases, schedCase{store, procs, schedule, crash})
	}
	rep := func(pid string, n int) []string {
		out := make([]string, n)
		for i := range out {
			out[i] = pid
		}
		return out
	}
	pairs := [][]procSpec{
		{{"A", "refresh"}, {"B", "logoutlocal"}}, {{"A", "proxy"}, {"B", "logoutlocal"}}, {{"A", "refresh"}, {"B", "logout"}}, {{"A", "proxy"}, {"B", "frontchannel"}},
		{{"A", "refresh"}, {"B", "refresh"}}, {{"A", "proxy"}, {"B", "proxy"}}, {{"A", "refresh"}, {"B", "proxy"}}, {{"A", "info"}, {"B", "logoutlocal"}}, {{"A", "refresh"}, {"B", "info"}},
	}
	// systematic: A runs i steps, B runs j steps, A runs k steps, then everything drains (all schedules with at most two preemptions)
	maxI, maxJ := 7, 7
	stride := 1
	if !c.thorough() {
		stride = 2
	}
	for _, ps := range pairs {
		for i := 0; i <= maxI; i++ {
			for j := 1; j <= maxJ; j++ {
				if (i+j)%stride != 0 && !(i >= 4 && i <= 6 && j <= 2) { // always keep the window around the update
					continue
				}
				add("redis", ps, append(rep("A", i), rep("B", j)...), -1)
			}
		}
	}
	// a new login lands on the same store key (the provider re-uses the sid) while a refresh of the old session is in flight and a logout completes:
	// A runs i steps, the logout B completes, the new login C completes (or waits for the lock), then everything drains
	for _, lk := range []string{"logoutlocal", "logout", "frontchannel"} {
		for i := 0; i <= 7; i++ {
			if !c.thorough() && lk != "logoutlocal" && i%2 == 1 && i != 5 {
				continue
			}
			for _, ak := range []string{"refresh", "proxy"} {
				if ak == "proxy" && !c.thorough() && i != 5 && i != 4 && i != 2 { // (2: the entry is replaced between the first read and the re-read under the lock)
					continue
				}
				ps := []procSpec{{"A", ak}, {"B", lk}, {"C", "relogin"}}
				add("redis", ps, append(append(rep("A", i), rep("B", 3)...), rep("C", 5)...), -1)
				if c.thorough() || i == 5 {
					add("redis", ps, append(append(rep("A", i), rep("C", 3)...), append(rep("B", 3), rep("C", 3)...)...), -1)
				}
			}
		}
	}
	// a store read whose REPLY is still travelling while a logout completes elsewhere, and a request that reaches the SAME replica afterwards:
	// the late reply may serve the request that issued it (it started before the logout) but never the one that started after the logout answered
	for _, lk := range []string{"logoutlocal", "logout", "frontchannel"} {
		for _, ak := range []string{"info+late", "proxy+late", "refresh+late"} {
			for _, ck := range []string{"info@A", "refresh@A", "proxy@A"} {
				if !c.thorough() && !(lk == "logoutlocal" || ak == "info+late" && ck == "info@A") {
					continue
				}
				ps := []procSpec{{"A", ak}, {"B", lk}, {"C", ck}}
				add("redis", ps, append(append(rep("A", 2), rep("B", 3)...), append(rep("C", 2), "A")...), -1)
			}
		}
	}
	for i := 0; i <= 7; i++ { // without a logout: the new login simply replaces the old session
		for j := 1; j <= 5; j += 2 {
			add("redis", []procSpec{{"A", "refresh"}, {"B", "relogin"}}, append(rep("A", i), rep("B", j)...), -1)
		}
	}
	// three processes, random schedules
	triples := [][]procSpec{
		{{"A", "refresh"}, {"B", "logoutlocal"}, {"C", "relogin"}}, {{"A", "proxy"}, {"B", "relogin"}, {"C", "frontchannel"}},
		{{"A", "refresh"}, {"B", "proxy"}, {"C", "logoutlocal"}}, {{"A", "refresh"}, {"B", "refresh"}, {"C", "refresh"}}, {{"A", "proxy"}, {"B", "proxy"}, {"C", "logout"}},
		{{"A", "refresh"}, {"B", "frontchannel"}, {"C", "proxy"}},
	}
	nRand := 40
	if c.thorough() {
		nRand = 1500
	}
	for i := 0; i < nRand; i++ {
		ps := pick(r, triples)
		var sch []string
		for k := 3 + r.intn(18); k > 0; k-- {
			sch = append(sch, pick(r, []string{"A", "B", "C"}))
		}
		add("redis", ps, sch, -1)
	}
	// crashes: the refreshing process is killed at each of its steps; the other process runs afterwards
	for _, ps := range [][]procSpec{{{"A", "refresh"}, {"B", "refresh"}}, {{"A", "proxy"}, {"B", "info"}}, {{"A", "logoutlocal"}, {"B", "refresh"}}} {
		for i := 0; i <= 8; i++ {
			add("redis", ps, append(rep("A", i+1), rep("B", 9)...), i)
		}
	}
	// in-memory store: the provider call is the only scheduling point
	for _, ps := range [][]procSpec{{{"A", "refresh"}, {"B", "refresh"}}, {{"A", "proxy"}, {"B", "proxy"}}, {{"A", "refresh"}, {"B", "logoutlocal"}}} {
		for _, sch := range [][]string{{"A", "B", "A", "B"}, {"A", "A", "B", "B"}, {"A", "B", "B", "A"}, {"B", "A", "A", "B"}} {
			add("memory", ps, sch, -1)
		}
	}
	for i, tc := range cases {
		if c.params["only"] != "" && fmt.Sprint(i) != c.params["only"] {
			continue
		}
		t0 := time.Now()
		runSchedCase(c, tc)
		if d := time.Since(t0); d > 2*time.Second || os.Getenv("VERIF_DEBUG") != "" {
			fmt.Fprintf(os.Stderr, "sched case %d %s took %s\n", i, tc, d)
		}
		if c.params["max"] != "" && fmt.Sprint(i+1) == c.params["max"] {
			break
		}
	}
}
