//go:build verif

package main

import (
	"net/http"
	"net/url"
	"strings"
	"time"

	"github.com/nais/wonderwall/pkg/cookie"
	"github.com/nais/wonderwall/pkg/session"
)

// Driver "lockwait": a refreshing request that has to WAIT for the refresh lock (another replica holds it) while the world changes underneath it:
// the inactivity timeout passes, the session ends, the session is logged out, or nothing happens (control). When the lock is finally obtained the
// request re-reads the session; whatever it finds must be judged again - a session that became inactive / ended / vanished during the wait is never
// refreshed (no provider contact, no write), however the request looked when it started. One scheduling point = one store command, as in "sched".
func init() {
	register("lockwait", "refreshing requests that wait for the refresh lock while the session times out / ends / is logged out (C06 C08 C05)", runLockWait)
}

func runLockWait(c *ctx) {
	type lw struct {
		handler string // refresh | proxy | fwdauth
		what    string // timeout | end | logout | nothing
	}
	var cases []lw
	for _, h := range []string{"refresh", "proxy", "fwdauth"} {
		for _, w := range []string{"timeout", "end", "logout", "nothing"} {
			cases = append(cases, lw{h, w})
		}
	}
	for _, tc := range cases {
		inact := 30 * time.Minute
		o := sutOpts{tokenDuration: 10 * time.Minute, sidRequired: true, maxLifetime: time.Hour, forwardAuth: true, inactivity: inact}
		s := newSut(o)
		login := s.replica("L")
		base := "http://wonderwall"
		b := newBrowser()
		if _, err := s.login(b, login, base, ""); err != nil {
			panic(err)
		}
		ticket := s.ticketOf(b)
		s.shift(ticket, 7*time.Minute) // refresh due, cooldown over; 23 min of inactivity budget and 53 min of lifetime left
		rc := mustRedis(s)
		if l := session.NewRedisLock(rc, "warmup"); l.Acquire(ctxBg(), time.Second) == nil {
			l.Release(ctxBg())
		}
		// another replica holds the refresh lock of this session
		holder := session.NewRedisLock(rc, ticket.Key())
		if err := holder.Acquire(ctxBg(), 10*time.Second); err != nil {
			panic("lockwait: cannot take the lock: " + err.Error())
		}
		sc := newScheduler(s)
		rp := s.replica("A")
		pb := newBrowser()
		if jc := b.get(cookie.Session); jc != nil {
			pb.jar = append(pb.jar, *jc)
		}
		method, target := "GET", base+"/some/page"
		switch tc.handler {
		case "refresh":
			method, target = "POST", base+"/oauth2/session/refresh"
		case "fwdauth":
			target = base + "/oauth2/session/forwardauth"
		}
		nUp, nCalls := s.upCount(), s.idp.callCount()
		sc.spawn("A", rp, pb, method, target, http.Header{"Sec-Fetch-Mode": {"navigate"}, "Sec-Fetch-Dest": {"document"}})
		// run A up to (and including) its first unsuccessful attempt to obtain the lock
		sawLock := false
		for guard := 0; guard < 40 && !sc.isDone("A"); guard++ {
			pend := sc.pending("A")
			sc.step("A", stepProceed)
			if pend == "LOCK" {
				sawLock = true
				break
			}
		}
		// the world moves on while A waits (the store's clock is NOT advanced: the lock entry must stay; the session's own timestamps move)
		switch tc.what {
		case "timeout":
			s.lagNext = 24 * time.Minute
			s.shift(ticket, 24*time.Minute) // 31 min since the last refresh: inactive, not ended
		case "end":
			s.lagNext = 54 * time.Minute
			s.shift(ticket, 54*time.Minute) // 61 min since creation: ended
		case "logout":
			lb := newBrowser()
			if jc := b.get(cookie.Session); jc != nil {
				lb.jar = append(lb.jar, *jc)
			}
			lb.do(login, "GET", base+"/oauth2/logout/local", nil)
		}
		holder.Release(ctxBg())
		sc.drain(60)
		sc.stop()
		status := sc.status("A")
		contacted := 0
		for _, cl := range s.idp.callsSince(nCalls) {
			if cl.Grant == "refresh_token" {
				contacted++
			}
		}
		upAuth := false
		for _, u := range s.upSince(nUp) {
			if strings.HasPrefix(u.Header.Get("Authorization"), "Bearer ") {
				upAuth = true
			}
		}
		exists := s.mr.Exists(ticket.Key())
		rtAfter := ""
		if d := s.storedData(ticket); d != nil {
			rtAfter = rtName(d.RefreshToken)
		}
		c.count("lockwait:" + tc.what)
		c.emit("lockwait", "handler", tc.handler, "what", tc.what, "waited", sawLock, "status", status, "contacted", contacted, "upauth", upAuth, "exists", exists, "rtafter", hx(rtAfter),
			"trace", sc.trace)
		rc.Close()
		s.close()
		_ = url.Values{}
	}
	runMixedCfg(c)
}

// "mixedcfg": replicas of one deployment that do not agree on session.inactivity (a flag being rolled out, an SSO proxy configured differently). A session
// created with inactivity ON carries its timeout in the STORED metadata; once that has passed it is inactive for every replica that reads it, whatever the
// reading replica's own setting: not accepted, no token forwarded, never refreshed. (The other direction - created without a timeout - has nothing to enforce.)
func runMixedCfg(c *ctx) {
	for _, handler := range []string{"proxy", "fwdauth", "refresh", "session"} {
		for _, idle := range []time.Duration{12 * time.Minute, 31 * time.Minute} { // token expired but inside the timeout | past the timeout
			o := sutOpts{tokenDuration: 10 * time.Minute, sidRequired: true, maxLifetime: 2 * time.Hour, forwardAuth: true, inactivity: 30 * time.Minute}
			s := newSut(o)
			login := s.replica("L")
			base := "http://wonderwall"
			b := newBrowser()
			if _, err := s.login(b, login, base, ""); err != nil {
				panic(err)
			}
			ticket := s.ticketOf(b)
			s.o.inactivity = 0 // the reading replica has the feature switched off
			rp := s.replica("OFF")
			s.o.inactivity = 30 * time.Minute
			s.lagNext = idle
			s.shift(ticket, idle)
			method, target := "GET", base+"/some/page"
			switch handler {
			case "refresh":
				method, target = "POST", base+"/oauth2/session/refresh"
			case "fwdauth":
				target = base + "/oauth2/session/forwardauth"
			case "session":
				target = base + "/oauth2/session"
			}
			nUp, nCalls := s.upCount(), s.idp.callCount()
			resp := b.do(rp, method, target, http.Header{"Sec-Fetch-Mode": {"navigate"}, "Sec-Fetch-Dest": {"document"}})
			contacted := 0
			for _, cl := range s.idp.callsSince(nCalls) {
				if cl.Grant == "refresh_token" {
					contacted++
				}
			}
			upAuth := false
			for _, u := range s.upSince(nUp) {
				if strings.HasPrefix(u.Header.Get("Authorization"), "Bearer ") {
					upAuth = true
				}
			}
			c.count("mixedcfg:" + handler)
			c.emit("mixedcfg", "handler", handler, "idlemin", int64(idle/time.Minute), "timeoutmin", 30, "status", resp.Status, "contacted", contacted, "upauth", upAuth)
			s.close()
		}
	}
}
