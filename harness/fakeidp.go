//go:build verif

package main

import (
	"sync/atomic"
	"encoding/json"
	"fmt"
	"net/http"
	"net/http/httptest"
	"net/url"
	"strconv"
	"sync"
	"time"

	"github.com/lestrrat-go/jwx/v2/jwa"
	"github.com/lestrrat-go/jwx/v2/jwk"
	"github.com/lestrrat-go/jwx/v2/jwt"
	"golang.org/x/oauth2"

	"github.com/nais/wonderwall/internal/crypto"
)

// fakeIdp is a thread-safe, logging, fault-injecting OpenID provider used by all handler-level drivers.
// Every token / PAR request is recorded; a gate function may park it (scheduling point) or answer with a fault.

type authReq struct {
	Params    url.Values
	Nonce     string
	Challenge string
	Redirect  string
	ClientID  string
	Acr       string
	State     string
	Sid       string
}

type tokenCall struct {
	N            int
	Grant        string
	Code         string
	Verifier     string
	RedirectURI  string
	RefreshToken string
	Assertion    string
	Secret       string
	Form         url.Values
	Status       int    // what we answered
	Outcome      string // ok | fault:<kind> | reject:<why>
}

type idpFault struct {
	status int
	body   string
	hang   time.Duration
	okOutcome bool // counts as a successful answer in the provider's log (a 200 the relying party can decode)
	lost   bool // the provider PROCESSES the grant (rotates the refresh token) but its answer never reaches the relying party: the connection is closed instead
}

type fakeIdp struct {
	mu            sync.Mutex
	srv           *httptest.Server
	keys          *crypto.JwkSet
	issuer        string
	codes         map[string]*authReq
	refresh       map[string]*rtData // currently valid refresh tokens
	usedRefresh   map[string]int     // refresh token -> times presented
	calls         []*tokenCall
	parCalls      []url.Values
	parURIs       map[string]*authReq
	accessIdx     map[string]int // access token -> issue index (0 = login)
	idIdx         map[string]int
	issuedPairs   [][2]string
	tokenDuration time.Duration
	sidRequired   bool
	fixedSid      string
	sidLogins     map[string]int
	discoIssParam bool
	acrSupported  []string
	locSupported  []string
	discoPar      bool
	seq           int
	inflight      int
	maxInflight   int
	// gate is called (without the lock) for every /token and /par request before it is processed.
	gate func(kind string, form url.Values) *idpFault
	// idTokenHook may rewrite the claims / produce the serialized id_token (C03)
	idTokenHook func(claims map[string]any, req *authReq) (string, bool)
	omitIDToken bool
	omitRefreshToken bool // the code grant answers without refresh_token (optional per RFC 6749 §5.1)
	authTimeAgo      time.Duration // when set, ID tokens carry auth_time = now - authTimeAgo
	omitNewRefresh   bool // the NEXT refresh grant answers with a new access token but no refresh_token (optional per RFC 6749 §6); one-shot
	jwksNoAlg   bool
	extraJwks   []map[string]any
}

type rtData struct {
	sid string
	sub string
	gen int
}

var sharedIdpKeys *crypto.JwkSet // RSA key generation dominates SUT construction: one provider key pair per process

func newFakeIdp() *fakeIdp {
	if sharedIdpKeys == nil {
		k, err := crypto.NewJwkSet()
		if err != nil {
			panic(err)
		}
		sharedIdpKeys = k
	}
	ks := sharedIdpKeys
	ip := &fakeIdp{keys: ks, codes: map[string]*authReq{}, refresh: map[string]*rtData{}, usedRefresh: map[string]int{}, parURIs: map[string]*authReq{},
		accessIdx: map[string]int{}, idIdx: map[string]int{}, tokenDuration: 10 * time.Minute}
	mux := http.NewServeMux()
	mux.HandleFunc("/token", ip.token)
	mux.HandleFunc("/par", ip.par)
	mux.HandleFunc("/jwks", func(w http.ResponseWriter, r *http.Request) {
		if len(ip.extraJwks) > 0 {
			// further published keys that are NOT for RS256 ID-token signatures: a signing key for another algorithm, an encryption key
			b, _ := json.Marshal(ip.keys.Public)
			var doc map[string][]map[string]any
			json.Unmarshal(b, &doc)
			if ip.jwksNoAlg {
				for _, k := range doc["keys"] {
					delete(k, "alg")
				}
			}
			doc["keys"] = append(doc["keys"], ip.extraJwks...)
			json.NewEncoder(w).Encode(doc)
			return
		}
		if !ip.jwksNoAlg {
			json.NewEncoder(w).Encode(ip.keys.Public)
			return
		}
		// same keys without the "alg" member: the relying party must fall back to its configured algorithm
		b, _ := json.Marshal(ip.keys.Public)
		var doc map[string][]map[string]any
		json.Unmarshal(b, &doc)
		for _, k := range doc["keys"] {
			delete(k, "alg")
		}
		json.NewEncoder(w).Encode(doc)
	})
	// the discovery document, with the member names of OpenID Connect Discovery 1.0 / RFC 8414 / RFC 9126 / RFC 9207 / Front-Channel Logout 1.0 written out
	// here by hand: the relying party's configuration is built from THIS document by its real decoder, so a slipped JSON tag shows up as lost behaviour
	mux.HandleFunc("/.well-known/openid-configuration", func(w http.ResponseWriter, r *http.Request) {
		u := ip.srv.URL
		doc := map[string]any{
			"issuer": ip.issuer, "authorization_endpoint": u + "/authorize", "token_endpoint": u + "/token", "jwks_uri": u + "/jwks", "end_session_endpoint": u + "/endsession",
			"acr_values_supported": []string{"idporten-loa-substantial", "idporten-loa-high"}, "ui_locales_supported": []string{"nb", "nb", "en", "se"},
			"id_token_signing_alg_values_supported": []string{"RS256"}, "code_challenge_methods_supported": []string{"S256"},
			"response_types_supported": []string{"code"}, "subject_types_supported": []string{"public"},
		}
		if globalPkceMethods != nil { // what the provider says about PKCE methods never weakens what the relying party sends: S256, always
			doc["code_challenge_methods_supported"] = globalPkceMethods
		}
		if ip.acrSupported != nil {
			doc["acr_values_supported"] = ip.acrSupported
		}
		if ip.locSupported != nil {
			doc["ui_locales_supported"] = ip.locSupported
		}
		if ip.sidRequired {
			doc["frontchannel_logout_supported"], doc["frontchannel_logout_session_supported"] = true, true
		}
		if ip.discoIssParam {
			doc["authorization_response_iss_parameter_supported"] = true
		}
		if ip.discoPar {
			doc["pushed_authorization_request_endpoint"] = u + "/par"
		}
		json.NewEncoder(w).Encode(doc)
	})
	ip.srv = httptest.NewServer(mux)
	ip.issuer = ip.srv.URL
	return ip
}

func (ip *fakeIdp) close() { ip.srv.Close() }

func (ip *fakeIdp) sign(tok jwt.Token) string {
	k, _ := ip.keys.Private.Key(0)
	b, err := jwt.Sign(tok, jwt.WithKey(jwa.RS256, k))
	if err != nil {
		panic(err)
	}
	return string(b)
}

// authorize plays the provider's authorization endpoint for the browser: it takes the parameters of the
// authorization request (front channel or pushed) and returns the code.
func (ip *fakeIdp) authorize(loc *url.URL) (code string, req *authReq, err error) {
	q := loc.Query()
	ip.mu.Lock()
	defer ip.mu.Unlock()
	if ru := q.Get("request_uri"); ru != "" {
		req = ip.parURIs[ru]
		if req == nil {
			return "", nil, fmt.Errorf("unknown request_uri")
		}
	} else {
		req = ip.parseAuth(q)
	}
	ip.seq++
	code = "code-" + strconv.Itoa(ip.seq)
	ip.codes[code] = req
	return code, req, nil
}

func (ip *fakeIdp) parseAuth(q url.Values) *authReq {
	ip.seq++
	sid := "sid-" + strconv.Itoa(ip.seq)
	if ip.fixedSid != "" { // the provider keeps one session per user agent: a second login lands on the same sid
		sid = ip.fixedSid
	}
	return &authReq{Params: q, Nonce: q.Get("nonce"), Challenge: q.Get("code_challenge"), Redirect: q.Get("redirect_uri"), ClientID: q.Get("client_id"),
		Acr: q.Get("acr_values"), State: q.Get("state"), Sid: sid}
}

func (ip *fakeIdp) par(w http.ResponseWriter, r *http.Request) {
	r.ParseForm()
	if ip.gate != nil {
		if f := ip.gate("par", r.PostForm); f != nil {
			writeFault(w, f)
			return
		}
	}
	ip.mu.Lock()
	defer ip.mu.Unlock()
	ip.parCalls = append(ip.parCalls, r.PostForm)
	addSecret("client_assertion", r.PostForm.Get("client_assertion"))
	addSecret("client_secret", r.PostForm.Get("client_secret"))
	req := ip.parseAuth(r.PostForm)
	uri := "urn:ietf:params:oauth:request_uri:" + strconv.Itoa(ip.seq)
	ip.parURIs[uri] = req
	w.Header().Set("content-type", "application/json")
	json.NewEncoder(w).Encode(map[string]any{"request_uri": uri, "expires_in": 60})
}

func writeFault(w http.ResponseWriter, f *idpFault) {
	if f.hang > 0 {
		time.Sleep(f.hang)
	}
	w.WriteHeader(f.status)
	w.Write([]byte(f.body))
}

func oauthErr(w http.ResponseWriter, status int, msg string) {
	w.Header().Set("content-type", "application/json")
	w.WriteHeader(status)
	json.NewEncoder(w).Encode(map[string]string{"error": "invalid_request", "error_description": msg})
}

func (ip *fakeIdp) token(w http.ResponseWriter, r *http.Request) {
	r.ParseForm()
	f := r.PostForm
	ip.mu.Lock()
	call := &tokenCall{N: len(ip.calls), Grant: f.Get("grant_type"), Code: f.Get("code"), Verifier: f.Get("code_verifier"), RedirectURI: f.Get("redirect_uri"),
		RefreshToken: f.Get("refresh_token"), Assertion: f.Get("client_assertion"), Secret: f.Get("client_secret"), Form: f}
	ip.calls = append(ip.calls, call)
	addSecret("code_verifier", call.Verifier)
	addSecret("client_assertion", call.Assertion)
	addSecret("client_secret", call.Secret)
	addSecret("refresh_token", call.RefreshToken)
	if call.Grant == "refresh_token" {
		ip.usedRefresh[call.RefreshToken]++
	}
	if call.Grant == "refresh_token" { // C07 speaks about refresh grants; a code redemption of another login may overlap with one
		ip.inflight++
		if ip.inflight > ip.maxInflight {
			ip.maxInflight = ip.inflight
		}
		defer func() { ip.mu.Lock(); ip.inflight--; ip.mu.Unlock() }()
	}
	ip.mu.Unlock()
	if ip.gate != nil {
		if flt := ip.gate("token:"+call.Grant, f); flt != nil {
			if flt.lost {
				// swallow whatever the handler writes, then drop the connection
				w = &lostWriter{ResponseWriter: w}
				defer func() {
					call.Outcome = "lost"
					if hj, ok := w.(*lostWriter).ResponseWriter.(http.Hijacker); ok {
						if conn, _, err := hj.Hijack(); err == nil {
							conn.Close()
						}
					}
				}()
			} else {
				call.Status, call.Outcome = flt.status, "fault"
				if flt.okOutcome {
					call.Outcome = "ok"
				}
				writeFault(w, flt)
				return
			}
		}
	}
	ip.mu.Lock()
	defer ip.mu.Unlock()
	reject := func(status int, why string) {
		call.Status, call.Outcome = status, "reject:"+why
		oauthErr(w, status, why)
	}
	now := time.Now()
	iat := now.Truncate(time.Second)
	exp := iat.Add(ip.tokenDuration)
	switch call.Grant {
	case "authorization_code":
		req := ip.codes[call.Code]
		if req == nil {
			reject(400, "no matching code")
			return
		}
		if call.RedirectURI == "" || call.RedirectURI != req.Redirect {
			reject(400, "redirect_uri mismatch")
			return
		}
		if call.Verifier == "" || oauth2.S256ChallengeFromVerifier(call.Verifier) != req.Challenge {
			reject(400, "code_verifier invalid")
			return
		}
		delete(ip.codes, call.Code)
		sub := "sub-" + req.Sid
		claims := map[string]any{"sub": sub, "iss": ip.issuer, "aud": req.ClientID, "nonce": req.Nonce, "acr": req.Acr, "iat": iat.Unix(), "exp": exp.Unix(), "jti": "jti-" + call.Code}
		if ip.sidRequired {
			claims["sid"] = req.Sid
		}
		if ip.authTimeAgo != 0 { // the end user authenticated at the provider that long ago (an old single-sign-on session answers this login)
			claims["auth_time"] = iat.Add(-ip.authTimeAgo).Unix()
		}
		var idt string
		handled := false
		if ip.idTokenHook != nil {
			idt, handled = ip.idTokenHook(claims, req)
		}
		if !handled {
			t := jwt.New()
			for k, v := range claims {
				t.Set(k, v)
			}
			idt = ip.sign(t)
		}
		at := ip.newAccess(sub, iat, exp)
		// one refresh-token family per LOGIN (a second login on the same provider session gets tokens of its own)
		if ip.sidLogins == nil {
			ip.sidLogins = map[string]int{}
		}
		ip.sidLogins[req.Sid]++
		fam := req.Sid
		if n := ip.sidLogins[req.Sid]; n > 1 {
			fam = req.Sid + "~" + strconv.Itoa(n)
		}
		rt := "rt-" + fam + "-0"
		ip.refresh[rt] = &rtData{sid: fam, sub: sub, gen: 0}
		ip.accessIdx[at] = 0
		ip.idIdx[idt] = 0
		ip.issuedPairs = append(ip.issuedPairs, [2]string{at, rt})
		addSecret("access_token", at)
		addSecret("refresh_token", rt)
		addSecret("id_token", idt)
		resp := map[string]any{"access_token": at, "token_type": "Bearer", "refresh_token": rt, "expires_in": int64(ip.tokenDuration.Seconds())}
		if !ip.omitIDToken {
			resp["id_token"] = idt
		}
		if ip.omitRefreshToken {
			delete(resp, "refresh_token")
			delete(ip.refresh, rt)
		}
		call.Status, call.Outcome = 200, "ok"
		w.Header().Set("content-type", "application/json")
		json.NewEncoder(w).Encode(resp)
	case "refresh_token":
		d := ip.refresh[call.RefreshToken]
		if d == nil {
			reject(400, "invalid refresh_token (unknown or already used)")
			return
		}
		delete(ip.refresh, call.RefreshToken)
		at := ip.newAccess(d.sub, iat, exp)
		rt := "rt-" + d.sid + "-" + strconv.Itoa(d.gen+1)
		ip.refresh[rt] = &rtData{sid: d.sid, sub: d.sub, gen: d.gen + 1}
		ip.accessIdx[at] = d.gen + 1
		ip.issuedPairs = append(ip.issuedPairs, [2]string{at, rt})
		addSecret("access_token", at)
		addSecret("refresh_token", rt)
		call.Status, call.Outcome = 200, "ok"
		w.Header().Set("content-type", "application/json")
		out := map[string]any{"access_token": at, "token_type": "Bearer", "refresh_token": rt, "expires_in": int64(ip.tokenDuration.Seconds())}
		if ip.omitNewRefresh {
			ip.omitNewRefresh = false
			delete(out, "refresh_token")
			delete(ip.refresh, rt) // nothing was handed out: the relying party holds no refresh token any more
		}
		json.NewEncoder(w).Encode(out)
	default:
		reject(400, "unsupported grant_type")
	}
}

func (ip *fakeIdp) newAccess(sub string, iat, exp time.Time) string {
	ip.seq++
	t := jwt.New()
	t.Set("sub", sub)
	t.Set("iss", ip.issuer)
	t.Set("iat", iat.Unix())
	t.Set("exp", exp.Unix())
	t.Set("jti", "at-"+strconv.Itoa(ip.seq))
	return ip.sign(t)
}

func (ip *fakeIdp) publicJwks() jwk.Set { return ip.keys.Public }

func (ip *fakeIdp) callCount() int {
	ip.mu.Lock()
	defer ip.mu.Unlock()
	return len(ip.calls)
}

func (ip *fakeIdp) callsSince(n int) []*tokenCall {
	ip.mu.Lock()
	defer ip.mu.Unlock()
	return append([]*tokenCall{}, ip.calls[n:]...)
}

// clientRejection: the shapes in which a provider (or a gateway in front of it) rejects a grant with a 4xx status
func clientRejection(shape int) *idpFault {
	switch shape % 4 {
	case 1:
		return &idpFault{status: 401, body: "<html><body><h1>401 Unauthorized</h1></body></html>"}
	case 2:
		return &idpFault{status: 403, body: ""}
	case 3:
		return &idpFault{status: 400, body: "invalid_grant"}
	}
	return &idpFault{status: 400, body: `{"error":"invalid_grant","error_description":"revoked"}`}
}

var decoySeq int64

// brokenTokenResponse: a 200 answer that is not a decodable token response. Shape 0 is a gateway's HTML page; the others are JSON documents that DO carry
// (decoy) tokens but with a member of the wrong type, so the relying party's decoder fails while holding token material in its hands - whatever it
// logs about the failure must not contain them (the decoys are registered with the log / output monitors like real tokens).
func brokenTokenResponse(shape int) *idpFault {
	if shape%3 == 0 {
		return &idpFault{status: 200, body: "<html>not json</html>"}
	}
	n := atomic.AddInt64(&decoySeq, 1)
	at := fmt.Sprintf("eyJhbGciOiJSUzI1NiJ9.decoy-access-token-%d.s3cr3t-signature", n)
	rt := fmt.Sprintf("decoy-refresh-token-%d-s3cr3t", n)
	addSecret("access_token", at)
	addSecret("refresh_token", rt)
	if shape%3 == 1 {
		return &idpFault{status: 200, body: fmt.Sprintf(`{"access_token":%q,"token_type":"Bearer","refresh_token":%q,"expires_in":"3600"}`, at, rt)}
	}
	return &idpFault{status: 200, body: fmt.Sprintf(`{"access_token":%q,"token_type":{"kind":"Bearer"},"refresh_token":%q,"expires_in":3600}`, at, rt)}
}

// lostWriter discards the response (the connection is closed by the caller afterwards)
type lostWriter struct {
	http.ResponseWriter
	hdr http.Header
}

func (l *lostWriter) Header() http.Header {
	if l.hdr == nil {
		l.hdr = http.Header{}
	}
	return l.hdr
}
func (l *lostWriter) Write(b []byte) (int, error) { return len(b), nil }
func (l *lostWriter) WriteHeader(int)             {}

// globalPkceMethods: when set, every fake provider created from now on advertises these code_challenge_methods_supported (set by the c13 driver per variant)
var globalPkceMethods []string
