//go:build verif

package main

import (
	"net/http"
	"strings"
	"sync"
	"time"

	"github.com/alicebob/miniredis/v2/server"
	"github.com/nais/wonderwall/pkg/cookie"
	"github.com/nais/wonderwall/pkg/session"
)

// Driver "lease": what happens to the refresh lock AFTER the request that took it is over. The lock entry must lapse within one lease of its acquisition:
// once the request has answered - released properly, or with a release that FAILED (store fault at the unlock) - nothing may touch the lock entry any more;
// a holder that keeps extending the lease of a lock it no longer works under makes the entry outlive its lease for as long as the process lives, and every
// replica's refresh of that session then times out waiting. Observed for longer than half a lease after the answer (a whole lease and more in the thorough tier).
func init() { register("lease", "the refresh lock entry after its request ended: released, or release failed (C10)", runLease) }

func runLease(c *ctx) {
	watch := 5500 * time.Millisecond
	if c.thorough() {
		watch = 16 * time.Second
	}
	type lc struct{ handler, unlock string }
	var cases []lc
	for _, h := range []string{"refresh", "proxy"} {
		for _, u := range []string{"ok", "fault"} {
			cases = append(cases, lc{h, u})
		}
	}
	var wg sync.WaitGroup
	for _, tc := range cases {
		wg.Add(1)
		go func() {
			defer wg.Done()
			o := sutOpts{tokenDuration: 10 * time.Minute, sidRequired: true, maxLifetime: time.Hour, forwardAuth: true}
			s := newSut(o)
			defer s.close()
			login := s.replica("L")
			base := "http://wonderwall"
			b := newBrowser()
			if _, err := s.login(b, login, base, ""); err != nil {
				panic(err)
			}
			ticket := s.ticketOf(b)
			s.shift(ticket, 7*time.Minute) // refresh due
			rc := mustRedis(s)
			defer rc.Close()
			if l := session.NewRedisLock(rc, "warmup"); l.Acquire(ctxBg(), time.Second) == nil {
				l.Release(ctxBg())
			}
			sc := newScheduler(s)
			rp := s.replica("A")
			pb := newBrowser()
			if jc := b.get(cookie.Session); jc != nil {
				pb.jar = append(pb.jar, *jc)
			}
			method, target := "GET", base+"/some/page"
			if tc.handler == "refresh" {
				method, target = "POST", base+"/oauth2/session/refresh"
			}
			sc.spawn("A", rp, pb, method, target, http.Header{"Sec-Fetch-Mode": {"navigate"}, "Sec-Fetch-Dest": {"document"}})
			sawLock, sawUnlock := false, false
			for guard := 0; guard < 60 && !sc.isDone("A"); guard++ {
				pend := sc.pending("A")
				k := stepProceed
				if pend == "LOCK" {
					sawLock = true
				}
				if pend == "UNLOCK" {
					sawUnlock = true
					if tc.unlock == "fault" {
						k = stepFault
					}
				}
				sc.step("A", k)
			}
			sc.stop()
			status := sc.status("A")
			lockKey := ticket.Key() + ".lock"
			existsAfter := s.mr.Exists(lockKey)
			// from now on the request is over: record everything that still touches the lock entry
			var mu sync.Mutex
			var late []string
			s.installHook(func(p *server.Peer, cmd string, args ...string) bool {
				for _, a := range args {
					if strings.HasSuffix(a, ".lock") {
						mu.Lock()
						late = append(late, strings.ToUpper(cmd))
						mu.Unlock()
						break
					}
				}
				return false
			})
			time.Sleep(watch)
			mu.Lock()
			n := len(late)
			cmds := strings.Join(late, ",")
			mu.Unlock()
			c.count("lease:" + tc.handler + ":" + tc.unlock)
			c.emit("lease", "handler", tc.handler, "unlock", tc.unlock, "sawlock", sawLock, "sawunlock", sawUnlock, "status", status, "lockleft", existsAfter,
				"latecmds", n, "late", hexstr(cmds), "watchms", int64(watch/time.Millisecond))
		}()
	}
	wg.Wait()
}
