//go:build verif

package main

import (
	"bytes"
	"context"
	"encoding/base64"
	"encoding/json"
	"fmt"
	"io"
	"net/http"
	"net/http/httptest"
	"net/url"
	"sort"
	"strings"
	"sync"
	"time"

	"github.com/alicebob/miniredis/v2"
	"github.com/alicebob/miniredis/v2/server"
	log "github.com/sirupsen/logrus"

	"github.com/nais/wonderwall/internal/crypto"
	"github.com/nais/wonderwall/pkg/config"
	"github.com/nais/wonderwall/pkg/cookie"
	"github.com/nais/wonderwall/pkg/handler"
	"github.com/nais/wonderwall/pkg/mock"
	openidclient "github.com/nais/wonderwall/pkg/openid/client"
	"github.com/nais/wonderwall/pkg/openid/provider"
	openidconfig "github.com/nais/wonderwall/pkg/openid/config"
	"github.com/nais/wonderwall/pkg/router"
	"github.com/nais/wonderwall/pkg/session"
)

// ---- system under test: real handlers built the way cmd/wonderwall and pkg/mock build them -------------------------

type sutOpts struct {
	mode           string // standalone | sso-server | sso-proxy
	memoryStore    bool
	ingresses      []string
	maxLifetime    time.Duration
	inactivity     time.Duration // 0 = off
	tokenDuration  time.Duration
	acr            string
	acrSupported   []string // what the provider's discovery document advertises (nil = the two idporten-loa values)
	locSupported   []string
	autoLogin      bool
	ignorePaths    []string
	includeIDToken bool
	forwardAuth    bool
	sidRequired    bool
	issParam       bool
	par            bool
	secure         bool
	rateLimit      *config.RateLimit
	ssoDomain      string
	ssoServerURL   string
	ssoDefaultURL  string
	legacyCookie   bool
	realJwks       bool     // fetch the JWKS over HTTP through provider.NewJwksProvider (incl. its post-fetch key mutator)
	audiences      []string // additional trusted audiences
	clientSecret   string   // client_secret authentication (through the real openidconfig.NewClientConfig) instead of private_key_jwt
	locale         string
	tweak          func(*config.Config)
}

type upstreamReq struct {
	Method, Path, RawQuery, Host string
	Header                       http.Header
}

type sut struct {
	o        sutOpts
	cfg      *config.Config
	idp      *fakeIdp
	lag      time.Duration // accumulated lag of the store's clock behind the replicas' clock (see shift)
	lagNext  time.Duration // lag to introduce with the next shift
	ocfg     *mock.TestConfiguration
	prov     openidconfig.Provider // built by the real NewProviderConfig from the fake provider's discovery document
	mr       *miniredis.Miniredis
	crypter  crypto.Crypter
	key      []byte
	upstream *httptest.Server
	upMu     sync.Mutex
	upLog    []upstreamReq
	replicas map[string]*replica
	logs     *logCapture
	sched    *scheduler // optional store/IdP scheduler
	born       time.Time // miniredis' clock stands still unless fast-forwarded: REAL time that passes (retry budgets, provider time-outs) makes it trail the replicas' clock too
	replicaKey []byte   // when set, the NEXT replicas are built with this deployment key instead of the shared one
}

type replica struct {
	name    string
	cfg     *config.Config
	h       http.Handler
	std     *handler.Standalone
	proxy   *handler.SSOProxy
	rawSrc  router.Source
	started time.Time
	oc      openidconfig.Config      // what the handlers of this replica were built with (function-level drivers use the same values)
	jw      openidclient.JwksProvider
}

type anyConfig struct {
	c openidconfig.Client
	p openidconfig.Provider
}

func (a *anyConfig) Client() openidconfig.Client     { return a.c }
func (a *anyConfig) Provider() openidconfig.Provider { return a.p }

var sharedClient *mock.TestClientConfiguration

const deployKey = "G8Roe6AcoBpdr5GhO3cs9iORl4XIC8eq"

func newSut(o sutOpts) *sut {
	if o.maxLifetime == 0 {
		o.maxLifetime = time.Hour
	}
	if o.tokenDuration == 0 {
		o.tokenDuration = 10 * time.Minute
	}
	if len(o.ingresses) == 0 {
		o.ingresses = []string{"http://wonderwall"}
	}
	if o.mode == "" {
		o.mode = "standalone"
	}
	s := &sut{o: o, replicas: map[string]*replica{}, key: []byte(deployKey), born: time.Now()}
	s.logs = installLogCapture()
	s.crypter = crypto.NewCrypter(s.key)
	addSecretBytes("deployment_key", s.key)
	s.idp = newFakeIdp()
	s.idp.tokenDuration = o.tokenDuration
	s.idp.sidRequired = o.sidRequired
	s.upstream = httptest.NewServer(http.HandlerFunc(func(w http.ResponseWriter, r *http.Request) {
		s.upMu.Lock()
		s.upLog = append(s.upLog, upstreamReq{r.Method, r.URL.Path, r.URL.RawQuery, r.Host, r.Header.Clone()})
		s.upMu.Unlock()
		if strings.HasPrefix(r.URL.Path, "/hang/") { // an upstream that does not answer (until the caller gives up)
			select {
			case <-r.Context().Done():
			case <-time.After(1500 * time.Millisecond):
			}
		}
		w.WriteHeader(200)
		w.Write([]byte("upstream-ok"))
	}))
	if !o.memoryStore {
		mr, err := miniredis.Run()
		if err != nil {
			panic(err)
		}
		s.mr = mr
	}
	s.cfg = s.makeCfg("A")
	if sharedClient == nil {
		sharedClient = mock.NewTestConfiguration(s.cfg).TestClient // holds the (expensive) client RSA key
	}
	tc := *sharedClient
	tc.Config = s.cfg
	s.ocfg = &mock.TestConfiguration{TestClient: &tc, TestProvider: &mock.TestProviderConfiguration{Cfg: s.cfg, Metadata: &openidconfig.ProviderMetadata{}}}
	// the provider half of the OpenID configuration comes from the REAL discovery code path: NewProviderConfig fetches and decodes the fake provider's
	// well-known document (no hand-filled ProviderMetadata), so SidClaimRequired, the iss-parameter flag, the PAR endpoint etc. are what the decoder yields
	s.idp.discoIssParam, s.idp.discoPar = o.issParam, o.par
	s.idp.acrSupported, s.idp.locSupported = o.acrSupported, o.locSupported
	s.cfg.OpenID.WellKnownURL = s.idp.srv.URL + "/.well-known/openid-configuration"
	prov, err := openidconfig.NewProviderConfig(s.cfg)
	if err != nil {
		panic("discovery: " + err.Error())
	}
	s.prov = prov
	return s
}

func (s *sut) makeCfg(client string) *config.Config {
	o := s.o
	cfg := mock.Config()
	cfg.EncryptionKey = deployKey
	cfg.Ingresses = append([]string{}, o.ingresses...)
	cfg.OpenID.ACRValues = o.acr
	cfg.OpenID.PostLogoutRedirectURI = ""
	cfg.OpenID.UILocales = o.locale
	cfg.Session.MaxLifetime = o.maxLifetime
	cfg.Session.Inactivity = o.inactivity > 0
	cfg.Session.InactivityTimeout = o.inactivity
	cfg.Session.ForwardAuth = o.forwardAuth
	cfg.AutoLogin = o.autoLogin
	cfg.AutoLoginIgnorePaths = o.ignorePaths
	cfg.UpstreamIncludeIdToken = o.includeIDToken
	cfg.UpstreamHost = strings.TrimPrefix(s.upstream.URL, "http://")
	cfg.Cookie.Secure = o.secure
	cfg.Cookie.SameSite = config.SameSiteLax
	cfg.LegacyCookie = o.legacyCookie
	if o.rateLimit != nil {
		cfg.RateLimit = *o.rateLimit
	}
	if s.mr != nil {
		cfg.Redis.URI = "redis://" + s.mr.Addr() + "?client_name=" + client
	}
	switch o.mode {
	case "sso-server":
		cfg.SSO.Enabled, cfg.SSO.Mode = true, config.SSOModeServer
		cfg.SSO.Domain = o.ssoDomain
		cfg.SSO.ServerDefaultRedirectURL = o.ssoDefaultURL
		cfg.SSO.SessionCookieName = "sso.session"
	case "sso-proxy":
		cfg.SSO.Enabled, cfg.SSO.Mode = true, config.SSOModeProxy
		cfg.SSO.ServerURL = o.ssoServerURL
		cfg.SSO.SessionCookieName = "sso.session"
	}
	if o.tweak != nil {
		o.tweak(cfg)
	}
	return cfg
}

// replica builds (once) a handler stack with its own Redis client tagged by client_name.
func (s *sut) replica(name string) *replica {
	if r, ok := s.replicas[name]; ok {
		return r
	}
	return s.replicaMode(name, s.o.mode)
}

func (s *sut) replicaMode(name, mode string) *replica {
	saved := s.o.mode
	s.o.mode = mode
	cfg := s.makeCfg(name)
	s.o.mode = saved
	rp := &replica{name: name, cfg: cfg}
	var jw openidclient.JwksProvider = &mock.TestProvider{JwksPair: s.idp.keys}
	ocfg := *s.ocfg
	tc := *s.ocfg.TestClient
	tc.Config = cfg
	ocfg.TestClient = &tc
	if len(s.o.audiences) > 0 {
		cfg.OpenID.Audiences = s.o.audiences
		ocfg.TestClient = mock.NewTestConfiguration(cfg).TestClient // trusted audiences are fixed at construction
	}
	var oc openidconfig.Config = &anyConfig{ocfg.TestClient, s.prov}
	if s.o.clientSecret != "" {
		cfg.OpenID.ClientSecret = s.o.clientSecret
		cfg.OpenID.ClientJWK = ""
		cfg.OpenID.WellKnownURL = s.idp.srv.URL + "/.well-known/openid-configuration"
		cl, err := openidconfig.NewClientConfig(cfg)
		if err != nil {
			panic(err)
		}
		oc = &anyConfig{cl, s.prov}
	}
	if s.o.realJwks {
		p, err := provider.NewJwksProvider(context.Background(), oc)
		if err != nil {
			panic(err)
		}
		jw = p
	}
	rp.oc, rp.jw = oc, jw
	switch mode {
	case "sso-proxy":
		p, err := handler.NewSSOProxy(cfg, s.crypter)
		if err != nil {
			panic(err)
		}
		rp.proxy, rp.rawSrc = p, p
	default:
		cr := s.crypter
		if s.replicaKey != nil { // a replica started with ANOTHER deployment key (no key configured / mid-rotation): it cannot read the others' cookies
			cr = crypto.NewCrypter(s.replicaKey)
			addSecretBytes("deployment_key", s.replicaKey)
		}
		h, err := handler.NewStandalone(cfg, jw, oc, cr)
		if err != nil {
			panic(err)
		}
		rp.std, rp.rawSrc = h, h
		if mode == "sso-server" {
			srv, err := handler.NewSSOServer(cfg, h)
			if err != nil {
				panic(err)
			}
			rp.rawSrc = srv
		}
	}
	rp.h = router.New(rp.rawSrc, cfg)
	s.replicas[name] = rp
	return rp
}

func (s *sut) close() {
	scanLogs(theCtx, "sut")
	scanOutputs(theCtx, s)
	s.idp.close()
	s.upstream.Close()
	if s.mr != nil {
		s.mr.Close()
	}
	s.logs.uninstall()
}

func (s *sut) upCount() int {
	s.upMu.Lock()
	defer s.upMu.Unlock()
	return len(s.upLog)
}

func (s *sut) upSince(n int) []upstreamReq {
	s.upMu.Lock()
	defer s.upMu.Unlock()
	return append([]upstreamReq{}, s.upLog[n:]...)
}

// ---- browser -------------------------------------------------------------------------------------------------------

type jarCookie struct {
	Name, Value, Domain, Path string
	HostOnly                  bool
	Secure                    bool
	Expires                   time.Time // zero = session cookie
}

// browser keeps an RFC 6265 cookie jar (own minimal implementation so that the virtual clock can be applied).
type browser struct {
	jar   []jarCookie
	vnow  func() time.Time
	extra http.Header
}

func newBrowser() *browser { return &browser{vnow: time.Now} }

func defaultPath(p string) string {
	if p == "" || p[0] != '/' {
		return "/"
	}
	i := strings.LastIndex(p, "/")
	if i == 0 {
		return "/"
	}
	return p[:i]
}

func domainMatch(host, dom string) bool {
	host, dom = strings.ToLower(host), strings.ToLower(dom)
	return host == dom || strings.HasSuffix(host, "."+dom)
}

func pathMatch(reqPath, cp string) bool {
	if reqPath == "" {
		reqPath = "/"
	}
	if reqPath == cp {
		return true
	}
	if strings.HasPrefix(reqPath, cp) {
		return strings.HasSuffix(cp, "/") || reqPath[len(cp)] == '/'
	}
	return false
}

func (b *browser) store(u *url.URL, cs []*http.Cookie) {
	host := u.Hostname()
	for _, c := range cs {
		jc := jarCookie{Name: c.Name, Value: c.Value, Secure: c.Secure, Path: c.Path}
		if c.Domain != "" {
			d := strings.TrimPrefix(strings.ToLower(c.Domain), ".")
			if !domainMatch(host, d) {
				continue
			}
			jc.Domain = d
		} else {
			jc.Domain, jc.HostOnly = strings.ToLower(host), true
		}
		if jc.Path == "" || jc.Path[0] != '/' {
			jc.Path = defaultPath(u.Path)
		}
		if jc.Secure && u.Scheme != "https" {
			continue
		}
		del := false
		if c.MaxAge < 0 {
			del = true
		} else if c.MaxAge > 0 {
			jc.Expires = b.vnow().Add(time.Duration(c.MaxAge) * time.Second)
		} else if !c.Expires.IsZero() {
			jc.Expires = c.Expires
			if !c.Expires.After(b.vnow()) {
				del = true
			}
		}
		out := b.jar[:0]
		for _, e := range b.jar {
			if !(e.Name == jc.Name && e.Domain == jc.Domain && e.Path == jc.Path && e.HostOnly == jc.HostOnly) {
				out = append(out, e)
			}
		}
		b.jar = out
		if !del {
			b.jar = append(b.jar, jc)
		}
	}
}

func (b *browser) cookiesFor(u *url.URL) []*http.Cookie {
	var out []*http.Cookie
	host := strings.ToLower(u.Hostname())
	for _, e := range b.jar {
		if !e.Expires.IsZero() && !e.Expires.After(b.vnow()) {
			continue
		}
		if e.HostOnly && host != e.Domain || !e.HostOnly && !domainMatch(host, e.Domain) {
			continue
		}
		if !pathMatch(u.Path, e.Path) || e.Secure && u.Scheme != "https" {
			continue
		}
		out = append(out, &http.Cookie{Name: e.Name, Value: e.Value})
	}
	sort.SliceStable(out, func(i, j int) bool { return out[i].Name < out[j].Name })
	return out
}

func (b *browser) get(name string) *jarCookie {
	for i := range b.jar {
		if b.jar[i].Name == name {
			return &b.jar[i]
		}
	}
	return nil
}

type response struct {
	Status   int
	Header   http.Header
	Body     string
	Cookies  []*http.Cookie
	Location string
}

// do serves one request in-process through the real router of the replica.
func (b *browser) do(rp *replica, method, target string, hdr http.Header) *response {
	req := httptest.NewRequest(method, target, nil)
	for k, vs := range hdr {
		for _, v := range vs {
			req.Header.Add(k, v)
		}
	}
	for k, vs := range b.extra {
		for _, v := range vs {
			req.Header.Add(k, v)
		}
	}
	u := *req.URL
	if u.Host == "" {
		u.Host = req.Host
	}
	if u.Scheme == "" {
		u.Scheme = "http"
	}
	for _, c := range b.cookiesFor(&u) {
		req.AddCookie(c)
		addSecret("cookie_value", c.Value) // whatever a browser presents - genuine, forged, damaged, from another deployment - must never be written to a log
	}
	rec := httptest.NewRecorder()
	rp.h.ServeHTTP(rec, req)
	res := rec.Result()
	body, _ := io.ReadAll(res.Body)
	out := &response{Status: res.StatusCode, Header: res.Header, Body: string(body), Cookies: res.Cookies(), Location: res.Header.Get("Location")}
	for _, ck := range out.Cookies {
		addSecret("cookie_value", ck.Value)
		if ck.Value != "" {
			monitor.mu.Lock()
			monitor.outputs = append(monitor.outputs, [2]string{"cookie:" + ck.Name, ck.Value})
			monitor.mu.Unlock()
		}
	}
	b.store(&u, out.Cookies)
	return out
}

// ---- helpers on sessions -------------------------------------------------------------------------------------------

// login drives a complete authorization-code login for the browser on the replica; returns the final callback response.
func (s *sut) login(b *browser, rp *replica, base string, loginQuery string) (*response, error) {
	r1 := b.do(rp, "GET", base+"/oauth2/login"+loginQuery, nil)
	if r1.Status != 302 {
		return r1, fmt.Errorf("login: status %d", r1.Status)
	}
	lu, err := url.Parse(r1.Location)
	if err != nil {
		return r1, err
	}
	code, req, err := s.idp.authorize(lu)
	if err != nil {
		return r1, err
	}
	q := url.Values{"code": {code}, "state": {req.State}}
	if s.o.issParam {
		q.Set("iss", s.idp.issuer)
	}
	r2 := b.do(rp, "GET", base+"/oauth2/callback?"+q.Encode(), nil)
	if r2.Status != 302 {
		return r2, fmt.Errorf("callback: status %d body %s", r2.Status, r2.Body)
	}
	return r2, nil
}

// ticketOf decrypts the browser's session cookie with the deployment key.
func (s *sut) ticketOf(b *browser) *session.Ticket {
	c := b.get(cookie.Session)
	if c == nil {
		return nil
	}
	ct, err := base64.RawURLEncoding.DecodeString(c.Value)
	if err != nil {
		return nil
	}
	pt, err := s.crypter.Decrypt(ct)
	if err != nil {
		return nil
	}
	var t session.Ticket
	if json.Unmarshal(pt, &t) != nil {
		return nil
	}
	addSecretBytes("session_data_key", t.EncryptionKey)
	return &t
}

// storedData reads and decrypts the session record of a ticket straight from miniredis (nil if absent / undecryptable).
func (s *sut) storedData(t *session.Ticket) *session.Data {
	if t == nil || s.mr == nil {
		return nil
	}
	v, err := s.mr.Get(t.Key())
	if err != nil {
		return nil
	}
	d, err := (&session.EncryptedData{Ciphertext: []byte(v)}).Decrypt(crypto.NewCrypter(t.EncryptionKey)) // built from the DEK in THIS cookie, not through Ticket.Crypter()
	if err != nil {
		return nil
	}
	return d
}

// shift implements "advance the clock by d": every timestamp of the stored session moves back by d and the store's
// clock (TTLs, lock leases) moves forward by d. All comparisons in the code are between now and stored timestamps.
func (s *sut) shift(t *session.Ticket, d time.Duration) bool {
	ok := false
	if data := s.storedData(t); data != nil {
		m := &data.Metadata
		m.Session.CreatedAt = m.Session.CreatedAt.Add(-d)
		m.Session.EndsAt = m.Session.EndsAt.Add(-d)
		if !m.Session.TimeoutAt.IsZero() {
			m.Session.TimeoutAt = m.Session.TimeoutAt.Add(-d)
		}
		m.Tokens.ExpireAt = m.Tokens.ExpireAt.Add(-d)
		m.Tokens.RefreshedAt = m.Tokens.RefreshedAt.Add(-d)
		enc, err := data.Encrypt(crypto.NewCrypter(t.EncryptionKey))
		if err == nil {
			ttl := s.mr.TTL(t.Key())
			s.mr.Set(t.Key(), string(enc.Ciphertext))
			s.mr.SetTTL(t.Key(), ttl)
			ok = true
		}
	}
	if s.mr != nil {
		ff := d - s.lagNext
		if ff < 0 {
			ff = 0
		}
		s.lag += d - ff // the store's clock now trails the replicas' by this much: entries live that much longer than the session's own end
		s.lagNext = 0
		if ff > 0 {
			s.mr.FastForward(ff)
		}
	}
	return ok
}

// ---- log capture (C18 monitor, cross-cutting) ----------------------------------------------------------------------

type logCapture struct {
	mu   sync.Mutex
	buf  bytes.Buffer
	prev io.Writer
	lvl  log.Level
	fmtr log.Formatter
}

var globalLogs *logCapture

// installLogCapture: ONE process-wide capture at trace level (logrus' standard logger is global); every SUT shares it.
func installLogCapture() *logCapture {
	if globalLogs != nil {
		return globalLogs
	}
	lc := &logCapture{prev: log.StandardLogger().Out, lvl: log.GetLevel(), fmtr: log.StandardLogger().Formatter}
	log.SetOutput(lockedWriter{lc})
	log.SetLevel(log.TraceLevel)
	log.SetFormatter(&log.JSONFormatter{})
	globalLogs = lc
	return lc
}

type lockedWriter struct{ lc *logCapture }

func (w lockedWriter) Write(p []byte) (int, error) {
	w.lc.mu.Lock()
	defer w.lc.mu.Unlock()
	return w.lc.buf.Write(p)
}

func (lc *logCapture) take() string {
	lc.mu.Lock()
	defer lc.mu.Unlock()
	s := lc.buf.String()
	lc.buf.Reset()
	return s
}

func (lc *logCapture) uninstall() {} // the capture stays for the life of the process

// ---- C18 monitor: every secret the harness learns is looked for in everything that was logged -------------------------------------

var monitor = struct {
	mu      sync.Mutex
	secrets    map[string]string // value -> kind
	scanned    int
	found      int
	outputs    [][2]string // (sink, value) of everything wonderwall emitted to the browser
	outScanned int
	outFound   int
}{secrets: map[string]string{}}

func addSecret(kind, v string) {
	if len(v) < 12 {
		return
	}
	monitor.mu.Lock()
	if old, ok := monitor.secrets[v]; !ok || old == "cookie_value" {
		monitor.secrets[v] = kind // a cookie value that is ALSO a token keeps the more specific kind
	}
	monitor.mu.Unlock()
}

func addSecretBytes(kind string, b []byte) {
	if len(b) < 12 {
		return
	}
	addSecret(kind, string(b))
	addSecret(kind+":b64", base64.StdEncoding.EncodeToString(b))
	addSecret(kind+":b64url", base64.RawURLEncoding.EncodeToString(b))
	addSecret(kind+":hex", fmt.Sprintf("%x", b))
}

// scanLogs looks for every known secret in what was logged since the last scan and reports findings as `logscan` lines.
func scanLogs(c *ctx, where string) {
	if globalLogs == nil || c == nil {
		return
	}
	logs := globalLogs.take()
	monitor.mu.Lock()
	secrets := make(map[string]string, len(monitor.secrets))
	for k, v := range monitor.secrets {
		secrets[k] = v
	}
	monitor.scanned += len(logs)
	monitor.mu.Unlock()
	if len(logs) == 0 {
		return
	}
	lines := strings.Split(logs, "\n")
	// index the secrets by their first 8 bytes and slide once over the text: linear in len(logs) however many secrets are known
	idx := map[string][]string{}
	var hits []string
	for v := range secrets {
		if len(v) >= 8 {
			idx[v[:8]] = append(idx[v[:8]], v)
		} else if strings.Contains(logs, v) {
			hits = append(hits, v)
		}
	}
	seenHit := map[string]bool{}
	for i := 0; i+8 <= len(logs); i++ {
		if cands, ok := idx[logs[i:i+8]]; ok {
			for _, v := range cands {
				if !seenHit[v] && strings.HasPrefix(logs[i:], v) {
					seenHit[v] = true
					hits = append(hits, v)
				}
			}
		}
	}
	sort.Strings(hits)
	for _, v := range hits {
		kind := secrets[v]
		sample := ""
		for _, l := range lines {
			if strings.Contains(l, v) {
				sample = l
				break
			}
		}
		if len(sample) > 400 {
			sample = sample[:400]
		}
		monitor.mu.Lock()
		monitor.found++
		monitor.mu.Unlock()
		c.emit("logscan", "where", where, "kind", kind, "found", true, "sample", hx(strings.ReplaceAll(sample, v, "<<SECRET>>")))
	}
}

// scanOutputs looks for token / verifier / key material in clear inside everything wonderwall wrote: Set-Cookie values and store values (C09).
func scanOutputs(c *ctx, s *sut) {
	if c == nil {
		return
	}
	monitor.mu.Lock()
	secrets := make(map[string]string, len(monitor.secrets))
	for k, v := range monitor.secrets {
		if !strings.HasPrefix(v, "cookie_value") {
			secrets[k] = v
		}
	}
	outs := monitor.outputs
	monitor.outputs = nil
	monitor.mu.Unlock()
	if s != nil && s.mr != nil {
		for _, k := range s.mr.Keys() {
			if v, err := s.mr.Get(k); err == nil {
				outs = append(outs, [2]string{"store:" + keyClass(k), v})
			}
		}
	}
	found := 0
	for _, o := range outs {
		dec, _ := base64.RawURLEncoding.DecodeString(o[1])
		for v, kind := range secrets {
			if strings.Contains(o[1], v) || (len(dec) > 0 && strings.Contains(string(dec), v)) {
				found++
				c.emit("outscan", "sink", hx(o[0]), "kind", kind, "found", true)
			}
		}
	}
	monitor.mu.Lock()
	monitor.outScanned += len(outs)
	monitor.outFound += found
	monitor.mu.Unlock()
}

func keyClass(k string) string {
	if strings.HasSuffix(k, ".lock") {
		return "lock"
	}
	return "session"
}

func finishLogScan(c *ctx) {
	scanOutputs(c, nil)
	monitor.mu.Lock()
	c.emit("outscan", "sink", hx("summary"), "kind", "summary", "found", false, "outputs", monitor.outScanned, "findings", monitor.outFound)
	monitor.mu.Unlock()
	scanLogs(c, "end")
	monitor.mu.Lock()
	defer monitor.mu.Unlock()
	c.emit("logscan", "where", "summary", "kind", "summary", "found", false, "bytes", monitor.scanned, "secrets", len(monitor.secrets), "findings", monitor.found, "sample", hx(""))
}

// ---- store/IdP scheduler (see sched.go) hooks into miniredis ---------------------------------------------------------

func (s *sut) installHook(h func(c *server.Peer, cmd string, args ...string) bool) {
	s.mr.Server().SetPreHook(h)
}

var _ = context.Background

// abortedProxy: a proxied request of a browser (with its cookies) whose client goes away while the upstream has not answered yet: the request's context is
// cancelled mid-flight. Whatever the proxy's error path logs ends up in the captured logs, which every driver scans for secrets at its end.
func (s *sut) abortedProxy(rp *replica, b *browser, base string) int {
	ctx, cancel := context.WithCancel(context.Background())
	defer cancel()
	req := httptest.NewRequest("GET", base+"/hang/report", nil).WithContext(ctx)
	for _, ck := range b.cookiesFor(req.URL) {
		req.AddCookie(ck)
	}
	rec := httptest.NewRecorder()
	done := make(chan struct{})
	go func() {
		defer close(done)
		defer func() { recover() }()
		rp.h.ServeHTTP(rec, req)
	}()
	time.Sleep(150 * time.Millisecond)
	cancel()
	select {
	case <-done:
	case <-time.After(3 * time.Second):
	}
	return rec.Code
}
