//go:build verif

package main

import (
	"github.com/nais/wonderwall/pkg/config"
	"fmt"
	"net/http"
	"net/url"
	"sort"
	"strings"
	"sync"
	"time"

	"github.com/alicebob/miniredis/v2/server"

	"github.com/nais/wonderwall/pkg/cookie"
)

// Driver "c16": (a) CORS answers of a real SSO-server router for generated Origin values and SSO-domain spellings;
// (b) an SSO proxy and an SSO server sharing one store: every store command is attributed to its replica (client_name), the
// provider log is watched, and the proxy's login/logout redirects are parsed.
func init() { register("c16", "SSO: CORS origin rule, proxy is read-only, proxy redirects (C16)", runC16) }

func genOrigin(r *rng, dom string) string {
	d := strings.TrimPrefix(strings.ToLower(dom), ".")
	hosts := []string{d, "app." + d, "a.b." + d, "evil-" + d, d + ".evil.io", "x" + d, strings.ToUpper(d), "App." + strings.ToUpper(d), d + ".", "." + d, "evil.io", "localhost",
		strings.Replace(d, ".", "x", 1), "xn--" + d, "app." + d + ".evil.io", "[::1]", "127.0.0.1", "sub-" + d, "app." + d + "@evil.io", "evil.io#." + d, "evil.io/." + d, "evil.io?." + d}
	scheme := pick(r, []string{"https", "https", "https", "http", "HTTPS", "ftp", "chrome-extension", "wss"})
	if r.chance(1, 25) {
		return pick(r, []string{"null", "", "https://", "https:" + d, "https:/" + d, "//" + d})
	}
	o := scheme + "://" + pick(r, hosts)
	if r.chance(1, 5) {
		o += pick(r, []string{":443", ":8443", ":80", ":"})
	}
	return o
}

func runC16(c *ctx) {
	r := c.rng
	n := 600
	if c.thorough() {
		n = 30000
	}
	cookie.ConfigureCookieNamesWithPrefix("sso.session")
	cookie.Session = "sso.session"
	defer cookie.ConfigureCookieNamesWithPrefix(cookie.DefaultPrefix)
	for _, dom := range []string{"example.com", ".example.com", "Example.COM", "sso.nav.no"} {
		s := newSut(sutOpts{mode: "sso-server", ingresses: []string{"http://sso." + strings.TrimPrefix(strings.ToLower(dom), ".")}, ssoDomain: dom, ssoDefaultURL: "http://app.example.com/", forwardAuth: true})
		rp := s.replica("A")
		host := "http://sso." + strings.TrimPrefix(strings.ToLower(dom), ".")
		for i := 0; i < n; i++ {
			origin := genOrigin(r, dom)
			ep := pick(r, []string{"/oauth2/session", "/oauth2/session/refresh", "/oauth2/login", "/oauth2/logout", "/oauth2/session/forwardauth", "/oauth2/ping", "/oauth2/logout/local"})
			pre := r.chance(1, 3)
			hdr := http.Header{}
			if origin != "" {
				hdr.Set("Origin", origin)
			}
			m := "GET"
			if pre {
				m = "OPTIONS"
				hdr.Set("Access-Control-Request-Method", "GET")
			}
			resp := newBrowser().do(rp, m, host+ep, hdr)
			corsEp := ep == "/oauth2/session" || ep == "/oauth2/session/refresh" || ep == "/oauth2/login" || ep == "/oauth2/logout" || ep == "/oauth2/session/forwardauth"
			c.count("cors:" + fmtVal(resp.Header.Get("Access-Control-Allow-Origin") != ""))
			c.emit("cors", "dom", hx(dom), "origin", hx(origin), "ep", hx(ep), "corsep", corsEp, "preflight", pre, "acao", hx(resp.Header.Get("Access-Control-Allow-Origin")),
				"acac", resp.Header.Get("Access-Control-Allow-Credentials") == "true", "status", resp.Status)
		}
		s.close()
	}
	// (b) proxy + server on one store
	o := sutOpts{mode: "sso-server", ingresses: []string{"http://sso.example.com"}, ssoDomain: "example.com", ssoDefaultURL: "http://app.example.com/", ssoServerURL: "http://sso.example.com",
		tokenDuration: 10 * time.Minute, inactivity: 30 * time.Minute, rateLimit: &config.RateLimit{Enabled: true, Logins: 3, Window: 5 * time.Second}}
	s := newSut(o)
	defer s.close()
	var mu sync.Mutex
	cmds := map[string][]string{}
	s.installHook(func(p *server.Peer, cmd string, args ...string) bool {
		mu.Lock()
		cmds[p.ClientName] = append(cmds[p.ClientName], strings.ToUpper(cmd))
		mu.Unlock()
		return false
	})
	srv := s.replica("S")
	s.o.ingresses = []string{"http://app.example.com"}
	prx := s.replicaMode("P", "sso-proxy")
	b := newBrowser()
	if _, err := s.login(b, srv, "http://sso.example.com", ""); err != nil {
		panic(err)
	}
	take := func(name string) []string {
		mu.Lock()
		defer mu.Unlock()
		out := append([]string{}, cmds[name]...)
		cmds[name] = nil
		sort.Strings(out)
		return out
	}
	take("P")
	// the order matters: requests WITH extra parameters come before plain ones - a proxy must not carry anything over from one request to the next
	ops := []string{"/x", "/oauth2/login?prompt=login&level=idporten-loa-high&locale=en", "/oauth2/login", "/oauth2/logout?prompt=select_account", "/oauth2/login?redirect=/deep/page", "/oauth2/login?redirect=http://evil.io/", "/oauth2/logout", "/oauth2/logout?redirect=//evil.io", "/oauth2/session",
		"/oauth2/session/refresh", "/oauth2/logout/local", "/oauth2/logout/frontchannel?sid=x", "/oauth2/callback?code=x&state=y", "/oauth2/logout/callback", "/oauth2/session/forwardauth"}
	rounds := 3
	if c.thorough() {
		rounds = 12
	}
	for k := 0; k < rounds; k++ {
		for _, op := range ops {
			if r.chance(1, 3) {
				s.shift(s.ticketOf(b), pick(r, []time.Duration{time.Minute, 6 * time.Minute, 11 * time.Minute}))
			}
			if r.chance(1, 2) {
				// an entry WITHOUT expiry (restored from a dump, PERSISTed by an operator, written by an older version): still only ever READ by a proxy
				func() {
					defer func() { recover() }()
					if key := s.ticketOf(b).Key(); s.mr.Exists(key) {
						rc := mustRedis(s)
						rc.Persist(ctxBg(), key)
						rc.Close()
					}
				}()
			}
			nc := s.idp.callCount()
			hdr := http.Header{"Sec-Fetch-Mode": {"navigate"}, "Sec-Fetch-Dest": {"document"}}
			resp := b.do(prx, "GET", "http://app.example.com"+op, hdr)
			locBase, locRedirect := "", ""
			var locKeys, reqKeys []string
			if ou, err := url.Parse(op); err == nil {
				for k := range ou.Query() {
					reqKeys = append(reqKeys, k)
				}
				sort.Strings(reqKeys)
			}
			if lu, err := url.Parse(resp.Location); err == nil && resp.Location != "" {
				for k := range lu.Query() {
					locKeys = append(locKeys, k)
				}
				sort.Strings(locKeys)
				locRedirect = lu.Query().Get("redirect")
				lu.RawQuery = ""
				locBase = lu.String()
			}
			c.count("proxyop")
			c.emit("proxycmds", "op", hx(op), "cmds", take("P"), "idpcalls", len(s.idp.callsSince(nc)), "status", resp.Status, "locbase", hx(locBase), "locredirect", hx(locRedirect),
				"lockeys", locKeys, "reqkeys", reqKeys, "setcookies", len(resp.Cookies))
		}
		// make the session refreshable again through the server (so the proxy sees fresh and stale tokens)
		b.do(srv, "POST", "http://sso.example.com/oauth2/session/refresh", nil)
		take("S")
	}
	// (c0) a browser that already has a session is sent to the SSO server's login again and again (the login rate limit counts): every counter cookie it gets -
	// the first AND the later ones - is scoped to the SSO domain like all the others
	rb := newBrowser()
	if _, err := s.login(rb, srv, "http://sso.example.com", ""); err != nil {
		panic(err)
	}
	for i := 0; i < 5; i++ {
		resp := rb.do(srv, "GET", "http://sso.example.com/oauth2/login", http.Header{"Sec-Fetch-Mode": {"navigate"}, "Sec-Fetch-Dest": {"document"}})
		for _, ck := range resp.Cookies {
			c.count("ssocookie:relogin:" + ck.Name)
			c.emit("ssocookie", "host", hx("sso.example.com"), "op", hx(fmt.Sprintf("/oauth2/login (visit %d with a session)", i+1)), "status", resp.Status, "name", hx(ck.Name), "domain", hx(ck.Domain),
				"clear", ck.MaxAge < 0, "ssodomain", hx("example.com"), "httponly", ck.HttpOnly, "path", hx(ck.Path))
		}
	}
	// (c) the SSO server reached under a Host that is NOT (literally) under the SSO domain - relayed by a proxy to a cluster-internal address, an IP, a Host with
	// a port: whatever cookie it sets or clears there is still scoped to the SSO domain (otherwise a domain-wide cookie is never cleared / a host-only one is set)
	for _, host := range []string{"sso.example.com", "sso.example.com:8443", "SSO.EXAMPLE.COM", "wonderwall-sso.team.svc.cluster.local", "10.0.0.7:8080", "example.com", "example.com:80", "localhost:3000"} {
		for _, op := range []string{"/oauth2/login", "/oauth2/logout", "/oauth2/logout/local", "/oauth2/logout/frontchannel?sid=sid-1&iss=" + url.QueryEscape(s.idp.issuer), "/oauth2/callback?code=x&state=y", "/oauth2/logout/callback?state=z", "/oauth2/session"} {
			hb := newBrowser()
			if jc := b.get(cookie.Session); jc != nil {
				hb.extra = http.Header{"Cookie": {jc.Name + "=" + jc.Value}} // presented whatever the host (the relaying proxy copies the Cookie header)
			}
			resp := hb.do(srv, "GET", "http://"+host+op, http.Header{"Sec-Fetch-Mode": {"navigate"}, "Sec-Fetch-Dest": {"document"}})
			for _, ck := range resp.Cookies {
				c.count("ssocookie:" + fmtVal(ck.Domain != ""))
				c.emit("ssocookie", "host", hx(host), "op", hx(op), "status", resp.Status, "name", hx(ck.Name), "domain", hx(ck.Domain), "clear", ck.MaxAge < 0, "ssodomain", hx("example.com"))
			}
		}
	}
}
