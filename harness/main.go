//go:build verif

// Command verifharness is compiled INTO module github.com/nais/wonderwall through `go build -overlay`
// (it appears as /repo/cmd/verifharness without /repo being written to). It runs the real code of the
// current working tree on generated inputs / histories / schedules / fault plans and prints one
// canonical line per case:  kind <TAB> key=value ...   (strings hex-encoded, times in ns since Go's zero time).
package main

import (
	"bufio"
	"sync"
	"flag"
	"fmt"
	"os"
	"sort"
)

type driver struct {
	name string
	help string
	run  func(*ctx)
}

var drivers = map[string]*driver{}

var theCtx *ctx

func register(name, help string, run func(*ctx)) { drivers[name] = &driver{name, help, run} }

type ctx struct {
	mu     sync.Mutex
	out    *bufio.Writer
	rng    *rng
	tier   string
	seed   uint64
	n      int               // number of lines written
	stats  map[string]int    // generator distribution counters
	replay string            // replay line (when re-running one case)
	params map[string]string // free-form driver parameters
}

func (c *ctx) thorough() bool { return c.tier == "thorough" }
func (c *ctx) count(k string) {
	c.mu.Lock()
	c.stats[k]++
	c.mu.Unlock()
}

// flush makes everything emitted so far durable (call before a scenario that may bring the process down).
func (c *ctx) flush() {
	c.mu.Lock()
	c.out.Flush()
	c.mu.Unlock()
}

// emit writes one case line.
func (c *ctx) emit(kind string, kv ...any) {
	c.mu.Lock()
	defer c.mu.Unlock()
	c.out.WriteString(kind)
	for i := 0; i+1 < len(kv); i += 2 {
		c.out.WriteByte('\t')
		c.out.WriteString(kv[i].(string))
		c.out.WriteByte('=')
		c.out.WriteString(fmtVal(kv[i+1]))
	}
	c.out.WriteByte('\n')
	c.n++
}

func main() {
	drv := flag.String("driver", "", "driver name")
	tier := flag.String("tier", "quick", "quick|thorough")
	seed := flag.Uint64("seed", 1, "seed")
	out := flag.String("out", "-", "output file")
	stats := flag.String("stats", "", "write generator distribution (json) here")
	replay := flag.String("replay", "", "replay one case line")
	list := flag.Bool("list", false, "list drivers")
	flag.Parse()
	if *list {
		var ns []string
		for n := range drivers {
			ns = append(ns, n)
		}
		sort.Strings(ns)
		for _, n := range ns {
			fmt.Printf("%s\t%s\n", n, drivers[n].help)
		}
		return
	}
	d := drivers[*drv]
	if d == nil {
		fmt.Fprintf(os.Stderr, "unknown driver %q\n", *drv)
		os.Exit(2)
	}
	w := os.Stdout
	if *out != "-" {
		f, err := os.Create(*out)
		if err != nil {
			fmt.Fprintln(os.Stderr, err)
			os.Exit(2)
		}
		defer f.Close()
		w = f
	}
	c := &ctx{out: bufio.NewWriterSize(w, 1<<20), rng: newRng(*seed), tier: *tier, seed: *seed, stats: map[string]int{}, replay: *replay, params: map[string]string{}}
	for _, a := range flag.Args() {
		for i := 0; i < len(a); i++ {
			if a[i] == '=' {
				c.params[a[:i]] = a[i+1:]
				break
			}
		}
	}
	theCtx = c
	installLogCapture()
	d.run(c)
	finishLogScan(c)
	c.out.Flush()
	if *stats != "" {
		writeJSON(*stats, map[string]any{"lines": c.n, "distribution": c.stats})
	}
}
