//go:build verif

package main

import (
	"context"
	"errors"
	"strconv"
	"strings"
	"sync"
	"time"

	"github.com/nais/wonderwall/pkg/retry"
)

// Driver "retry": the REAL retry policy (pkg/retry over sethvargo/go-retry) against `Ww.Model.Retry`. The wrapped function fails with a retryable
// error until `d` has passed since the call began (persistent: never recovers) and records the offset of every attempt. Two waves: the second starts
// after the first has used up a whole budget, so a budget that is not made afresh for every call shows. Spec (C11): a fault shorter than the budget
// is absorbed; a persistent one ends the call with the function's own error within the budget; a non-retryable error is not retried.
func init() { register("retry", "pkg/retry: attempt offsets for transient / persistent faults, two waves (C11)", runRetry) }

var errRetryProbe = errors.New("probe: store unavailable")

func runRetry(c *ctx) {
	type rc struct {
		mode string // do | dovalue
		kind string // retryable | plain
		d    time.Duration
	}
	// durations just BEFORE an attempt of the unchanged schedule (0 50 150 300 550 950 1600 2650 4350 5000 ms): timers fire late, never early, so the
	// number of attempts does not depend on the machine's load
	ds := []time.Duration{0, 40 * time.Millisecond, 140 * time.Millisecond, 290 * time.Millisecond, 540 * time.Millisecond, 940 * time.Millisecond, 1590 * time.Millisecond, 2640 * time.Millisecond, 4340 * time.Millisecond, 4950 * time.Millisecond, time.Hour}
	if c.thorough() {
		pts := []int{0, 50, 150, 300, 550, 950, 1600, 2650, 4350, 5000}
		for i := 0; i < 12; i++ {
			k := 1 + c.rng.intn(len(pts)-1)
			gap := pts[k] - pts[k-1]
			ds = append(ds, time.Duration(pts[k]-1-c.rng.intn(gap/3))*time.Millisecond) // in the last third before an attempt
		}
	}
	var cases []rc
	for i, d := range ds {
		mode := "do"
		if i%2 == 1 {
			mode = "dovalue"
		}
		cases = append(cases, rc{mode, "retryable", d})
	}
	cases = append(cases, rc{"do", "plain", time.Hour}, rc{"dovalue", "plain", time.Hour}, rc{"dovalue", "retryable", time.Hour})
	for wave := 1; wave <= 2; wave++ {
		var wg sync.WaitGroup
		for _, tc := range cases {
			wg.Add(1)
			go func() {
				defer wg.Done()
				var mu sync.Mutex
				var offs []string
				start := time.Now()
				f := func(context.Context) error {
					el := time.Since(start)
					mu.Lock()
					offs = append(offs, strconv.FormatInt(el.Microseconds(), 10))
					mu.Unlock()
					if el >= tc.d {
						return nil
					}
					if tc.kind == "plain" {
						return errRetryProbe
					}
					return retry.RetryableError(errRetryProbe)
				}
				var err error
				if tc.mode == "do" {
					err = retry.Do(context.Background(), f)
				} else {
					var v int
					v, err = retry.DoValue(context.Background(), func(ctx context.Context) (int, error) {
						if e := f(ctx); e != nil {
							return 0, e
						}
						return 7, nil
					})
					if err == nil && v != 7 {
						err = errors.New("probe: value lost")
					}
				}
				total := time.Since(start)
				outcome := "ok"
				switch {
				case err == nil:
				case errors.Is(err, errRetryProbe) || err == errRetryProbe:
					outcome = "error"
				default:
					outcome = "other:" + err.Error()
				}
				dms := int64(tc.d / time.Millisecond)
				if tc.d >= time.Hour {
					dms = 99999999
				}
				c.count("retry wave=" + strconv.Itoa(wave) + " " + tc.kind + " " + outcome)
				c.emit("retry", "wave", wave, "mode", tc.mode, "kind", tc.kind, "d", dms, "outcome", hexstr(outcome), "offsets", hexstr(strings.Join(offs, ",")), "total", total.Microseconds())
			}()
		}
		wg.Wait()
	}
}
