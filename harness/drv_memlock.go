//go:build verif

package main

import (
	"context"
	"fmt"
	"strings"
	"sync"
	"time"

	"github.com/nais/wonderwall/pkg/session"
)

// Driver "memlock": the REAL in-memory refresh lock (session.NewMemory().MakeLock) against `Ww.Model.MemLock`: random sequences of acquire / release by three
// holders of one key (and a second key that must not interfere), short leases, real sleeps; every call is stamped with the time just before it. The oracle replays
// the sequence on the model with those stamps (a call closer than 3 ms to a lease boundary adopts the implementation's answer) and evaluates the Spec:
// never two holders at once (C07), a lapsed lease never blocks (C10).
func init() { register("memlock", "in-memory lock: random acquire/release histories with short leases (C07 C10)", runMemLock) }

func runMemLock(c *ctx) {
	seqs := 24
	if c.thorough() {
		seqs = 200
	}
	var wg sync.WaitGroup
	sem := make(chan struct{}, 12)
	for i := 0; i < seqs; i++ {
		r := newRng(c.seed*7919 + uint64(i))
		wg.Add(1)
		sem <- struct{}{}
		go func() {
			defer wg.Done()
			defer func() { <-sem }()
			st := session.NewMemory()
			holders := []session.Lock{st.MakeLock("k"), st.MakeLock("k"), st.MakeLock("k")}
			other := st.MakeLock("another-key")
			start := time.Now()
			var ops []string
			n := 10 + r.intn(14)
			for j := 0; j < n; j++ {
				switch {
				case r.chance(1, 8):
					// the other key never interferes: it can always be taken and released
					now := time.Since(start).Microseconds()
					err := other.Acquire(context.Background(), 20*time.Millisecond)
					ops = append(ops, fmt.Sprintf("o:9:%d:%d:%d", now, 20000, b2i(err == nil)))
					other.Release(context.Background())
				case r.chance(2, 5):
					w := r.intn(3)
					now := time.Since(start).Microseconds()
					holders[w].Release(context.Background())
					ops = append(ops, fmt.Sprintf("r:%d:%d", w, now))
				default:
					w := r.intn(3)
					lease := time.Duration(15+r.intn(30)) * time.Millisecond
					now := time.Since(start).Microseconds()
					err := holders[w].Acquire(context.Background(), lease)
					after := time.Since(start).Microseconds() // the lock read its own clock somewhere between the two stamps
					ops = append(ops, fmt.Sprintf("a:%d:%d:%d:%d:%d", w, now, lease.Microseconds(), b2i(err == nil), after-now))
				}
				time.Sleep(time.Duration(r.intn(28)) * time.Millisecond)
			}
			c.count("memlock")
			c.emit("memlock", "n", len(ops), "ops", hexstr(strings.Join(ops, ",")))
		}()
	}
	wg.Wait()
}
