//go:build verif

package main

import (
	"encoding/base64"
	"encoding/json"
	"fmt"
	"net/http"
	"net/url"
	"strings"
	"time"

	"github.com/nais/wonderwall/pkg/cookie"
	"github.com/nais/wonderwall/pkg/session"
)

// Driver "hist": random histories (login / proxied request / session endpoints / manual refresh / forward-auth / logout variants /
// passage of time / provider answers / cookie tampering) against the real handlers in all runtime modes. For every session-bearing
// step it prints the PRE-state it read from the store (decrypting with the ticket the browser holds), the operation, the
// provider's programmed answer, and the observation (status, what the upstream received, provider calls, POST-state, TTL).
// The Lean oracle recomputes the step with Ww.Model (tie H) and evaluates the C01/C06/C08/C10/C11 Spec on the observation.

func init() { register("hist", "handler-level histories with time shifting (C01 C06 C08 C10 C11 C14 C15)", runHist) }

type histCfg struct {
	mode        string // standalone | sso-server | sso-proxy
	forwardAuth bool
	inactivity  time.Duration
	maxLifetime time.Duration
	acr         string
	idTok       bool
	autoLogin   bool
	tokenDur    time.Duration
	noRT        bool // the provider issues no refresh token
	lowFirst    bool     // the first login asks for the provider's lower level
	acrSup      []string // what the provider advertises as acr_values_supported (nil = the ID-porten values)
}

func (h histCfg) modeNum() int {
	switch h.mode {
	case "sso-server":
		return 1
	case "sso-proxy":
		return 2
	}
	return 0
}

func histConfigs(c *ctx) []histCfg {
	var out []histCfg
	modes := []struct {
		m   string
		fwd bool
	}{{"standalone", false}, {"standalone", true}, {"sso-server", true}, {"sso-server", false}, {"sso-proxy", false}}
	for _, m := range modes {
		for _, inact := range []time.Duration{0, 30 * time.Minute, 4 * time.Minute} {
			for _, acr := range []string{"", "Level4", "idporten-loa-substantial"} {
				for _, td := range []time.Duration{10 * time.Minute, 90 * time.Second, time.Hour} {
					out = append(out, histCfg{mode: m.m, forwardAuth: m.fwd, inactivity: inact, maxLifetime: time.Hour, acr: acr, tokenDur: td})
				}
			}
		}
	}
	// providers that issue NO refresh token: such sessions can never be refreshed, yet every lifetime / inactivity / expiry rule applies to them
	for _, m := range modes {
		for _, inact := range []time.Duration{0, 4 * time.Minute} {
			out = append(out, histCfg{mode: m.m, forwardAuth: m.fwd, inactivity: inact, maxLifetime: time.Hour, tokenDur: 10 * time.Minute, noRT: true})
		}
	}
	// authentication levels OUTSIDE the ID-porten hierarchy (a provider with levels of its own): the configured level is then required literally
	for _, m := range modes {
		for _, low := range []bool{true, false} {
			out = append(out, histCfg{mode: m.m, forwardAuth: m.fwd, inactivity: 0, maxLifetime: time.Hour, acr: "gold", tokenDur: 10 * time.Minute, acrSup: []string{"silver", "gold"}, lowFirst: low})
		}
	}
	// flags that do not interact with the time logic are spread pseudo-randomly
	for i := range out {
		out[i].idTok = c.rng.chance(1, 2)
		out[i].autoLogin = c.rng.chance(1, 3)
		if c.rng.chance(1, 6) {
			out[i].maxLifetime = 20 * time.Minute
		}
	}
	return out
}

type histRun struct {
	c    *ctx
	hc   histCfg
	s    *sut
	main *replica // where requests go (proxy replica in sso-proxy mode)
	srv  *replica // where login / session management happens
	base string   // origin for requests to main
	sb   string   // origin for requests to srv
	b    *browser
	gen  int // generation of the refresh token currently valid at the provider for this browser's session
	hid  int
	step int
	presented map[string]bool // refresh-token values the provider has answered in this history
	refusedSid string         // the provider has refused (4xx) the refresh token of this session and has not granted anything since
}

func runHist(c *ctx) {
	cfgs := histConfigs(c)
	nHist, nSteps := 1, 14
	if c.thorough() {
		nHist, nSteps = 6, 40
	}
	// quick: every configuration once with a short history
	hid := 0
	for _, hc := range cfgs {
		for k := 0; k < nHist; k++ {
			hid++
			runOneHistory(c, hc, hid, nSteps)
		}
	}
}

func runOneHistory(c *ctx, hc histCfg, hid, nSteps int) {
	o := sutOpts{mode: hc.mode, maxLifetime: hc.maxLifetime, inactivity: hc.inactivity, tokenDuration: hc.tokenDur, acr: hc.acr, autoLogin: hc.autoLogin,
		ignorePaths: []string{"/open/**"}, includeIDToken: hc.idTok, forwardAuth: hc.forwardAuth, sidRequired: true, acrSupported: hc.acrSup}
	h := &histRun{c: c, hc: hc, hid: hid}
	switch hc.mode {
	case "standalone":
		o.ingresses = []string{"http://wonderwall"}
		h.s = newSut(o)
		h.main = h.s.replica("A")
		h.srv = h.main
		h.base, h.sb = "http://wonderwall", "http://wonderwall"
	case "sso-server":
		o.ingresses = []string{"http://sso.example.com"}
		o.ssoDomain, o.ssoDefaultURL = "example.com", "http://app.example.com/"
		cookie.ConfigureCookieNamesWithPrefix("sso.session")
		cookie.Session = "sso.session"
		h.s = newSut(o)
		h.main = h.s.replica("A")
		h.srv = h.main
		h.base, h.sb = "http://sso.example.com", "http://sso.example.com"
	case "sso-proxy":
		o.mode = "sso-server"
		o.ingresses = []string{"http://sso.example.com"}
		o.ssoDomain, o.ssoDefaultURL, o.ssoServerURL = "example.com", "http://app.example.com/", "http://sso.example.com"
		cookie.ConfigureCookieNamesWithPrefix("sso.session")
		cookie.Session = "sso.session"
		h.s = newSut(o)
		h.srv = h.s.replica("S")
		h.s.o.ingresses = []string{"http://app.example.com"}
		h.main = h.s.replicaMode("P", "sso-proxy")
		h.base, h.sb = "http://app.example.com", "http://sso.example.com"
	}
	h.s.idp.omitRefreshToken = hc.noRT
	// optional ID-token claims must not change how long a session or its store entry lives: one history in three is answered from an OLD provider session
	// (auth_time hours ago, also older than the maximum session lifetime)
	if c.rng.chance(1, 3) {
		h.s.idp.authTimeAgo = pick(c.rng, []time.Duration{30 * time.Minute, 2 * time.Hour, 26 * time.Hour, -40 * time.Minute}) // (negative: the provider's clock runs ahead)
		c.count("hist:old-auth_time")
	}
	defer func() {
		h.s.close()
		cookie.ConfigureCookieNamesWithPrefix(cookie.DefaultPrefix)
	}()
	h.b = newBrowser()
	c.emit("hstart", "hid", hid, "mode", hc.modeNum(), "fwd", hc.forwardAuth, "inact", hc.inactivity, "maxlife", hc.maxLifetime, "acr", hx(hc.acr),
		"idtok", hc.idTok, "autologin", hc.autoLogin, "tokdur", hc.tokenDur)
	if hc.lowFirst && hc.acrSup != nil {
		h.login("?level=" + hc.acrSup[0]) // the history starts with a session BELOW the configured level
	} else {
		h.login("")
	}
	for i := 0; i < nSteps; i++ {
		h.step = i
		h.randomStep()
	}
}

func (h *histRun) login(q string) bool {
	h.s.idp.mu.Lock()
	h.s.idp.gate = nil
	h.s.idp.mu.Unlock()
	_, err := h.s.login(h.b, h.srv, h.sb, q)
	h.gen = 0
	h.refusedSid = ""
	h.c.count("op:login")
	if err != nil {
		h.c.count("login-failed")
		return false
	}
	return true
}

// nameOf maps a real token to a stable abstract name ("at3" = access token of generation 3).
func (h *histRun) atName(tok string) string {
	if tok == "" {
		return ""
	}
	h.s.idp.mu.Lock()
	defer h.s.idp.mu.Unlock()
	if k, ok := h.s.idp.accessIdx[tok]; ok {
		return fmt.Sprintf("at%d", k)
	}
	return "at?"
}

func rtName(tok string) string {
	if tok == "" {
		return ""
	}
	i := strings.LastIndex(tok, "-")
	if strings.HasPrefix(tok, "rt-") && i > 0 {
		return "rt" + tok[i+1:]
	}
	return "rt?"
}

type preState struct {
	ck     int
	st     int
	d      *session.Data
	ticket *session.Ticket
	ttl    time.Duration
}

func (h *histRun) readState() preState {
	var p preState
	c := h.b.get(cookie.Session)
	if c == nil {
		return p
	}
	p.ticket = h.s.ticketOf(h.b)
	if p.ticket == nil {
		p.ck = 2
		return p
	}
	p.ck = 1
	if !h.s.mr.Exists(p.ticket.Key()) {
		return p
	}
	p.ttl = h.s.mr.TTL(p.ticket.Key())
	p.d = h.s.storedData(p.ticket)
	if p.d == nil {
		p.st = 2
	} else {
		p.st = 1
	}
	return p
}

func (h *histRun) stFields(prefix string, p preState) []any {
	kv := []any{prefix + "st", p.st, prefix + "ttl", p.ttl}
	if p.d != nil {
		m := p.d.Metadata
		kv = append(kv, prefix+"created", m.Session.CreatedAt, prefix+"ends", m.Session.EndsAt, prefix+"timeout", m.Session.TimeoutAt,
			prefix+"expire", m.Tokens.ExpireAt, prefix+"refreshed", m.Tokens.RefreshedAt,
			prefix+"at", hx(h.atName(p.d.AccessToken)), prefix+"rt", hx(rtName(p.d.RefreshToken)), prefix+"idt", hx(idName(p.d.IDToken)),
			prefix+"sacr", hx(p.d.Acr), prefix+"sid", hx(p.d.ExternalSessionID))
	}
	return kv
}

func idName(t string) string {
	if t == "" {
		return ""
	}
	return "id0"
}

// boundaries of the stored session relative to now; used to keep `now` at least 2 s away from any of them
func nearBoundary(d *session.Data, now time.Time, margin time.Duration) bool {
	m := d.Metadata
	bs := []time.Time{m.Session.EndsAt, m.Tokens.ExpireAt, m.Tokens.ExpireAt.Add(-session.RefreshLeeway), m.RefreshCooldown(), m.Tokens.RefreshedAt}
	if !m.Session.TimeoutAt.IsZero() {
		bs = append(bs, m.Session.TimeoutAt, m.Tokens.RefreshedAt.Add(m.Session.TimeoutAt.Sub(m.Tokens.RefreshedAt)/2))
	}
	for _, b := range bs {
		d := now.Sub(b)
		if d < 0 {
			d = -d
		}
		if d < margin {
			return true
		}
	}
	return false
}

func (h *histRun) tick(d time.Duration) {
	p := h.readState()
	// now and then the store's clock trails by some seconds (its TTL is also armed a little after the metadata was stamped): a session can then be
	// past its end / timeout while its entry is still readable - the handlers must judge by the metadata, not by the entry's presence
	if h.c.rng.chance(1, 4) && d > 45*time.Second && h.s.lag < 3*time.Minute {
		h.s.lagNext = 40 * time.Second
		h.c.count("op:tick-with-store-lag")
	}
	h.s.shift(p.ticket, d)
	h.b.vnow = time.Now // cookies of the session have no Max-Age; the jar clock is not needed here
}

func (h *histRun) randomStep() {
	r := h.c.rng
	// passage of time, biased towards the interesting regions of the current session
	if r.chance(3, 5) {
		p := h.readState()
		var d time.Duration
		if p.d != nil && r.chance(3, 4) {
			m := p.d.Metadata
			now := time.Now()
			targets := []time.Time{m.RefreshCooldown(), m.Tokens.ExpireAt.Add(-session.RefreshLeeway), m.Tokens.ExpireAt, m.Session.EndsAt}
			if !m.Session.TimeoutAt.IsZero() {
				targets = append(targets, m.Session.TimeoutAt, m.Tokens.RefreshedAt.Add(m.Session.TimeoutAt.Sub(m.Tokens.RefreshedAt)/2))
			}
			t := pick(r, targets)
			d = t.Sub(now) + pick(r, []time.Duration{-30 * time.Second, -5 * time.Second, 5 * time.Second, 30 * time.Second, 3 * time.Minute})
		} else {
			d = pick(r, []time.Duration{time.Second, 20 * time.Second, 70 * time.Second, 4 * time.Minute, 6 * time.Minute, 12 * time.Minute, 35 * time.Minute, 2 * time.Hour})
		}
		if d > 0 {
			h.tick(d)
			h.c.count("op:tick")
		}
	}
	switch x := r.intn(100); {
	case x < 40:
		h.opSession("proxy")
	case x < 52:
		h.opSession("session")
	case x < 66:
		h.opSession("refresh")
	case x < 74:
		h.opSession("fwdauth")
	case x < 79:
		h.opSession("logoutlocal")
	case x < 83:
		h.opSession("logout")
	case x < 86:
		h.opSession("frontchannel")
	case x < 90:
		h.tamper()
		h.opSession("proxy")
	default:
		q := ""
		if h.hc.acr != "" && r.chance(1, 3) {
			q = "?level=idporten-loa-substantial"
			if h.hc.acrSup != nil {
				q = "?level=" + h.hc.acrSup[0] // a lower level of the provider's own scale
			}
		}
		if h.hc.mode == "sso-proxy" || h.hc.mode == "sso-server" {
			// (SSO server validates the redirect; default is fine)
		}
		h.login(q)
	}
}

// tamper corrupts the browser's session cookie or the store entry.
func (h *histRun) tamper() {
	c := h.b.get(cookie.Session)
	p := h.readState()
	switch h.c.rng.intn(4) {
	case 0:
		if c != nil {
			c.Value = c.Value[:len(c.Value)/2] + "AAAA" + c.Value[len(c.Value)/2+4:]
			h.c.count("tamper:cookie-flip")
		}
	case 1:
		if c != nil {
			c.Value = base64.RawURLEncoding.EncodeToString([]byte("not a ciphertext at all, just some bytes that are long enough"))
			h.c.count("tamper:cookie-garbage")
		}
	case 2:
		if p.st == 1 {
			v, _ := h.s.mr.Get(p.ticket.Key())
			b := []byte(v)
			b[len(b)/2] ^= 0x40
			ttl := h.s.mr.TTL(p.ticket.Key())
			h.s.mr.Set(p.ticket.Key(), string(b))
			h.s.mr.SetTTL(p.ticket.Key(), ttl)
			h.c.count("tamper:store-flip")
		}
	case 3:
		if p.st == 1 {
			h.s.mr.Del(p.ticket.Key())
			h.c.count("tamper:store-del")
		}
	}
}

func (h *histRun) opSession(op string) {
	r := h.c.rng
	c := h.c
	c.count("op:" + op)
	// provider answer for a refresh grant possibly issued during this step
	plan := "ok"
	switch x := r.intn(20); {
	case x < 13:
	case x < 16:
		plan = "client"
	case x < 17:
		plan = "server"
	default:
		plan = "broken"
	}
	if plan == "server" && !h.c.thorough() && h.c.stats["plan:server"] >= 4 {
		plan = "client" // persistent 5xx costs the 5 s retry budget; bounded in the quick tier
	}
	expiresIn := int64(h.hc.tokenDur / time.Second)
	if r.chance(1, 6) {
		expiresIn = pick(r, []int64{1, 59, 61, 119, 121, 299, 301, 3600})
	}
	clientShape := r.intn(4)
	// a decodable 200 that carries NO tokens ({} or only token_type): access_token is REQUIRED in a token response, so this is an unusable answer like a
	// non-JSON one - nothing may be stored from it and the session keeps what it had (reported to the oracle as plan "broken")
	emptyOK := plan == "ok" && r.chance(1, 12)
	if emptyOK {
		plan = "broken"
	}
	// a refresh answer that carries a new access token but NO refresh token (RFC 6749 §6 makes it optional): the session then simply cannot refresh again;
	// in particular the token that was just presented must not be kept and presented a second time
	noNewRT := plan == "ok" && !emptyOK && r.chance(1, 8)
	h.s.idp.mu.Lock()
	h.s.idp.omitNewRefresh = noNewRT
	h.s.idp.tokenDuration = time.Duration(expiresIn) * time.Second
	h.s.idp.gate = func(kind string, form url.Values) *idpFault {
		if kind != "token:refresh_token" {
			return nil
		}
		if emptyOK {
			return &idpFault{status: 200, body: pick(r, []string{`{}`, `{"token_type":"Bearer"}`, `{"token_type":"Bearer","scope":"openid"}`, `{"access_token":"","refresh_token":"rt-x-9","expires_in":3600}`})}
		}
		switch plan {
		case "client": // a rejection is a 4xx, whatever its body looks like (OAuth JSON error, a gateway's HTML page, nothing at all)
			return clientRejection(clientShape)
		case "server":
			return &idpFault{status: 503, body: "down"}
		case "broken":
			return brokenTokenResponse(clientShape)
		}
		return nil
	}
	h.s.idp.mu.Unlock()
	c.count("plan:" + plan)

	// keep away from boundaries: the handler reads the clock a few ms after the harness (up to the 5 s retry budget with a failing provider)
	margin := 2 * time.Second
	if plan == "server" {
		margin = 8 * time.Second
	}
	for k := 0; k < 8; k++ {
		p := h.readState()
		if p.d == nil || !nearBoundary(p.d, time.Now(), margin) {
			break
		}
		h.tick(margin + time.Second)
	}
	pre := h.readState()
	hdr := http.Header{}
	clientAuth, clientID := "", ""
	path, ignored, nav := "/app/x", false, true
	method := "GET"
	target := ""
	hop, sidMatch := false, true
	rp, base := h.main, h.base
	switch op {
	case "proxy":
		if r.chance(1, 2) {
			clientAuth = "Bearer forged-token"
			hdr.Set("Authorization", clientAuth)
		}
		if r.chance(1, 3) {
			clientID = "forged-id-token"
			hdr.Set("X-Wonderwall-Id-Token", clientID)
		}
		if r.chance(1, 8) {
			hdr.Add("Connection", "authorization, x-wonderwall-id-token")
			hop = true
		}
		if r.chance(1, 3) {
			path, ignored = "/open/thing", true
		}
		if r.chance(1, 3) {
			nav = false
			hdr.Set("Sec-Fetch-Mode", "cors")
			hdr.Set("Sec-Fetch-Dest", "empty")
		} else {
			hdr.Set("Sec-Fetch-Mode", "navigate")
			hdr.Set("Sec-Fetch-Dest", "document")
		}
		if h.hc.mode == "sso-server" {
			path = "/app/x" // the SSO server has no upstream: wildcard redirects
		}
		target = base + path
	case "session":
		rp, base = h.srv, h.sb
		target = base + "/oauth2/session"
	case "refresh":
		rp, base = h.srv, h.sb
		target = base + "/oauth2/session/refresh"
		method = pick(r, []string{"GET", "POST"})
	case "fwdauth":
		rp, base = h.srv, h.sb
		target = base + "/oauth2/session/forwardauth"
	case "logoutlocal":
		rp, base = h.srv, h.sb
		target = base + "/oauth2/logout/local"
	case "logout":
		rp, base = h.srv, h.sb
		target = base + "/oauth2/logout"
		hdr.Set("Sec-Fetch-Mode", "navigate")
		hdr.Set("Sec-Fetch-Dest", "document")
	case "frontchannel":
		rp, base = h.srv, h.sb
		sid := "unknown-sid"
		sidMatch = false
		if pre.d != nil && r.chance(3, 4) {
			sid = pre.d.ExternalSessionID
			sidMatch = true
		}
		target = base + "/oauth2/logout/frontchannel?sid=" + url.QueryEscape(sid) + "&iss=" + url.QueryEscape(h.s.idp.issuer)
	}
	var oldCookie *jarCookie
	if jc := h.b.get(cookie.Session); jc != nil {
		cp := *jc
		oldCookie = &cp
	}
	nUp, nCalls := h.s.upCount(), h.s.idp.callCount()
	now := time.Now()
	resp := h.b.do(rp, method, target, hdr)
	ups := h.s.upSince(nUp)
	calls := h.s.idp.callsSince(nCalls)
	// the jar may have lost the cookie (logout): read the post-state with the ticket we knew before
	post := h.readState()
	if post.ticket == nil && pre.ticket != nil {
		post.ticket = pre.ticket
		if h.s.mr.Exists(pre.ticket.Key()) {
			post.ttl = h.s.mr.TTL(pre.ticket.Key())
			post.d = h.s.storedData(pre.ticket)
			post.st = 2
			if post.d != nil {
				post.st = 1
			}
		}
	}
	contacted, granted := 0, 0
	dup := false // a refresh-token value the provider has already REDEEMED (answered with new tokens) is presented again
	if h.presented == nil {
		h.presented = map[string]bool{}
	}
	for _, cl := range calls {
		if cl.Grant == "refresh_token" {
			if h.presented[cl.RefreshToken] {
				dup = true
			}
			if cl.Outcome == "ok" { // the provider processed the grant: this value is spent (a value it merely refused, or a 5xx, is not counted)
				h.presented[cl.RefreshToken] = true
			}
			contacted++
			if cl.Outcome == "ok" {
				granted++
			}
		}
	}
	// was this step served although the provider had REFUSED this session's refresh token earlier and was not even asked again?
	preSid := ""
	if pre.d != nil {
		preSid = pre.d.ExternalSessionID
	}
	afterRefusal := h.refusedSid != "" && h.refusedSid == preSid
	if granted > 0 {
		h.gen++
		h.refusedSid = ""
	} else if contacted > 0 && plan == "client" && preSid != "" {
		h.refusedSid = preSid
	}
	upAuth, upID := "-", "-"
	nAuthVals := 0
	if len(ups) > 0 {
		vals := ups[0].Header.Values("Authorization")
		nAuthVals = len(vals)
		if len(vals) > 0 {
			v := vals[0]
			switch {
			case v == clientAuth:
				upAuth = "client"
			case strings.HasPrefix(v, "Bearer "):
				upAuth = "w:" + h.atName(strings.TrimPrefix(v, "Bearer "))
			default:
				upAuth = "other"
			}
		}
		if v := ups[0].Header.Get("X-Wonderwall-Id-Token"); v != "" {
			switch {
			case v == clientID:
				upID = "client"
			default:
				upID = "w:" + idName(v)
				if pre.d != nil && v != pre.d.IDToken {
					upID = "w:other"
				}
			}
		}
	}
	// session endpoint body
	var body struct {
		Session struct {
			Active bool `json:"active"`
		} `json:"session"`
		Tokens struct {
			NextAuto int64 `json:"next_auto_refresh_in_seconds"`
			Cooldown bool  `json:"refresh_cooldown"`
		} `json:"tokens"`
	}
	hasBody := json.Unmarshal([]byte(resp.Body), &body) == nil && (op == "session" || op == "refresh") && resp.Status == 200
	sessCleared := false
	for _, ck := range resp.Cookies {
		if ck.Name == cookie.Session && ck.MaxAge < 0 {
			sessCleared = true
		}
	}
	// secrets scan of the response (C15/C09): no token may appear in any owned-endpoint response
	leak := ""
	if pre.d != nil && op != "proxy" {
		hay := resp.Body + fmt.Sprint(resp.Header)
		for name, sec := range map[string]string{"access": pre.d.AccessToken, "refresh": pre.d.RefreshToken, "id": pre.d.IDToken} {
			if sec != "" && strings.Contains(hay, sec) {
				if name == "id" && op == "logout" && strings.Contains(resp.Location, "id_token_hint="+url.QueryEscape(sec)) && strings.HasPrefix(resp.Location, h.s.idp.srv.URL+"/endsession") {
					continue
				}
				leak = name
			}
		}
	}
	hc := h.hc
	kv := []any{"hid", h.hid, "i", h.step, "mode", hc.modeNum(), "cfwd", hc.forwardAuth, "inact", hc.inactivity, "maxlife", hc.maxLifetime, "acr", hx(hc.acr),
		"idtok", hc.idTok, "autologin", hc.autoLogin,
		"op", op, "now", now, "ck", pre.ck, "plan", plan, "secs", expiresIn,
		"newat", hx(fmt.Sprintf("at%d", h.genNext(pre))), "newrt", hx(map[bool]string{true: "", false: fmt.Sprintf("rt%d", h.genNext(pre))}[noNewRT]), "dup", dup, "afterrefusal", afterRefusal,
		"lag", int64(h.s.lag+time.Since(h.s.born)), "ignored", ignored, "nav", nav, "cauth", clientAuth != "", "cid", clientID != "", "hop", hop, "sidmatch", sidMatch}
	kv = append(kv, h.stFields("", pre)...)
	kv = append(kv, "status", resp.Status, "fwd", len(ups) > 0, "upauth", upAuth, "nauth", nAuthVals, "upid", upID, "contacted", contacted, "granted", granted,
		"hasbody", hasBody, "bactive", body.Session.Active, "bnext", body.Tokens.NextAuto, "bcooldown", body.Tokens.Cooldown, "cleared", sessCleared, "leak", hx(leak),
		"nocache", strings.Contains(resp.Header.Get("Cache-Control"), "no-store") || strings.Contains(resp.Header.Get("Cache-Control"), "no-cache"))
	kv = append(kv, h.stFields("p", post)...)
	c.emit("hstep", kv...)
	if op == "logoutlocal" || op == "logout" || op == "frontchannel" {
		// follow-up with the OLD cookie on the main replica (C05 sequential part): must not be authenticated
		if pre.ticket != nil && c.rng.chance(1, 2) {
			ob := newBrowser()
			if oldCookie != nil {
				ob.jar = append(ob.jar, *oldCookie)
				n := h.s.upCount()
				r2 := ob.do(h.main, "GET", h.base+"/app/after-logout", http.Header{"Sec-Fetch-Mode": {"navigate"}, "Sec-Fetch-Dest": {"document"}})
				up2 := h.s.upSince(n)
				auth2 := "-"
				if len(up2) > 0 && up2[0].Header.Get("Authorization") != "" {
					auth2 = "w"
				}
				deleted := !h.s.mr.Exists(pre.ticket.Key())
				c.emit("hafter", "hid", h.hid, "i", h.step, "op", op, "lstatus", resp.Status, "deleted", deleted, "status", r2.Status, "upauth", auth2, "prest", pre.st, "sidmatch", sidMatch)
			}
		}
	}
}

func (h *histRun) genNext(p preState) int {
	if p.d == nil {
		return 0
	}
	n := 0
	fmt.Sscanf(rtName(p.d.RefreshToken), "rt%d", &n)
	return n + 1
}
