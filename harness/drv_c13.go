//go:build verif

package main

import (
	"sync"
	"encoding/base64"
	"encoding/json"
	"fmt"
	"net/http"
	"net/url"
	"sort"
	"strings"
	"time"

	"github.com/lestrrat-go/jwx/v2/jwk"
	"github.com/lestrrat-go/jwx/v2/jwt"
	"golang.org/x/oauth2"

	"github.com/nais/wonderwall/pkg/cookie"
	"github.com/nais/wonderwall/pkg/openid"
)

// Driver "c13": /oauth2/login (and /oauth2/logout) for Host / X-Forwarded-Host / path / level / locale / prompt combinations, single and
// multiple ingresses with path prefixes, client secret vs private-key authentication, with and without PAR. Observation: the parameters
// the provider received (front channel or PAR body), the decrypted login cookie, client authentication in back-channel bodies, and a
// scan of everything the browser received for client credentials. A freshness summary counts repeats over all visits.
func init() { register("c13", "authorization request: params, cookie binding, ingress, freshness, client credentials (C13)", runC13) }

func runC13(c *ctx) {
	r := c.rng
	type variant struct {
		ings   []string
		par    bool
		secret string
		acr    string
		locale string
		acrSup []string // advertised by the provider (nil = both idporten-loa values)
		locSup []string
	}
	variants := []variant{
		{[]string{"http://wonderwall"}, false, "", "Level4", "nb", nil, nil},
		{[]string{"http://wonderwall", "http://wonderwall/app"}, true, "", "idporten-loa-substantial", "", nil, nil},
		{[]string{"https://a.example.com/x", "https://b.example.com", "http://wonderwall/app/deep"}, false, "s3cr3t-client-secret-value", "", "en", nil, nil},
		{[]string{"http://wonderwall/app"}, true, "s3cr3t-client-secret-value", "Level3", "nb", nil, nil},
		// a provider that advertises only part of what a request may ask for: a requested level / locale (or the translation of a legacy level) that is not
		// advertised must fall back to the configured default
		{[]string{"http://wonderwall"}, false, "", "Level3", "en", []string{"idporten-loa-substantial", "custom-acr"}, []string{"en"}},
		{[]string{"http://wonderwall"}, true, "", "custom-acr", "se", []string{"custom-acr", "idporten-loa-high"}, []string{"se", "nb"}},
	}
	n := 250
	if c.thorough() {
		n = 8000
	}
	seen := map[string]int{}
	total, dups, minLen := 0, 0, 1000
	// windows: every run of 12 decoded bytes of every value; the same run inside two DIFFERENT values means the same random bytes were handed out twice
	// (a shared, unsynchronised buffer in front of the random source) even when no two values are equal as a whole
	windows := map[string]string{}
	overlaps := 0
	note := func(kind, v string) {
		total++
		if len(v) < minLen {
			minLen = len(v)
		}
		seen[v]++
		if seen[v] > 1 {
			dups++
			c.count("dup:" + kind)
			return
		}
		if raw, err := base64.RawURLEncoding.DecodeString(v); err == nil && len(raw) >= 12 {
			hit := false
			for i := 0; i+12 <= len(raw); i++ {
				w := string(raw[i : i+12])
				if o, ok := windows[w]; ok && o != v {
					hit = true
				} else {
					windows[w] = v
				}
			}
			if hit {
				overlaps++
				c.count("overlap:" + kind)
			}
		}
	}
	for vi, v := range variants {
		globalPkceMethods = [][]string{nil, {"plain", "S256"}, {"plain"}, {"S256", "plain"}}[vi%4]
		s := newSut(sutOpts{ingresses: v.ings, par: v.par, clientSecret: v.secret, acr: v.acr, locale: v.locale, sidRequired: true, secure: false, acrSupported: v.acrSup, locSupported: v.locSup})
		rp := s.replica("A")
		var pubSet jwk.Set
		if v.secret == "" {
			set := jwk.NewSet()
			set.AddKey(sharedClient.ClientJWK())
			pubSet, _ = jwk.PublicSetOf(set)
		}
		hosts := []string{}
		ingPaths := []string{}
		for _, in := range v.ings {
			u, _ := url.Parse(in)
			hosts = append(hosts, u.Host)
			ingPaths = append(ingPaths, strings.TrimRight(u.Path, "/"))
		}
		var sticky *browser
		stickyTarget, stHost, stXfh, stPrefix, stEp := "", "", "", "", ""
		var stQ url.Values
		for i := 0; i < n; i++ {
			host := pick(r, append(hosts, hosts[0], "evil.example", strings.ToUpper(hosts[0]), hosts[0]+":8080", ""))
			xfh := ""
			if r.chance(1, 3) {
				xfh = pick(r, append(hosts, "evil.example"))
			}
			prefix := pick(r, []string{"", "/app", "/app/deep", "/x", "/other", "/application"})
			if r.chance(3, 4) {
				prefix = pick(r, ingPaths)
			}
			q := url.Values{}
			if r.chance(1, 2) {
				q.Set("level", pick(r, []string{"Level3", "Level4", "idporten-loa-high", "idporten-loa-substantial", "custom-acr", "bogus", ""}))
			}
			if r.chance(1, 2) {
				q.Set("locale", pick(r, []string{"nb", "en", "se", "xx", ""}))
			}
			if r.chance(1, 3) {
				q.Set("prompt", pick(r, []string{"login", "select_account", "none", "consent", ""}))
			}
			ep := "login"
			if r.chance(1, 6) {
				ep = "logout"
			}
			if host == "" {
				host = hosts[0]
			}
			target := "http://" + host + prefix + "/oauth2/" + ep
			if len(q) > 0 {
				target += "?" + q.Encode()
			}
			hdr := http.Header{"Sec-Fetch-Mode": {"navigate"}, "Sec-Fetch-Dest": {"document"}}
			if xfh != "" {
				hdr.Set("X-Forwarded-Host", xfh)
			}
			// now and then the provider refuses the pushed authorization request: the login must then FAIL (error path), never fall back to sending
			// the parameters - let alone the client credentials - through the browser
			parFault := v.par && ep == "login" && r.chance(1, 8)
			s.idp.mu.Lock()
			if parFault {
				st := pick(r, []int{400, 401, 429})
				s.idp.gate = func(kind string, form url.Values) *idpFault {
					if kind == "par" {
						return &idpFault{status: st, body: `{"error":"invalid_request","error_description":"refused"}`}
					}
					return nil
				}
			} else {
				s.idp.gate = nil
			}
			s.idp.mu.Unlock()
			nPar, nTok := len(s.idp.parCalls), s.idp.callCount()
			b := newBrowser()
			// one visit in three comes from a browser that has ALREADY started (and abandoned) logins: it still holds the earlier attempt's login cookie;
			// every visit must nevertheless get values of its own - half of those revisit exactly the same URL
			if r.chance(1, 3) {
				if sticky == nil || r.chance(1, 10) {
					sticky, stickyTarget = newBrowser(), target
					stHost, stXfh, stPrefix, stQ, stEp = host, xfh, prefix, q, ep
				}
				b = sticky
				if r.chance(1, 2) && !parFault {
					target, host, xfh, prefix, q, ep = stickyTarget, stHost, stXfh, stPrefix, stQ, stEp
					hdr.Del("X-Forwarded-Host")
					if xfh != "" {
						hdr.Set("X-Forwarded-Host", xfh)
					}
				}
				c.count("visit:revisit-with-pending-login-cookie")
			}
			req, ok := safeRequest("GET", target)
			if !ok {
				continue
			}
			_ = req
			resp := b.do(rp, "GET", target, hdr)
			_ = nTok
			// parameters as the provider received them
			params := url.Values{}
			var lu *url.URL
			frontKeys := []string{}
			if resp.Status == 302 {
				lu, _ = url.Parse(resp.Location)
				for k := range lu.Query() {
					frontKeys = append(frontKeys, k)
				}
				sort.Strings(frontKeys)
				params = lu.Query()
			}
			parBody := url.Values{}
			s.idp.mu.Lock()
			if len(s.idp.parCalls) > nPar {
				parBody = s.idp.parCalls[len(s.idp.parCalls)-1]
			}
			s.idp.mu.Unlock()
			if v.par && len(parBody) > 0 {
				params = parBody
			}
			// login cookie
			var lc openid.LoginCookie
			hasCookie := false
			hasLogoutCookie := false
			for _, sc := range resp.Cookies { // what THIS response set (a revisiting browser still holds the cookies of earlier visits)
				if sc.Name == cookie.Login && sc.MaxAge >= 0 && sc.Value != "" {
					if raw, err := base64.RawURLEncoding.DecodeString(sc.Value); err == nil {
						if pt, err := s.crypter.Decrypt(raw); err == nil && json.Unmarshal(pt, &lc) == nil {
							hasCookie = true
						}
					}
				}
				if sc.Name == cookie.Logout && sc.MaxAge >= 0 && sc.Value != "" {
					hasLogoutCookie = true
				}
			}
			challengeOK := hasCookie && params.Get("code_challenge") == oauth2.S256ChallengeFromVerifier(lc.CodeVerifier)
			if ep == "login" && resp.Status == 302 && hasCookie {
				note("state", lc.State)
				note("nonce", lc.Nonce)
				note("verifier", lc.CodeVerifier)
			}
			// client authentication in the PAR body
			assertOK, assertWhy := true, ""
			if a := parBody.Get("client_assertion"); a != "" {
				tok, err := jwt.Parse([]byte(a), jwt.WithKeySet(pubSet), jwt.WithValidate(false))
				if err != nil {
					assertOK, assertWhy = false, "signature"
				} else {
					life := tok.Expiration().Sub(tok.IssuedAt())
					age := time.Since(tok.IssuedAt())
					switch {
					case tok.Issuer() != "client-id" || tok.Subject() != "client-id":
						assertOK, assertWhy = false, "iss/sub"
					case len(tok.Audience()) != 1 || tok.Audience()[0] != s.idp.issuer:
						assertOK, assertWhy = false, "aud"
					case life > 35*time.Second || life <= 0:
						assertOK, assertWhy = false, fmt.Sprintf("lifetime %s", life)
					case age < 0 || age > 20*time.Second:
						assertOK, assertWhy = false, fmt.Sprintf("iat age %s", age)
					}
					note("jti", tok.JwtID())
				}
			}
			// nothing the browser receives may contain client credentials
			leak := ""
			vis := resp.Location + "\n" + resp.Body + "\n" + fmt.Sprint(resp.Header)
			if v.secret != "" && strings.Contains(vis, v.secret) {
				leak = "client_secret"
			}
			if strings.Contains(vis, "client_assertion") || strings.Contains(vis, "client_secret") {
				leak = "client_auth_param"
			}
			if a := parBody.Get("client_assertion"); a != "" && strings.Contains(vis, a) {
				leak = "client_assertion"
			}
			locBase := ""
			if lu != nil {
				cp := *lu
				cp.RawQuery = ""
				locBase = cp.String()
			}
			c.count("ep:" + ep)
			c.emit("login13", "variant", vi, "ings", v.ings, "par", v.par, "secret", v.secret != "", "acrdef", hx(v.acr), "locdef", hx(v.locale), "acrsup", orDefault(v.acrSup, []string{"idporten-loa-substantial", "idporten-loa-high"}), "locsup", orDefault(v.locSup, []string{"nb", "nb", "en", "se"}), "ep", ep,
				"host", hx(host), "xfh", hx(xfh), "path", hx(prefix+"/oauth2/"+ep), "level", hx(q.Get("level")), "locale", hx(q.Get("locale")), "prompt", hx(q.Get("prompt")),
				"status", resp.Status, "locbase", hx(locBase), "frontkeys", frontKeys, "hascookie", hasCookie, "haslogoutcookie", hasLogoutCookie,
				"p_response_type", hx(params.Get("response_type")), "p_method", hx(params.Get("code_challenge_method")), "challengeok", challengeOK,
				"p_state", hx(params.Get("state")), "p_nonce", hx(params.Get("nonce")), "p_redirect", hx(params.Get("redirect_uri")), "p_acr", hx(params.Get("acr_values")),
				"p_locale", hx(params.Get("ui_locales")), "p_prompt", hx(params.Get("prompt")), "p_maxage", hx(params.Get("max_age")), "p_client", hx(params.Get("client_id")),
				"p_postlogout", hx(params.Get("post_logout_redirect_uri")),
				"c_state", hx(lc.State), "c_nonce", hx(lc.Nonce), "c_redirect", hx(lc.RedirectURI), "c_acr", hx(lc.Acr), "c_verlen", len(lc.CodeVerifier), "c_statelen", len(lc.State), "c_noncelen", len(lc.Nonce),
				"parfault", parFault, "parcalled", len(parBody) > 0, "par_secret", parBody.Get("client_secret") != "", "par_assertion", parBody.Get("client_assertion") != "", "assertok", assertOK, "assertwhy", hx(assertWhy),
				"leak", hx(leak), "authzendpoint", hx(s.idp.srv.URL+"/authorize"), "endsession", hx(s.idp.srv.URL+"/endsession"))
		}
		s.close()
	}
	globalPkceMethods = nil
	// concurrent login visits (16 at a time on one replica): the per-attempt secrets must stay pairwise distinct and every visit must succeed -
	// a random source that is shared without synchronisation hands the same bytes to two visits, or breaks
	{
		s := newSut(sutOpts{ingresses: []string{"http://wonderwall"}, sidRequired: true, secure: false})
		rp := s.replica("A")
		per := 120
		if c.thorough() {
			per = 3000
		}
		var mu sync.Mutex
		var wg sync.WaitGroup
		failed := 0
		for g := 0; g < 16; g++ {
			wg.Add(1)
			go func() {
				defer wg.Done()
				for i := 0; i < per; i++ {
					b := newBrowser()
					st := 0
					var lc openid.LoginCookie
					func() {
						defer func() {
							if recover() != nil {
								st = 599
							}
						}()
						resp := b.do(rp, "GET", "http://wonderwall/oauth2/login", http.Header{"Sec-Fetch-Mode": {"navigate"}, "Sec-Fetch-Dest": {"document"}})
						st = resp.Status
						if jc := b.get(cookie.Login); jc != nil {
							if raw, err := base64.RawURLEncoding.DecodeString(jc.Value); err == nil {
								if pt, err := s.crypter.Decrypt(raw); err == nil {
									json.Unmarshal(pt, &lc)
								}
							}
						}
					}()
					mu.Lock()
					if st != 302 || lc.State == "" {
						failed++
					} else {
						note("state", lc.State)
						note("nonce", lc.Nonce)
						note("verifier", lc.CodeVerifier)
					}
					mu.Unlock()
				}
			}()
		}
		wg.Wait()
		s.close()
		c.emit("burst13", "visits", 16*per, "failed", failed)
	}
	c.emit("fresh13", "total", total, "dups", dups, "minlen", minLen, "overlaps", overlaps)
}

func orDefault(v, d []string) []string {
	if v == nil {
		return d
	}
	return v
}
