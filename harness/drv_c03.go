//go:build verif

package main

import (
	"fmt"
	"github.com/lestrrat-go/jwx/v2/jwk"
	"crypto"
	"crypto/hmac"
	"crypto/rand"
	"crypto/rsa"
	"crypto/sha256"
	"encoding/base64"
	"encoding/json"
	"net/http"
	"net/url"
	"strings"
	"sync"
	"sync/atomic"
	"time"

	"github.com/nais/wonderwall/pkg/cookie"
	"github.com/nais/wonderwall/pkg/openid"
)

// Driver "c03": the provider mints ID tokens at every point of the fault lattice {signature} x {iss} x {aud} x {exp} x {iat} x {nbf} x
// {nonce} x {sub} x {sid} x {acr} x {no id_token}; each goes through the REAL callback (JWKS fetched over HTTP through the real
// JwksProvider, keys with and without `alg`); observation = was a session created.
func init() { register("c03", "ID token fault lattice through the real callback (C03)", runC03) }

type tokPoint struct {
	sig, iss, aud, exp, iat, nbf, nonce, sub, sid, acr string
}

var c03Dims = map[string][]string{
	"sig":   {"good", "otherkey", "none", "hs256pub", "garbage", "noidtoken", "rs512key", "enckey"},
	"iss":   {"ok", "wrong", "absent"},
	// "/azp:…": the token also carries an authorized-party claim (Keycloak / Google style); it changes nothing about which audiences are trusted
	"aud": {"client", "other", "client+untrusted", "client+trusted", "absent", "client+trusted+untrusted", "untrusted+client",
		"client+untrusted/azp:client", "client+trusted/azp:client", "client/azp:client", "client+untrusted/azp:other", "untrusted+client/azp:client"},
	"exp":   {"+60", "-3", "-7", "absent"},
	"iat":   {"0", "+3", "+7", "absent"},
	"nbf":   {"absent", "+3", "+7"},
	"nonce": {"ok", "wrong", "absent"},
	"sub":   {"ok", "absent"},
	"sid":   {"present", "absent"},
	"acr":   {"high", "substantial", "absent", "garbage"},
}
var c03Order = []string{"sig", "iss", "aud", "exp", "iat", "nbf", "nonce", "sub", "sid", "acr"}

func (p *tokPoint) field(d string) *string {
	return map[string]*string{"sig": &p.sig, "iss": &p.iss, "aud": &p.aud, "exp": &p.exp, "iat": &p.iat, "nbf": &p.nbf, "nonce": &p.nonce, "sub": &p.sub, "sid": &p.sid, "acr": &p.acr}[d]
}

func b64(b []byte) string { return base64.RawURLEncoding.EncodeToString(b) }

var otherRSA *rsa.PrivateKey

func runC03(c *ctx) {
	r := c.rng
	if otherRSA == nil {
		otherRSA, _ = rsa.GenerateKey(rand.Reader, 2048)
	}
	base := tokPoint{"good", "ok", "client", "+60", "0", "absent", "ok", "ok", "present", "high"}
	var points []tokPoint
	points = append(points, base)
	for _, d := range c03Order { // single deviations
		for _, v := range c03Dims[d][1:] {
			p := base
			*p.field(d) = v
			points = append(points, p)
		}
	}
	for i, d1 := range c03Order { // pairwise deviations
		for _, d2 := range c03Order[i+1:] {
			for _, v1 := range c03Dims[d1][1:] {
				for _, v2 := range c03Dims[d2][1:] {
					if !c.thorough() && !r.chance(1, 3) {
						continue
					}
					p := base
					*p.field(d1), *p.field(d2) = v1, v2
					points = append(points, p)
				}
			}
		}
	}
	nRand := 300
	if c.thorough() {
		nRand = 6000
	}
	for i := 0; i < nRand; i++ {
		var p tokPoint
		for _, d := range c03Order {
			vals := c03Dims[d]
			if r.chance(2, 3) {
				*p.field(d) = vals[0]
			} else {
				*p.field(d) = pick(r, vals)
			}
		}
		points = append(points, p)
	}
	type cfgv struct {
		sidReq, acrCfg, trusted, noAlg bool
		level                         string
	}
	cfgs := []cfgv{{true, true, true, false, ""}, {false, false, false, true, ""}, {true, true, false, true, "idporten-loa-high"}, {false, true, true, false, "idporten-loa-substantial"}}
	for ci, cv := range cfgs {
		o := sutOpts{sidRequired: cv.sidReq, realJwks: true}
		if cv.acrCfg {
			o.acr = "idporten-loa-substantial"
		}
		if cv.trusted {
			o.audiences = []string{"trusted-aud"}
		}
		s := newSut(o)
		s.idp.jwksNoAlg = cv.noAlg
		s.idp.extraJwks = c03ExtraJwks()
		rp := s.replica("A")
		basURL := "http://wonderwall"
		for pi, p := range points {
			if !c.thorough() && ci > 0 && pi%2 == 1 {
				continue
			}
			p := p
			var minted map[string]any
			mintNow := time.Now().Unix()
			s.idp.mu.Lock()
			s.idp.omitIDToken = p.sig == "noidtoken"
			s.idp.idTokenHook = func(claims map[string]any, req *authReq) (string, bool) {
				cl := map[string]any{"jti": claims["jti"]}
				switch p.iss {
				case "ok":
					cl["iss"] = s.idp.issuer
				case "wrong":
					cl["iss"] = "https://evil.example"
				}
				audBase, azp, _ := strings.Cut(p.aud, "/azp:")
				switch azp {
				case "client":
					cl["azp"] = req.ClientID
				case "other":
					cl["azp"] = "someone-else"
				}
				switch audBase {
				case "client":
					cl["aud"] = req.ClientID
				case "other":
					cl["aud"] = "someone-else"
				case "client+untrusted":
					cl["aud"] = []string{req.ClientID, "untrusted-aud"}
				case "untrusted+client":
					cl["aud"] = []string{"untrusted-aud", req.ClientID}
				case "client+trusted":
					cl["aud"] = []string{req.ClientID, "trusted-aud"}
				case "client+trusted+untrusted":
					cl["aud"] = []string{req.ClientID, "trusted-aud", "untrusted-aud"}
				}
				off := map[string]int64{"+60": 60, "-3": -3, "-7": -7, "0": 0, "+3": 3, "+7": 7}
				if p.exp != "absent" {
					cl["exp"] = mintNow + off[p.exp]
				}
				if p.iat != "absent" {
					cl["iat"] = mintNow + off[p.iat]
				}
				if p.nbf != "absent" {
					cl["nbf"] = mintNow + off[p.nbf]
				}
				switch p.nonce {
				case "ok":
					cl["nonce"] = req.Nonce
				case "wrong":
					cl["nonce"] = "some-other-nonce"
				}
				if p.sub == "ok" {
					cl["sub"] = "subject"
				}
				if p.sid == "present" {
					cl["sid"] = req.Sid
				}
				switch p.acr {
				case "high":
					cl["acr"] = "idporten-loa-high"
				case "substantial":
					cl["acr"] = "idporten-loa-substantial"
				case "garbage":
					cl["acr"] = "Level0"
				}
				minted = cl
				return s.idp.mintJWS(p.sig, cl), true
			}
			s.idp.mu.Unlock()
			b := newBrowser()
			q := ""
			if cv.level != "" {
				q = "?level=" + cv.level
			}
			r1 := b.do(rp, "GET", basURL+"/oauth2/login"+q, http.Header{"Sec-Fetch-Mode": {"navigate"}, "Sec-Fetch-Dest": {"document"}})
			lu, _ := url.Parse(r1.Location)
			code, req, err := s.idp.authorize(lu)
			if err != nil {
				panic(err)
			}
			nKeys := len(s.mr.Keys())
			resp := b.do(rp, "GET", basURL+"/oauth2/callback?"+url.Values{"code": {code}, "state": {req.State}}.Encode(), http.Header{"Sec-Fetch-Mode": {"navigate"}, "Sec-Fetch-Dest": {"document"}})
			created := len(s.mr.Keys()) > nKeys
			sess := b.get(cookie.Session) != nil
			_ = minted
			cookieAcr := req.Acr
			c.count("sig:" + p.sig)
			c.emit("idtok", "sidreq", cv.sidReq, "acrcfg", cv.acrCfg, "trusted", cv.trusted, "noalg", cv.noAlg, "cookieacr", hx(cookieAcr), "now", mintNow,
				"sig", p.sig, "iss", p.iss, "aud", p.aud, "exp", p.exp, "iat", p.iat, "nbf", p.nbf, "nonce", p.nonce, "sub", p.sub, "sid", p.sid, "acr", p.acr,
				"status", resp.Status, "created", created, "sesscookie", sess,
				"cls", strings.Join([]string{p.sig, p.iss, p.aud, p.exp, p.iat, p.nbf, p.nonce, p.sub, p.sid, p.acr, fmtVal(ci)}, "/"))
		}
		c03Rotation(c, s, rp, ci, cv.sidReq, cv.acrCfg, cv.trusted, cv.noAlg, cv.level)
		c03Burst(c, s, rp, ci)
		s.close()
	}
}

// c03Rotation: the provider has ROTATED its signing key since the relying party last fetched the key set. A token signed with the new key - now published - whose
// CLAIMS fail a check must be rejected whatever the relying party does about its stale key cache (refresh, retry, …): no path may skip the claim checks.
// (Tokens whose claims are all fine are not generated here: accepting them after a refresh would be legitimate, rejecting them on the first attempt is too.)
func c03Rotation(c *ctx, s *sut, rp *replica, ci int, sidReq, acrCfg, trusted, noAlg bool, level string) {
	base := tokPoint{"rotated", "ok", "client", "+60", "0", "absent", "ok", "ok", "present", "high"}
	devs := []struct{ d, v string }{{"nonce", "wrong"}, {"exp", "-7"}, {"iss", "wrong"}, {"aud", "other"}, {"acr", "absent"}, {"sub", "absent"}, {"nonce", "absent"}, {"aud", "client+untrusted"}}
	for di, dv := range devs {
		if !c.thorough() && ci > 0 && di%2 == 1 {
			continue
		}
		p := base
		*p.field(dv.d) = dv.v
		key, err := rsa.GenerateKey(rand.Reader, 2048)
		if err != nil {
			panic(err)
		}
		kid := fmt.Sprintf("rotated-%d-%d", ci, di)
		jk, _ := jwk.FromRaw(&key.PublicKey)
		jb, _ := json.Marshal(jk)
		var jm map[string]any
		json.Unmarshal(jb, &jm)
		jm["kid"], jm["use"] = kid, "sig"
		if !noAlg {
			jm["alg"] = "RS256"
		}
		mintNow := time.Now().Unix()
		s.idp.mu.Lock()
		s.idp.extraJwks = append(s.idp.extraJwks, jm) // published from now on; the relying party's cached set does not have it yet
		s.idp.omitIDToken = false
		s.idp.idTokenHook = func(claims map[string]any, req *authReq) (string, bool) {
			cl := map[string]any{"jti": claims["jti"], "iat": mintNow, "exp": mintNow + 60, "iss": s.idp.issuer, "aud": req.ClientID, "nonce": req.Nonce, "sub": "subject", "sid": req.Sid, "acr": "idporten-loa-high"}
			switch dv.d + "=" + dv.v {
			case "nonce=wrong":
				cl["nonce"] = "some-other-nonce"
			case "nonce=absent":
				delete(cl, "nonce")
			case "exp=-7":
				cl["exp"] = mintNow - 7
			case "iss=wrong":
				cl["iss"] = "https://evil.example"
			case "aud=other":
				cl["aud"] = "someone-else"
			case "aud=client+untrusted":
				cl["aud"] = []string{req.ClientID, "untrusted-aud"}
			case "acr=absent":
				delete(cl, "acr")
			case "sub=absent":
				delete(cl, "sub")
			}
			hb, _ := json.Marshal(map[string]any{"typ": "JWT", "kid": kid, "alg": "RS256"})
			pb, _ := json.Marshal(cl)
			signing := b64(hb) + "." + b64(pb)
			h := sha256.Sum256([]byte(signing))
			sig, _ := rsa.SignPKCS1v15(rand.Reader, key, crypto.SHA256, h[:])
			return signing + "." + b64(sig), true
		}
		s.idp.mu.Unlock()
		b := newBrowser()
		q := ""
		if level != "" {
			q = "?level=" + level
		}
		nav := http.Header{"Sec-Fetch-Mode": {"navigate"}, "Sec-Fetch-Dest": {"document"}}
		r1 := b.do(rp, "GET", "http://wonderwall/oauth2/login"+q, nav)
		lu, _ := url.Parse(r1.Location)
		code, req, err := s.idp.authorize(lu)
		if err != nil {
			panic(err)
		}
		nKeys := len(s.mr.Keys())
		resp := b.do(rp, "GET", "http://wonderwall/oauth2/callback?"+url.Values{"code": {code}, "state": {req.State}}.Encode(), nav)
		c.count("sig:rotated")
		c.emit("idtok", "sidreq", sidReq, "acrcfg", acrCfg, "trusted", trusted, "noalg", noAlg, "cookieacr", hx(req.Acr), "now", mintNow,
			"sig", p.sig, "iss", p.iss, "aud", p.aud, "exp", p.exp, "iat", p.iat, "nbf", p.nbf, "nonce", p.nonce, "sub", p.sub, "sid", p.sid, "acr", p.acr,
			"status", resp.Status, "created", len(s.mr.Keys()) > nKeys, "sesscookie", b.get(cookie.Session) != nil,
			"cls", strings.Join([]string{p.sig, p.iss, p.aud, p.exp, p.iat, p.nbf, p.nonce, p.sub, p.sid, p.acr, fmtVal(ci)}, "/"))
	}
	s.idp.mu.Lock()
	s.idp.idTokenHook = nil
	s.idp.mu.Unlock()
}

// c03Burst: validation decisions must not depend on what OTHER callbacks are validating at the same moment. One really-signed token (nonce B, acr
// substantial) is validated concurrently by workers whose login cookie carries nonce B (must accept) and by workers whose cookie carries nonce A, or
// that asked for a higher level (must reject) - through the real IDToken.Validate with the configuration and key set of this replica.
func c03Burst(c *ctx, s *sut, rp *replica, ci int) {
	set, err := rp.jw.GetPublicJwkSet(ctxBg())
	if err != nil {
		panic(err)
	}
	now := time.Now().Unix()
	raw := s.idp.mintJWS("good", map[string]any{"iss": s.idp.issuer, "aud": rp.oc.Client().ClientID(), "exp": now + 600, "iat": now, "nonce": "nonce-B", "sub": "subject",
		"sid": "sid-burst", "acr": "idporten-loa-substantial", "jti": "burst"})
	tok, err := openid.ParseIDToken(raw)
	if err != nil {
		panic(err)
	}
	dur := 250 * time.Millisecond
	if c.thorough() {
		dur = 3 * time.Second
	}
	type kind struct {
		name   string
		cookie openid.LoginCookie
		accept bool
	}
	kinds := []kind{{"own", openid.LoginCookie{Nonce: "nonce-B"}, true}, {"othernonce", openid.LoginCookie{Nonce: "nonce-A"}, false},
		{"higherlevel", openid.LoginCookie{Nonce: "nonce-B", Acr: "idporten-loa-high"}, len(rp.oc.Client().ACRValues()) == 0}}
	// sequential reference first
	for _, k := range kinds {
		ck := k.cookie
		if got := tok.Validate(rp.oc, &ck, set) == nil; got != k.accept {
			c.emit("idtokburst", "cfg", ci, "kind", k.name, "phase", "sequential", "n", 1, "wrongaccept", b2i(got && !k.accept), "wrongreject", b2i(!got && k.accept))
			return
		}
	}
	var wg sync.WaitGroup
	var stop atomic.Bool
	n := make([]atomic.Int64, len(kinds))
	wa := make([]atomic.Int64, len(kinds))
	wr := make([]atomic.Int64, len(kinds))
	for w := 0; w < 12; w++ {
		ki := w % len(kinds)
		wg.Add(1)
		go func() {
			defer wg.Done()
			k := kinds[ki]
			for !stop.Load() {
				ck := k.cookie
				got := tok.Validate(rp.oc, &ck, set) == nil
				n[ki].Add(1)
				if got && !k.accept {
					wa[ki].Add(1)
				}
				if !got && k.accept {
					wr[ki].Add(1)
				}
			}
		}()
	}
	time.Sleep(dur)
	stop.Store(true)
	wg.Wait()
	for i, k := range kinds {
		c.count("burst:" + k.name)
		c.emit("idtokburst", "cfg", ci, "kind", k.name, "phase", "concurrent", "n", n[i].Load(), "wrongaccept", wa[i].Load(), "wrongreject", wr[i].Load())
	}
}

func b2i(b bool) int {
	if b {
		return 1
	}
	return 0
}

// mintJWS serialises claims as a compact JWS with the requested kind of signature.
func (ip *fakeIdp) mintJWS(kind string, claims map[string]any) string {
	k, _ := ip.keys.Private.Key(0)
	var priv rsa.PrivateKey
	if err := k.Raw(&priv); err != nil {
		panic(err)
	}
	hdr := map[string]any{"typ": "JWT", "kid": k.KeyID(), "alg": "RS256"}
	switch kind {
	case "rs512key": // RS256 signature by a key the provider publishes for ANOTHER algorithm
		hdr["kid"] = "rs512-key"
	case "enckey": // RS256 signature by a published ENCRYPTION key
		hdr["kid"] = "enc-key"
	case "none":
		hdr["alg"] = "none"
	case "hs256pub":
		hdr["alg"] = "HS256"
	}
	hb, _ := json.Marshal(hdr)
	pb, _ := json.Marshal(claims)
	signing := b64(hb) + "." + b64(pb)
	h := sha256.Sum256([]byte(signing))
	switch kind {
	case "good", "noidtoken":
		sig, _ := rsa.SignPKCS1v15(rand.Reader, &priv, crypto.SHA256, h[:])
		return signing + "." + b64(sig)
	case "otherkey", "rs512key", "enckey":
		sig, _ := rsa.SignPKCS1v15(rand.Reader, otherRSA, crypto.SHA256, h[:])
		return signing + "." + b64(sig)
	case "none":
		return signing + "."
	case "hs256pub":
		pubJSON, _ := json.Marshal(ip.keys.Public)
		m := hmac.New(sha256.New, priv.PublicKey.N.Bytes())
		_ = pubJSON
		m.Write([]byte(signing))
		return signing + "." + b64(m.Sum(nil))
	default:
		sig := make([]byte, 256)
		rand.Read(sig)
		return signing + "." + b64(sig)
	}
}

// c03ExtraJwks: the public half of otherRSA published twice - as a signing key for RS512 and as an encryption key. A token signed RS256 with that
// key must not be accepted: a published key is only usable with its own algorithm / use.
func c03ExtraJwks() []map[string]any {
	if otherRSA == nil {
		otherRSA, _ = rsa.GenerateKey(rand.Reader, 2048)
	}
	var out []map[string]any
	for _, v := range [][3]string{{"rs512-key", "RS512", "sig"}, {"enc-key", "RSA-OAEP-256", "enc"}} {
		k, err := jwk.FromRaw(&otherRSA.PublicKey)
		if err != nil {
			panic(err)
		}
		b, _ := json.Marshal(k)
		var m map[string]any
		json.Unmarshal(b, &m)
		m["kid"], m["alg"], m["use"] = v[0], v[1], v[2]
		out = append(out, m)
	}
	return out
}
