//go:build verif

package main

import (
	"fmt"
	"time"
)

func init() { register("smoke", "build the SUT, log in, proxy one request (sanity)", runSmoke) }

func runSmoke(c *ctx) {
	s := newSut(sutOpts{inactivity: 30 * time.Minute})
	defer s.close()
	rp := s.replica("A")
	b := newBrowser()
	r, err := s.login(b, rp, "http://wonderwall", "")
	fmt.Println("login:", r.Status, r.Location, err)
	n := s.upCount()
	r = b.do(rp, "GET", "http://wonderwall/hello?x=1", nil)
	fmt.Println("proxy:", r.Status, r.Body)
	for _, u := range s.upSince(n) {
		fmt.Println("upstream:", u.Method, u.Path, u.Header.Get("Authorization")[:20])
	}
	t := s.ticketOf(b)
	d := s.storedData(t)
	fmt.Println("ticket:", t.Key(), "ttl:", s.mr.TTL(t.Key()), "expire:", d.Metadata.Tokens.ExpireAt, "timeout:", d.Metadata.Session.TimeoutAt)
	fmt.Println("shift ok:", s.shift(t, 6*time.Minute))
	nc := s.idp.callCount()
	r = b.do(rp, "GET", "http://wonderwall/hello", nil)
	fmt.Println("proxy after 6m:", r.Status, "idp calls:", len(s.idp.callsSince(nc)))
	r = b.do(rp, "GET", "http://wonderwall/oauth2/session", nil)
	fmt.Println("session:", r.Status, r.Body)
	fmt.Println("logs bytes:", len(s.logs.take()))
}
