import Ww.Driver.Proto
import Ww.Driver.Meta
import Ww.Driver.Sys
import Ww.Driver.C12
import Ww.Driver.C15
import Ww.Driver.C16
import Ww.Driver.C02
import Ww.Driver.C03
import Ww.Driver.C13
import Ww.Driver.Cook
import Ww.Driver.Sched
import Ww.Driver.LockWait
import Ww.Driver.Fault
import Ww.Driver.C20
import Ww.Driver.C19
import Ww.Driver.C09
import Ww.Driver.C04
import Ww.Driver.Retry
import Ww.Driver.MemLock
open Ww.Driver

def dispatch (l : Line) : List Verdict :=
  match l.kind with
  | "meta" => handleMeta l
  | "mrefresh" => handleMRefresh l
  | "mnew" => handleMNew l
  | "hstep" => handleHStep l
  | "hafter" => handleHAfter l
  | "hstart" => [Verdict.ok]
  | "glob" => handleGlob l
  | "needslogin" => handleNeedsLogin l
  | "cachesound" => handleCacheSound l
  | "alog" => handleALog l
  | "route" => handleRoute l
  | "guard" => handleGuard l
  | "owncache" => handleOwnCache l
  | "errpage" => handleErrPage l
  | "proxyown" => handleProxyOwn l
  | "cors" => handleCors l
  | "proxycmds" => handleProxyCmds l
  | "ssocookie" => handleSsoCookie l
  | "cb" => handleCb l
  | "cbrace" => handleCbRace l
  | "cbburst" => handleCbBurst l
  | "idtok" => handleIdTok l
  | "idtokburst" => handleIdTokBurst l
  | "login13" => handleLogin13 l
  | "fresh13" => handleFresh13 l
  | "burst13" => handleBurst13 l
  | "setcookie" => handleSetCookie l
  | "jar" => handleJar l
  | "cookieval14" => handleCookieVal14 l
  | "retrychain" => handleRetryChain l
  | "retryreset" => handleRetryReset l
  | "ratelimit" => handleRateLimit l
  | "sched" => handleSched l
  | "lockwait" => handleLockWait l
  | "mixedcfg" => handleMixedCfg l
  | "lease" => handleLease l
  | "retry" => handleRetry l
  | "memlock" => handleMemLock l
  | "fault" => handleFault l
  | "faultdry" => [Verdict.ok]
  | "start20" => handleStart20 l
  | "logscan" => handleLogScan l
  | "shutdown19" => handleShutdown19 l
  | "crypt" => handleCrypt l
  | "nonces" => handleNonces l
  | "cookiedec" => handleCookieDec l
  | "tamper09" => handleTamper09 l
  | "relogin09" => handleRelogin09 l
  | "keylen09" => handleKeyLen09 l
  | "concurrent09" => handleConcurrent09 l
  | "outscan" => handleOutScan l
  | "url04" => handleUrl04 l
  | "esc04" => handleEsc04 l
  | "valid04" => handleValid04 l
  | "canon04" => handleCanon04 l
  | "redir04" => handleRedir04 l
  | "whatwg04" => handleWhatwg04 l
  | "loc04" => handleLoc04 l
  | k => [Verdict.bad s!"unknown kind {k}"]

partial def loop (h : IO.FS.Stream) (out : IO.FS.Stream) (i : Nat) : IO Unit := do
  let line ← h.getLine
  if line.isEmpty then return ()
  let s := (line.dropEndWhile (· == '\n')).toString
  if s.isEmpty then loop h out (i + 1) else
  for v in dispatch (parseLine s) do
    out.putStrLn (v.render i)
  loop h out (i + 1)

def main : IO Unit := do
  let out ← IO.getStdout
  loop (← IO.getStdin) out 1
