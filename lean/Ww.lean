import Ww.Gen.Meta
import Ww.Gen.Consts
