import Ww.Gen.Meta
import Ww.Model.Sys
import Ww.Proofs.C06
import Ww.Proofs.C07
/-!
# C08 — Automatic refresh follows the documented schedule, cooldown and mode rules

Property theorems over the definitions REGENERATED from `pkg/session/data.go` (`Ww.Gen`).
Time is `Int` nanoseconds, `now` is explicit (H-CLOCK), Go's `/` is `Int.tdiv`.
-/
namespace Ww.Proofs.C08
open Ww.Gen

/-- five minutes / one minute, as literals: the theorems below fail to check if the source constants move -/
def fiveMin : Int := 300000000000
def oneMin : Int := 60000000000

/-- the documented earliest instant of an automatic refresh of an unexpired token -/
def earliest (m : Metadata) : Int :=
  if m.Session.TimeoutAt = 0 then m.Tokens.ExpireAt - fiveMin
  else min (m.Tokens.ExpireAt - fiveMin) (m.Tokens.RefreshedAt + (m.Session.TimeoutAt - m.Tokens.RefreshedAt) / 2)

theorem tdiv2 (a : Int) (h : 0 ≤ a) : a.tdiv 2 = a / 2 := Int.tdiv_eq_ediv_of_nonneg h

/-- always once the token has expired -/
theorem refresh_when_expired (m : Metadata) (now : Int) (h : m.IsExpired now = true) : m.ShouldRefresh now = true := by
  unfold Metadata.ShouldRefresh; simp [h]

/-- never while the cooldown is running (for an unexpired token) -/
theorem no_refresh_on_cooldown (m : Metadata) (now : Int) (hs : m.ShouldRefresh now = true)
    (he : m.IsExpired now = false) : m.IsRefreshOnCooldown now = false := by
  unfold Metadata.ShouldRefresh at hs
  simp [he] at hs
  cases hc : m.IsRefreshOnCooldown now <;> simp [hc] at hs ⊢

/-- never earlier than five minutes before expiry, or the half-way point to the inactivity timeout when that is sooner -/
theorem not_early (m : Metadata) (now : Int) (hs : m.ShouldRefresh now = true) (he : m.IsExpired now = false)
    (hto : m.Session.TimeoutAt = 0 ∨ m.Tokens.RefreshedAt ≤ m.Session.TimeoutAt) :
    now > earliest m := by
  unfold Metadata.ShouldRefresh at hs
  simp [he] at hs
  obtain ⟨_, hs⟩ := hs
  unfold Metadata.NextRefresh RefreshLeeway at hs
  unfold earliest fiveMin
  by_cases hz : m.Session.TimeoutAt = 0
  · simp [hz] at hs ⊢
    split at hs <;> omega
  · have hle : m.Tokens.RefreshedAt ≤ m.Session.TimeoutAt := by omega
    have := tdiv2 (m.Session.TimeoutAt - m.Tokens.RefreshedAt) (by omega)
    simp [hz] at hs ⊢
    rw [this] at hs
    split at hs <;> split at hs <;> omega


/-- the cooldown is at most one minute, never negative, and shorter for short-lived tokens: it never outlasts the token -/
theorem cooldown_bound (m : Metadata) (now : Int) (h : 0 ≤ m.TokenLifetime now) :
    m.Tokens.RefreshedAt ≤ m.RefreshCooldown now ∧ m.RefreshCooldown now ≤ m.Tokens.RefreshedAt + oneMin ∧
    m.RefreshCooldown now ≤ m.Tokens.ExpireAt ∧ (1 ≤ m.TokenLifetime now → m.RefreshCooldown now < m.Tokens.ExpireAt) := by
  have := tdiv2 (m.TokenLifetime now) h
  unfold Metadata.RefreshCooldown RefreshMinInterval oneMin
  unfold Metadata.TokenLifetime at *
  simp only []
  split <;> rename_i hc <;> simp at hc <;> omega

/-- an expired token is never on cooldown, so `refresh_when_expired` is never blocked by the cooldown -/
theorem expired_not_cooling (m : Metadata) (now : Int) (h : 0 ≤ m.TokenLifetime now) (he : m.IsExpired now = true) :
    m.IsRefreshOnCooldown now = false := by
  have hb := cooldown_bound m now h
  unfold Metadata.IsExpired at he
  unfold Metadata.IsRefreshOnCooldown
  simp at he ⊢
  omega

/-- helper (code-specific): every instant after the cooldown and inside the leeway refreshes -/
theorem refresh_window (m : Metadata) (t : Int) (hcd : t > m.RefreshCooldown t) (hlee : t > m.Tokens.ExpireAt - RefreshLeeway) :
    m.ShouldRefresh t = true := by
  unfold Metadata.ShouldRefresh Metadata.IsExpired Metadata.IsRefreshOnCooldown Metadata.NextRefresh
  have hcd' : ¬ t < m.RefreshCooldown t := by omega
  simp only []
  split
  · rfl
  · simp [hcd']
    split <;> split <;> omega

/-- a session that keeps being used always gets a refresh opportunity before its token expires -/
theorem refresh_opportunity (m : Metadata) (now : Int) (h : 1 ≤ m.TokenLifetime now) :
    ∃ t, m.IsExpired t = false ∧ m.ShouldRefresh t = true ∧ m.IsRefreshOnCooldown t = false := by
  have hb := cooldown_bound m now (by omega)
  have hcd : m.RefreshCooldown m.Tokens.ExpireAt = m.RefreshCooldown now := by
    unfold Metadata.RefreshCooldown Metadata.TokenLifetime; rfl
  refine ⟨m.Tokens.ExpireAt, ?_, ?_, ?_⟩
  · unfold Metadata.IsExpired; simp
  · apply refresh_window
    · rw [hcd]; exact hb.2.2.2 h
    · have : 0 < RefreshLeeway := by decide
      omega
  · unfold Metadata.IsRefreshOnCooldown
    rw [hcd]; simp; exact Int.le_of_lt (hb.2.2.2 h)

/-- `toSeconds` is truncation to whole seconds, clamped at zero -/
theorem toSeconds_spec (d now : Int) : toSeconds d now = if d < 1000000000 then 0 else d / 1000000000 := by
  unfold toSeconds
  simp only []
  by_cases h : 0 ≤ d
  · rw [Int.tdiv_eq_ediv_of_nonneg h]
    split <;> split <;> rename_i h1 h2 <;> simp at h1 <;> omega
  · have : d.tdiv 1000000000 ≤ 0 := by
      have h1 := Int.tdiv_nonneg (a := -d) (b := 1000000000) (by omega) (by omega)
      rw [show d = -(-d) by omega, Int.neg_tdiv]; omega
    simp [this]; omega

/-- the session metadata endpoint reports values consistent with the predicates that drive the behaviour -/
theorem verbose_consistent (m : Metadata) (now : Int) :
    let v := m.Verbose now
    v.Session.Active = !m.IsTimedOut now ∧
    v.Tokens.RefreshCooldown = m.IsRefreshOnCooldown now ∧
    v.Tokens.ExpireInSeconds = toSeconds (m.Tokens.ExpireAt - now) now ∧
    v.Tokens.RefreshCooldownSeconds = toSeconds (m.RefreshCooldown now - now) now ∧
    v.Tokens.NextAutoRefreshInSeconds = toSeconds (m.NextRefresh now - now) now ∧
    v.Session.EndsInSeconds = toSeconds (m.Session.EndsAt - now) now ∧
    (m.Session.TimeoutAt = 0 → v.Session.TimeoutInSeconds = -1) ∧
    (m.Session.TimeoutAt ≠ 0 → v.Session.TimeoutInSeconds = toSeconds (m.Session.TimeoutAt - now) now) ∧
    v.Session.MetadataSession = m.Session ∧ v.Tokens.MetadataTokens = m.Tokens := by
  unfold Metadata.Verbose
  dsimp only
  split <;> simp_all

/-- reported "refresh cooldown = false" on a refreshable, unexpired … session means a manual refresh is allowed:
    the flag is exactly the predicate `canRefresh` consults -/
theorem verbose_cooldown_seconds_zero_iff (m : Metadata) (now : Int) :
    (m.Verbose now).Tokens.RefreshCooldownSeconds = 0 ↔ m.RefreshCooldown now - now < 1000000000 := by
  have := (verbose_consistent m now).2.2.2.1
  rw [this, toSeconds_spec]
  split <;> omega

-- non-vacuity: concrete metadata meeting the hypotheses (10 min token, refreshed at t=1000 s, inactivity 30 min)
def sample : Metadata := { Session := { CreatedAt := 1000000000000, EndsAt := 37000000000000, TimeoutAt := 2800000000000 },
                           Tokens := { ExpireAt := 1600000000000, RefreshedAt := 1000000000000 } }
example : sample.ShouldRefresh 1310000000000 = true ∧ sample.IsExpired 1310000000000 = false ∧
          (sample.Session.TimeoutAt = 0 ∨ sample.Tokens.RefreshedAt ≤ sample.Session.TimeoutAt) ∧ 1 ≤ sample.TokenLifetime 0 := by decide
example : sample.ShouldRefresh 1299000000000 = false := by decide


/-! ## mode rules and "never" rules, over the handler model -/
open Ww.Model

/-- automatic refresh happens only where it is available: never in an SSO proxy, never in SSO mode without forward-auth -/
theorem auto_refresh_modes (cfg : Cfg) (ck : CookieSt) (st : StoreSt) (plan : IdpPlan) (a r : String) (now : Int)
    (h : (getSession cfg ck st plan a r now).contacted = true) : cfg.mode ≠ .ssoProxy ∧ cfg.autoRefreshDisabled = false := by
  unfold getSession at h
  split at h
  · dsimp only at h; split at h <;> simp at h
  · rename_i hm; simp at hm; exact hm

/-- the read-only session endpoint never refreshes -/
theorem info_never_refreshes (ck : CookieSt) (st : StoreSt) (now : Int) : (sessionInfo ck st now).contacted = false ∧ (sessionInfo ck st now).store = st := by
  unfold sessionInfo; dsimp only; repeat' split
  all_goals exact ⟨rfl, rfl⟩

/-- whenever any handler contacts the provider for a refresh, the stored session is live (not ended, not inactive, has an access token),
    has a refresh token and its cooldown is over -/
theorem contact_needs_refreshable (cfg : Cfg) (d0 d : Data) (plan : IdpPlan) (a r : String) (now : Int)
    (h : (refresh cfg d0 (.present d) plan a r now).contacted = true) :
    d.Validate now = [] ∧ d.RefreshToken ≠ "" ∧ d.Metadata.IsRefreshOnCooldown now = false := by
  obtain ⟨hv, hc⟩ := Ww.Proofs.C06.no_refresh_when_dead cfg d0 d plan a r now h
  refine ⟨hv, ?_, ?_⟩
  · unfold canRefresh Data.HasRefreshToken at hc
    simp at hc
    intro he; rw [he] at hc; simp at hc
  · unfold canRefresh at hc; simp at hc; exact hc.2

/-- the automatic path contacts the provider only when the schedule says a refresh is due -/
theorem auto_contact_due (cfg : Cfg) (d : Data) (plan : IdpPlan) (a r : String) (now : Int)
    (h : (getOrRefresh cfg .valid (.present d) plan a r now).contacted = true) : d.Metadata.ShouldRefresh now = true := by
  unfold getOrRefresh getSess at h
  cases hve : validateErr d now <;> simp [hve] at h
  by_cases hs : shouldRefresh d now
  · exact hs
  · simp [hs] at h

/-- manual refresh is idempotent during cooldown: 200, same metadata, store and provider untouched -/
theorem manual_refresh_idempotent (cfg : Cfg) (d : Data) (plan : IdpPlan) (a r : String) (now : Int)
    (hv : d.Validate now = []) (hc : d.Metadata.IsRefreshOnCooldown now = true) :
    sessionRefresh cfg .valid (.present d) plan a r now = ⟨200, .present d, false, false, some d⟩ := by
  have hve := Ww.Proofs.C01.validateErr_of_nil d now hv
  have hcr : canRefresh d now = false := by unfold canRefresh; simp [hc]
  unfold sessionRefresh refresh getSess
  simp [hve, hcr]

/-- an expired token on a live, refreshable session IS refreshed by a proxied request where auto-refresh is available -/
theorem expired_is_refreshed (cfg : Cfg) (d : Data) (plan : IdpPlan) (a r : String) (now : Int)
    (hm : cfg.mode ≠ .ssoProxy) (ha : cfg.autoRefreshDisabled = false)
    (hv : d.Validate now = []) (he : d.Metadata.IsExpired now = true) (hr : d.RefreshToken ≠ "") (hl : 0 ≤ d.Metadata.TokenLifetime now) :
    (getSession cfg .valid (.present d) plan a r now).contacted = true := by
  have hve := Ww.Proofs.C01.validateErr_of_nil d now hv
  have hsr : shouldRefresh d now = true := refresh_when_expired d.Metadata now he
  have hcd := expired_not_cooling d.Metadata now hl he
  have hrt : d.HasRefreshToken now = true := by
    unfold Data.HasRefreshToken; simp
    have : d.RefreshToken.length ≠ 0 := fun h0 => hr (String.length_eq_zero_iff.mp h0)
    omega
  have hcr : canRefresh d now = true := by unfold canRefresh; simp [hrt, hcd]
  unfold getSession getOrRefresh refresh getSess
  simp [hm, ha, hve, hsr, hcr]
  cases plan <;> simp [SessErr.isInvalid]

/-- **never during the cooldown, also under concurrency**: in the interleaving model (any number of racing requests of any kind, any schedule)
    the refresh performed first puts the stored pair on cooldown, and no later step of any process - including the ones that had already decided to
    refresh before the first grant and were waiting for the lock - is a provider call. (`Ww.Proofs.C07.one_refresh` read as a C08 statement: the
    re-check under the lock is what makes the cooldown rule hold for requests that raced.) -/
theorem no_grant_on_cooldown_concurrent (kinds : Ww.Model.Sched.Pid → Ww.Model.Sched.Kind) (g0 : Nat) (ps : List Ww.Model.Sched.Pid) :
    (ps.foldl (fun s p => (Ww.Model.Sched.step s p).1) (Ww.Model.Sched.init kinds g0)).presented.length ≤ 1 :=
  Ww.Proofs.C07.one_refresh kinds g0 ps

end Ww.Proofs.C08
