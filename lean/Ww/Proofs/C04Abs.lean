import Ww.Proofs.C04
/-!
# C04, absolute redirect targets (SSO server / SSO proxy): the browser reads the same authority as Go
-/
namespace Ww.Proofs.C04A
open Ww.Model Ww.Model.Url Ww.Model.Redirect Ww.Model.Browser Ww.Proofs.C04L Ww.Proofs.C04

/-- characters that end the authority for a browser -/
def isTerm (c : Char) : Bool := Browser.isSep c || c = '?' || c = '#'

def schemeChar (c : Char) : Bool := isAlnum c || c = '+' || c = '-' || c = '.'

theorem char_le_toNat (c d : Char) (h : c ≤ d) : c.toNat ≤ d.toNat := h

theorem alpha_not_c0 (a : Char) (ha : isAlpha a = true) : isC0Space a = false := by
  unfold isAlpha at ha
  unfold isC0Space
  simp only [Bool.or_eq_true, Bool.and_eq_true, decide_eq_true_eq, decide_eq_false_iff_not, Nat.not_le] at ha ⊢
  rcases ha with h | h
  · have := char_le_toNat _ _ h.1; simp at this; omega
  · have := char_le_toNat _ _ h.1; simp at this; omega

/-! ## input clean-up keeps everything up to the last non-blank character -/

theorem stripEnd_keep (X tail : Str) (x : Char) (hx : X.getLast? = some x) (hp : isC0Space x = false) :
    ∃ tail', ((X ++ tail).reverse.dropWhile isC0Space).reverse = X ++ tail' ∧ tail' <+: tail := by
  have hXr : X.reverse = x :: X.reverse.tail := by
    have : X.reverse.head? = some x := by rw [List.head?_reverse]; exact hx
    cases hr : X.reverse with
    | nil => rw [hr] at this; cases this
    | cons a r => rw [hr] at this; simp at this; simp [this]
  rw [List.reverse_append, List.dropWhile_append]
  split
  · rename_i hempty
    refine ⟨[], ?_, List.nil_prefix⟩
    rw [hXr, List.dropWhile_cons_of_neg (by simp [hp]), ← hXr]
    simp
  · refine ⟨(tail.reverse.dropWhile isC0Space).reverse, by simp, ?_⟩
    have hsuf : (tail.reverse.dropWhile isC0Space) <:+ tail.reverse := List.dropWhile_suffix _
    have := List.reverse_prefix.mpr hsuf
    simpa using this

theorem schemeRest_scan (acc r Y : Str) (hr : ∀ c ∈ r, schemeChar c = true) :
    schemeRest acc (r ++ ':' :: Y) = some (acc.reverse ++ r, Y) := by
  induction r generalizing acc with
  | nil => simp [schemeRest]
  | cons c r ih =>
    have hc := hr c List.mem_cons_self
    have hne : c ≠ ':' := by
      intro h; subst h; revert hc; decide
    simp only [List.cons_append, schemeRest, hne, if_false]
    have hc' : (isAlnum c || c = '+' || c = '-' || c = '.') = true := by simpa [schemeChar] using hc
    rw [if_pos hc']
    rw [ih (c :: acc) (fun d hd => hr d (List.mem_cons_of_mem _ hd))]
    simp

theorem takeWhile_stop (p : Char → Bool) (a t : Str) (ha : ∀ c ∈ a, p c = true) (ht : t = [] ∨ ∃ c r, t = c :: r ∧ p c = false) :
    (a ++ t).takeWhile p = a := by
  induction a with
  | nil =>
    rcases ht with h | ⟨c, r, h, hc⟩
    · simp [h]
    · simp [h, List.takeWhile, hc]
  | cons x a ih =>
    simp only [List.cons_append, List.takeWhile_cons, ha x List.mem_cons_self, if_true]
    rw [ih (fun c hc => ha c (List.mem_cons_of_mem _ hc))]

/-- **browser, absolute form**: for `scheme://authority tail` with an http(s) scheme the browser parses exactly `authority` as the authority,
    drops the credentials up to the last `@`, and hands the rest to the host/port parser — whatever the base URL is -/
theorem browse_abs (base sch auth tail : Str) (a : Char) (r : Str) (hsch : sch = a :: r) (ha : isAlpha a = true)
    (hr : ∀ c ∈ r, schemeChar c = true) (hhttp : isHttp (toLower sch) = true)
    (b : Char) (auth' : Str) (hauth : auth = b :: auth') (hac : ∀ c ∈ auth, isC0Space c = false ∧ isTerm c = false)
    (htail : tail = [] ∨ ∃ c r, tail = c :: r ∧ isTerm c = true)
    (hnt : ∀ c ∈ sch ++ ':' :: '/' :: '/' :: (auth ++ tail), isTabNl c = false) :
    browse base (sch ++ ':' :: '/' :: '/' :: (auth ++ tail)) =
      (match cutLast '@' auth with | some (_, hp) => hostPort (toLower sch) hp | none => hostPort (toLower sch) auth) := by
  -- 1. clean-up
  have hne : auth ≠ [] := by rw [hauth]; simp
  have hassoc : sch ++ ':' :: '/' :: '/' :: (auth ++ tail) = (sch ++ ':' :: '/' :: '/' :: auth) ++ tail := by simp
  have hassoc' : ∀ t', (sch ++ ':' :: '/' :: '/' :: auth) ++ t' = sch ++ ':' :: '/' :: '/' :: (auth ++ t') := by intro t'; simp
  have hlast : (sch ++ ':' :: '/' :: '/' :: auth).getLast? = some (auth.getLast hne) := by
    have : sch ++ ':' :: '/' :: '/' :: auth = (sch ++ [':', '/', '/']) ++ auth := by simp
    rw [this, List.getLast?_append, List.getLast?_eq_getLast hne]
    simp
  obtain ⟨tail', hstrip, hpre⟩ := stripEnd_keep (sch ++ ':' :: '/' :: '/' :: auth) tail _ hlast (hac _ (List.getLast_mem hne)).1
  have hclean : cleanInput (sch ++ ':' :: '/' :: '/' :: (auth ++ tail)) = sch ++ ':' :: '/' :: '/' :: auth ++ tail' := by
    unfold cleanInput
    have hd : (sch ++ ':' :: '/' :: '/' :: (auth ++ tail)).dropWhile isC0Space = sch ++ ':' :: '/' :: '/' :: (auth ++ tail) := by
      rw [hsch]
      simp only [List.cons_append]
      rw [List.dropWhile_cons_of_neg]
      simp [alpha_not_c0 a ha]
    rw [hd, hassoc, hstrip]
    apply List.filter_eq_self.mpr
    intro c hc
    have hmem : c ∈ sch ++ ':' :: '/' :: '/' :: (auth ++ tail) := by
      rw [hassoc]
      rcases List.mem_append.mp hc with h | h
      · exact List.mem_append_left _ h
      · exact List.mem_append_right _ (hpre.subset h)
    simp [hnt c hmem]
  rw [hassoc'] at hclean
  have htail' : tail' = [] ∨ ∃ c r, tail' = c :: r ∧ isTerm c = true := by
    cases tail' with
    | nil => left; rfl
    | cons c r' =>
      right
      obtain ⟨suf, hsuf⟩ := hpre
      rcases htail with h | ⟨c2, r2, h, hc2⟩
      · rw [h] at hsuf; simp at hsuf
      · rw [h] at hsuf; simp at hsuf; exact ⟨c, r', rfl, by rw [hsuf.1]; exact hc2⟩
  -- 2. scheme state
  have hscheme : schemeOf (sch ++ ':' :: '/' :: '/' :: (auth ++ tail')) = some (sch, '/' :: '/' :: (auth ++ tail')) := by
    rw [hsch]
    simp only [List.cons_append, schemeOf, ha, if_true]
    have := schemeRest_scan [a] r ('/' :: '/' :: (auth ++ tail')) hr
    simp only [List.reverse_cons, List.reverse_nil, List.nil_append, List.singleton_append] at this
    simpa using this
  -- 3. authority
  have hb : Browser.isSep b = false := by
    have := (hac b (by rw [hauth]; exact List.mem_cons_self)).2
    unfold isTerm at this
    simp at this
    simp [this.1]
  have hdrop : ('/' :: '/' :: (auth ++ tail')).dropWhile Browser.isSep = auth ++ tail' := by
    rw [List.dropWhile_cons_of_pos (by decide), List.dropWhile_cons_of_pos (by decide), hauth]
    simp only [List.cons_append]
    rw [List.dropWhile_cons_of_neg (by simp [hb])]
  have hauthority : ∀ s, authority s (auth ++ tail') =
      (match cutLast '@' auth with | some (_, hp) => hostPort s hp | none => hostPort s auth) := by
    intro s
    unfold authority
    have : (auth ++ tail').takeWhile (fun c => !(Browser.isSep c || c = '?' || c = '#')) = auth := by
      apply takeWhile_stop
      · intro c hc
        have := (hac c hc).2
        unfold isTerm at this
        simp [this]
      · rcases htail' with h | ⟨c, r', h, hc⟩
        · left; exact h
        · right; refine ⟨c, r', h, ?_⟩
          unfold isTerm at hc
          simp [hc]
    simp only [this]
    cases cutLast '@' auth <;> rfl
  unfold browse
  simp only [hclean, hscheme, hhttp, if_true]
  split
  · unfold relRef
    have : (Browser.isSep '/' && Browser.isSep '/') = true := by decide
    simp only [this, if_true, hdrop]
    exact hauthority _
  · rw [hdrop]
    exact hauthority _

/-! ## Go side: what ParseRequestURI accepted as an absolute http(s) URL has the form scheme "://" authority tail -/

theorem alpha_schemeChar (c : Char) (h : isAlpha c = true) : schemeChar c = true := by
  unfold schemeChar isAlnum; simp [h]

theorem getSchemeGo_some (acc s sch rest : Str) (h : getSchemeGo acc s = some (sch, rest)) (hne : sch ≠ [])
    (hacc : ∀ c ∈ acc, schemeChar c = true) (hacc1 : acc = [] ∨ ∃ a, acc.getLast? = some a ∧ isAlpha a = true) :
    acc.reverse ++ s = sch ++ ':' :: rest ∧ (∀ c ∈ sch, schemeChar c = true) ∧ ∃ a r, sch = a :: r ∧ isAlpha a = true := by
  induction s generalizing acc with
  | nil => simp [getSchemeGo] at h; exact absurd h.1 hne
  | cons c cs ih =>
    unfold getSchemeGo at h
    have hlast : ∀ (hc : schemeChar c = true), (acc = [] → isAlpha c = true) →
        (∀ d ∈ c :: acc, schemeChar d = true) ∧ (c :: acc = [] ∨ ∃ a, (c :: acc).getLast? = some a ∧ isAlpha a = true) := by
      intro hc hfirst
      refine ⟨?_, Or.inr ?_⟩
      · intro d hd
        rcases List.mem_cons.mp hd with h1 | h1
        · rw [h1]; exact hc
        · exact hacc d h1
      · rcases hacc1 with h0 | ⟨a, ha, haa⟩
        · subst h0; exact ⟨c, by simp, hfirst rfl⟩
        · refine ⟨a, ?_, haa⟩
          cases acc with
          | nil => simp at ha
          | cons x xs => simp [List.getLast?_cons_cons] at ha ⊢; exact ha
    split at h
    · rename_i hal
      obtain ⟨h1, h2⟩ := hlast (alpha_schemeChar c hal) (fun _ => hal)
      have := ih (c :: acc) h h1 h2
      simpa using this
    · split at h
      · rename_i hdig
        split at h
        · simp at h; exact absurd h.1 hne
        · rename_i hacc0
          have hsc : schemeChar c = true := by
            unfold schemeChar isAlnum
            simp only [Bool.or_eq_true, decide_eq_true_eq] at hdig ⊢
            rcases hdig with ((h | h) | h) | h
            · left; left; left; right; exact h
            · left; left; right; exact h
            · left; right; exact h
            · right; exact h
          obtain ⟨h1, h2⟩ := hlast hsc (fun h0 => absurd h0 hacc0)
          have := ih (c :: acc) h h1 h2
          simpa using this
      · split at h
        · rename_i hcol
          split at h
          · cases h
          · rename_i hacc0
            simp at h
            obtain ⟨hs, hr⟩ := h
            subst hs; subst hr; subst hcol
            refine ⟨by simp, ?_, ?_⟩
            · intro d hd; exact hacc d (by simpa using hd)
            · rcases hacc1 with h0 | ⟨a, ha, haa⟩
              · exact absurd h0 hacc0
              · cases hr : acc.reverse with
                | nil => simp at hr; exact absurd hr hacc0
                | cons x xs =>
                  refine ⟨x, xs, rfl, ?_⟩
                  have : acc.reverse.head? = some a := by rw [List.head?_reverse]; exact ha
                  rw [hr] at this
                  simp at this
                  rw [this]; exact haa
        · simp at h; exact absurd h.1 hne

theorem getScheme_some (raw sch rest : Str) (h : getScheme raw = some (sch, rest)) (hne : sch ≠ []) :
    raw = sch ++ ':' :: rest ∧ (∀ c ∈ sch, schemeChar c = true) ∧ ∃ a r, sch = a :: r ∧ isAlpha a = true := by
  have := getSchemeGo_some [] raw sch rest h hne (by intro c hc; cases hc) (Or.inl rfl)
  simpa using this

theorem startsWith2 (s : Str) (h : startsWith ['/', '/'] s = true) : s = '/' :: '/' :: s.drop 2 := by
  match s, h with
  | [], h => simp [startsWith] at h
  | [_], h => simp [startsWith] at h
  | a :: b :: t, h =>
    simp [startsWith] at h
    simp [← h.1, ← h.2]

theorem parse_req_abs (raw : Str) (u : URL) (h : parse raw true = some u) (hs : u.scheme ≠ []) (hh : u.host ≠ []) :
    ∃ sch0 rest0, getScheme raw = some (sch0, rest0) ∧ sch0 ≠ [] ∧ u.scheme = toLower sch0 ∧ raw.any isCTL = false ∧
      (splitQuery rest0).1 = '/' :: '/' :: (splitQuery rest0).1.drop 2 ∧
      parseAuthority (cut '/' ((splitQuery rest0).1.drop 2)).1 = some (u.user, u.host) := by
  unfold parse at h
  split at h
  · cases h
  · rename_i hctl
    split at h
    · cases h
    · split at h
      · injection h with h; subst h; exact absurd rfl hs
      · split at h
        · cases h
        · rename_i scheme0 rest0 hg
          dsimp only at h
          have hsch : ∀ v : URL, v.scheme = toLower scheme0 → u.scheme = v.scheme → scheme0 ≠ [] := by
            intro v hv huv h0; subst h0; rw [huv, hv] at hs; exact hs rfl
          split at h
          · injection h with h; subst h; exact absurd rfl hh
          · split at h
            · cases h
            · split at h
              · cases h
              · split at h
                · rename_i hc
                  split at h
                  · cases h
                  · rename_i user host hpa
                    have hf := setPath_fields _ _ _ h
                    refine ⟨scheme0, rest0, hg, hsch _ rfl hf.2.1, hf.2.1, by simpa using hctl, startsWith2 _ hc.2, ?_⟩
                    rw [hf.2.2.1, hf.2.2.2.1]
                    exact hpa
                · split at h
                  · have hf := setPath_fields _ _ _ h; exact absurd hf.2.2.1 hh
                  · have hf := setPath_fields _ _ _ h; exact absurd hf.2.2.1 hh

theorem splitQuery_suffix (r : Str) : ∃ suf, r = (splitQuery r).1 ++ suf ∧ (suf = [] ∨ ∃ q, suf = '?' :: q) := by
  unfold splitQuery
  split
  · rename_i h
    have hs : ['?'] <:+ r := by
      have := h.1
      unfold endsWith at this
      exact List.isSuffixOf_iff_suffix.mp this
    obtain ⟨x, hx⟩ := hs
    refine ⟨['?'], ?_, Or.inr ⟨[], rfl⟩⟩
    rw [← hx]
    simp
  · dsimp only
    refine ⟨_, cut_spec '?' r, ?_⟩
    split
    · right; exact ⟨_, rfl⟩
    · left; rfl

/-- an accepted absolute target, taken apart the way Go's parser took it apart -/
theorem abs_decompose (allowed : List Str) (E : Str) (h : absValid allowed E = true) :
    ∃ (sch0 auth tail : Str) (u : URL), E = sch0 ++ ':' :: '/' :: '/' :: (auth ++ tail) ∧
      (∀ c ∈ sch0, schemeChar c = true) ∧ (∃ a r, sch0 = a :: r ∧ isAlpha a = true) ∧ isHttp (toLower sch0) = true ∧
      parseAuthority auth = some (u.user, u.host) ∧ isAllowedHost u allowed = true ∧
      (tail = [] ∨ ∃ c r, tail = c :: r ∧ isTerm c = true) ∧ E.any isCTL = false := by
  unfold absValid parseRequestURI at h
  simp only [Bool.and_eq_true] at h
  obtain ⟨_, h⟩ := h
  split at h
  · cases h
  · rename_i u hp
    simp only [Bool.and_eq_true, Bool.not_eq_true'] at h
    obtain ⟨⟨hrel, hsch⟩, hhost⟩ := h
    have hh : u.host ≠ [] := by
      unfold isAllowedHost at hhost
      simp only [Bool.and_eq_true, bne_iff_ne, ne_eq, decide_eq_true_eq] at hhost
      simpa using hhost.1.1
    have hs : u.scheme ≠ [] := by
      unfold isValidScheme at hsch
      intro h0
      rw [h0] at hsch
      simp at hsch
    obtain ⟨sch0, rest0, hg, hne, hsc, hctl, hrest, hpa⟩ := parse_req_abs E u hp hs hh
    obtain ⟨hraw, hchars, hfirst⟩ := getScheme_some E sch0 rest0 hg hne
    obtain ⟨suf, hsuf, hsufc⟩ := splitQuery_suffix rest0
    have hcut := cut_spec '/' ((splitQuery rest0).1.drop 2)
    refine ⟨sch0, (cut '/' ((splitQuery rest0).1.drop 2)).1,
      (if (cut '/' ((splitQuery rest0).1.drop 2)).2.2 then '/' :: (cut '/' ((splitQuery rest0).1.drop 2)).2.1 else []) ++ suf, u, ?_, hchars, hfirst, ?_, hpa, hhost, ?_, hctl⟩
    · rw [hraw]
      congr 1
      congr 1
      rw [← List.append_assoc, ← hcut]
      have : '/' :: '/' :: (List.drop 2 (splitQuery rest0).1 ++ suf) = ('/' :: '/' :: List.drop 2 (splitQuery rest0).1) ++ suf := by simp
      rw [this, ← hrest]
      exact hsuf
    · unfold isValidScheme at hsch
      unfold isHttp
      rw [← hsc]
      exact hsch
    · split
      · right; exact ⟨'/', _, rfl, by decide⟩
      · rcases hsufc with h0 | ⟨q, hq⟩
        · left; simp [h0]
        · right; exact ⟨'?', q, by simp [hq], by decide⟩

/-! ## every byte of an authority Go accepts is one a browser keeps inside the authority -/

def okAuthChar (c : Char) : Prop := isC0Space c = false ∧ isTerm c = false

theorem alnum_ok (c : Char) (h : isAlnum c = true) : okAuthChar c := by
  unfold isAlnum isAlpha isDigit at h
  simp only [Bool.or_eq_true, Bool.and_eq_true, decide_eq_true_eq] at h
  have hn : 48 ≤ c.toNat ∧ c.toNat ≠ 63 ∧ c.toNat ≠ 92 ∧ (c.toNat ≤ 57 ∨ 65 ≤ c.toNat) := by
    rcases h with (h | h) | h
    · have h1 := char_le_toNat _ _ h.1; have h2 := char_le_toNat _ _ h.2; simp at h1 h2; omega
    · have h1 := char_le_toNat _ _ h.1; have h2 := char_le_toNat _ _ h.2; simp at h1 h2; omega
    · have h1 := char_le_toNat _ _ h.1; have h2 := char_le_toNat _ _ h.2; simp at h1 h2; omega
  unfold okAuthChar isC0Space isTerm Browser.isSep
  refine ⟨by simp; omega, ?_⟩
  simp only [Bool.or_eq_false_iff, decide_eq_false_iff_not]
  refine ⟨⟨⟨?_, ?_⟩, ?_⟩, ?_⟩ <;> (intro hc; subst hc; simp at hn)

theorem hostNoEsc_cases (m : Mode) (hm : m = .host ∨ m = .zone) (c : Char) (h : shouldEscape c m = false) :
    isAlnum c = true ∨ hostExtra.contains c = true ∨ unreservedMarks.contains c = true := by
  unfold shouldEscape at h
  by_cases h1 : isAlnum c = true
  · left; exact h1
  · by_cases h2 : hostExtra.contains c = true
    · right; left; exact h2
    · by_cases h3 : unreservedMarks.contains c = true
      · right; right; exact h3
      · exfalso
        simp at h2 h3
        rcases hm with hm | hm <;> subst hm <;> simp [h1, h2, h3] at h

theorem hostNoEsc_ok (m : Mode) (hm : m = .host ∨ m = .zone) (c : Char) (h : shouldEscape c m = false) : okAuthChar c := by
  rcases hostNoEsc_cases m hm c h with h1 | h1 | h1
  · exact alnum_ok c h1
  · have : ∀ d ∈ hostExtra, isC0Space d = false ∧ isTerm d = false := by decide
    exact this c (by simpa using h1)
  · have : ∀ d ∈ unreservedMarks, isC0Space d = false ∧ isTerm d = false := by decide
    exact this c (by simpa using h1)

theorem ge128_ok (c : Char) (h : ¬ c.toNat < 128) : okAuthChar c := by
  unfold okAuthChar isC0Space isTerm Browser.isSep
  refine ⟨by simp; omega, ?_⟩
  simp only [Bool.or_eq_false_iff, decide_eq_false_iff_not]
  refine ⟨⟨⟨?_, ?_⟩, ?_⟩, ?_⟩ <;> (intro hc; subst hc; simp at h)

theorem hex_ok (c : Char) (h : ishex c = true) : okAuthChar c := by
  apply alnum_ok
  unfold ishex at h
  unfold isAlnum isAlpha
  simp only [Bool.or_eq_true, Bool.and_eq_true, decide_eq_true_eq] at h ⊢
  rcases h with (h | h) | h
  · right; exact h
  · left; left
    have h2 := char_le_toNat _ _ h.2
    refine ⟨h.1, ?_⟩
    show c.toNat ≤ 'z'.toNat
    simp at h2 ⊢; omega
  · left; right
    have h2 := char_le_toNat _ _ h.2
    refine ⟨h.1, ?_⟩
    show c.toNat ≤ 'Z'.toNat
    simp at h2 ⊢; omega

theorem unescapeOk_chars (m : Mode) (hm : m = .host ∨ m = .zone) : ∀ (s : Str), unescapeOk m s = true → ∀ c ∈ s, okAuthChar c
  | [], _, c, hc => by cases hc
  | d :: rest, h, c, hc => by
    unfold unescapeOk at h
    by_cases hd : d = '%'
    · simp only [hd, if_true] at h
      match rest, h, hc with
      | a :: b :: rest', h, hc =>
        simp only [Bool.and_eq_true] at h
        obtain ⟨⟨⟨⟨ha, hb⟩, _⟩, _⟩, hrest⟩ := h
        rcases List.mem_cons.mp hc with h1 | h1
        · rw [h1, hd]; exact ⟨by decide, by decide⟩
        · rcases List.mem_cons.mp h1 with h2 | h2
          · rw [h2]; exact hex_ok a ha
          · rcases List.mem_cons.mp h2 with h3 | h3
            · rw [h3]; exact hex_ok b hb
            · exact unescapeOk_chars m hm rest' hrest c h3
      | [_], h, _ => simp at h
      | [], h, _ => simp at h
    · simp only [hd, if_false] at h
      by_cases hp : d = '+'
      · simp only [hp, if_true] at h
        rcases List.mem_cons.mp hc with h1 | h1
        · rw [h1, hp]; exact ⟨by decide, by decide⟩
        · exact unescapeOk_chars m hm rest h c h1
      · simp only [hp, if_false] at h
        split at h
        · cases h
        · rename_i hcond
          rcases List.mem_cons.mp hc with h1 | h1
          · rw [h1]
            by_cases h128 : d.toNat < 128
            · apply hostNoEsc_ok m hm
              by_cases hse : shouldEscape d m = true
              · exact absurd ⟨hm, h128, hse⟩ hcond
              · simpa using hse
            · exact ge128_ok d h128
          · exact unescapeOk_chars m hm rest h c h1

theorem cutLast_spec (c : Char) (s b a : Str) (h : cutLast c s = some (b, a)) : s = b ++ c :: a ∧ c ∉ a := by
  unfold cutLast at h
  dsimp only at h
  split at h
  · rename_i hf
    injection h with h
    injection h with h1 h2
    have hs := cut_spec c s.reverse
    rw [if_pos hf] at hs
    have : s = (s.reverse).reverse := by simp
    rw [this, hs, ← h1, ← h2]
    refine ⟨by simp, ?_⟩
    intro hm
    exact cut_not_mem c s.reverse (by simpa using hm)
  · cases h

theorem cutLast_none (c : Char) (s : Str) (h : cutLast c s = none) : c ∉ s := by
  unfold cutLast at h
  dsimp only at h
  split at h
  · cases h
  · rename_i hf
    have hs := cut_spec c s.reverse
    simp at hf
    rw [hf] at hs
    simp at hs
    intro hm
    have : c ∈ s.reverse := by simpa using hm
    rw [hs] at this
    exact cut_not_mem c s.reverse this

theorem splitZone_spec (s x y : Str) (h : splitZone s = some (x, y)) : s = x ++ y := by
  induction s generalizing x with
  | nil => simp [splitZone] at h
  | cons c rest ih =>
    unfold splitZone at h
    split at h
    · injection h with h; injection h with h1 h2; rw [← h1, ← h2]; simp
    · cases hr : splitZone rest with
      | none => rw [hr] at h; simp at h
      | some p =>
        rw [hr] at h
        simp at h
        obtain ⟨h1, h2⟩ := h
        have := ih p.1 (by rw [hr, ← h2])
        rw [← h1, this]
        simp

theorem unescape_ok (m : Mode) (s p : Str) (h : unescape m s = some p) : unescapeOk m s = true := by
  unfold unescape at h
  split at h
  · assumption
  · cases h

theorem parseHost_chars (hp host : Str) (h : parseHost hp = some host) : ∀ c ∈ hp, okAuthChar c := by
  unfold parseHost at h
  split at h
  · split at h
    · cases h
    · rename_i inside colonPort hcl
      obtain ⟨hsp, _⟩ := cutLast_spec _ _ _ _ hcl
      split at h
      · cases h
      · split at h
        · rename_i h1 zoneOn hz
          split at h
          · rename_i a b c ha hb hc
            have hin := splitZone_spec _ _ _ hz
            intro x hx
            rw [hsp, hin] at hx
            rcases List.mem_append.mp hx with hx1 | hx1
            · rcases List.mem_append.mp hx1 with hx2 | hx2
              · exact unescapeOk_chars .host (Or.inl rfl) _ (unescape_ok _ _ _ ha) x hx2
              · exact unescapeOk_chars .zone (Or.inr rfl) _ (unescape_ok _ _ _ hb) x hx2
            · exact unescapeOk_chars .host (Or.inl rfl) _ (unescape_ok _ _ _ hc) x hx1
          · cases h
        · exact unescapeOk_chars .host (Or.inl rfl) _ (unescape_ok _ _ _ h)
  · split at h
    · split at h
      · cases h
      · exact unescapeOk_chars .host (Or.inl rfl) _ (unescape_ok _ _ _ h)
    · exact unescapeOk_chars .host (Or.inl rfl) _ (unescape_ok _ _ _ h)

/-- the part of the authority after the last `@` -/
def hostPart (auth : Str) : Str := match cutLast '@' auth with | some (_, hp) => hp | none => auth

theorem parseAuthority_spec (auth host : Str) (user : Option (Str × Option Str)) (h : parseAuthority auth = some (user, host)) :
    parseHost (hostPart auth) = some host ∧ ∀ c ∈ auth, okAuthChar c := by
  unfold parseAuthority at h
  unfold hostPart
  split at h
  · rename_i hn
    rw [hn]
    cases hph : parseHost auth with
    | none => rw [hph] at h; simp at h
    | some h' =>
      rw [hph] at h; simp at h
      exact ⟨by rw [h.2], parseHost_chars _ _ hph⟩
  · rename_i userinfo hostpart hc
    rw [hc]
    obtain ⟨hsp, _⟩ := cutLast_spec _ _ _ _ hc
    split at h
    · cases h
    · rename_i h' hph
      have hvalid : validUserinfo userinfo = true := by
        by_cases hv : validUserinfo userinfo = true
        · exact hv
        · simp [hv] at h
      have hhost : h' = host := by
        simp only [hvalid, Bool.not_true, Bool.false_eq_true, if_false] at h
        split at h
        · cases hu : unescape Mode.userPassword userinfo with
          | none => rw [hu] at h; simp at h
          | some u => rw [hu] at h; simp at h; exact h.2
        · split at h
          · injection h with h; injection h with _ h2
          · cases h
      refine ⟨by rw [hph, hhost], ?_⟩
      intro c hcm
      rw [hsp] at hcm
      rcases List.mem_append.mp hcm with h1 | h1
      · unfold validUserinfo at hvalid
        have := List.all_eq_true.mp hvalid c h1
        simp only [Bool.or_eq_true] at this
        rcases this with h2 | h2
        · exact alnum_ok c h2
        · have hall : ∀ d ∈ userinfoExtra, isC0Space d = false ∧ isTerm d = false := by decide
          exact hall c (by simpa using h2)
      · rcases List.mem_cons.mp h1 with h2 | h2
        · rw [h2]; exact ⟨by decide, by decide⟩
        · exact parseHost_chars _ _ hph c h2

/-! ## hexEscapeNonASCII leaves the ASCII part alone -/

theorem hexEsc_append (a b : Str) : hexEscapeNonASCII (a ++ b) = hexEscapeNonASCII a ++ hexEscapeNonASCII b := by
  unfold hexEscapeNonASCII; simp [List.flatMap_append]

theorem hexEsc_ascii (a : Str) (h : ∀ c ∈ a, c.toNat < 128) : hexEscapeNonASCII a = a := by
  induction a with
  | nil => rfl
  | cons c r ih =>
    have hc := h c List.mem_cons_self
    have : hexEscapeNonASCII (c :: r) = c :: hexEscapeNonASCII r := by
      unfold hexEscapeNonASCII
      rw [List.flatMap_cons]
      have : ¬ c.toNat ≥ 128 := by omega
      simp [this]
    rw [this, ih (fun d hd => h d (List.mem_cons_of_mem _ hd))]

theorem hexEsc_tabnl (s : Str) (h : ∀ c ∈ s, isTabNl c = false) : ∀ c ∈ hexEscapeNonASCII s, isTabNl c = false := by
  intro x hx
  unfold hexEscapeNonASCII at hx
  rcases List.mem_flatMap.mp hx with ⟨c, hc, hxc⟩
  split at hxc
  · simp at hxc
    rcases hxc with h1 | h1 | h1
    · rw [h1]; decide
    · rw [h1]; exact lowerhex_not_tabnl _ (Nat.mod_lt _ (by decide))
    · rw [h1]; exact lowerhex_not_tabnl _ (Nat.mod_lt _ (by decide))
  · simp at hxc; rw [hxc]; exact h c hc

theorem cut_append_notmem (c : Char) (x t : Str) (h : c ∉ x) : (cut c (x ++ t)).1 = x ++ (cut c t).1 := by
  induction x with
  | nil => rfl
  | cons d x ih =>
    have hd : d ≠ c := fun e => h (by rw [e]; exact List.mem_cons_self)
    rw [List.cons_append, cut_cons_ne _ _ _ hd, ih (fun hm => h (List.mem_cons_of_mem _ hm))]
    rfl

theorem term_ascii (c : Char) (h : isTerm c = true) : c.toNat < 128 := by
  unfold isTerm Browser.isSep at h
  simp at h
  rcases h with ((h | h) | h) | h <;> (subst h; decide)

theorem schemeChar_props (c : Char) (h : schemeChar c = true) : c ≠ '?' ∧ isTabNl c = false := by
  unfold schemeChar at h
  simp only [Bool.or_eq_true, decide_eq_true_eq] at h
  rcases h with ((h | h) | h) | h
  · have := alnum_ok c h
    unfold okAuthChar isTerm at this
    refine ⟨?_, ?_⟩
    · intro hc; subst hc; simp at this
    · unfold isTabNl; unfold isC0Space at this
      simp at this ⊢
      refine ⟨⟨?_, ?_⟩, ?_⟩ <;> (intro hc; subst hc; simp at this)
  · subst h; exact ⟨by decide, by decide⟩
  · subst h; exact ⟨by decide, by decide⟩
  · subst h; exact ⟨by decide, by decide⟩

theorem okAuth_props (c : Char) (h : okAuthChar c) : c ≠ '?' ∧ isTabNl c = false := by
  unfold okAuthChar isTerm isC0Space at h
  refine ⟨?_, ?_⟩
  · intro hc; subst hc; simp at h
  · unfold isTabNl
    simp at h ⊢
    refine ⟨⟨?_, ?_⟩, ?_⟩ <;> (intro hc; subst hc; simp at h)

/-- **C04, absolute targets — authority agreement.** Whatever absolute target the validator accepts: the browser (after net/http's
    escaping of non-ASCII bytes) reads the very same authority bytes that Go's parser read, discards the same credentials, and hands to
    its host parser exactly the string whose decoded form Go checked against the allow-list. No `\`, `#`, `?`, `@`, whitespace, TAB/LF
    or scheme-only trick makes the two disagree about where the authority is. (ASCII hypothesis: true of every `URL.String()` output,
    see `toStr` — path, host, user and fragment are percent-escaped there; only the query is copied raw.) -/
theorem abs_authority_agrees (base : Str) (allowed : List Str) (E : Str) (h : absValid allowed E = true)
    (hascii : ∀ c ∈ (cut '?' E).1, c.toNat < 128) :
    ∃ (sch auth : Str) (u : URL), isHttp (toLower sch) = true ∧ parseHost (hostPart auth) = some u.host ∧ isAllowedHost u allowed = true ∧
      browse base (hexEscapeNonASCII E) = hostPort (toLower sch) (hostPart auth) := by
  obtain ⟨sch0, auth, tail, u, hE, hchars, ⟨a, r, hsa, haa⟩, hhttp, hpa, hallowed, htail, hctl⟩ := abs_decompose allowed E h
  obtain ⟨hph, hauthc⟩ := parseAuthority_spec _ _ _ hpa
  have hauthne : auth ≠ [] := by
    intro h0
    have hh : u.host ≠ [] := by
      unfold isAllowedHost at hallowed
      simp only [Bool.and_eq_true, bne_iff_ne, ne_eq, decide_eq_true_eq] at hallowed
      simpa using hallowed.1.1
    rw [h0] at hph
    have : parseHost (hostPart []) = some [] := by decide
    rw [this] at hph
    injection hph with hph
    exact hh hph.symm
  obtain ⟨b, auth', hb⟩ := List.exists_cons_of_ne_nil hauthne
  -- everything up to the end of the authority is free of `?`, hence ASCII, hence untouched by the escaper
  have hX : E = (sch0 ++ ':' :: '/' :: '/' :: auth) ++ tail := by rw [hE]; simp
  have hnoq : '?' ∉ sch0 ++ ':' :: '/' :: '/' :: auth := by
    intro hm
    rcases List.mem_append.mp hm with h1 | h1
    · exact (schemeChar_props _ (hchars _ h1)).1 rfl
    · simp only [List.mem_cons] at h1
      rcases h1 with h1 | h1 | h1 | h1
      · revert h1; decide
      · revert h1; decide
      · revert h1; decide
      · exact (okAuth_props _ (hauthc _ h1)).1 rfl
  have hXascii : ∀ c ∈ sch0 ++ ':' :: '/' :: '/' :: auth, c.toNat < 128 := by
    intro c hc
    apply hascii
    rw [hX, cut_append_notmem _ _ _ hnoq]
    exact List.mem_append_left _ hc
  have hL : hexEscapeNonASCII E = sch0 ++ ':' :: '/' :: '/' :: (auth ++ hexEscapeNonASCII tail) := by
    rw [hX, hexEsc_append, hexEsc_ascii _ hXascii]
    simp
  have htabE : ∀ c ∈ E, isTabNl c = false := by
    intro c hc
    apply ctl_tabnl
    have := List.any_eq_false.mp hctl c hc
    simpa using this
  rw [hL]
  refine ⟨sch0, auth, u, hhttp, hph, hallowed, ?_⟩
  have := browse_abs base sch0 auth (hexEscapeNonASCII tail) a r hsa haa
    (by intro c hc; exact hchars c (by rw [hsa]; exact List.mem_cons_of_mem _ hc)) hhttp b auth' hb hauthc
    (by
      rcases htail with h0 | ⟨c, r', hc, hterm⟩
      · left; rw [h0]; rfl
      · right
        refine ⟨c, hexEscapeNonASCII r', ?_, hterm⟩
        rw [hc]
        have : hexEscapeNonASCII (c :: r') = hexEscapeNonASCII [c] ++ hexEscapeNonASCII r' := by rw [← hexEsc_append]; rfl
        rw [this, hexEsc_ascii [c] (by intro d hd; simp at hd; rw [hd]; exact term_ascii c hterm)]
        rfl)
    (by
      intro c hc
      have hsplit : sch0 ++ ':' :: '/' :: '/' :: (auth ++ hexEscapeNonASCII tail) = (sch0 ++ ':' :: '/' :: '/' :: auth) ++ hexEscapeNonASCII tail := by simp
      rw [hsplit] at hc
      rcases List.mem_append.mp hc with h1 | h1
      · exact htabE c (by rw [hX]; exact List.mem_append_left _ h1)
      · exact hexEsc_tabnl tail (fun d hd => htabE d (by rw [hX]; exact List.mem_append_right _ hd)) c h1)
  rw [this]
  unfold hostPart
  cases cutLast '@' auth <;> rfl

end Ww.Proofs.C04A
