import Ww.Model.Sys
import Ww.Proofs.C01
/-!
# C06 — No session outlives its maximum lifetime or its inactivity timeout

Over the regenerated metadata functions (`Ww.Gen`) and the handler model (`Ww.Model`): invariants over EVERY history of
login / request / manual and automatic refresh / passage of time, for every configuration and provider token lifetime.
-/
namespace Ww.Proofs.C06
open Ww.Gen Ww.Model Ww.Proofs.C01

/-- session invariant: the end is creation + max lifetime; with inactivity the timeout is last refresh + timeout and the token never outlives it -/
structure Inv (cfg : Cfg) (d : Data) : Prop where
  ends : d.Metadata.Session.EndsAt = d.Metadata.Session.CreatedAt + cfg.maxLifetime
  idleOn : cfg.inactivity > 0 → d.Metadata.Session.TimeoutAt = d.Metadata.Tokens.RefreshedAt + cfg.inactivity ∧
            d.Metadata.Tokens.ExpireAt ≤ d.Metadata.Session.TimeoutAt
  idleOff : ¬ cfg.inactivity > 0 → d.Metadata.Session.TimeoutAt = 0

/-- login establishes the invariant -/
theorem create_inv (cfg : Cfg) (a r i acr sid : String) (secs now : Int) : Inv cfg (createData cfg a r i acr sid secs now) := by
  unfold createData NewMetadata Metadata.WithTimeout
  by_cases h : cfg.inactivity > 0
  · constructor <;> simp [h] <;> (try split) <;> simp <;> omega
  · constructor <;> simp [h]

/-- a refresh preserves it: the session end and creation time never move, the timeout is re-armed from the refresh instant -/
theorem grant_inv (cfg : Cfg) (d : Data) (a r : String) (secs now : Int) (h : Inv cfg d) : Inv cfg (applyGrant cfg d a r secs now) := by
  obtain ⟨h1, h2, h3⟩ := h
  unfold applyGrant Metadata.Refresh Metadata.WithTimeout
  by_cases hi : cfg.inactivity > 0
  · constructor <;> simp [hi] <;> (try split) <;> simp_all <;> omega
  · constructor <;> simp [hi] <;> simp_all

theorem grant_keeps_end (cfg : Cfg) (d : Data) (a r : String) (secs now : Int) :
    (applyGrant cfg d a r secs now).Metadata.Session.EndsAt = d.Metadata.Session.EndsAt ∧
    (applyGrant cfg d a r secs now).Metadata.Session.CreatedAt = d.Metadata.Session.CreatedAt :=
  ⟨(applyGrant_session cfg d a r secs now).1, (applyGrant_session cfg d a r secs now).2.1⟩

/-- how any handler step can change the store entry of a session: not at all, delete it, or replace it by a refresh of a VALIDATED record -/
inductive StoreStep (cfg : Cfg) (now : Int) : StoreSt → StoreSt → Prop where
  | same (s) : StoreStep cfg now s s
  | deleted (s) : StoreStep cfg now s .absent
  | refreshed (d a r secs) : d.Validate now = [] → canRefresh d now = true → StoreStep cfg now (.present d) (.present (applyGrant cfg d a r secs now))

theorem refresh_step (cfg : Cfg) (d : Data) (st : StoreSt) (plan : IdpPlan) (a r : String) (now : Int) :
    StoreStep cfg now st (refresh cfg d st plan a r now).store := by
  unfold refresh
  by_cases hc : canRefresh d now <;> simp only [hc]
  · cases st with
    | absent => simp [getSess]; exact .same _
    | undecryptable => simp [getSess]; exact .same _
    | present d0 =>
      simp only [getSess]
      cases hve : validateErr d0 now with
      | some e => simp; exact .same _
      | none =>
        simp
        by_cases hc2 : canRefresh d0 now <;> simp [hc2]
        · cases plan <;> simp
          · exact .refreshed d0 a r _ (validateErr_none d0 now hve) hc2
          all_goals exact .same _
        · exact .same _
  · simp; exact .same _

theorem getSession_step (cfg : Cfg) (ck : CookieSt) (st : StoreSt) (plan : IdpPlan) (a r : String) (now : Int) :
    StoreStep cfg now st (getSession cfg ck st plan a r now).store := by
  unfold getSession getOrRefresh
  split
  · dsimp only; split <;> exact .same _
  · generalize getSess ck st now = g
    rcases g with ⟨ge, gs⟩
    cases ge <;> cases gs <;> simp <;> try exact .same _
    rename_i d
    by_cases hs : shouldRefresh d now <;> simp [hs]
    · have := refresh_step cfg d st plan a r now
      cases hre : (refresh cfg d st plan a r now).err <;> simp [hre]
      · exact this
      · split <;> exact this
    · exact .same _

theorem proxy_step (cfg : Cfg) (ck : CookieSt) (st : StoreSt) (plan : IdpPlan) (a r : String) (ign : Bool) (now : Int) :
    StoreStep cfg now st (proxy cfg ck st plan a r ign now).store := by
  have hs : (proxy cfg ck st plan a r ign now).store = (getSession cfg ck st plan a r now).store := by
    unfold proxy proxyUnauth; dsimp only; repeat' split
    all_goals rfl
  rw [hs]; exact getSession_step cfg ck st plan a r now

theorem sessionRefresh_step (cfg : Cfg) (ck : CookieSt) (st : StoreSt) (plan : IdpPlan) (a r : String) (now : Int) :
    StoreStep cfg now st (sessionRefresh cfg ck st plan a r now).store := by
  unfold sessionRefresh
  generalize getSess ck st now = g
  rcases g with ⟨ge, gs⟩
  cases ge <;> cases gs <;> simp <;> try exact .same _
  rename_i d
  have := refresh_step cfg d st plan a r now
  split <;> exact this

theorem forwardAuth_step (cfg : Cfg) (ck : CookieSt) (st : StoreSt) (plan : IdpPlan) (a r : String) (now : Int) :
    StoreStep cfg now st (forwardAuth cfg ck st plan a r now).store := by
  have := getSession_step cfg ck st plan a r now
  unfold forwardAuth
  dsimp only
  repeat' split
  all_goals first | exact this | exact .same _

/-- the store after any step still satisfies the invariant -/
theorem step_inv (cfg : Cfg) (now : Int) (s s' : StoreSt) (h : StoreStep cfg now s s')
    (hi : ∀ d, s = .present d → Inv cfg d) : ∀ d, s' = .present d → Inv cfg d := by
  cases h with
  | same => exact hi
  | deleted => intro d hd; cases hd
  | refreshed d0 a r secs hv hc =>
    intro d hd; cases hd
    exact grant_inv cfg d0 a r secs now (hi d0 rfl)

/-- events of a history as seen by one session's store entry -/
inductive Event where
  | login (a r i acr sid : String) (secs : Int)            -- a completed callback: Create
  | proxy (ck : CookieSt) (plan : IdpPlan) (a r : String) (ign : Bool)
  | manualRefresh (ck : CookieSt) (plan : IdpPlan) (a r : String)
  | forwardAuth (ck : CookieSt) (plan : IdpPlan) (a r : String)
  | info (ck : CookieSt)
  | logout (ck : CookieSt)
  | tick (d : Int)                                         -- passage of time (any amount, also negative: clock steps)

structure World where
  store : StoreSt
  now : Int

def stepW (cfg : Cfg) (w : World) : Event → World
  | .login a r i acr sid secs => { w with store := .present (createData cfg a r i acr sid secs w.now) }
  | .proxy ck plan a r ign => { w with store := (proxy cfg ck w.store plan a r ign w.now).store }
  | .manualRefresh ck plan a r => { w with store := (sessionRefresh cfg ck w.store plan a r w.now).store }
  | .forwardAuth ck plan a r => { w with store := (Ww.Model.forwardAuth cfg ck w.store plan a r w.now).store }
  | .info _ => w
  | .logout ck => { w with store := logoutStore ck w.store w.now }
  | .tick d => { w with now := w.now + d }

def run (cfg : Cfg) (w : World) (es : List Event) : World := es.foldl (stepW cfg) w

theorem stepW_inv (cfg : Cfg) (w : World) (e : Event) (hi : ∀ d, w.store = .present d → Inv cfg d) :
    ∀ d, (stepW cfg w e).store = .present d → Inv cfg d := by
  cases e with
  | login a r i acr sid secs => intro d hd; simp [stepW] at hd; subst hd; exact create_inv ..
  | proxy ck plan a r ign => exact step_inv cfg w.now _ _ (proxy_step ..) hi
  | manualRefresh ck plan a r => exact step_inv cfg w.now _ _ (sessionRefresh_step ..) hi
  | forwardAuth ck plan a r => exact step_inv cfg w.now _ _ (forwardAuth_step ..) hi
  | info => exact hi
  | logout ck =>
    intro d hd
    simp only [stepW, logoutStore] at hd
    split at hd
    · cases hd
    · exact hi d hd
  | tick d => exact hi

/-- **C06 (invariant over histories).** After ANY sequence of logins, requests, refreshes, logouts and clock movements the stored session
    satisfies `Inv`: its end is creation + max lifetime however often it was refreshed. -/
theorem run_inv (cfg : Cfg) (es : List Event) (w : World) (hi : ∀ d, w.store = .present d → Inv cfg d) :
    ∀ d, (run cfg w es).store = .present d → Inv cfg d := by
  induction es generalizing w with
  | nil => exact hi
  | cons e es ih => exact ih (stepW cfg w e) (stepW_inv cfg w e hi)

/-- **C06 (never accepted after the end / the inactivity timeout).** In any reachable world, a request that is given a token is served no later
    than creation + max lifetime and, with inactivity on, no later than the last login/refresh + inactivity timeout. -/
theorem accepted_within_lifetime (cfg : Cfg) (es : List Event) (ck : CookieSt) (plan : IdpPlan) (a r : String) (ign : Bool) (t : String) :
    let w := run cfg ⟨.absent, 0⟩ es
    (proxy cfg ck w.store plan a r ign w.now).upAuth = some t →
    ∃ d, (proxy cfg ck w.store plan a r ign w.now).store = .present d ∧
      w.now ≤ d.Metadata.Session.CreatedAt + cfg.maxLifetime ∧
      (cfg.inactivity > 0 → d.Metadata.Session.TimeoutAt ≠ 0 → w.now ≤ d.Metadata.Tokens.RefreshedAt + cfg.inactivity) := by
  -- (`TimeoutAt ≠ 0`: Go encodes "no timeout" as the zero time, i.e. year 1; it cannot arise from `now + timeout` at any real clock value)
  intro w h
  obtain ⟨d, _, hst, hv, _, _⟩ := sound cfg ck w.store plan a r ign w.now t h
  have hinv0 : ∀ d, w.store = .present d → Inv cfg d := run_inv cfg es ⟨.absent, 0⟩ (by intro d hd; cases hd)
  have hinv := step_inv cfg w.now _ _ (proxy_step cfg ck w.store plan a r ign w.now) hinv0 d hst
  obtain ⟨_, h2, h3, _, _⟩ := hv
  refine ⟨d, hst, ?_, ?_⟩
  · rw [← hinv.ends]; omega
  · intro hi hne
    have := hinv.idleOn hi
    have hng : ¬ w.now > d.Metadata.Session.TimeoutAt := fun hg => h3 ⟨hne, hg⟩
    omega

/-- an ended session answers 401 on both session endpoints and is never refreshed -/
theorem ended_status (cfg : Cfg) (d : Data) (plan : IdpPlan) (a r : String) (now : Int) (h : now > d.Metadata.Session.EndsAt) (ha : d.AccessToken ≠ "") :
    (sessionInfo .valid (.present d) now).status = 401 ∧ (sessionRefresh cfg .valid (.present d) plan a r now).status = 401 ∧
    (sessionRefresh cfg .valid (.present d) plan a r now).contacted = false := by
  have hv : d.Validate now = ["ErrInvalid"] := by
    unfold Data.Validate Metadata.IsEnded
    have := (hasAccess_iff d now).mpr ha
    simp [this, h]
  have hve : validateErr d now = some .invalid := by unfold validateErr; rw [hv]; simp
  unfold sessionInfo sessionRefresh getSess
  simp [hve, statusOfErr]

/-- a merely inactive session is readable as inactive (200 on the info endpoint, which renders `active = false`) but not refreshable -/
theorem idle_status (cfg : Cfg) (d : Data) (plan : IdpPlan) (a r : String) (now : Int) (he : ¬ now > d.Metadata.Session.EndsAt)
    (hz : d.Metadata.Session.TimeoutAt ≠ 0) (ht : now > d.Metadata.Session.TimeoutAt) (ha : d.AccessToken ≠ "") :
    (sessionInfo .valid (.present d) now).status = 200 ∧ (sessionInfo .valid (.present d) now).body = some d ∧
    (d.Metadata.Verbose now).Session.Active = false ∧
    (sessionRefresh cfg .valid (.present d) plan a r now).status = 401 ∧ (sessionRefresh cfg .valid (.present d) plan a r now).contacted = false := by
  have hv : d.Validate now = ["ErrInvalid", "ErrInactive"] := by
    unfold Data.Validate Metadata.IsEnded Metadata.IsTimedOut
    have := (hasAccess_iff d now).mpr ha
    have h1 : ¬ d.Metadata.Session.EndsAt < now := by omega
    have h2 : d.Metadata.Session.TimeoutAt < now := by omega
    simp [this, hz, h1, h2]
  have hve : validateErr d now = some .inactive := by unfold validateErr; rw [hv]; simp
  have hact : (d.Metadata.Verbose now).Session.Active = false := by
    unfold Metadata.Verbose Metadata.IsTimedOut
    simp [hz]; omega
  unfold sessionInfo sessionRefresh getSess
  simp [hve, statusOfErr, hact]

/-- the provider is never contacted on behalf of an ended or inactive session, whichever handler runs -/
theorem no_refresh_when_dead (cfg : Cfg) (d0 d : Data) (plan : IdpPlan) (a r : String) (now : Int)
    (h : (refresh cfg d0 (.present d) plan a r now).contacted = true) : d.Validate now = [] ∧ canRefresh d now = true := by
  unfold refresh getSess at h
  by_cases hc : canRefresh d0 now <;> simp [hc] at h
  cases hve : validateErr d now <;> simp [hve] at h
  by_cases hc2 : canRefresh d now <;> simp [hc2] at h
  exact ⟨validateErr_none d now hve, hc2⟩

/-- **a request that had to wait for the refresh lock judges the session again**: whatever the request saw when it started (`d`), if the re-read under the
    lock (`st`) finds the session ended, inactive, undecryptable or gone, no provider is contacted and nothing is written (session_manager.go:Refresh
    re-reads through the VALIDATING reader) -/
theorem waiting_request_revalidates (cfg : Cfg) (d : Data) (st : StoreSt) (plan : IdpPlan) (a r : String) (now : Int)
    (h : (getSess .valid st now).err ≠ none) :
    (refresh cfg d st plan a r now).contacted = false ∧ (refresh cfg d st plan a r now).store = st := by
  unfold refresh
  by_cases hc : canRefresh d now = true
  · simp only [hc, Bool.not_true, Bool.false_eq_true, if_false]
    cases he : (getSess .valid st now).err with
    | none => exact absurd he h
    | some e => simp [he]
  · simp [hc]

end Ww.Proofs.C06
