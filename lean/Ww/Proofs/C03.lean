import Ww.Model.Callback
/-!
# C03 — Only an ID token passing every OpenID Connect check can create a session
-/
namespace Ww.Proofs.C03
open Ww.Model

/-- "acr is at least the level requested": substantial ≤ high with the legacy names mapped, equality for anything else -/
def acrAtLeast (requested actual : String) : Prop :=
  (requested ∈ ["idporten-loa-substantial", "Level3"] ∧ actual ∈ ["idporten-loa-substantial", "idporten-loa-high"]) ∨
  (requested ∈ ["idporten-loa-high", "Level4"] ∧ actual = "idporten-loa-high") ∨
  (requested ∉ ["idporten-loa-substantial", "Level3", "idporten-loa-high", "Level4"] ∧ actual = requested)

theorem acr_order (e a : String) : acrAccepts e a = true ↔ acrAtLeast e a := by
  unfold acrAccepts acrTranslate' acrAtLeast
  by_cases h3 : e = "Level3" <;> by_cases h4 : e = "Level4" <;> by_cases hs : e = "idporten-loa-substantial" <;> by_cases hh : e = "idporten-loa-high" <;>
    simp_all <;> (try decide) <;> (try (constructor <;> intro h <;> (try (rcases h with h | h <;> simp_all)) <;> simp_all))

/-- **C03.** A token response is accepted only if it contains an ID token that verifies under a published key with that key's algorithm
    (hence never `none`, never a symmetric algorithm keyed by public material), whose iss is the issuer, whose aud contains the client id and no
    untrusted additional audience, whose exp / iat / nbf hold within the skew, whose nonce is this attempt's nonce, which has sub, has sid when
    required, and whose acr is present (when a level is configured) and at least the level requested. -/
theorem accepted_token_passes_every_check (cfg : OidcCfg) (nonce cookieAcr : String) (now : Int) (t : Option IdToken)
    (h : acceptIdToken cfg nonce cookieAcr now t = true) :
    ∃ tok, t = some tok ∧ tok.sig = .publishedKey ∧ tok.sig ≠ .algNone ∧ tok.sig ≠ .symmetricWithPublic ∧
      tok.iss = some cfg.issuer ∧ cfg.clientId ∈ tok.aud ∧ (tok.aud.length > 1 → ∀ a ∈ tok.aud, a = cfg.clientId ∨ a ∈ cfg.trusted) ∧
      (∃ e, tok.exp = some e ∧ now < e + cfg.skew) ∧ (∃ i, tok.iat = some i ∧ i - cfg.skew ≤ now) ∧ (∀ n, tok.nbf = some n → n - cfg.skew ≤ now) ∧
      tok.nonce = some nonce ∧ tok.sub.isSome = true ∧ (cfg.sidRequired = true → tok.sid.isSome = true) ∧
      (cfg.acrConfigured = true → ∃ a, tok.acr = some a ∧ (cookieAcr ≠ "" → acrAtLeast cookieAcr a)) := by
  unfold acceptIdToken at h
  cases t with
  | none => simp at h
  | some tok =>
    simp only [Bool.and_eq_true, Bool.or_eq_true, decide_eq_true_eq, Bool.not_eq_true', List.all_eq_true, List.contains_iff_mem] at h
    obtain ⟨⟨⟨⟨⟨⟨⟨⟨⟨⟨⟨hsig, hacr⟩, hiss⟩, hsub⟩, _⟩, haud⟩, hexp⟩, hiat⟩, hnbf⟩, hnonce⟩, hsid⟩, htr⟩ := h
    refine ⟨tok, rfl, hsig, by rw [hsig]; decide, by rw [hsig]; decide, hiss, by simpa using haud, ?_, ?_, ?_, ?_, hnonce, hsub, ?_, ?_⟩
    · intro hl a ha
      rcases htr with htr | htr
      · omega
      · have := htr a ha; simpa using this
    · cases he : tok.exp with
      | none => simp [he] at hexp
      | some e => simp [he] at hexp; exact ⟨e, rfl, hexp⟩
    · cases hi : tok.iat with
      | none => simp [hi] at hiat
      | some i => simp [hi] at hiat; exact ⟨i, rfl, hiat⟩
    · intro n hn; simp [hn] at hnbf; exact hnbf
    · intro hs; rcases hsid with hsid | hsid
      · rw [hs] at hsid; cases hsid
      · exact hsid
    · intro hc
      rcases hacr with hacr | hacr
      · rw [hc] at hacr; cases hacr
      · obtain ⟨ha1, ha2⟩ := hacr
        cases hac : tok.acr with
        | none => simp [hac] at ha1
        | some a =>
          refine ⟨a, rfl, ?_⟩
          intro hne
          rcases ha2 with ha2 | ha2
          · exact absurd ha2 hne
          · simp [hac] at ha2; exact (acr_order cookieAcr a).mp ha2

/-- no ID token, or an unverifiable one, is never accepted — whatever its claims say -/
theorem unverified_never_accepted (cfg : OidcCfg) (nonce cookieAcr : String) (now : Int) (tok : IdToken) (h : tok.sig ≠ .publishedKey) :
    acceptIdToken cfg nonce cookieAcr now (some tok) = false ∧ acceptIdToken cfg nonce cookieAcr now none = false := by
  constructor
  · unfold acceptIdToken
    simp [h]
  · rfl

-- non-vacuity: a fully valid token is accepted; the same token one second after exp + skew is not
def good : IdToken := { sig := .publishedKey, iss := some "https://idp", aud := ["client"], exp := some 1000, iat := some 940, nonce := some "n", sub := some "s", sid := some "x", acr := some "idporten-loa-high" }
def cfg0 : OidcCfg := { issuer := "https://idp", clientId := "client", sidRequired := true, acrConfigured := true }
example : acceptIdToken cfg0 "n" "Level3" 1004 (some good) = true ∧ acceptIdToken cfg0 "n" "Level3" 1005 (some good) = false ∧
          acceptIdToken cfg0 "n" "Level4" 950 (some { good with acr := some "idporten-loa-substantial" }) = false ∧
          acceptIdToken cfg0 "n" "" 950 (some { good with aud := ["client", "other"] }) = false ∧
          acceptIdToken { cfg0 with trusted := ["other"] } "n" "" 950 (some { good with aud := ["client", "other"] }) = true := by decide

end Ww.Proofs.C03
