import Ww.Model.MemLock
/-!
# The in-memory lock excludes, and a dead holder blocks for at most one lease (C07 / C10 on the in-memory store)
-/
namespace Ww.Proofs.MemLock
open Ww.Model.MemLock

/-- **exclusion**: while `p` holds the lock, nobody else obtains it and the entry stays `p`'s -/
theorem refused_while_held (s : St) (p q now lease : Nat) (hp : holds s p now = true) (hq : q ≠ p) :
    acquire s q now lease = (s, false) := by
  unfold holds at hp
  cases s with
  | none => simp at hp
  | some h =>
    simp only [Bool.and_eq_true, beq_iff_eq, decide_eq_true_eq] at hp
    unfold acquire
    have : h.holder ≠ q := by intro e; exact hq (by omega)
    simp [this, hp.2]

/-- a successful acquisition makes the caller the holder for exactly one lease -/
theorem acquired_holds (s : St) (me now lease : Nat) (h : (acquire s me now lease).2 = true) :
    (acquire s me now lease).1 = some ⟨me, now + lease⟩ := by
  unfold acquire at *
  cases s with
  | none => rfl
  | some e => by_cases c : e.holder ≠ me ∧ now < e.expires <;> simp [c] at h ⊢

/-- **at most one holder**: whatever the history, two different processes never hold the lock at the same instant -/
theorem at_most_one_holder (s : St) (p q now : Nat) (hp : holds s p now = true) (hq : holds s q now = true) : p = q := by
  unfold holds at hp hq
  cases s with
  | none => simp at hp
  | some h =>
    simp only [Bool.and_eq_true, beq_iff_eq] at hp hq
    omega

/-- **a dead holder blocks for at most one lease** (C10): once the holder's lease has run out, the next acquisition succeeds, whoever asks -/
theorem obtained_after_expiry (h : Entry) (q now lease : Nat) (hexp : h.expires ≤ now) :
    acquire (some h) q now lease = (some ⟨q, now + lease⟩, true) := by
  unfold acquire
  have : ¬ (h.holder ≠ q ∧ now < h.expires) := by omega
  simp [this]

/-- a free lock is obtained at once -/
theorem obtained_when_free (q now lease : Nat) : acquire none q now lease = (some ⟨q, now + lease⟩, true) := rfl

/-- **only the holder releases**: a release by someone else (e.g. a request whose lease ran out and whose lock was taken over) leaves the new holder's entry alone -/
theorem release_only_own (s : St) (p q now : Nat) (hp : holds s p now = true) (hq : q ≠ p) : release s q = s := by
  unfold holds at hp
  cases s with
  | none => simp at hp
  | some h =>
    simp only [Bool.and_eq_true, beq_iff_eq, decide_eq_true_eq] at hp
    unfold release
    have : h.holder ≠ q := by intro e; exact hq (by omega)
    simp [this]

theorem release_own (s : St) (p now : Nat) (hp : holds s p now = true) : release s p = none := by
  unfold holds at hp
  cases s with
  | none => simp at hp
  | some h =>
    simp only [Bool.and_eq_true, beq_iff_eq] at hp
    unfold release
    simp [hp.1]

/-- **exclusion over whole histories**: run any sequence of operations; if `p` holds the lock at `now` afterwards, an acquisition by anybody else at `now` fails -
    stated on the fold so that it covers every reachable state -/
theorem exclusion_reachable (ops : List Op) (p q now lease : Nat) (hq : q ≠ p)
    (hp : holds (ops.foldl (fun s o => (step s o).1) none) p now = true) :
    (acquire (ops.foldl (fun s o => (step s o).1) none) q now lease).2 = false := by
  rw [refused_while_held _ p q now lease hp hq]

/-- non-vacuity: p takes the lock at 100 for 10; q is refused at 105, succeeds at 110; p's late release at 111 does not remove q's entry -/
example :
    let s1 := (acquire none 1 100 10).1
    (acquire s1 2 105 10).2 = false ∧ (acquire s1 2 110 10) = (some ⟨2, 120⟩, true) ∧ release (acquire s1 2 110 10).1 1 = some ⟨2, 120⟩ ∧ holds s1 1 105 = true := by decide

end Ww.Proofs.MemLock
