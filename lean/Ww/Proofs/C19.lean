import Ww.Model.Shutdown
import Ww.Gen.Facts
import Ww.Model.ShutdownSrc
/-!
# C19 — Shutdown drains in-flight requests and always terminates in time  (PARTIAL: the protocol arithmetic and ordering are proved; signal delivery,
`http.Server.Shutdown` and the Go scheduler are the runtime, tied by timed runs of the real binary with a stated tolerance)
-/
namespace Ww.Proofs.C19
open Ww.Model

theorem deadline_is_grace (c : ShutdownCfg) : deadline c = c.grace := by unfold deadline shutdownTimeout; omega

theorem lastFinish_ge_wait (c : ShutdownCfg) (rs : List Req) : c.wait ≤ lastFinish c rs := by
  unfold lastFinish
  generalize rs.filter (accepted c) = l
  have : ∀ (l : List Req) (m : Int), m ≤ l.foldl (fun m r => max m (finish r)) m := by
    intro l
    induction l with
    | nil => intro m; simp
    | cons x xs ih => intro m; simp only [List.foldl_cons]; exact Int.le_trans (Int.le_max_left _ _) (ih _)
  exact this l c.wait

theorem lastFinish_le (c : ShutdownCfg) (rs : List Req) (b : Int) (hb : c.wait ≤ b) (h : ∀ r ∈ rs, accepted c r = true → finish r ≤ b) : lastFinish c rs ≤ b := by
  unfold lastFinish
  have : ∀ (l : List Req) (m : Int), m ≤ b → (∀ r ∈ l, finish r ≤ b) → l.foldl (fun m r => max m (finish r)) m ≤ b := by
    intro l
    induction l with
    | nil => intro m hm _; simpa
    | cons x xs ih =>
      intro m hm hl
      simp only [List.foldl_cons]
      apply ih
      · exact Int.max_le.mpr ⟨hm, hl x List.mem_cons_self⟩
      · intro r hr; exact hl r (List.mem_cons_of_mem _ hr)
  apply this _ _ hb
  intro r hr
  have := List.mem_filter.mp hr
  exact h r this.1 this.2

/-- **always terminates in time**: the process exits no later than the graceful period after the signal -/
theorem exits_by_deadline (c : ShutdownCfg) (hv : c.wait < c.grace) (rs : List Req) : (exitOf c rs).1 ≤ c.grace := by
  unfold exitOf
  split
  · rename_i h
    simp only []
    apply lastFinish_le c rs c.grace (by omega)
    intro r hr ha
    unfold allDrain at h
    have := List.all_eq_true.mp h r hr
    simp [ha] at this
    rw [deadline_is_grace] at this
    exact this
  · simp only []; rw [deadline_is_grace]; exact Int.le_refl _

/-- keeps serving during the wait-before period, refuses afterwards -/
theorem accepts_during_wait (c : ShutdownCfg) (r : Req) : (outcome c r ≠ .refused ↔ r.arrive < c.wait) := by
  unfold outcome accepted
  by_cases h : r.arrive < c.wait <;> simp [h]
  split <;> simp

/-- **no accepted request is cut off while time remains** -/
theorem drains (c : ShutdownCfg) (r : Req) (ha : r.arrive < c.wait) (hf : finish r ≤ c.grace) : outcome c r = .complete := by
  unfold outcome accepted
  simp [ha, deadline_is_grace, hf]

/-- exits successfully as soon as the in-flight requests have completed (never before the wait-before period is over) -/
theorem prompt_successful_exit (c : ShutdownCfg) (rs : List Req) (h : ∀ r ∈ rs, r.arrive < c.wait → finish r ≤ c.grace) :
    (exitOf c rs).2 = true ∧ (exitOf c rs).1 = lastFinish c rs ∧ c.wait ≤ (exitOf c rs).1 := by
  have hd : allDrain c rs = true := by
    unfold allDrain
    apply List.all_eq_true.mpr
    intro r hr
    by_cases ha : accepted c r = true
    · unfold accepted at ha; simp at ha
      have := h r hr ha
      simp [deadline_is_grace, this]
    · simp at ha; simp [ha]
  unfold exitOf
  simp [hd]
  exact lastFinish_ge_wait c rs

/-- otherwise it exits anyway, at the deadline, with a failure status -/
theorem forced_exit (c : ShutdownCfg) (rs : List Req) (r : Req) (hr : r ∈ rs) (ha : r.arrive < c.wait) (hl : finish r > c.grace) :
    exitOf c rs = (c.grace, false) := by
  have hd : allDrain c rs = false := by
    unfold allDrain
    apply Bool.eq_false_iff.mpr
    intro hall
    have := List.all_eq_true.mp hall r hr
    unfold accepted at this
    simp [ha, deadline_is_grace] at this
    omega
  unfold exitOf
  simp [hd, deadline_is_grace]

/-- **tie to the source (regenerated facts)**: the timeout handed to Shutdown is graceful − wait-before; Start registers the signal handler, sleeps, calls
    Shutdown (never Close) and has a fatal exit for the deadline -/
theorem source_shape :
    Ww.Gen.Facts.shutdownTimeoutExpr = "cfg.ShutdownGracefulPeriod - cfg.ShutdownWaitBeforePeriod" ∧
    (Ww.Gen.Facts.serverCalls.any fun (n, calls) => n == "Start" && calls.contains "signal.Notify" && calls.contains "time.Sleep" && calls.contains "server.Shutdown" &&
      calls.contains "log.Fatalf" && !calls.contains "server.Close") = true := by decide +kernel

/-- **tie to the source, semantic (regenerated op list)**: interpreting the statements of the signal goroutine in SOURCE ORDER, for every setting of the two
    periods, the listeners are closed exactly `wait-before` after the signal and the forced (fatal, non-zero) exit is armed for exactly `graceful` after the
    signal - the two parameters of the protocol model above. (The clock of the deadline starts after the wait: sleeping after arming it, a timeout of the
    full graceful period, draining under another context, `Close` instead of `Shutdown`, or no fatal exit on the deadline all make this fail.) -/
theorem source_timing (c : ShutdownCfg) :
    Ww.Model.ShutdownSrc.timing c Ww.Gen.Shutdown.shutdownOps = some (c.wait, deadline c) := by
  simp [Ww.Model.ShutdownSrc.timing, Ww.Model.ShutdownSrc.runOps, Ww.Gen.Shutdown.shutdownOps, Ww.Model.ShutdownSrc.stepOp, Ww.Model.ShutdownSrc.evalE,
    List.lookup, deadline, shutdownTimeout]

/-- the termination signals Kubernetes and a terminal send are both handled -/
theorem signals_registered : Ww.Gen.Shutdown.signals.contains "syscall.SIGTERM" = true ∧ Ww.Gen.Shutdown.signals.contains "syscall.SIGINT" = true := by decide

-- non-vacuity
example : exitOf ⟨300, 1200⟩ [⟨-200, 400⟩, ⟨100, 900⟩, ⟨350, 10⟩] = (1000, true) ∧ outcome ⟨300, 1200⟩ ⟨350, 10⟩ = .refused ∧
          exitOf ⟨300, 1200⟩ [⟨100, 2000⟩] = (1200, false) ∧ outcome ⟨300, 1200⟩ ⟨100, 2000⟩ = .cut := by decide

end Ww.Proofs.C19
