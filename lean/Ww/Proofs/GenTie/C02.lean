import Ww.Model.HandlerSrc
import Ww.Model.Callback
/-!
# The callback gate of the source (tie G for C02 and C03's entry point)

`Client.LoginCallback`, the issuer-identification check, the state comparison and the code redemption, regenerated statement by statement from
pkg/openid/client/login_callback.go and pkg/openid/oauth2.go on every run; the statements below quantify over ALL their control-flow paths.
-/
namespace Ww.Proofs.GenTie.C02
open Ww.Model.HandlerSrc Ww.Gen.Handlers Ww.Gen.Manager

set_option maxRecDepth 20000

private def incomplete := "len(cookie.State) == 0 || len(cookie.CodeVerifier) == 0 || len(cookie.Nonce) == 0 || len(cookie.RedirectURI) == 0"

/-- **the gate, in source order**: the authorization code is handed to `redeemTokens` on exactly one path — the cookie is present and COMPLETE (state, verifier, nonce and
    redirect URI all non-empty: a logout / session ciphertext decoded as login cookie fails here), the request carries no `error`, the state comparison against the
    cookie's state passed, the issuer identification passed — and it is the request's `code` with this very cookie. Every other path returns an error and redeems nothing. -/
theorem gate_paths : (paths clientLoginCallback).all (fun p =>
    if p.called "c.redeemTokens" then
      p.conds.take 5 = [("cookie == nil", false), (incomplete, false), ("len(oauthError) > 0", false), ("err != nil", false), ("err != nil", false)] &&
      p.calls "openid.StateMismatchError" = [["query", "cookie.State"]] && p.calls "c.authorizationServerIssuerIdentification" = [["query.Get(\"iss\")"]] &&
      p.calls "c.redeemTokens" = [["r.Context()", "query.Get(\"code\")", "cookie"]] &&
      p.before "openid.StateMismatchError" "c.authorizationServerIssuerIdentification" && p.before "c.authorizationServerIssuerIdentification" "c.redeemTokens" &&
      p.evs.contains (.call ["oauthError"] "query.Get" ["\"error\""] [])
    else p.evs.getLast?.any (fun st => match st with | .ret (.nil :: .wrap [_] :: []) => true | _ => false)) = true := by decide

/-- tokens are returned only when the redemption itself returned none: the single success path -/
theorem gate_success_path : ((paths clientLoginCallback).filter fun p => p.evs.getLast? = some (.ret [.expr "tokens", .nil])).map (·.conds.map (·.2)) =
    [[false, false, false, false, false, false]] := by decide

/-- **state**: missing or different from the cookie's ⇒ error; **issuer identification**: when the provider advertises it, a missing or different `iss` ⇒ error -/
theorem state_and_issuer_checks :
    (paths stateMismatchError).map (fun p => (p.conds, p.evs.getLast?)) =
      [([("len(actualState) <= 0", true)], some (.ret [.wrap []])), ([("len(actualState) <= 0", false), ("expectedState != actualState", true)], some (.ret [.wrap []])),
       ([("len(actualState) <= 0", false), ("expectedState != actualState", false)], some (.ret [.nil]))] ∧
    stateMismatchError.head? = some (.call ["actualState"] "queryParams.Get" ["\"state\""] []) ∧
    (paths issuerIdentification).map (fun p => (p.conds, p.evs.getLast?)) =
      [([("!c.cfg.Provider().AuthorizationResponseIssParameterSupported()", true)], some (.ret [.nil])),
       ([("!c.cfg.Provider().AuthorizationResponseIssParameterSupported()", false), ("len(iss) == 0", true)], some (.ret [.wrap []])),
       ([("!c.cfg.Provider().AuthorizationResponseIssParameterSupported()", false), ("len(iss) == 0", false), ("iss != expectedIss", true)], some (.ret [.wrap []])),
       ([("!c.cfg.Provider().AuthorizationResponseIssParameterSupported()", false), ("len(iss) == 0", false), ("iss != expectedIss", false)], some (.ret [.nil]))] ∧
    issuerIdentification.contains (.call ["expectedIss"] "c.cfg.Provider().Issuer" [] []) = true := by decide

/-- **redemption**: the back-channel request carries the PKCE verifier and the redirect URI of the COOKIE (nothing from the query but the code); the token response goes
    through `openid.NewTokens` with this attempt's cookie (nonce / acr of C03) and the provider's key set; tokens are returned only if nothing failed -/
theorem redeem_paths : (paths redeemTokens).all (fun p =>
    (if p.called "c.AuthCodeGrant" then
       p.evs.contains (.call ["payload"] "openid.ExchangeAuthorizationCodeParams( c.cfg.Client().ClientID(), code, cookie.CodeVerifier, cookie.RedirectURI, ).With(clientAuth).AuthCodeOptions" [] []) &&
       p.calls "c.AuthCodeGrant" = [["ctx", "code", "payload"]] && p.took "err != nil" false
     else true) &&
    (if p.evs.getLast? = some (.ret [.expr "tokens", .nil]) then
       p.conds.map (·.2) = [false, false, false, false] && p.calls "openid.NewTokens" = [["rawTokens", "jwkSet", "c.cfg", "cookie"]] &&
       p.before "c.AuthCodeGrant" "c.jwksProvider.GetPublicJwkSet" && p.before "c.jwksProvider.GetPublicJwkSet" "openid.NewTokens"
     else p.evs.getLast?.any (fun st => match st with | .ret (.nil :: _) => true | _ => false))) = true := by decide

end Ww.Proofs.GenTie.C02
