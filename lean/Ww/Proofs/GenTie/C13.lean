import Ww.Gen.Dec
import Ww.Model.Login
/-!
# Tie G by proof: the hand-written decision models ARE the translated source

`Ww.Gen.Dec` is regenerated from the Go source on every run (extract/translate2.go). Each theorem here states that a hand-written model function used
by the property proofs computes, for EVERY input, what the translation of the corresponding Go function computes. A change of the Go function that
changes its meaning breaks the equality (a proof obligation of every property that uses the model function); a rewrite that keeps the meaning but leaves
the translator's subset breaks the extraction instead. Either way the run no longer reports the property as shown.
-/
namespace Ww.Proofs.GenTie
open Ww.Model

/-- pkg/openid/client/login.go:getAcrParam = Model.acrParam (C13) -/
theorem acrParam_is_source (cfg : LoginCfg) (level : String) :
    acrParam cfg level = Ww.Gen.Dec.getAcrParam cfg.acrDefault level cfg.acrSupported := by
  unfold acrParam Ww.Gen.Dec.getAcrParam legacyAcr Ww.Gen.Consts.idportenLegacyLookup
  by_cases hd : cfg.acrDefault = "" <;> simp [hd]
  by_cases hl : level = "" <;> simp [hl]
  · by_cases hc : cfg.acrDefault ∈ cfg.acrSupported <;> simp [hc]
    by_cases h3 : cfg.acrDefault = "Level3" <;> by_cases h4 : cfg.acrDefault = "Level4" <;> simp_all
  · by_cases hc : level ∈ cfg.acrSupported <;> simp [hc]
    by_cases h3 : level = "Level3" <;> by_cases h4 : level = "Level4" <;> simp_all

/-- pkg/openid/client/login.go:getLocaleParam = Model.localeParam (C13) -/
theorem localeParam_is_source (cfg : LoginCfg) (locale : String) :
    localeParam cfg locale = Ww.Gen.Dec.getLocaleParam cfg.localeDefault locale cfg.localesSupported := by
  unfold localeParam Ww.Gen.Dec.getLocaleParam
  by_cases hd : cfg.localeDefault = "" <;> simp [hd]
  all_goals (by_cases hl : locale = "" <;> simp [hl])

/-- pkg/openid/client/login.go:getPromptParam = Model.promptParam (C13) -/
theorem promptParam_is_source (p : String) : promptParam p = Ww.Gen.Dec.getPromptParam p := by
  unfold promptParam Ww.Gen.Dec.getPromptParam Ww.Gen.Consts.promptAllowedValues
  by_cases h0 : p = "" <;> simp [h0]
  all_goals (by_cases h1 : p = "login" <;> by_cases h2 : p = "select_account" <;> simp_all)

end Ww.Proofs.GenTie
