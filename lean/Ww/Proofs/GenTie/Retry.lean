import Ww.Gen.Manager
import Ww.Proofs.Retry
/-!
# pkg/retry of the source (tie G for C11's "transient faults are absorbed")

`Ww.Model.Retry.schedule base max` assumes a FRESH Fibonacci back-off from `baseDuration`, wrapped in a budget of `maxDuration` that starts when the back-off is
made, for EVERY call of `retry.Do` / `retry.DoValue`. Decided here on the statements of pkg/retry/retry.go, regenerated on every run; the two constants are
`Ww.Gen.Consts.retryBase` / `retryMax` (same run). The library's own behaviour (sethvargo/go-retry) is tied by the `retry` driver.
-/
namespace Ww.Proofs.GenTie.Retry
open Ww.Gen.Manager

theorem retry_policy_shape :
    retryFibonacci = [.call ["b"] "retry.NewFibonacci" ["baseDuration"] [], .call ["b"] "retry.WithMaxDuration" ["maxDuration", "b"] [], .ret [.expr "b"]] ∧
    retryDo = [.ret [.expr "retry.Do(ctx, fibonacci(), f)"]] ∧
    retryDoValue = [.ret [.expr "retry.DoValue(ctx, fibonacci(), f)"]] := by decide

end Ww.Proofs.GenTie.Retry
