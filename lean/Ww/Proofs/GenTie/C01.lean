import Ww.Gen.Dec
import Ww.Model.Sys
/-!
# Tie G by proof for the session object's decisions (pkg/session/session.go) and the ACR gate used by the proxy
-/
namespace Ww.Proofs.GenTie
open Ww.Model Ww.Gen

/-- session.go:canRefresh (the session always carries data once read) = Model.canRefresh -/
theorem canRefresh_is_source (d : Data) (now : Int) :
    canRefresh d now = Ww.Gen.Dec.sessionCanRefresh true (d.HasRefreshToken now) (d.Metadata.IsRefreshOnCooldown now) := by
  unfold canRefresh Ww.Gen.Dec.sessionCanRefresh; simp

/-- session.go:shouldRefresh = Model.shouldRefresh -/
theorem shouldRefresh_is_source (d : Data) (now : Int) :
    shouldRefresh d now = Ww.Gen.Dec.sessionShouldRefresh true (d.Metadata.ShouldRefresh now) := by
  unfold shouldRefresh Ww.Gen.Dec.sessionShouldRefresh; simp

/-- session.go:AccessToken yields the stored token exactly when the translated guard holds -/
theorem accessToken_is_source (d : Data) (now : Int) :
    accessToken d now = (if Ww.Gen.Dec.sessionYieldsToken true (d.HasActiveAccessToken now) then some d.AccessToken else none) := by
  unfold accessToken Ww.Gen.Dec.sessionYieldsToken; simp

/-- pkg/openid/acr/acr.go:Validate = Model.acrValid (the gate in reverseproxy.go / handler/acr) -/
theorem acrValid_is_source (e a : String) : acrValid e a = Ww.Gen.Dec.acrValidate e a := by
  unfold acrValid acrTranslate Ww.Gen.Dec.acrValidate Ww.Gen.Consts.idportenLegacyLookup Ww.Gen.Consts.acrAcceptedLookup
  by_cases h3 : e = "Level3" <;> by_cases h4 : e = "Level4" <;> by_cases hs : e = "idporten-loa-substantial" <;> by_cases hh : e = "idporten-loa-high" <;>
    simp_all <;> (try decide)

end Ww.Proofs.GenTie
