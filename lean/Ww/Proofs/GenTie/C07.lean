import Ww.Model.ManagerSrc
import Ww.Proofs.C07
/-!
# The interleaving model's refresh / create programs ARE the source's (tie G for C05 C07 C08 C10 C11)

Every statement below is about `Ww.Gen.Manager.*`, regenerated from pkg/session/*.go on each run, and is decided by the kernel (`decide`):
a change of the order lock → re-read → re-check → grant → write-back, of what is presented to the provider, of the lock around session creation,
of the store commands behind Update / Write / Delete, or of the error classes, makes one of them fail.
-/
namespace Ww.Proofs.GenTie.C07
open Ww.Model.ManagerSrc Ww.Gen.Manager Ww.Model.Sched

private def crit : Flags := { held := true, deferred := true, fresh := true, guarded := true, granted := false }

/-- **Refresh, in source order**: nothing-to-do exit; lock; re-read of THIS ticket under the lock; re-check on the re-read value; ONE grant that presents the
    re-read session's refresh token (retried only on a provider 5xx) with lock held, release deferred, value re-read and re-checked; write-back of that
    same `sess` under the lock after the grant. No other store / provider effect. -/
theorem refresh_effects : effects refresh =
    [.guardCan, .acquire {}, .reread "sess.ticket" { held := true, deferred := true }, .guardCan,
     .grant "sess.data.RefreshToken" false ["openidclient.ErrOpenIDServer"] [] crit,
     .managerCall "in.update" ["ctx", "sess"] { crit with granted := true }] := by decide

/-- the lock is the one made for the session's own key, and every exit taken while it is held is covered by the deferred release (C10: no lock leak) -/
theorem refresh_lock_key_and_release : (events refresh).contains (.makeLock "sess.ticket.Key()") = true ∧ noLeak refresh = true ∧ noUnknown refresh = true := by decide

/-- what is written back is what the provider just issued, with the metadata advanced -/
theorem refresh_writes_granted_tokens : (events refresh).filter (fun e => match e with | .setTokens .. | .metaCall .. => true | _ => false) =
    [.setTokens "sess.data.AccessToken" "resp.AccessToken", .setTokens "sess.data.RefreshToken" "resp.RefreshToken",
     .metaCall "sess.data.Metadata.Refresh" ["resp.ExpiresIn"], .metaCall "sess.data.Metadata.WithTimeout" ["in.cfg.Session.InactivityTimeout"]] := by decide

/-- a provider rejection (4xx) becomes ErrInvalidExternal, anything else a plain error; both leave under the lock with the release deferred (C11) -/
theorem refresh_error_classes :
    (events refresh).filter (fun e => match e with | .exit (.nil :: _) fl => fl.granted | _ => false) =
      [.exit [.nil, .wrap ["ErrInvalidExternal"]] { crit with granted := true }, .exit [.nil, .wrap ["err"]] { crit with granted := true },
       .exit [.nil, .expr "err"] { crit with granted := true }] := by decide

/-- **the model's program counters are the source's effects**: lock, reread, idp, update — in this order -/
theorem refresh_pcs : pcsOf (effects refresh) = [PC.lock, PC.reread, PC.idp, PC.update] := by decide

/-- … and `Ww.Model.Sched.step` walks exactly that path (then releases): from each of these pcs, when the step is enabled the way the source's guards say
    (lock free; entry readable and not on cooldown; token current at the provider; entry still present), the next pc is the next one of the source -/
theorem sched_follows_source (s : St) (p : Pid) (v : Sess) (hk : (s.procs p).kind = .refresh) :
    ((s.procs p).pc = .lock → s.lock = none → ((step s p).1.procs p).pc = .reread) ∧
    ((s.procs p).pc = .reread → mine s.sess = some v → v.fresh = false → ((step s p).1.procs p).pc = .idp ∧ ((step s p).1.procs p).rt = v.gen) ∧
    ((s.procs p).pc = .idp → (s.procs p).rt = s.idpCur → ((step s p).1.procs p).pc = .update) ∧
    ((s.procs p).pc = .update → ((step s p).1.procs p).pc = .unlock) ∧
    ((s.procs p).pc = .unlock → ((step s p).1.procs p).pc = .done ∧ (s.lock = some p → (step s p).1.lock = none)) := by
  refine ⟨?_, ?_, ?_, ?_, ?_⟩
  · intro h hl; unfold step; simp [h, hl, hk]
  · intro h hm hf; unfold step; simp [h, hm, hf]
  · intro h hr; unfold step; simp [h, hr]
  · intro h; unfold step; simp only [h]; split <;> simp
  · intro h; unfold step; simp [h]; intro hl; simp [hl]

/-- **Create** (fix 078aa22): the new session is written with the per-key lock held and its release deferred; no exit leaks the lock; the expiry handed to the store is
    what is LEFT of the session's lifetime at the moment of (each attempt of) the write — counted from creation, however long the lock wait or earlier attempts took -/
theorem create_writes_under_lock :
    effects create = [.acquire {}, .storeCall "in.store.Write" ["r.Context()", "key", "encrypted", "remaining"] true [] { held := true, deferred := true }] ∧
    create.contains (.assign "remaining" "time.Until(metadata.Session.EndsAt)") = true ∧
    create.contains (.call ["metadata"] "NewMetadata" ["tokenExpiresIn", "sessionLifetime"] []) = true ∧
    (events create).contains (.makeLock "key") = true ∧ noLeak create = true ∧ noUnknown create = true ∧ pcsOf (effects create) = [PC.lock, PC.write] := by decide

/-- the write-back is ONE store call, "update", retried on transient faults but not when the entry is gone -/
theorem update_is_one_store_update :
    effects update = [.storeCall "in.store.Update" ["ctx", "sess.ticket.Key()", "encrypted"] true ["ErrNotFound"] {}] ∧ noUnknown update = true := by decide

/-- … which on Redis is ONE command, `SET key value XX KEEPTTL` (never creates, never drops the expiry) — the atomic `.update` step of the model;
    Write is one `SET … EX`, Read one `GET`, Delete one `DEL` -/
theorem redis_commands :
    clientCommands redisUpdate = ["s.client.SetArgs(ctx, key, value, redis.SetArgs{Mode: \"XX\", KeepTTL: true})"] ∧
    clientCommands redisWrite = ["s.client.Set(ctx, key, value, expiration)"] ∧
    clientCommands redisRead = ["s.client.Get(ctx, key)"] ∧
    clientCommands redisDelete = ["s.client.Del(ctx, keys...)"] := by decide

/-- a missing key is reported as ErrNotFound by every Redis store method that can meet one -/
theorem redis_not_found_class :
    redisUpdate.contains (.ret [.wrap ["ErrNotFound", "err"]]) = true ∧ redisDelete.contains (.ret [.wrap ["ErrNotFound", "err"]]) = true ∧
    redisRead.contains (.ret [.nil, .wrap ["ErrNotFound", "err"]]) = true := by decide

/-- the in-memory store's update is update-only-if-present too, inside its own critical section -/
theorem memory_update_only_if_present :
    memoryUpdate = [.call [] "s.lock.Lock" [] [], .deferCalls ["s.lock.Unlock"], .other "_, ok := s.sessions[key]", .ifBegin "!ok", .ret [.wrap ["ErrNotFound"]], .ifEnd,
      .assign "s.sessions[key]" "value", .ret [.nil]] := by decide

/-- reading: one store read (transient faults retried, absence not), then decrypt with the ticket's own key — failure is ErrInvalid —, then validate -/
theorem get_for_ticket_effects :
    events getForTicket = [.storeCall "in.store.Read" ["ctx", "ticket.Key()"] true ["ErrNotFound"] {}, .exit [.nil, .wrap ["err"]] {}, .exit [.nil, .wrap ["ErrInvalid", "err"]] {},
      .exit [.expr "sess", .expr "err"] {}, .exit [.expr "sess", .nil] {}] ∧
    getForTicket.contains (.call ["data", "err"] "encrypted.Decrypt" ["ticket.Crypter()"] []) = true ∧ getForTicket.contains (.call ["err"] "data.Validate" [] []) = true ∧
    -- the verdict of `Data.Validate` (ended / inactive / no token, see GenTie.C09.data_validate_paths) is handed on UNTOUCHED: nothing between the call and the return
    -- re-assigns or filters it, whatever the instance's own configuration says
    getForTicket.dropWhile (· != .call ["err"] "data.Validate" [] []) =
      [.call ["err"] "data.Validate" [] [], .ifBegin "err != nil", .ret [.expr "sess", .expr "err"], .ifEnd, .ret [.expr "sess", .nil]] ∧
    (getForTicket.filter fun st => match st with | .assign "err" _ => true | _ => false) = [] := by decide

/-- automatic refresh: read; nothing due → the session as read; refresh succeeded → the REFRESHED session; provider rejection / invalid session → no session;
    any other failure → fall back to the session as read (whose token `Session.AccessToken` still refuses when expired — C01/C11) -/
theorem get_or_refresh_shape : getOrRefresh =
    [.call ["sess", "err"] "in.Get" ["r"] [], .ifBegin "err != nil", .ret [.nil, .wrap ["err"]], .ifEnd,
     .ifBegin "!sess.shouldRefresh()", .ret [.expr "sess", .nil], .ifEnd,
     .call ["refreshed", "err"] "in.Refresh" ["r", "sess"] [], .ifBegin "err == nil", .ret [.expr "refreshed", .nil], .ifEnd,
     .ifBegin "errors.Is(err, ErrInvalidExternal) || errors.Is(err, ErrInvalid)", .ret [.nil, .expr "err"], .ifEnd,
     .ifBegin "!errors.Is(err, context.Canceled)", .ifEnd, .ret [.expr "sess", .nil]] := by decide

/-- deleting: one store delete, transient faults retried, absence not; both public variants go through it with the session's key -/
theorem delete_effects :
    effects deleteForKey = [.storeCall "in.store.Delete" ["ctx", "key"] true ["ErrNotFound"] {}] ∧
    delete = [.ret [.expr "in.deleteForKey(ctx, session.key())"]] ∧
    deleteForExternalID = [.call ["key"] "in.key" ["id"] [], .ret [.expr "in.deleteForKey(ctx, key)"]] := by decide

/-- lock acquisition polls `lock.Acquire(ctx, refreshLockDuration)` and gives up only on context end, time-out, or an error other than "held by someone else" -/
theorem acquire_lock_shape :
    acquireLock.contains (.call ["err"] "lock.Acquire" ["ctx", "refreshLockDuration"] []) = true ∧
    acquireLock.contains (.ifBegin "!errors.Is(err, ErrAcquireLock)") = true ∧ acquireLock.contains (.selectCase "<-timeout.C") = true ∧
    redisLockAcquire.contains (.call ["lock", "err"] "r.locker.Obtain" ["ctx", "lockKey(r.key)", "duration", "nil"] []) = true ∧
    redisLockRelease = [.ret [.expr "r.lock.Release(ctx)"]] := by decide

end Ww.Proofs.GenTie.C07
