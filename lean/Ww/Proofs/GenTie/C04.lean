import Ww.Model.HandlerSrc
/-!
# The redirect cleaners and validators of the source (tie G for C04)

pkg/url/redirect.go and pkg/url/validator.go, regenerated statement by statement on every run. The string-level theorems of `Ww.Proofs.C04*` are about the hand model of
these functions; what follows pins down, against the CURRENT source, the composition that model assumes: which validator each mode uses, that `Clean` is
"valid ⇒ the target itself, otherwise the operator's fallback" with nothing in between, and what `Canonical` lets through from the request.
-/
namespace Ww.Proofs.GenTie.C04
open Ww.Model.HandlerSrc Ww.Gen.Handlers Ww.Gen.Manager

set_option maxRecDepth 20000

/-- **clean** is: the validator accepts ⇒ the target unchanged; otherwise the fallback — for all three modes, each with its own validator and fallback, and nothing else -/
theorem clean_is_validate_or_fallback :
    cleanRedirect = [.ifBegin "v.IsValidRedirect(r, target)", .ret [.expr "target"], .ifEnd, .ret [.expr "fallback(r, target, fallbackTarget).String()"]] ∧
    fallbackRedirect = [.call [] "logInvalidRedirect" ["r", "target", "fallback.String()"] [], .ret [.expr "fallback"]] ∧
    standaloneClean = [.ret [.expr "clean(r, h.Validator, target, h.getFallbackRedirect(r))"]] ∧ standaloneFallback = [.ret [.expr "MatchingPath(r)"]] ∧
    ssoServerClean = [.ret [.expr "clean(r, h.Validator, target, h.fallbackRedirect)"]] ∧
    ssoProxyClean = [.ret [.expr "clean(r, h.Validator, target, h.getFallbackRedirect())"]] ∧ ssoProxyFallback = [.assign "u" "*h.fallbackRedirect", .ret [.expr "&u"]] := by decide

/-- **which validator each mode is built with**: standalone — relative only; SSO server — absolute, allowed domain = the configured SSO domain, fallback = the configured default URL;
    SSO proxy — absolute, allowed hosts = its own ingresses, fallback = its ingress -/
theorem validators_per_mode :
    newStandaloneRedirect = [.ret [.expr "&StandaloneRedirect{ Validator: NewRelativeValidator(), }"]] ∧
    newSSOServerRedirect = [.call ["u", "err"] "url.ParseRequestURI" ["config.SSO.ServerDefaultRedirectURL"] [], .ifBegin "err != nil", .ret [.nil, .wrap ["err"]], .ifEnd,
      .ret [.expr "&SSOServerRedirect{ fallbackRedirect: u, Validator: NewAbsoluteValidator([]string{config.SSO.Domain}), }", .nil]] ∧
    newSSOProxyRedirect = [.ret [.expr "&SSOProxyRedirect{ fallbackRedirect: ingresses.Single().NewURL(), Validator: NewAbsoluteValidator(ingresses.Hosts()), }"]] := by decide

/-- **Canonical** (every path): standalone parses the `redirect` parameter, REMOVES scheme and host, and cleans the result; the SSO server parses and cleans (absolute targets stay
    subject to the domain validator); the SSO proxy starts from ITS OWN matching ingress (or its fallback) and copies only path, query and fragment from the parameter -/
theorem canonical_paths :
    (paths standaloneCanonical).all (fun p =>
      p.evs.head? = some (.call ["target"] "redirectQueryParam" ["r"] []) && p.evs.contains (.call ["redirect", "err"] "url.Parse" ["target"] []) &&
      p.evs.contains (.assign "redirect.Scheme" "\"\"") && p.evs.contains (.assign "redirect.Host" "\"\"") &&
      p.evs.getLast? = some (.ret [.expr "h.Clean(r, redirect.String())"]) &&
      (p.took "err != nil" false || p.evs.contains (.call ["redirect"] "fallback" ["r", "target", "h.getFallbackRedirect(r)"] []))) = true ∧
    (paths ssoServerCanonical).all (fun p =>
      p.evs.head? = some (.call ["target"] "redirectQueryParam" ["r"] []) && p.evs.getLast? = some (.ret [.expr "h.Clean(r, redirect.String())"]) &&
      (p.took "err != nil" false || p.evs.contains (.call ["redirect"] "fallback" ["r", "target", "h.fallbackRedirect"] []))) = true ∧
    (paths ssoProxyCanonical).all (fun p =>
      p.evs.head? = some (.call ["redirect", "err"] "MatchingIngress" ["r"] []) && p.evs.getLast? = some (.ret [.expr "h.Clean(r, redirect.String())"]) &&
      ((p.evs.filterMap fun st => match st with | .assign l r => some (l, r) | _ => none).all fun a =>
        [("redirect.Path", "redirectParamURL.Path"), ("redirect.RawQuery", "redirectParamURL.RawQuery"), ("redirect.Fragment", "redirectParamURL.Fragment")].contains a)) = true ∧
    redirectQueryParam = [.ret [.expr "r.URL.Query().Get(RedirectQueryParameter)"]] := by decide

/-- **validators** (every path): `true` is returned on exactly one path each — relative: parsable, no scheme and no host, and a valid absolute path (leading `/`, not `//`, not matching the
    slash/backslash regex); absolute: parsable, NOT relative, http(s), host allowed -/
theorem validator_paths :
    ((paths relativeIsValid).filter fun p => p.evs.getLast? = some (.ret [.expr "true"])).map (·.conds) = [[("!ok", false), ("isRelativeURL(u) && isValidAbsolutePath(u.String())", true)]] ∧
    ((paths absoluteIsValid).filter fun p => p.evs.getLast? = some (.ret [.expr "true"])).map (·.conds) =
      [[("!ok", false), ("!isRelativeURL(u) && isValidScheme(u) && isAllowedHost(u, v.allowedDomains)", true)]] ∧
    (paths relativeIsValid ++ paths absoluteIsValid).all (fun p => p.evs.head? = some (.call ["u", "ok"] "parsableRequestURI" ["r", "redirect"] [])) = true ∧
    isRelativeURL = [.ret [.expr "u.Scheme == \"\" && u.Host == \"\""]] ∧ isValidScheme = [.ret [.expr "u.Scheme == \"http\" || u.Scheme == \"https\""]] ∧
    isValidAbsolutePath = [.ret [.expr "strings.HasPrefix(redirect, \"/\") && !strings.HasPrefix(redirect, \"//\") && !invalidRedirectRegex.MatchString(redirect)"]] ∧
    parsableRequestURI = [.ifBegin "redirect == \"\"", .ret [.nil, .expr "false"], .ifEnd, .call ["u", "err"] "url.ParseRequestURI" ["redirect"] [], .ifBegin "err != nil",
      .ret [.nil, .expr "false"], .ifEnd, .ret [.expr "u", .expr "true"]] := by decide

/-- **allowed host**: non-empty host, and for some allowed domain: equal to it (with or without port) or ending in "." + domain (one leading dot normalised) -/
theorem allowed_host_shape :
    isAllowedHost = [.assign "host" "u.Host", .call ["hostname"] "u.Hostname" [] [], .ifBegin "host == \"\" || hostname == \"\" || len(allowedDomains) == 0", .ret [.expr "false"], .ifEnd,
      .loopBegin "_, allowed := range allowedDomains", .ifBegin "isAllowedDomain(u, allowed)", .ret [.expr "true"], .ifEnd, .loopEnd, .ret [.expr "false"]] ∧
    isAllowedDomain = [.ifBegin "len(allowed) == 0", .ret [.expr "false"], .ifEnd, .assign "host" "u.Host", .call ["hostname"] "u.Hostname" [] [],
      .ifBegin "host == allowed || hostname == allowed", .ret [.expr "true"], .ifEnd, .ifBegin "!strings.HasPrefix(allowed, \".\")", .assign "allowed" "\".\" + allowed", .ifEnd,
      .ret [.expr "strings.HasSuffix(host, allowed)"]] := by decide

end Ww.Proofs.GenTie.C04
