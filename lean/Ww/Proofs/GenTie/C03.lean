import Ww.Gen.Dec
import Ww.Model.Callback
/-!
# Tie G by proof: the hand-written decision models ARE the translated source

`Ww.Gen.Dec` is regenerated from the Go source on every run (extract/translate2.go). Each theorem here states that a hand-written model function used
by the property proofs computes, for EVERY input, what the translation of the corresponding Go function computes. A change of the Go function that
changes its meaning breaks the equality (a proof obligation of every property that uses the model function); a rewrite that keeps the meaning but leaves
the translator's subset breaks the extraction instead. Either way the run no longer reports the property as shown.
-/
namespace Ww.Proofs.GenTie
open Ww.Model

/-- pkg/openid/acr/acr.go:Validate (nil ↦ true) = Model.acrAccepts (C03, C01) -/
theorem acrAccepts_is_source (e a : String) : acrAccepts e a = Ww.Gen.Dec.acrValidate e a := by
  unfold acrAccepts acrTranslate' Ww.Gen.Dec.acrValidate Ww.Gen.Consts.idportenLegacyLookup Ww.Gen.Consts.acrAcceptedLookup
  by_cases h3 : e = "Level3" <;> by_cases h4 : e = "Level4" <;> by_cases hs : e = "idporten-loa-substantial" <;> by_cases hh : e = "idporten-loa-high" <;>
    simp_all <;> (try decide)

end Ww.Proofs.GenTie
