import Ww.Gen.Dec
import Ww.Model.Glob
/-!
# Tie G by proof: the hand-written decision models ARE the translated source

`Ww.Gen.Dec` is regenerated from the Go source on every run (extract/translate2.go). Each theorem here states that a hand-written model function used
by the property proofs computes, for EVERY input, what the translation of the corresponding Go function computes. A change of the Go function that
changes its meaning breaks the equality (a proof obligation of every property that uses the model function); a rewrite that keeps the meaning but leaves
the translator's subset breaks the extraction instead. Either way the run no longer reports the property as shown.
-/
namespace Ww.Proofs.GenTie
open Ww.Model

/-- the path auto-login matches against, as the source computes it: rooted, cleaned by `path.Clean` (parameter), without a trailing slash -/
def sourceLoginPath (clean : String → String) (urlPath : String) : String :=
  let p := if !(urlPath.startsWith "/") then "/" ++ urlPath else urlPath
  let p := clean p
  if p != "/" then Ww.Gen.Dec.trimSuffix p "/" else p

/-- pkg/handler/autologin/autologin.go:NeedsLogin has the decision structure of Model.needsLogin (C12): false for authenticated requests and when disabled,
    otherwise true exactly when NO ignore pattern matches the normalised path - for any `path.Clean` and any matcher (their string-level behaviour is
    tied by the c12 driver against path.Clean / doublestar; the memo cache is dropped by the translator, i.e. assumed transparent) -/
theorem needsLogin_is_source (enabled : Bool) (patterns : List String) (urlPath : String) (auth : Bool) (clean : String → String) (gm : String → String → Bool) :
    Ww.Gen.Dec.needsLogin enabled patterns urlPath auth clean gm =
      (if auth || !enabled then false else !(patterns.any fun p => gm p (sourceLoginPath clean urlPath))) := by
  unfold Ww.Gen.Dec.needsLogin sourceLoginPath
  by_cases h : (auth || !enabled) = true <;> simp [h]
  all_goals (cases hp : (patterns.any fun p => gm p _) <;> simp_all)

/-- hence: an unauthenticated request passes auto-login only if some configured pattern matches the normalised path -/
theorem source_passes_only_if_ignored (patterns : List String) (urlPath : String) (clean : String → String) (gm : String → String → Bool)
    (h : Ww.Gen.Dec.needsLogin true patterns urlPath false clean gm = false) :
    ∃ p ∈ patterns, gm p (sourceLoginPath clean urlPath) = true := by
  rw [needsLogin_is_source] at h
  simpa using h

end Ww.Proofs.GenTie
