import Ww.Model.HandlerSrc
import Ww.Gen.Startup
/-!
# Start-up of the source (tie G for C20)

`run()`, the mode constructors and every configuration validation, regenerated statement by statement on every run from cmd/wonderwall/main.go, pkg/config/*.go,
pkg/openid/config/*.go, pkg/ingress/ingress.go, pkg/session/store.go and the handler constructors. `Ww.Model.Config.startOk` is a conjunction of checks; the
statements below decide, on every control-flow path of the current source, that each of those checks is made, that a failing check is an exit with an error, and that
the listening socket (`server.Start`) is reached on one path only: after all of them.
-/
namespace Ww.Proofs.GenTie.Startup
open Ww.Model.HandlerSrc Ww.Gen.Startup Ww.Gen.Manager

set_option maxRecDepth 20000

private def lastRet (p : Path) : Option (List MgVal) := match p.evs.getLast? with
  | some (.ret v) => some v
  | _ => none

private def isErrExit (p : Path) : Bool := match lastRet p with
  | some [.expr "err"] | some [.wrap _] | some [.nil, .expr "err"] | some [.nil, .wrap _] => true
  | _ => false

/-- **nothing listens before everything was checked**: `server.Start` is the LAST statement of the paths that reach it, and such a path has initialised (= validated)
    the configuration, obtained the key, built the source of its mode and taken the success branch of every one of those steps; every other path of `run` returns an error -/
theorem run_listens_last : (paths mainRun).all (fun p =>
    if lastRet p = some [.expr "server.Start(cfg, r)"] then
      p.calls "config.Initialize" = [[]] && p.calls "crypto.EncryptionKeyOrGenerate" = [["cfg"]] && p.calls "crypto.NewCrypter" = [["key"]] &&
      p.before "config.Initialize" "crypto.EncryptionKeyOrGenerate" && p.before "crypto.EncryptionKeyOrGenerate" "router.New" &&
      p.conds.take 2 = [("err != nil", false), ("err != nil", false)] && p.conds.getLast? = some ("err != nil", false) &&
      ((p.called "standalone" && p.took "cfg.SSO.Enabled" false && p.before "standalone" "router.New") ||
       (p.called "ssoServer" && p.took "cfg.SSO.Enabled" true && p.took "case cfg.SSO.Mode == config.SSOModeServer" true && p.before "ssoServer" "router.New") ||
       (p.called "ssoProxy" && p.took "cfg.SSO.Enabled" true && p.took "case cfg.SSO.Mode == config.SSOModeProxy" true && p.before "ssoProxy" "router.New")) &&
      p.calls "router.New" = [["src", "cfg"]]
    else isErrExit p) = true ∧
    (paths mainRun).any (fun p => lastRet p = some [.expr "server.Start(cfg, r)"]) = true ∧
    (mainRun.filter fun st => match st with | .ret [.expr "server.Start(cfg, r)"] => true | _ => false).length = 1 := by decide

/-- `config.Initialize` ends with: validate, and hand the configuration out only when that returned no error -/
theorem initialize_validates_last :
    configInitialize.reverse.take 5 = [.ret [.expr "cfg", .nil], .ifEnd, .ret [.nil, .wrap ["err"]], .ifBegin "err != nil", .call ["err"] "cfg.Validate" [] []] ∧
    (configInitialize.filter fun st => match st with | .ret (.expr "cfg" :: _) => true | _ => false).length = 1 := by decide

/-- **the validation chain**: cookie, openid, sso, upstream, shutdown periods - in this order, each failure an exit with that error, success only after all five -/
theorem config_validate_chain :
    (paths configValidate).map (fun p => (p.conds.map (·.2), lastRet p)) =
      [([true], some [.expr "err"]), ([false, true], some [.expr "err"]), ([false, false, true], some [.expr "err"]), ([false, false, false, true], some [.expr "err"]),
       ([false, false, false, false, true], some [.wrap []]), ([false, false, false, false, false], some [.nil])] ∧
    (configValidate.filterMap fun st => match st with | .call _ fn args _ => some (fn, args) | _ => none) =
      [("c.Cookie.Validate", ["c"]), ("c.OpenID.Validate", []), ("c.SSO.Validate", ["c"]), ("c.validateUpstream", [])] ∧
    configValidate.contains (.ifBegin "c.ShutdownGracefulPeriod <= c.ShutdownWaitBeforePeriod") = true := by decide

/-- upstream: neither part ⇒ fine; exactly one part ⇒ error; port outside 1..65535 ⇒ error -/
theorem upstream_paths :
    (paths validateUpstream).map (fun p => (p.conds, lastRet p)) =
      [([("c.UpstreamIP == \"\" && c.UpstreamPort == 0", true)], some [.nil]),
       ([("c.UpstreamIP == \"\" && c.UpstreamPort == 0", false), ("c.UpstreamIP == \"\"", true)], some [.wrap []]),
       ([("c.UpstreamIP == \"\" && c.UpstreamPort == 0", false), ("c.UpstreamIP == \"\"", false), ("c.UpstreamPort == 0", true)], some [.wrap []]),
       ([("c.UpstreamIP == \"\" && c.UpstreamPort == 0", false), ("c.UpstreamIP == \"\"", false), ("c.UpstreamPort == 0", false),
         ("c.UpstreamPort < 1 || c.UpstreamPort > 65535", true)], some [.wrap []]),
       ([("c.UpstreamIP == \"\" && c.UpstreamPort == 0", false), ("c.UpstreamIP == \"\"", false), ("c.UpstreamPort == 0", false),
         ("c.UpstreamPort < 1 || c.UpstreamPort > 65535", false)], some [.nil])] := by decide

/-- **insecure cookies only for plain-http localhost**: with `secure` off, every ingress is parsed inside the loop and an unparsable one, a hostname other than
    localhost or a scheme other than http is an exit with an error FROM INSIDE the loop (so: for each ingress); SameSite is checked first -/
theorem cookie_validate_paths :
    (paths cookieCfgValidate).map (fun p => (p.conds, lastRet p)) =
      [([("err != nil", true)], some [.expr "err"]),
       ([("err != nil", false), ("c.Secure", true)], some [.nil]),
       ([("err != nil", false), ("c.Secure", false), ("err != nil", true)], some [.wrap ["err"]]),
       ([("err != nil", false), ("c.Secure", false), ("err != nil", false), ("!strings.EqualFold(u.Hostname(), \"localhost\")", true)], some [.wrap []]),
       ([("err != nil", false), ("c.Secure", false), ("err != nil", false), ("!strings.EqualFold(u.Hostname(), \"localhost\")", false), ("u.Scheme != \"http\"", true)], some [.wrap []]),
       ([("err != nil", false), ("c.Secure", false), ("err != nil", false), ("!strings.EqualFold(u.Hostname(), \"localhost\")", false), ("u.Scheme != \"http\"", false)], some [.nil])] ∧
    cookieCfgValidate.head? = some (.call ["err"] "c.SameSite.Validate" [] []) ∧
    ((cookieCfgValidate.dropWhile (· != .loopBegin "_, ingress := range cfg.Ingresses")).takeWhile (· != .loopEnd)).filter (fun st => match st with | .ret _ => true | .call .. => true | _ => false) =
      [.call ["u", "err"] "url.ParseRequestURI" ["ingress"] [], .ret [.wrap ["err"]], .ret [.wrap []], .ret [.wrap []]] ∧
    (paths sameSiteValidate).map (fun p => (p.conds, lastRet p)) =
      [([("slices.Contains(all, s)", true)], some [.nil]), ([("slices.Contains(all, s)", false)], some [.wrap []])] ∧
    sameSiteValidate.head? = some (.assign "all" "[]SameSite{ SameSiteLax, SameSiteNone, SameSiteStrict, }") := by decide

/-- **SSO needs a shared store, a cookie name and its mode's settings**; an unknown mode is an error -/
theorem sso_validate_paths : (paths ssoValidate).all (fun p =>
    if lastRet p = some [.nil] then
      p.conds = [("!s.Enabled", true)] ||
      p.conds = [("!s.Enabled", false), ("len(c.Redis.Address) == 0 && len(c.Redis.URI) == 0", false), ("len(s.SessionCookieName) == 0", false),
                 ("case s.Mode == SSOModeProxy", true), ("err != nil", false)] && p.calls "url.ParseRequestURI" = [["s.ServerURL"]] ||
      p.conds = [("!s.Enabled", false), ("len(c.Redis.Address) == 0 && len(c.Redis.URI) == 0", false), ("len(s.SessionCookieName) == 0", false),
                 ("case s.Mode == SSOModeProxy", false), ("case s.Mode == SSOModeServer", true), ("len(s.Domain) == 0", false), ("err != nil", false)] &&
        p.calls "url.ParseRequestURI" = [["s.ServerDefaultRedirectURL"]]
    else isErrExit p && p.conds.getLast?.any (fun c => c.2 || c.1 = "case s.Mode == SSOModeServer")) = true ∧
    ((paths ssoValidate).filter fun p => lastRet p = some [.nil]).length = 3 := by decide

/-- the signing algorithm must be a JWA signature algorithm -/
theorem openid_validate_paths :
    (paths openidCfgValidate).map (fun p => (p.conds, lastRet p)) =
      [([("!slices.Contains(valid, jwa.SignatureAlgorithm(in.IDTokenSigningAlg))", true)], some [.wrap []]),
       ([("!slices.Contains(valid, jwa.SignatureAlgorithm(in.IDTokenSigningAlg))", false)], some [.nil])] ∧
    openidCfgValidate.head? = some (.call ["valid"] "jwa.SignatureAlgorithms" [] []) := by decide

/-- **the discovery document must support the configured level, locale and algorithm** (the level also through the ID-porten legacy mapping) -/
theorem provider_validate_paths :
    (paths providerValidate).map (fun p => (p.conds.map (·.2), lastRet p)) =
      [([true], some [.expr "err"]), ([false, true], some [.expr "err"]), ([false, false, true], some [.expr "err"]), ([false, false, false], some [.nil])] ∧
    (providerValidate.filterMap fun st => match st with | .call _ fn args _ => some (fn, args) | _ => none) =
      [("c.validateAcrValues", ["cfg.ACRValues"]), ("c.validateLocaleValues", ["cfg.UILocales"]), ("c.validateIDTokenSigningAlg", ["cfg.IDTokenSigningAlg"])] ∧
    (paths providerValidateAcr).map (fun p => (p.conds, lastRet p)) =
      [([("len(acrValue) == 0 || c.ACRValuesSupported.Contains(acrValue)", true)], some [.nil]),
       ([("len(acrValue) == 0 || c.ACRValuesSupported.Contains(acrValue)", false), ("ok && c.ACRValuesSupported.Contains(translatedAcr)", true)], some [.nil]),
       ([("len(acrValue) == 0 || c.ACRValuesSupported.Contains(acrValue)", false), ("ok && c.ACRValuesSupported.Contains(translatedAcr)", false)], some [.wrap []])] ∧
    providerValidateAcr.contains (.other "translatedAcr, ok := acr.IDPortenLegacyMapping[acrValue]") = true ∧
    (paths providerValidateLocale).map (fun p => (p.conds, lastRet p)) =
      [([("len(locale) == 0 || c.UILocalesSupported.Contains(locale)", true)], some [.nil]),
       ([("len(locale) == 0 || c.UILocalesSupported.Contains(locale)", false)], some [.wrap []])] ∧
    providerValidateAlg = [.loopBegin "_, alg := range c.IDTokenSigningAlgValuesSupported", .ifBegin "alg == algorithm", .ret [.nil], .ifEnd, .loopEnd, .ret [.wrap []]] := by decide

/-- the provider configuration exists only after discovery was fetched, decoded and VALIDATED against the configured openid settings -/
theorem provider_config_paths : (paths newProviderConfig).all (fun p =>
    match lastRet p with
    | some [.nil, .wrap ["err"]] => p.conds.getLast? = some ("err != nil", true)
    | some [.expr _, .nil] =>
      p.conds.map (·.2) = [false, false, false, false] && p.calls "http.Get" = [["cfg.OpenID.WellKnownURL"]] && p.calls "providerCfg.Validate" = [["cfg.OpenID"]] &&
      p.before "http.Get" "json.NewDecoder(response.Body).Decode" && p.before "json.NewDecoder(response.Body).Decode" "providerCfg.Validate"
    | _ => false) = true ∧
    (paths newOpenidConfig).map (fun p => (p.conds.map (·.2), lastRet p)) =
      [([true], some [.nil, .expr "err"]), ([false, true], some [.nil, .expr "err"]),
       ([false, false], some [.expr "&openidconfig{ clientConfig: clientCfg, providerConfig: providerCfg, }", .nil])] ∧
    (newOpenidConfig.filterMap fun st => match st with | .call _ fn args _ => some (fn, args) | _ => none) = [("NewClientConfig", ["cfg"]), ("NewProviderConfig", ["cfg"])] := by decide

/-- **client id, credentials and discovery URL must be present**: a client configuration exists only with a JWK or a secret (a JWK must parse), a known provider,
    a non-empty client id and a non-empty well-known URL -/
theorem client_config_paths : (paths newClientConfig).all (fun p =>
    match lastRet p with
    | some [.expr "clientConfig", .nil] =>
      p.took "len(cfg.OpenID.ClientJWK) == 0 && len(cfg.OpenID.ClientSecret) == 0" false &&
      p.took "len(clientConfig.ClientID()) == 0" false && p.took "len(clientConfig.WellKnownURL()) == 0" false &&
      !p.took "case cfg.OpenID.Provider == \"\"" true &&
      (if p.took "len(cfg.OpenID.ClientJWK) > 0" true then p.calls "jwk.ParseKey" = [["[]byte(cfg.OpenID.ClientJWK)"]] && p.took "err != nil" false &&
          p.evs.contains (.assign "c.authMethod" "AuthMethodPrivateKeyJWT") else !p.called "jwk.ParseKey")
    | some [.nil, .wrap _] => p.conds.getLast?.any (·.2)
    | _ => false) = true ∧
    (paths newClientConfig).any (fun p => lastRet p = some [.expr "clientConfig", .nil]) = true := by decide

/-- **at least one ingress, every one of them valid**: no ingress ⇒ error; each is parsed inside the loop and a failure is an exit from inside the loop -/
theorem parse_ingresses_paths : (paths parseIngresses).all (fun p =>
    match lastRet p with
    | some [.nil, .wrap []] => p.conds = [("len(ingresses) == 0", true)]
    | some [.nil, .wrap ["err"]] => p.conds = [("len(ingresses) == 0", false), ("err != nil", true)]
    | some [.expr _, .nil] => p.took "len(ingresses) == 0" false && p.took "err != nil" false && p.calls "ParseIngress" = [["raw"]]
    | _ => false) = true ∧
    parseIngresses.head? = some (.assign "ingresses" "cfg.Ingresses") ∧
    ((parseIngresses.dropWhile (· != .loopBegin "_, raw := range ingresses")).takeWhile (· != .loopEnd)).take 4 =
      [.loopBegin "_, raw := range ingresses", .call ["ingress", "err"] "ParseIngress" ["raw"] [], .ifBegin "err != nil", .ret [.nil, .wrap ["err"]]] := by decide

/-- **a configured store must answer before the process serves**: without Redis settings the in-memory store; otherwise the client must be built and a PING must succeed -/
theorem new_store_paths : (paths newStore).all (fun p =>
    match lastRet p with
    | some [.expr "NewMemory()", .nil] => p.conds = [("len(cfg.Redis.Address) == 0 && len(cfg.Redis.URI) == 0", true)]
    | some [.expr "NewRedis(redisClient)", .nil] =>
      p.took "len(cfg.Redis.Address) == 0 && len(cfg.Redis.URI) == 0" false && p.calls "cfg.Redis.Client" = [[]] && p.calls "redisClient.Ping(ctx).Err" = [[]] &&
      p.before "cfg.Redis.Client" "redisClient.Ping(ctx).Err" && !p.took "err != nil" true
    | some [.nil, .wrap ["err"]] => p.conds.getLast? = some ("err != nil", true)
    | _ => false) = true ∧
    newManager.head? = some (.call ["store", "err"] "NewStore" ["cfg"] []) ∧ newReader.head? = some (.call ["store", "err"] "NewStore" ["cfg"] []) ∧
    (paths newManager).map (fun p => (p.conds, (lastRet p).map (·.length))) = [([("err != nil", true)], some 2), ([("err != nil", false)], some 2)] := by decide

/-- the mode constructors: every step's failure is the constructor's failure -/
theorem constructors_fail_closed :
    (paths mainStandalone).all (fun p => match lastRet p with
      | some [.expr "handler.NewStandalone(cfg, jwksProvider, openidConfig, crypt)"] =>
        p.conds.map (·.2) = [false, false] && p.before "openidconfig.NewConfig" "provider.NewJwksProvider"
      | some [.nil, .expr "err"] => true
      | _ => false) = true ∧
    (paths newStandalone).all (fun p => match lastRet p with
      | some [.expr _, .nil] => p.conds.map (·.2) = [false, false, false] && p.calls "session.NewManager" = [["cfg", "openidConfig", "crypter", "openidClient"]] &&
          p.calls "ingress.ParseIngresses" = [["cfg"]] && p.calls "autologin.New" = [["cfg"]]
      | some [.nil, .expr "err"] => true
      | _ => false) = true ∧
    (paths newSSOProxy).all (fun p => match lastRet p with
      | some [.expr _, .nil] => p.conds.map (·.2) = [false, false, false, false] && p.calls "session.NewReader" = [["cfg", "crypter"]] &&
          p.calls "ingress.ParseIngresses" = [["cfg"]] && p.calls "urllib.ParseRequestURI" = [["cfg.SSO.ServerURL"]]
      | some [.nil, .expr "err"] | some [.nil, .wrap ["err"]] => true
      | _ => false) = true ∧
    (paths newSSOServer).all (fun p => match lastRet p with
      | some [.expr "&SSOServer{Standalone: handler}", .nil] => p.conds = [("err != nil", false)] && p.calls "url.NewSSOServerRedirect" = [["cfg"]]
      | some [.nil, .expr "err"] => true
      | _ => false) = true ∧
    (paths mainSsoServer).map (fun p => (p.conds, lastRet p)) =
      [([("err != nil", true)], some [.nil, .expr "err"]), ([("err != nil", false)], some [.expr "handler.NewSSOServer(cfg, h)"])] ∧
    mainSsoProxy = [.ret [.expr "handler.NewSSOProxy(cfg, crypt)"]] := by decide

end Ww.Proofs.GenTie.Startup
