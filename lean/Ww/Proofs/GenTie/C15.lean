import Ww.Gen.Dec
import Ww.Model.Router
/-!
# Tie G by proof: the hand-written decision models ARE the translated source

`Ww.Gen.Dec` is regenerated from the Go source on every run (extract/translate2.go). Each theorem here states that a hand-written model function used
by the property proofs computes, for EVERY input, what the translation of the corresponding Go function computes. A change of the Go function that
changes its meaning breaks the equality (a proof obligation of every property that uses the model function); a rewrite that keeps the meaning but leaves
the translator's subset breaks the extraction instead. Either way the run no longer reports the property as shown.
-/
namespace Ww.Proofs.GenTie
open Ww.Model

/-- internal/http/request.go:IsNavigationRequest = Model.isNavigation (C15, C12) -/
theorem isNavigation_is_source (method : String) (hdr : String → String) (acc : Bool) :
    isNavigation method (hdr "Sec-Fetch-Mode") (hdr "Sec-Fetch-Dest") acc = Ww.Gen.Dec.isNavigationRequest method hdr acc := by
  unfold isNavigation Ww.Gen.Dec.isNavigationRequest
  by_cases hm : method = "GET" <;> simp [hm]

/-- internal/http/request.go:HasSecFetchMetadata = Model.hasSecFetchMetadata (C15) -/
theorem hasSecFetchMetadata_is_source (hdr : String → String) :
    hasSecFetchMetadata (hdr "Sec-Fetch-Mode") (hdr "Sec-Fetch-Dest") = Ww.Gen.Dec.hasSecFetchMetadata hdr := by
  unfold hasSecFetchMetadata Ww.Gen.Dec.hasSecFetchMetadata; rfl

end Ww.Proofs.GenTie
