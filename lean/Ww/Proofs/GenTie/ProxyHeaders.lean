import Ww.Model.HandlerSrc
/-!
# What the reverse proxy writes into the upstream request (tie G for C01)

The `Rewrite` function literal of `NewReverseProxy`, the proxy's error handler and the context helpers that carry the tokens from `ReverseProxy.Handler` to `Rewrite`,
regenerated statement by statement from pkg/handler/reverseproxy.go and pkg/middleware/context.go on every run. Together with `GenTie.Handlers.proxy_handler_paths`
(the token enters the context only for a valid session, and it is `sess.AccessToken()`): the header wonderwall writes is exactly "Bearer " + that token.
-/
namespace Ww.Proofs.GenTie.ProxyHeaders
open Ww.Model.HandlerSrc Ww.Gen.Handlers Ww.Gen.Manager

set_option maxRecDepth 20000

/-- **the headers `Rewrite` writes**: `authorization` is SET (replacing whatever the client sent) to "Bearer " + the token found in the inbound request's context, iff
    there is one; `X-Wonderwall-Id-Token` is SET to the ID token found there, iff there is one; nothing else is set or added; both tokens are read from the INBOUND
    request's context; the forwarding headers are copied from the inbound request and the target is the configured upstream -/
theorem rewrite_paths : (paths proxyRewrite).all (fun p =>
    match p.conds with
    | [("preserveInboundHostHeader", _), ("ok", a), ("ok", i)] =>
      p.calls "r.Out.Header.Set" = (if a then [["\"authorization\"", "\"Bearer \" + accessToken"]] else []) ++ (if i then [["\"X-Wonderwall-Id-Token\"", "idToken"]] else []) &&
      p.evs.contains (.call ["accessToken", "ok"] "mw.AccessTokenFrom" ["r.In.Context()"] []) &&
      p.evs.contains (.call ["idToken", "ok"] "mw.IdTokenFrom" ["r.In.Context()"] []) &&
      p.before "mw.AccessTokenFrom" "mw.IdTokenFrom" &&
      p.calls "r.SetURL" = [["upstream"]] &&
      !p.called "r.Out.Header.Add" && !p.called "r.Out.Header.Del" &&
      (p.evs.filterMap fun st => match st with | .assign l r => some (l, r) | _ => none).all (fun (l, r) =>
        (l, r) = ("r.Out.Host", "r.In.Host") || (l, r) = ("r.Out.Header[\"Forwarded\"]", "r.In.Header[\"Forwarded\"]") ||
        (l, r) = ("r.Out.Header[\"X-Forwarded-For\"]", "r.In.Header[\"X-Forwarded-For\"]") ||
        (l, r) = ("r.Out.Header[\"X-Forwarded-Host\"]", "r.In.Header[\"X-Forwarded-Host\"]") ||
        (l, r) = ("r.Out.Header[\"X-Forwarded-Proto\"]", "r.In.Header[\"X-Forwarded-Proto\"]"))
    | _ => false) = true ∧ (paths proxyRewrite).length = 8 := by decide

/-- the tokens travel under their own context keys: what `WithAccessToken` stores is what `AccessTokenFrom` reads, likewise for the ID token, and the keys differ -/
theorem context_keys :
    mwWithAccessToken = [.ret [.expr "context.WithValue(ctx, ctxAccessToken, accessToken)"]] ∧
    mwAccessTokenFrom = [.other "accessToken, ok := ctx.Value(ctxAccessToken).(string)", .ret [.expr "accessToken", .expr "ok"]] ∧
    mwWithIdToken = [.ret [.expr "context.WithValue(ctx, ctxIdToken, idToken)"]] ∧
    mwIdTokenFrom = [.other "idToken, ok := ctx.Value(ctxIdToken).(string)", .ret [.expr "idToken", .expr "ok"]] := by decide

/-- the upstream proxy preserves the inbound Host; an upstream failure is answered 502 (499 when the client went away) - never with a token-bearing retry -/
theorem upstream_proxy_shape :
    newUpstreamProxy = [.call ["rp"] "NewReverseProxy" ["upstream", "true"] [], .assign "rp.EnableAccessLogs" "enableAccessLogs",
                        .assign "rp.IncludeIdToken" "includeIdToken", .ret [.expr "rp"]] ∧
    (paths proxyErrorHandler).map (fun p => (p.conds, p.statuses)) =
      [([("errors.Is(err, context.Canceled)", true)], ["499"]), ([("errors.Is(err, context.Canceled)", false)], ["http.StatusBadGateway"])] := by decide

end Ww.Proofs.GenTie.ProxyHeaders
