import Ww.Model.HandlerSrc
import Ww.Gen.Provider
/-!
# Ingress middleware and the auto-login pattern list of the source (tie G for C12 C15)

pkg/middleware/ingress.go and pkg/handler/autologin.New, regenerated statement by statement on every run.
-/
namespace Ww.Proofs.GenTie.MiddlewareSrc
open Ww.Model.HandlerSrc Ww.Gen.Provider Ww.Gen.Manager

set_option maxRecDepth 20000

/-- the ingress middleware puts the matching path and - only when there is one - the matching ingress into the request context, then calls the next handler -/
theorem ingress_middleware_shape : ingressMiddleware =
    [.assign "fn" "func(w http.ResponseWriter, r *http.Request) { ingresses := i.GetIngresses() ctx := r.Context() path := ingresses.MatchingPath(r) ctx = WithPath(ctx, path) matchingIngress, ok := ingresses.MatchingIngress(r) if ok { ctx = WithIngress(ctx, matchingIngress) } next.ServeHTTP(w, r.WithContext(ctx)) }",
     .ret [.expr "http.HandlerFunc(fn)"]] := by decide

/-- the auto-login ignore list: the two defaults first, then the configured paths; empty entries dropped, one trailing slash trimmed (except "/"), duplicates dropped -/
theorem autologin_patterns_shape :
    autologinNew.contains (.loopBegin "_, path := range append(DefaultIgnorePatterns, cfg.AutoLoginIgnorePaths...)") = true ∧
    ((autologinNew.dropWhile (· != .loopBegin "_, path := range append(DefaultIgnorePatterns, cfg.AutoLoginIgnorePaths...)")).takeWhile (· != .loopEnd)).drop 1 =
      [.ifBegin "len(path) == 0", .other "continue", .ifEnd, .ifBegin "path != \"/\"", .call ["path"] "strings.TrimSuffix" ["path", "\"/\""] [], .ifEnd,
       .other "_, found := seen[path]", .ifBegin "!found", .assign "seen[path]" "true", .call ["patterns"] "append" ["patterns", "path"] [], .ifEnd] ∧
    autologinNew.getLast? = some (.ret [.expr "&AutoLogin{ Enabled: cfg.AutoLogin, IgnorePatterns: patterns, cache: sync.Map{}, }", .nil]) := by decide

end Ww.Proofs.GenTie.MiddlewareSrc
