import Ww.Model.HandlerSrc
import Ww.Gen.Helpers
/-!
# Callback URLs, retry counter, cookie names, small web helpers (tie G for C04 C13 C14 C15 C17)

Regenerated statement by statement from pkg/url/url.go, pkg/handler/{error,handler,path,handler_sso_proxy}.go, pkg/cookie/cookie.go and internal/http/middleware.go.
-/
namespace Ww.Proofs.GenTie.HelpersWeb
open Ww.Model.HandlerSrc Ww.Gen.Helpers Ww.Gen.Manager

set_option maxRecDepth 20000

private def lastRet (p : Path) : Option (List MgVal) := match p.evs.getLast? with
  | some (.ret v) => some v
  | _ => none

/-- **redirect_uri and post_logout_redirect_uri are built from the MATCHING INGRESS** (put into the request context by the ingress middleware), never from request
    text: no matching ingress ⇒ error; otherwise ingress + /oauth2 + the callback path -/
theorem callback_url_paths :
    urlLoginCallback = [.ret [.expr "makeCallbackURL(r, paths.LoginCallback)"]] ∧ urlLogoutCallback = [.ret [.expr "makeCallbackURL(r, paths.LogoutCallback)"]] ∧
    (paths makeCallbackURL).map (fun p => (p.conds, lastRet p)) =
      [([("err != nil", true)], some [.expr "\"\"", .expr "err"]), ([("err != nil", false)], some [.expr "u.JoinPath(paths.OAuth2, callbackPath).String()", .nil])] ∧
    makeCallbackURL.head? = some (.call ["u", "err"] "MatchingIngress" ["r"] []) ∧
    (paths urlMatchingIngress).map (fun p => (p.conds, lastRet p)) =
      [([("!found", true)], some [.nil, .expr "ErrNoMatchingIngress"]), ([("!found", false)], some [.expr "ing.NewURL()", .nil])] ∧
    urlMatchingIngress.head? = some (.call ["ing", "found"] "mw.IngressFrom" ["r.Context()"] []) ∧
    (paths urlMatchingPath).map (fun p => (p.conds, p.evs.filterMap fun st => match st with | .assign "u.Path" v => some v | _ => none)) =
      [([("found && len(p) > 0", true)], ["p"]), ([("found && len(p) > 0", false)], ["\"/\""])] ∧
    (paths urlLoginRelative).all (fun p => lastRet p = some [.expr "Login(u, redirect)"]) = true := by decide

/-- **the retry counter**: read from the retry cookie; no cookie or not a number ⇒ "no attempts yet"; the error page hands `Retry` the login cookie (or none) and
    the default redirect = the single ingress, or the SSO server's default URL -/
theorem retry_attempts_paths :
    (paths getRetryAttempts).map (fun p => (p.conds.map (·.2), lastRet p)) =
      [([true], some [.expr "0", .expr "false"]), ([false, true], some [.expr "0", .expr "false"]), ([false, false], some [.expr "val", .expr "true"])] ∧
    getRetryAttempts.head? = some (.call ["c", "err"] "cookie.Get" ["r", "cookie.Retry"] []) ∧
    getRetryAttempts.contains (.call ["val", "err"] "strconv.Atoi" ["c.Value"] []) = true ∧
    defaultErrorResponse.head? = some (.call [] "w.WriteHeader" ["statusCode"] []) ∧
    (paths defaultErrorResponse).all (fun p =>
      p.calls "openid.GetLoginCookie" = [["r", "s.Crypter"]] &&
      (p.took "s.Config.SSO.IsServer()" true == p.evs.contains (.assign "defaultRedirect" "s.Config.SSO.ServerDefaultRedirectURL")) &&
      p.evs.contains (.call ["defaultRedirect"] "s.Ingresses.Single().String" [] [])) = true := by decide

/-- cookie names: a prefix renames login, logout, retry and session cookie together; the legacy cookie is set and cleared with the same name, path "/" and SameSite Lax;
    the wildcard route is the upstream proxy; the SSO proxy strips the caching headers the middleware added; interactive endpoints refuse non-navigation requests
    (when fetch metadata is present) with 401 before the handler runs -/
theorem small_web_helpers :
    configureCookieNames = [.call ["Login"] "login" ["prefix"] [], .call ["Logout"] "logout" ["prefix"] [], .call ["Retry"] "retry" ["prefix"] [], .call ["Session"] "session" ["prefix"] []] ∧
    setLegacyCookie = [.call ["c"] "Make" ["loginservice", "value", "opts. WithSameSite(http.SameSiteLaxMode). WithPath(\"/\")"] [], .call [] "Set" ["w", "c"] []] ∧
    clearLegacyCookies = [.call [] "Clear" ["w", "loginservice", "opts. WithSameSite(http.SameSiteLaxMode). WithPath(\"/\")"] []] ∧
    standaloneWildcard = [.call [] "s.UpstreamProxy.Handler" ["s", "w", "r"] []] ∧
    (paths handlerGetPath).map (fun p => (p.conds, p.calls "ingresses.MatchingPath")) = [([("!ok", true)], [["r"]]), ([("!ok", false)], [])] ∧
    removeMiddlewareHeaders = [.assign "headers" "[]string{ \"Expires\", \"Cache-Control\", \"Pragma\", \"X-Accel-Expires\", \"Vary\", }",
      .loopBegin "_, header := range headers", .call [] "w.Header().Del" ["header"] [], .loopEnd] ∧
    disallowNonNavigational = [.ret [.expr "http.HandlerFunc(func(w http.ResponseWriter, r *http.Request) { if HasSecFetchMetadata(r) && !IsNavigationRequest(r) { span := trace.SpanFromContext(r.Context()) span.SetAttributes(attribute.Bool(\"request.disallowed\", true)) w.Header().Set(\"Content-Type\", \"application/json\") w.WriteHeader(http.StatusUnauthorized) w.Write([]byte(`{\"error\": \"unauthenticated\", \"error_description\": \"this is an interactive endpoint; user-agents must be navigated to this endpoint\", \"error_path\": \"` + r.URL.Path + `\"}`)) return } next.ServeHTTP(w, r) })"]] := by decide

end Ww.Proofs.GenTie.HelpersWeb
