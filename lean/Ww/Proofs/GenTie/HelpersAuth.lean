import Ww.Model.HandlerSrc
import Ww.Gen.Helpers
/-!
# Token-request parameters, login / logout cookie readers, random source (tie G for C02 C07 C13)

Regenerated statement by statement from pkg/openid/oauth2.go, pkg/openid/cookies.go and pkg/strings/generator.go on every run.
-/
namespace Ww.Proofs.GenTie.HelpersAuth
open Ww.Model.HandlerSrc Ww.Gen.Helpers Ww.Gen.Manager

set_option maxRecDepth 20000

private def lastRet (p : Path) : Option (List MgVal) := match p.evs.getLast? with
  | some (.ret v) => some v
  | _ => none

/-- **what a token request carries**: a code exchange = client id, the code, the PKCE verifier, grant type `authorization_code`, the redirect URI — all from the
    function's arguments, a fresh map per call; a refresh = client id, grant type `refresh_token`, the refresh token; client authentication = secret or signed
    assertion. `With` copies the OTHER map's entries into the receiver and returns the receiver (so it must only ever be applied to a map made for this request). -/
theorem request_params_shapes :
    exchangeParams = [.ret [.expr "RequestParams{ \"client_id\": clientID, \"code\": code, \"code_verifier\": codeVerifier, \"grant_type\": \"authorization_code\", \"redirect_uri\": redirectURI, }"]] ∧
    refreshGrantParams = [.ret [.expr "RequestParams{ \"client_id\": clientID, \"grant_type\": \"refresh_token\", \"refresh_token\": refreshToken, }"]] ∧
    clientAuthSecretParams = [.ret [.expr "RequestParams{ \"client_secret\": clientSecret, }"]] ∧
    clientAuthJwtBearerParams = [.ret [.expr "RequestParams{ \"client_assertion\": clientAssertion, \"client_assertion_type\": \"urn:ietf:params:oauth:client-assertion-type:jwt-bearer\", }"]] ∧
    paramsWith = [.loopBegin "key, val := range other", .assign "a[key]" "val", .loopEnd, .ret [.expr "a"]] ∧
    paramsAuthCodeOptions = [.call ["opts"] "make" ["[]oauth2.AuthCodeOption", "0", "len(a)"] [], .loopBegin "key, val := range a",
      .call ["opts"] "append" ["opts", "oauth2.SetAuthURLParam(key, val)"] [], .loopEnd, .ret [.expr "opts"]] ∧
    paramsURLValues = [.assign "v" "url.Values{}", .loopBegin "key, val := range a", .call [] "v.Set" ["key", "val"] [], .loopEnd, .ret [.expr "v"]] := by decide

/-- **the login / logout cookie is read under its own name with the deployment crypter**; not present / not opening ⇒ that error; not parsing ⇒ error; a cookie
    object exists only after both succeeded -/
theorem login_cookie_paths :
    (paths getLoginCookie).map (fun p => (p.conds.map (·.2), lastRet p)) =
      [([true], some [.nil, .expr "err"]), ([false, true], some [.nil, .wrap ["err"]]), ([false, false], some [.expr "&loginCookie", .nil])] ∧
    getLoginCookie.head? = some (.call ["loginCookieJson", "err"] "cookie.GetDecrypted" ["r", "cookie.Login", "crypter"] []) ∧
    getLoginCookie.contains (.call ["err"] "json.Unmarshal" ["[]byte(loginCookieJson)", "&loginCookie"] []) = true ∧
    (paths getLogoutCookie).map (fun p => (p.conds.map (·.2), lastRet p)) =
      [([true], some [.nil, .expr "err"]), ([false, true], some [.nil, .wrap ["err"]]), ([false, false], some [.expr "&logoutCookie", .nil])] ∧
    getLogoutCookie.head? = some (.call ["logoutCookieJson", "err"] "cookie.GetDecrypted" ["r", "cookie.Logout", "crypter"] []) ∧
    getLogoutCookie.contains (.call ["err"] "json.Unmarshal" ["[]byte(logoutCookieJson)", "&logoutCookie"] []) = true := by decide

/-- **state, nonce, verifier and logout state come from the system's random source**: `Generate` fills the whole buffer from `rand.Reader` - and `rand` in that file is crypto/rand,
    math/rand is not imported -, a short read is an error; `GenerateBase64` encodes exactly those bytes -/
theorem random_source :
    (paths generateBytes).map (fun p => (p.conds, lastRet p)) =
      [([("err != nil", true)], some [.nil, .wrap ["err"]]), ([("err != nil", false)], some [.expr "bytes", .nil])] ∧
    generateBytes.take 2 = [.call ["bytes"] "make" ["[]byte", "length"] [], .call ["_", "err"] "io.ReadFull" ["rand.Reader", "bytes"] []] ∧
    (paths generateBase64).map (fun p => (p.conds, lastRet p)) =
      [([("err != nil", true)], some [.expr "\"\"", .expr "err"]), ([("err != nil", false)], some [.expr "base64.RawURLEncoding.EncodeToString(bytes)", .nil])] ∧
    generateBase64.head? = some (.call ["bytes", "err"] "Generate" ["length"] []) ∧
    generatorImports.contains "crypto/rand" = true ∧ generatorImports.all (fun i => i != "math/rand" && i != "math/rand/v2" && i != "rand=math/rand" && i != "rand=math/rand/v2") = true := by decide

end Ww.Proofs.GenTie.HelpersAuth
