import Ww.Model.HandlerSrc
import Ww.Gen.Provider
/-!
# The grants of the source (tie G for C01 C07 C11)

`Client.RefreshGrant`, `Client.AuthCodeGrant`, the client authentication and the back-channel POST, regenerated statement by statement from
pkg/openid/client/client.go on every run. The fault model of `Ww.Proofs.C11` assumes: a 4xx answer of the provider is a CLIENT error (the refresh token was
rejected: the session becomes unauthenticated), a 5xx answer a SERVER error (retried, then fails closed), a body is handed on only from a non-error answer, and a
refresh answer is a token response only if it parsed AND carries an access token (finding F11). Decided here on every control-flow path.
-/
namespace Ww.Proofs.GenTie.Grant
open Ww.Model.HandlerSrc Ww.Gen.Provider Ww.Gen.Manager

set_option maxRecDepth 20000

private def lastRet (p : Path) : Option (List MgVal) := match p.evs.getLast? with
  | some (.ret v) => some v
  | _ => none

/-- **a refresh answer is accepted on one path only**: client authentication worked, the POST to the provider's TOKEN endpoint with
    `RefreshGrantParams(client id, the caller's refresh token)` + client authentication returned a body, the body parsed, and it carries an access token.
    Every other path returns (nil, error). -/
theorem refresh_grant_paths : (paths refreshGrant).all (fun p =>
    match lastRet p with
    | some [.expr "&tokenResponse", .nil] =>
      p.conds = [("err != nil", false), ("err != nil", false), ("err != nil", false), ("len(tokenResponse.AccessToken) == 0", false)] &&
      p.evs.contains (.call ["endpoint"] "c.cfg.Provider().TokenEndpoint" [] []) &&
      p.evs.contains (.call ["payload"] "openid.RefreshGrantParams(c.cfg.Client().ClientID(), refreshToken). With" ["clientAuth"] []) &&
      p.calls "c.oauthPostRequest" = [["ctx", "endpoint", "payload"]] && p.calls "json.Unmarshal" = [["body", "&tokenResponse"]] &&
      p.before "c.ClientAuthenticationParams" "c.oauthPostRequest" && p.before "c.oauthPostRequest" "json.Unmarshal"
    | some [.nil, _] => p.conds.getLast?.any (·.2)
    | _ => false) = true ∧
    ((paths refreshGrant).filter fun p => lastRet p == some [.expr "&tokenResponse", .nil]).length = 1 := by decide

/-- **error classes of the back channel**: transport failure ⇒ plain error; 4xx ⇒ `ErrOpenIDClient` (whether or not the error body parses); 5xx ⇒ `ErrOpenIDServer`;
    the body is returned only when the status is neither. The request is a POST of the url-encoded payload to the given endpoint, on the client's own http client. -/
theorem oauth_post_error_classes : (paths oauthPostRequest).all (fun p =>
    p.calls "http.NewRequestWithContext" = [["ctx", "http.MethodPost", "endpoint", "strings.NewReader(payload.URLValues().Encode())"]] &&
    (match lastRet p with
     | some [.expr "body", .nil] =>
       p.conds = [("err != nil", false), ("err != nil", false), ("err != nil", false), ("resp.StatusCode >= 400 && resp.StatusCode < 500", false), ("resp.StatusCode >= 500", false)] &&
       p.calls "c.httpClient.Do" = [["r"]] && p.calls "io.ReadAll" = [["resp.Body"]] && p.evs.contains (.deferCalls ["resp.Body.Close"])
     | some [.nil, .wrap ["ErrOpenIDClient"]] => p.took "resp.StatusCode >= 400 && resp.StatusCode < 500" true
     | some [.nil, .wrap ["ErrOpenIDServer"]] => p.took "resp.StatusCode >= 400 && resp.StatusCode < 500" false && p.took "resp.StatusCode >= 500" true
     | some [.nil, .wrap ["err"]] => p.conds.getLast? = some ("err != nil", true) && p.conds.length ≤ 3
     | _ => false)) = true ∧
    (paths oauthPostRequest).all (fun p => if p.took "resp.StatusCode >= 400 && resp.StatusCode < 500" true then lastRet p == some [.nil, .wrap ["ErrOpenIDClient"]] else true) = true ∧
    (paths oauthPostRequest).all (fun p => if p.took "resp.StatusCode >= 500" true then lastRet p == some [.nil, .wrap ["ErrOpenIDServer"]] else true) = true := by decide

/-- client authentication: a signed assertion for private_key_jwt, the secret for client_secret, an error for anything else — never an unauthenticated request -/
theorem client_auth_paths :
    (paths clientAuthenticationParams).map (fun p => (p.conds.map (·.2), lastRet p)) =
      [([true, true], some [.nil, .wrap ["err"]]), ([true, false], some [.expr "openid.ClientAuthJwtBearerParams(assertion)", .nil]),
       ([false, true], some [.expr "openid.ClientAuthSecretParams(c.cfg.Client().ClientSecret())", .nil]), ([false, false], some [.nil, .wrap []])] ∧
    (paths makeAssertion).all (fun p => match lastRet p with
      | some [.expr "string(encoded)", .nil] => p.conds.map (·.2) = [false, false] && p.calls "jwt.Sign" = [["tok", "jwt.WithKey(key.Algorithm(), key)"]] &&
          p.evs.contains (.call ["key"] "clientCfg.ClientJWK" [] [])
      | some [.expr "\"\"", .wrap ["err"]] => true
      | _ => false) = true ∧
    authCodeGrant = [.call ["ctx"] "context.WithValue" ["ctx", "oauth2.HTTPClient", "c.httpClient"] [], .ret [.expr "c.oauth2Config.Exchange(ctx, code, opts...)"]] := by decide

end Ww.Proofs.GenTie.Grant
