import Ww.Model.HandlerSrc
/-!
# Login, rate limit, error responder and retry target of the source (tie G for C04 C13 C14 C15 C16 C17)
-/
namespace Ww.Proofs.GenTie.Login
open Ww.Model.HandlerSrc Ww.Gen.Handlers Ww.Gen.Manager

set_option maxRecDepth 20000

/-- **cookie scope per mode** (C14 C16): SSO modes use the configured options as they are (Domain = SSO domain); standalone narrows them to the matching ingress path -/
theorem cookie_options_choice : getCookieOptions =
    [.ifBegin "s.Config.SSO.Enabled", .ret [.expr "s.CookieOptions"], .ifEnd, .call ["path"] "s.GetPath" ["r"] [], .ret [.expr "s.CookieOptions.WithPath(path)"]] := by decide

/-- **login** (C13 C14 C17): the browser is sent to the provider only after the authorization request was built, the rate limit passed and the login cookie — sealed with the
    canonical redirect, scoped by the request's cookie options, SameSite=Lax — was set; the Location is the request built for THIS attempt; a rate-limited attempt answers 429
    and sets no login cookie; `prompt` first destroys the local session and clears its cookie with the request's options -/
theorem login_paths : (paths login).all (fun p =>
    (if p.called "http.Redirect" then
       p.calls "http.Redirect" = [["w", "r", "login.AuthCodeURL", "http.StatusFound"]] && p.took "err != nil" false &&
       p.before "s.Client.Login" "s.applyLoginRateLimit" && p.before "s.applyLoginRateLimit" "login.SetCookie" && p.before "login.SetCookie" "http.Redirect" &&
       p.calls "login.SetCookie" = [["w", "opts", "s.Crypter", "canonicalRedirect"]] &&
       p.evs.contains (.call ["opts"] "s.GetCookieOptions(r).WithSameSite" ["http.SameSiteLaxMode"] []) &&
       p.evs.head? = some (.call ["canonicalRedirect"] "s.Redirect.Canonical" ["r"] []) &&
       !(p.called "s.InternalError" || p.called "s.TooManyRequests")
     else p.called "s.InternalError" || p.called "s.TooManyRequests") &&
    (if p.called "s.TooManyRequests" then !p.called "login.SetCookie" && !p.called "http.Redirect" else true) &&
    (if p.took "prompt != \"\"" true && p.called "s.applyLoginRateLimit" then (p.calls "cookie.Clear") = [["w", "cookie.Session", "s.GetCookieOptions(r)"]] else !p.called "cookie.Clear" || p.called "s.InternalError")) = true := by decide

/-- **login rate limit** (C17): counted only when enabled and the browser has a session; at the limit → error and NO counter cookie; below it the counter is incremented by one and
    written with the request's cookie options and a Max-Age of at least one second (F8) — the window restarts with every counted attempt -/
theorem rate_limit_paths : (paths applyLoginRateLimit).all (fun p =>
    if p.called "cookie.Set" then
      p.took "!s.Config.RateLimit.Enabled" false && p.took "sess == nil" false && p.took "attempts >= maxAttempts" false &&
      p.evs.contains (.assign "attempts" "attempts + 1") && p.evs.contains (.call ["c"] "cookie.Make" ["cookie.LoginCount", "strconv.Itoa(attempts)", "opts"] []) &&
      p.evs.contains (.call ["c.MaxAge"] "max" ["1", "int(window.Seconds())"] []) && p.evs.contains (.call ["opts"] "s.GetCookieOptions" ["r"] []) &&
      p.evs.getLast? = some (.ret [.nil]) && p.evs.contains (.assign "maxAttempts" "s.Config.RateLimit.Logins") && p.evs.contains (.assign "window" "s.Config.RateLimit.Window")
    else if p.took "attempts >= maxAttempts" true then p.evs.getLast? = some (.ret [.wrap []])
    else p.evs.getLast? = some (.ret [.nil]) && (p.took "!s.Config.RateLimit.Enabled" true || p.took "sess == nil" true)) = true := by decide

/-- **error responder** (C17): the retry counter is incremented first on EVERY path; the automatic retry (307 to the retry target) is sent only while the counter the request carried is
    absent or below the maximum AND the status is not 429; otherwise the terminal error page -/
theorem respond_error_paths : (paths respondError).all (fun p =>
    p.before "incrementRetryAttempt" "getRetryAttempts" && p.calls "getRetryAttempts" = [["r"]] && p.calls "incrementRetryAttempt" = [["w", "r", "s.GetCookieOptions(r)"]] &&
    (if p.took "(!ok || attempts < MaxAutoRetryAttempts) && (statusCode != http.StatusTooManyRequests)" true then
       p.calls "http.Redirect" = [["w", "r", "retryUri", "http.StatusTemporaryRedirect"]] && p.evs.contains (.call ["retryUri"] "s.Retry" ["r", "loginCookie"] []) &&
       !p.called "s.defaultErrorResponse" && p.returned
     else p.calls "s.defaultErrorResponse" = [["w", "r", "statusCode"]] && !p.called "http.Redirect")) = true := by decide

/-- **retry target** (C04 C15): a failed logout callback retries the ingress' logout, a failed login callback the ingress' login with the canonical redirect or the CLEANED referer of
    the login cookie; anything else retries the request itself with scheme and host removed -/
theorem retry_target_paths : (paths retryURI).map (fun p => (p.conds.filter (·.2) |>.map (·.1), p.evs.getLast?)) =
    [(["strings.HasSuffix(requestPath, paths.OAuth2+paths.LogoutCallback)"], some (.ret [.expr "ingressPath + paths.OAuth2 + paths.Logout"])),
     (["strings.HasSuffix(requestPath, paths.OAuth2+paths.LoginCallback)", "loginCookie != nil && len(loginCookie.Referer) > 0"], some (.ret [.expr "urlpkg.LoginRelative(ingressPath, redirect)"])),
     (["strings.HasSuffix(requestPath, paths.OAuth2+paths.LoginCallback)"], some (.ret [.expr "urlpkg.LoginRelative(ingressPath, redirect)"])),
     ([], some (.ret [.expr "u.String()"]))] ∧
    (paths retryURI).all (fun p =>
      (if p.took "loginCookie != nil && len(loginCookie.Referer) > 0" true then p.evs.contains (.call ["redirect"] "s.Redirect.Clean" ["r", "loginCookie.Referer"] []) else true) &&
      (if p.took "strings.HasSuffix(requestPath, paths.OAuth2+paths.LoginCallback)" true then p.evs.contains (.call ["redirect"] "s.Redirect.Canonical" ["r"] []) else true) &&
      (if p.evs.getLast? = some (.ret [.expr "u.String()"]) then
         p.evs.contains (.assign "u" "*r.URL") && p.evs.contains (.assign "u.Host" "\"\"") && p.evs.contains (.assign "u.Scheme" "\"\"") else true)) = true := by decide

end Ww.Proofs.GenTie.Login
