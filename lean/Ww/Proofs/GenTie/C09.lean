import Ww.Model.HandlerSrc
import Ww.Gen.Envelope
/-!
# The sealing envelope of the source (tie G for C09)

`Ww.Gen.Envelope.*` is regenerated on every run from internal/crypto/crypter.go, pkg/cookie/cookie.go, pkg/session/ticket.go, pkg/session/data.go and
pkg/session/session.go, one entry per statement in source order. The symbolic model of `Ww.Proofs.C09` treats "seal" and "open" as AEAD operations with a fresh
nonce, the cookie as base64 of a sealed value under the deployment key and the store value as the session data sealed under the ticket's own data key. The
statements below say that the CURRENT source has exactly that shape, on every control-flow path. XChaCha20-Poly1305 itself and crypto/rand stay assumptions
(H-AEAD, H-RND); what is decided here is that the code calls them, in this order, with these operands, and never returns a value that skipped them.
-/
namespace Ww.Proofs.GenTie.C09
open Ww.Model.HandlerSrc Ww.Gen.Envelope Ww.Gen.Manager

set_option maxRecDepth 20000

private def lastRet (p : Path) : Option (List MgVal) := match p.evs.getLast? with
  | some (.ret v) => some v
  | _ => none

private def failsWithNil (p : Path) : Bool := match lastRet p with
  | some (.nil :: _ :: []) => true
  | _ => false

/-- **seal**: the only path that returns a ciphertext has built the AEAD from the crypter's own key, made a nonce of the AEAD's nonce size, FILLED IT from
    crypto/rand (and checked that read's error) and returns `Seal(nonce, nonce, plaintext, nil)`: nonce ‖ ciphertext ‖ tag. Every other path returns no bytes. -/
theorem seal_shape : (paths crypterEncrypt).all (fun p =>
    if failsWithNil p then true else
      lastRet p = some [.expr "aead.Seal(nonce, nonce, plaintext, nil)", .nil] &&
      p.calls "chacha20poly1305.NewX" = [["c.key"]] &&
      p.calls "make" = [["[]byte", "aead.NonceSize()", "aead.NonceSize() + plaintextSize + aead.Overhead()"]] &&
      p.calls "cryptorand.Read" = [["nonce"]] &&
      p.before "chacha20poly1305.NewX" "make" && p.before "make" "cryptorand.Read" &&
      p.conds = [("err != nil", false), ("plaintextSize > MaxPlaintextSize", false), ("err != nil", false)]) = true ∧
    ((paths crypterEncrypt).filter (fun p => !failsWithNil p)).length = 1 ∧
    -- `cryptorand` in that file IS crypto/rand
    crypterImports.contains "cryptorand=crypto/rand" = true ∧ crypterImports.contains "golang.org/x/crypto/chacha20poly1305" = true := by decide

/-- **open**: the only path that returns the AEAD's verdict has built the AEAD from the crypter's own key, refused anything shorter than a nonce, split the input
    at the nonce size and returns `Open(nil, nonce, encrypted, nil)` unchanged (plaintext AND error: a failed tag check is the caller's error). -/
theorem open_shape : (paths crypterDecrypt).all (fun p =>
    if failsWithNil p then true else
      lastRet p = some [.expr "aead.Open(nil, nonce, encrypted, nil)"] &&
      p.calls "chacha20poly1305.NewX" = [["c.key"]] &&
      p.evs.contains (.other "nonce, encrypted := ciphertext[:aead.NonceSize()], ciphertext[aead.NonceSize():]") &&
      p.conds = [("err != nil", false), ("len(ciphertext) < aead.NonceSize()", false)]) = true ∧
    ((paths crypterDecrypt).filter (fun p => !failsWithNil p)).length = 1 := by decide

/-- **deployment key**: whatever `EncryptionKeyOrGenerate` returns as key has passed the length check against the AEAD's key size; a configured key that does not
    decode is an error, not a silently generated one -/
theorem key_length_enforced : (paths encryptionKeyOrGenerate).all (fun p =>
    if failsWithNil p then true else
      lastRet p = some [.expr "key", .nil] && p.took "len(key) != chacha20poly1305.KeySize" false &&
      (if p.took "len(cfg.EncryptionKey) == 0" true then p.calls "keygen.Keygen" = [["KeySize"]] else !p.called "keygen.Keygen")) = true ∧
    (paths encryptionKeyOrGenerate).any (fun p => p.conds = [("err != nil", true), ("len(cfg.EncryptionKey) > 0", true)] && failsWithNil p) = true := by decide

/-- **a cookie value is base64(seal(value))**: the value is replaced only by the encoding of what `crypter.Encrypt` returned for the old value's bytes; when sealing
    fails no cookie comes back, and `EncryptAndSet` writes a cookie only on the path where sealing succeeded — the sealed one -/
theorem cookie_seal :
    (paths cookieEncrypt).all (fun p =>
      if failsWithNil p then !p.evs.any (fun st => match st with | .assign .. => true | _ => false) else
        lastRet p = some [.expr "in", .nil] &&
        p.evs = [.call ["plaintext"] "[]byte" ["in.Cookie.Value"] [], .call ["ciphertext", "err"] "crypter.Encrypt" ["plaintext"] [],
                 .call ["value"] "base64.RawURLEncoding.EncodeToString" ["ciphertext"] [], .assign "in.Cookie.Value" "value", .ret [.expr "in", .nil]]) = true ∧
    (paths cookieEncryptAndSet).all (fun p =>
      p.calls "Make(key, value, opts).Encrypt" = [["crypter"]] &&
      (if p.called "Set" then p.calls "Set" = [["w", "encryptedCookie"]] && p.conds = [("err != nil", false)] && p.before "Make(key, value, opts).Encrypt" "Set"
       else lastRet p = some [.expr "err"] && p.conds = [("err != nil", true)])) = true ∧
    cookieSet = [.call [] "http.SetCookie" ["w", "cookie.Cookie"] []] := by decide

/-- **a cookie opens only through base64 + open**: undecodable ⇒ `ErrInvalidValue`, not opening ⇒ `ErrDecrypt` (both with an empty value); a value is returned
    only after `crypter.Decrypt` returned no error. `GetDecrypted` is `Get` then `Decrypt` with the caller's crypter. -/
theorem cookie_open :
    (paths cookieDecrypt).map (fun p => (p.conds.map (·.2), lastRet p)) =
      [([true], some [.expr "\"\"", .wrap ["ErrInvalidValue", "err"]]), ([false, true], some [.expr "\"\"", .wrap ["ErrDecrypt", "err"]]),
       ([false, false], some [.expr "string(plaintext)", .expr "err"])] ∧
    (paths cookieDecrypt).all (fun p => p.calls "base64.RawURLEncoding.DecodeString" = [["in.Value"]] &&
      (if lastRet p = some [.expr "string(plaintext)", .expr "err"] then p.calls "crypter.Decrypt" = [["ciphertext"]] else true)) = true ∧
    (paths cookieGetDecrypted).map (fun p => (p.conds, lastRet p)) =
      [([("err != nil", true)], some [.expr "\"\"", .expr "err"]), ([("err != nil", false)], some [.expr "encryptedCookie.Decrypt(crypter)"])] ∧
    cookieGetDecrypted.head? = some (.call ["encryptedCookie", "err"] "Get" ["r", "key"] []) := by decide

/-- **the ticket**: read from the SESSION cookie with the caller's (deployment) crypter; no cookie ⇒ not found; undecodable or not opening ⇒ invalid; anything
    that does not parse as a ticket ⇒ error. A ticket is returned on exactly one path: the cookie opened and parsed. -/
theorem ticket_paths : (paths getTicket).all (fun p =>
    p.calls "cookie.GetDecrypted" = [["r", "cookie.Session", "crypter"]] &&
    (if failsWithNil p then true else
      lastRet p = some [.expr "&ticket", .nil] && p.calls "json.Unmarshal" = [["[]byte(ticketJson)", "&ticket"]] &&
      p.conds.map (·.2) = [false, false, false, false])) = true ∧
    ((paths getTicket).filter failsWithNil).map (fun p => (p.conds.getLast?.map (·.1), lastRet p)) =
      [(some "errors.Is(err, http.ErrNoCookie)", some [.nil, .wrap ["ErrNotFound"]]),
       (some "errors.Is(err, cookie.ErrInvalidValue) || errors.Is(err, cookie.ErrDecrypt)", some [.nil, .wrap ["ErrInvalid", "err"]]),
       (some "err != nil", some [.nil, .expr "err"]), (some "err != nil", some [.nil, .wrap ["err"]])] := by decide

/-- **the data key**: a new ticket carries a key of the AEAD's key size from the key generator; the ticket's crypter is made from THAT key and nothing else; the ticket
    goes out through `EncryptAndSet` under the session cookie's name with the caller's crypter -/
theorem ticket_key_is_fresh_and_own :
    (paths newTicket).map (fun p => (p.conds, lastRet p)) =
      [([("err != nil", true)], some [.nil, .wrap ["err"]]), ([("err != nil", false)], some [.expr "&Ticket{SessionKey: sessionKey, EncryptionKey: encKey}", .nil])] ∧
    newTicket.head? = some (.call ["encKey", "err"] "keygen.Keygen" ["crypto.KeySize"] []) ∧
    (paths ticketCrypter).all (fun p => lastRet p = some [.expr "c.crypter"] &&
      (if p.took "c.crypter == nil" true then p.evs.contains (.call ["c.crypter"] "crypto.NewCrypter" ["c.EncryptionKey"] []) else p.evs.length = 1)) = true ∧
    (ticketCrypter.all fun st => match st with | .call lhs fn args _ => lhs = ["c.crypter"] && fn = "crypto.NewCrypter" && args = ["c.EncryptionKey"] | .assign .. => false | _ => true) = true ∧
    (paths ticketSetCookie).map (fun p => (p.conds, lastRet p)) =
      [([("err != nil", true)], some [.wrap ["err"]]), ([("err != nil", false)], some [.expr "cookie.EncryptAndSet(w, cookie.Session, string(b), opts, crypter)"])] ∧
    sessionSetCookie = [.ret [.expr "in.ticket.SetCookie(w, opts, crypter)"]] ∧ ticketKey = [.ret [.expr "c.SessionKey"]] ∧
    sessionKey = [.ret [.expr "in.ticket.Key()"]] := by decide

/-- **the store value is seal(json(data)) under the ticket's key**: `Session.encrypt` seals with `in.ticket.Crypter()`; `Data.Encrypt` returns only what
    `crypter.Encrypt` returned for the marshalled data; `EncryptedData.Decrypt` returns data only after the ciphertext opened and parsed -/
theorem data_sealed_with_ticket_key :
    sessionEncrypt = [.ret [.expr "in.data.Encrypt(in.ticket.Crypter())"]] ∧
    (paths dataEncrypt).all (fun p =>
      if failsWithNil p then true else
        lastRet p = some [.expr "&EncryptedData{ Ciphertext: ciphertext, }", .nil] &&
        p.calls "json.Marshal" = [["in"]] && p.calls "crypter.Encrypt" = [["bytes"]] && p.before "json.Marshal" "crypter.Encrypt" &&
        p.conds.map (·.2) = [false, false]) = true ∧
    ((paths dataEncrypt).filter (fun p => !failsWithNil p)).length = 1 ∧
    (paths encryptedDataDecrypt).all (fun p =>
      p.calls "crypter.Decrypt" = [["in.Ciphertext"]] &&
      (if failsWithNil p then true else
        lastRet p = some [.expr "&data", .nil] && p.calls "json.Unmarshal" = [["rawData", "&data"]] && p.conds.map (·.2) = [false, false])) = true ∧
    ((paths encryptedDataDecrypt).filter (fun p => !failsWithNil p)).length = 1 ∧
    newSession = [.ret [.expr "&Session{data: data, ticket: ticket}"]] := by decide

/-- **what counts as a session**: no access token ⇒ invalid; ended ⇒ invalid; timed out ⇒ invalid AND inactive; otherwise valid. The access token is handed out
    only while active, else `ErrInvalid` with an empty string. -/
theorem data_validate_paths :
    (paths dataValidate).map (fun p => (p.conds, lastRet p)) =
      [([("!in.HasAccessToken()", true)], some [.wrap ["ErrInvalid"]]),
       ([("!in.HasAccessToken()", false), ("in.Metadata.IsEnded()", true)], some [.wrap ["ErrInvalid"]]),
       ([("!in.HasAccessToken()", false), ("in.Metadata.IsEnded()", false), ("in.Metadata.IsTimedOut()", true)], some [.wrap ["ErrInvalid", "ErrInactive"]]),
       ([("!in.HasAccessToken()", false), ("in.Metadata.IsEnded()", false), ("in.Metadata.IsTimedOut()", false)], some [.nil])] ∧
    (paths sessionAccessToken).map (fun p => (p.conds, lastRet p)) =
      [([("in.data != nil && in.data.HasActiveAccessToken()", true)], some [.expr "in.data.AccessToken", .nil]),
       ([("in.data != nil && in.data.HasActiveAccessToken()", false)], some [.expr "\"\"", .wrap ["ErrInvalid"]])] := by decide

end Ww.Proofs.GenTie.C09
