import Ww.Model.HandlerSrc
import Ww.Gen.Provider
/-!
# ID-token validation of the source (tie G for C03)

`NewTokens`, `ParseIDToken` and `IDToken.Validate`, regenerated statement by statement from pkg/openid/tokens.go on every run. The decision model of `Ww.Proofs.C03`
assumes: signature first, under the provider's key set; then the validator with required iss / sub / aud / exp / iat, issuer, audience, THIS attempt's nonce and the
skew; sid required when advertised; acr required when configured and compared with the level the login asked for; no untrusted extra audience. The statements below
decide that shape on every control-flow path of the current source. jws.Verify and jwt.Validate themselves stay library code (tied by the differential runs).
-/
namespace Ww.Proofs.GenTie.Tokens
open Ww.Model.HandlerSrc Ww.Gen.Provider Ww.Gen.Manager

set_option maxRecDepth 20000

private def lastRet (p : Path) : Option (List MgVal) := match p.evs.getLast? with
  | some (.ret v) => some v
  | _ => none

private def baseOpts := "[]jwt.ValidateOption{ jwt.WithRequiredClaim(\"iss\"), jwt.WithRequiredClaim(\"sub\"), jwt.WithRequiredClaim(\"aud\"), jwt.WithRequiredClaim(\"exp\"), jwt.WithRequiredClaim(\"iat\"), jwt.WithIssuer(openIDconfig.Issuer()), jwt.WithAudience(clientConfig.ClientID()), jwt.WithClaimValue(\"nonce\", cookie.Nonce), jwt.WithAcceptableSkew(AcceptableSkew), }"

/-- **every accepting path of `IDToken.Validate`** verified the signature of the serialized token under the given key set BEFORE anything else and took its success
    branch; built the option list ONCE with required iss / sub / aud / exp / iat, the provider's issuer, the client id as audience, the cookie's nonce and the skew,
    and only ever appended to it; appended "sid required" iff the provider says so; appended "acr required" iff acr values are configured and, when the login cookie
    carries a level, compared the token's acr with it and took the success branch; ran `jwt.Validate` on the token with those options and took its success branch;
    and, with more than one audience, found no untrusted one. -/
theorem validate_accepting_paths : (paths idTokenValidate).all (fun p =>
    if lastRet p != some [.nil] then true else
      p.calls "jws.Verify" = [["[]byte(in.Serialized())", "jws.WithKeySet(*jwks)"]] &&
      p.conds.head? = some ("err != nil", false) &&
      p.before "jws.Verify" "jwt.Validate" &&
      (p.evs.filterMap fun st => match st with | .assign "opts" r => some r | _ => none) = [baseOpts] &&
      (p.calls "append").all (fun a => a.head? = some "opts" || a.head? = some "untrusted") &&
      (p.evs.all fun st => match st with | .call lhs fn _ _ => !lhs.contains "opts" || fn = "append" | _ => true) &&
      p.calls "jwt.Validate" = [["in.Token", "opts"]] &&
      ((p.calls "append").contains ["opts", "jwt.WithRequiredClaim(SidClaim)"] == p.took "openIDconfig.SidClaimRequired()" true) &&
      ((p.calls "append").contains ["opts", "jwt.WithRequiredClaim(AcrClaim)"] == p.took "len(clientConfig.ACRValues()) > 0" true) &&
      (if p.took "len(cookie.Acr) > 0" true then
         p.calls "acr.Validate" = [["expected", "actual"]] && p.evs.contains (.assign "expected" "cookie.Acr") && p.evs.contains (.call ["actual"] "in.Acr" [] []) &&
         p.before "acr.Validate" "jwt.Validate"
       else !p.called "acr.Validate") &&
      (p.took "len(cookie.Acr) > 0" true || p.took "len(cookie.Acr) > 0" false) == p.took "len(clientConfig.ACRValues()) > 0" true &&
      (if p.took "len(audiences) > 1" true then p.took "len(untrusted) > 0" false && p.calls "clientConfig.Audiences" = [[]] else true) &&
      p.calls "in.Audience" = [[]]) = true := by decide

/-- every failing step is an exit with that step's error: signature, acr comparison, validator, untrusted audience — nothing is swallowed -/
theorem validate_rejecting_paths :
    ((paths idTokenValidate).filter (fun p => lastRet p != some [.nil])).all (fun p =>
      match p.conds.getLast?, lastRet p with
      | some ("err != nil", true), some [.wrap ["err"]] => p.conds.length = 1                 -- the signature
      | some ("err != nil", true), some [.expr "err"] => true                                  -- acr comparison or validator
      | some ("len(untrusted) > 0", true), some [.wrap []] => true
      | _, _ => false) = true ∧
    (paths idTokenValidate).all (fun p => (p.conds.filter (· == ("err != nil", true))).length ≤ 1 && p.returned) = true ∧
    (paths idTokenValidate).any (fun p => lastRet p == some [.nil]) = true := by decide

/-- the untrusted-audience loop collects exactly the audiences the client does not trust -/
theorem untrusted_audience_loop :
    (idTokenValidate.dropWhile (· != .loopBegin "_, audience := range audiences")).take 5 =
      [.loopBegin "_, audience := range audiences", .ifBegin "!trusted[audience]", .call ["untrusted"] "append" ["untrusted", "audience"] [], .ifEnd, .loopEnd] := by decide

/-- **tokens exist only behind the validation**: `NewTokens` returns tokens on ONE path: an `id_token` string was present, it parsed, and `Validate(cfg, cookie, jwks)`
    — with THIS attempt's cookie — returned no error; the returned ID token is the validated one. Parsing itself neither verifies nor validates (both are Validate's). -/
theorem new_tokens_paths :
    (paths newTokens).map (fun p => (p.conds, lastRet p)) =
      [([("!ok", true)], some [.nil, .wrap []]),
       ([("!ok", false), ("err != nil", true)], some [.nil, .wrap ["err"]]),
       ([("!ok", false), ("err != nil", false), ("err != nil", true)], some [.nil, .wrap ["err"]]),
       ([("!ok", false), ("err != nil", false), ("err != nil", false)],
        some [.expr "&Tokens{ AccessToken: src.AccessToken, Expiry: src.Expiry, IDToken: idToken, RefreshToken: src.RefreshToken, TokenType: src.TokenType, }", .nil])] ∧
    (paths newTokens).all (fun p => if p.conds.length = 3 then
        p.calls "ParseIDToken" = [["rawIdToken"]] && p.calls "idToken.Validate" = [["cfg", "cookie", "jwks"]] && p.before "ParseIDToken" "idToken.Validate" else true) = true ∧
    newTokens.head? = some (.other "rawIdToken, ok := src.Extra(\"id_token\").(string)") ∧
    (paths parseIDToken).map (fun p => (p.conds, lastRet p)) =
      [([("err != nil", true)], some [.nil, .wrap ["err"]]), ([("err != nil", false)], some [.expr "NewIDToken(raw, idToken)", .nil])] := by decide

/-- claims: a missing claim or a claim of another type is an error, never a default; `Sid` is the string claim, `Acr` the string-or-empty claim -/
theorem claim_paths :
    (paths idTokenClaim).map (fun p => (p.conds, lastRet p)) =
      [([("in.Token == nil", true)], some [.nil, .wrap []]), ([("in.Token == nil", false), ("!ok", true)], some [.nil, .wrap []]),
       ([("in.Token == nil", false), ("!ok", false)], some [.expr "gotClaim", .nil])] ∧
    (paths idTokenStringClaim).map (fun p => (p.conds, lastRet p)) =
      [([("err != nil", true)], some [.expr "\"\"", .expr "err"]), ([("err != nil", false), ("!ok", true)], some [.expr "\"\"", .wrap []]),
       ([("err != nil", false), ("!ok", false)], some [.expr "claimString", .nil])] ∧
    idTokenSid = [.ret [.expr "in.StringClaim(SidClaim)"]] ∧ idTokenAcr = [.ret [.expr "in.StringClaimOrEmpty(AcrClaim)"]] := by decide

end Ww.Proofs.GenTie.Tokens
