import Ww.Model.HandlerSrc
/-!
# The SSO proxy's and the SSO server's own handlers, read off the source (tie G for C16)

Every function of `handler_sso_proxy.go` / `handler_sso_server.go` that serves a route, regenerated statement by statement on each run.
-/
namespace Ww.Proofs.GenTie.C16
open Ww.Model.HandlerSrc Ww.Gen.Handlers Ww.Gen.Manager

set_option maxRecDepth 20000

/-- everything an SSO-proxy route handler calls -/
def proxyHandlers : List (List MgStmt) := [proxyLogin, proxyLoginCallback, proxyLogout, proxyLogoutCallback, proxyLogoutFrontChannel, proxyLogoutLocal,
  proxySession, proxySessionRefresh, proxySessionForwardAuth, proxyWildcard, proxyGetSession, proxyGetSSOServerURL]

def callsOf (l : List MgStmt) : List String := l.filterMap fun st => match st with | .call _ fn _ _ => some fn | .retry _ fn _ _ _ _ => some fn | _ => none

/-- the ONLY functions an SSO proxy handler calls: URL building, redirects to / relaying through the SSO server, the shared reverse proxy — no session manager,
    no store, no OpenID client -/
def proxyAllowed : List String := ["s.GetSSOServerURL", "target.Query", "targetQuery.Set", "r.URL.Query", "targetQuery.Encode", "s.Redirect.Canonical", "url.Login", "url.Logout",
  "url.LoginRelative", "http.Redirect", "s.GetPath", "r.URL.Query().Get", "s.GetSSOServerURL().JoinPath", "removeMiddlewareHeaders", "s.SSOServerReverseProxy.ServeHTTP", "s.UpstreamProxy.Handler"]

/-- **read-only delegate**: no SSO-proxy handler calls anything outside that list; its one session access is the reader's `Get` (never GetOrRefresh / Refresh / Create / Delete) -/
theorem proxy_calls_only_delegation :
    proxyHandlers.all (fun h => (callsOf h).all fun fn => proxyAllowed.contains fn) = true ∧
    proxyGetSession = [.ret [.expr "s.SessionReader.Get(r)"]] := by decide

/-- login / logout hand the SSO server a redirect that went through `Redirect.Canonical` (confined to the proxy's own ingress, C04) and nothing else from the request
    but level / locale / prompt; each call works on its OWN COPY of the configured server URL -/
theorem proxy_login_logout_shape :
    (paths proxyLogin).all (fun p =>
      p.evs.head? = some (.call ["target"] "s.GetSSOServerURL" [] []) &&
      p.evs.contains (.call ["canonicalRedirect"] "s.Redirect.Canonical" ["r"] []) && p.evs.contains (.call ["ssoServerLoginURL"] "url.Login" ["target", "canonicalRedirect"] []) &&
      p.evs.getLast? = some (.call [] "http.Redirect" ["w", "r", "ssoServerLoginURL", "http.StatusFound"] []) &&
      (p.calls "targetQuery.Set").all (fun a => ["openidclient.QueryParamSecurityLevel", "openidclient.QueryParamLocale", "openidclient.QueryParamPrompt"].contains (a.headD ""))) = true ∧
    (paths proxyLogout).all (fun p =>
      p.evs.head? = some (.call ["target"] "s.GetSSOServerURL" [] []) &&
      (p.took "canonicalRedirect != \"\"" false || p.evs.contains (.call ["canonicalRedirect"] "s.Redirect.Canonical" ["r"] [])) &&
      p.evs.getLast? = some (.call [] "http.Redirect" ["w", "r", "ssoServerLogoutURL", "http.StatusFound"] [])) = true ∧
    proxyGetSSOServerURL = [.assign "u" "*s.SSOServerURL", .ret [.expr "&u"]] := by decide

/-- session management and the non-interactive logouts are RELAYED to the SSO server (path rewritten to the server's own endpoint), never handled locally -/
theorem proxy_relays :
    [proxyLogoutFrontChannel, proxyLogoutLocal, proxySession, proxySessionRefresh, proxySessionForwardAuth].map (fun h => (h.head?, h.drop 1)) =
      ["paths.OAuth2 + paths.LogoutFrontChannel", "paths.OAuth2 + paths.LogoutLocal", "paths.OAuth2 + paths.Session", "paths.OAuth2 + paths.Session + paths.Refresh",
       "paths.OAuth2 + paths.Session + paths.ForwardAuth"].map (fun t =>
        (some (MgStmt.assign "r.URL.Path" t), [.call [] "removeMiddlewareHeaders" ["w"] [], .call [] "s.SSOServerReverseProxy.ServeHTTP" ["w", "r"] []])) := by decide

/-- **the SSO server never proxies**: its catch-all only redirects to the configured default URL; its logout variants clear the legacy cookies with the request's
    (domain-scoped) options and then run the standalone handlers -/
theorem server_wildcard_and_logouts :
    serverWildcard = [.call [] "http.Redirect" ["w", "r", "s.Config.SSO.ServerDefaultRedirectURL", "http.StatusFound"] []] ∧
    [serverLogout, serverLogoutFrontChannel, serverLogoutLocal].map (fun h => h.head?) =
      [some (.call [] "cookie.ClearLegacyCookies" ["w", "s.GetCookieOptions(r)"] []), some (.call [] "cookie.ClearLegacyCookies" ["w", "s.GetCookieOptions(r)"] []),
       some (.call [] "cookie.ClearLegacyCookies" ["w", "s.GetCookieOptions(r)"] [])] ∧
    [serverLogout, serverLogoutFrontChannel, serverLogoutLocal].map callsOf =
      [["cookie.ClearLegacyCookies", "s.Standalone.Logout"], ["cookie.ClearLegacyCookies", "s.Standalone.LogoutFrontChannel"], ["cookie.ClearLegacyCookies", "s.Standalone.LogoutLocal"]] := by decide

end Ww.Proofs.GenTie.C16
