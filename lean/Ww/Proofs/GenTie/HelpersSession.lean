import Ww.Model.HandlerSrc
import Ww.Gen.Helpers
import Ww.Gen.Consts
/-!
# Session identity, store keys and the in-memory store (tie G for C05 C07 C10)

Regenerated statement by statement from pkg/session/{id,lock,session_manager,store_memory}.go on every run.
-/
namespace Ww.Proofs.GenTie.HelpersSession
open Ww.Model.HandlerSrc Ww.Gen.Helpers Ww.Gen.Manager

set_option maxRecDepth 20000

private def lastRet (p : Path) : Option (List MgVal) := match p.evs.getLast? with
  | some (.ret v) => some v
  | _ => none

/-- **which external id names a session** (what front-channel logout later addresses): the ID token's `sid` when present; absent-but-required ⇒ error; else the
    `session_state` parameter; absent-but-required ⇒ error; else 64 random bytes. Never a guessable default. -/
theorem external_id_paths :
    (paths externalID).map (fun p => (p.conds, lastRet p)) =
      [([("err == nil", true)], some [.expr "sessionID", .nil]),
       ([("err == nil", false), ("err != nil && cfg.SidClaimRequired()", true)], some [.expr "\"\"", .expr "err"]),
       ([("err == nil", false), ("err != nil && cfg.SidClaimRequired()", false), ("err == nil", true)], some [.expr "sessionID", .nil]),
       ([("err == nil", false), ("err != nil && cfg.SidClaimRequired()", false), ("err == nil", false), ("err != nil && cfg.SessionStateRequired()", true)],
        some [.expr "\"\"", .expr "err"]),
       ([("err == nil", false), ("err != nil && cfg.SidClaimRequired()", false), ("err == nil", false), ("err != nil && cfg.SessionStateRequired()", false),
         ("err != nil", true)], some [.expr "\"\"", .wrap ["err"]]),
       ([("err == nil", false), ("err != nil && cfg.SidClaimRequired()", false), ("err == nil", false), ("err != nil && cfg.SessionStateRequired()", false),
         ("err != nil", false)], some [.expr "sessionID", .nil])] ∧
    (externalID.filterMap fun st => match st with | .call l fn a _ => some (l, fn, a) | _ => none) =
      [(["sessionID", "err"], "idToken.Sid", []), (["sessionID", "err"], "getSessionStateFrom", ["r"]), (["sessionID", "err"], "strings.GenerateBase64", ["64"])] ∧
    (paths getSessionStateFrom).map (fun p => (p.conds, lastRet p)) =
      [([("len(sessionState) == 0", true)], some [.expr "\"\"", .wrap []]), ([("len(sessionState) == 0", false)], some [.expr "sessionState", .nil])] := by decide

/-- **store keys**: a session lives under provider:client-id:external-id; its refresh lock under that key through the lock-key template, which is "%s.lock"
    (`Gen.Consts`, same run) - the two can never collide and the lock of one session is never the lock of another -/
theorem store_keys :
    managerKey = [.call ["clientID"] "in.openidCfg.Client().ClientID" [] [], .assign "providerName" "in.cfg.OpenID.Provider",
                  .ret [.expr "fmt.Sprintf(\"%s:%s:%s\", providerName, clientID, externalSessionID)"]] ∧
    lockKey = [.ret [.expr "fmt.Sprintf(KeyTemplate, key)"]] ∧ Ww.Gen.Consts.lockKeyTemplate = "%s.lock" ∧
    newRedisLock = [.ret [.expr "&RedisLock{ locker: redislock.New(client), key: key, }"]] := by decide

/-- **the in-memory store** (what `Ww.Model.Sched` assumes of it): every operation runs under the store's mutex; a missing key reads as `ErrNotFound`; a lock is
    refused only while ANOTHER holder's lease is unexpired, is taken with an expiry of now + lease, and is released only by its own holder -/
theorem memory_store_paths :
    (paths memoryRead).map (fun p => (p.conds, lastRet p)) = [([("!ok", true)], some [.nil, .wrap ["ErrNotFound"]]), ([("!ok", false)], some [.expr "data", .nil])] ∧
    memoryRead.take 3 = [.call [] "s.lock.Lock" [] [], .deferCalls ["s.lock.Unlock"], .other "data, ok := s.sessions[key]"] ∧
    memoryWrite = [.call [] "s.lock.Lock" [] [], .deferCalls ["s.lock.Unlock"], .assign "s.sessions[key]" "value", .ret [.nil]] ∧
    memoryDelete = [.call [] "s.lock.Lock" [] [], .deferCalls ["s.lock.Unlock"], .loopBegin "_, key := range keys", .call [] "delete" ["s.sessions", "key"] [], .loopEnd, .ret [.nil]] ∧
    (paths memoryLockAcquire).map (fun p => (p.conds, lastRet p)) =
      [([("found && holder != l && time.Now().Before(holder.expires)", true)], some [.expr "ErrAcquireLock"]),
       ([("found && holder != l && time.Now().Before(holder.expires)", false)], some [.nil])] ∧
    memoryLockAcquire.take 3 = [.call [] "l.store.lock.Lock" [] [], .deferCalls ["l.store.lock.Unlock"], .other "holder, found := l.store.locks[l.key]"] ∧
    (paths memoryLockAcquire).all (fun p => if lastRet p = some [.nil] then
        p.evs.contains (.call ["l.expires"] "time.Now().Add" ["duration"] []) && p.evs.contains (.assign "l.store.locks[l.key]" "l") else
        !p.evs.any (fun st => match st with | .assign .. => true | _ => false)) = true ∧
    memoryLockRelease = [.call [] "l.store.lock.Lock" [] [], .deferCalls ["l.store.lock.Unlock"], .ifBegin "l.store.locks[l.key] == l",
                         .call [] "delete" ["l.store.locks", "l.key"] [], .ifEnd, .ret [.nil]] := by decide

end Ww.Proofs.GenTie.HelpersSession
