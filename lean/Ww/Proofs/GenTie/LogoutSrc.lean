import Ww.Model.HandlerSrc
import Ww.Gen.Provider
/-!
# The logout helpers of the source (tie G for C04 C05 C14)

`NewLogout`, `Logout.SingleLogoutURL`, `Logout.SetCookie`, `LogoutCallback.PostLogoutRedirectURI` and the front-channel parameters, regenerated statement by
statement from pkg/openid/client/logout*.go on every run.
-/
namespace Ww.Proofs.GenTie.LogoutSrc
open Ww.Model.HandlerSrc Ww.Gen.Provider Ww.Gen.Manager

set_option maxRecDepth 20000

private def lastRet (p : Path) : Option (List MgVal) := match p.evs.getLast? with
  | some (.ret v) => some v
  | _ => none

/-- **where the logout callback sends the browser**: the cookie's redirect ONLY when there is a logout cookie, the request's state equals the cookie's and the
    validator accepts the stored redirect; otherwise the operator's post-logout URI when configured; otherwise the matching ingress; otherwise "/".
    Nothing from the request itself is ever the target. -/
theorem post_logout_redirect_paths :
    (paths postLogoutRedirectURI).map (fun p => (p.conds, lastRet p)) =
      [([("in.cookie != nil && in.stateMismatchError() == nil && in.validator.IsValidRedirect(in.request, in.cookie.RedirectTo)", true)], some [.expr "in.cookie.RedirectTo"]),
       ([("in.cookie != nil && in.stateMismatchError() == nil && in.validator.IsValidRedirect(in.request, in.cookie.RedirectTo)", false), ("defaultRedirect != \"\"", true)],
        some [.expr "defaultRedirect"]),
       ([("in.cookie != nil && in.stateMismatchError() == nil && in.validator.IsValidRedirect(in.request, in.cookie.RedirectTo)", false), ("defaultRedirect != \"\"", false),
         ("err != nil", true)], some [.expr "\"/\""]),
       ([("in.cookie != nil && in.stateMismatchError() == nil && in.validator.IsValidRedirect(in.request, in.cookie.RedirectTo)", false), ("defaultRedirect != \"\"", false),
         ("err != nil", false)], some [.expr "ingress.String()"])] ∧
    postLogoutRedirectURI.contains (.call ["defaultRedirect"] "in.cfg.Client().PostLogoutRedirectURI" [] []) = true ∧
    postLogoutRedirectURI.contains (.call ["ingress", "err"] "urlpkg.MatchingIngress" ["in.request"] []) = true ∧
    (paths logoutStateMismatchError).map (fun p => (p.conds, lastRet p)) =
      [([("in.cookie == nil", true)], some [.wrap []]),
       ([("in.cookie == nil", false)], some [.expr "openid.StateMismatchError(in.request.URL.Query(), in.cookie.State)"])] ∧
    newLogoutCallback = [.ret [.expr "&LogoutCallback{ Client: c, cookie: cookie, validator: validator, request: r, }"]] := by decide

/-- **the end-session URL**: the provider's end-session endpoint with `post_logout_redirect_uri` = this deployment's logout-callback URL and `state` = the fresh
    random state kept in the logout cookie; `id_token_hint` only when there is an ID token. The logout cookie (state + canonical redirect) goes out sealed under
    the logout cookie's name. -/
theorem single_logout_url_shape :
    (paths singleLogoutURL).all (fun p =>
      lastRet p = some [.expr "endSessionEndpoint.String()"] &&
      p.evs.head? = some (.call ["endSessionEndpoint"] "in.cfg.Provider().EndSessionEndpointURL" [] []) &&
      p.calls "v.Set" = [["\"post_logout_redirect_uri\"", "in.logoutCallbackURL"], ["\"state\"", "in.Cookie.State"]] ++
        (if p.took "len(idToken) > 0" true then [["\"id_token_hint\"", "idToken"]] else []) &&
      p.evs.contains (.call ["endSessionEndpoint.RawQuery"] "v.Encode" [] [])) = true ∧
    (paths newLogout).all (fun p => match lastRet p with
      | some [.expr "&Logout{ Client: c, Cookie: logoutCookie, logoutCallbackURL: logoutCallbackURL, }", .nil] =>
        p.calls "urlpkg.LogoutCallback" = [["r"]] && p.calls "strings.GenerateBase64" = [["32"]] && p.evs.contains (.assign "logoutCookie" "&openid.LogoutCookie{ State: state, }") &&
        p.conds.map (·.2) = [false, false]
      | some [.nil, .wrap ["err"]] => true
      | _ => false) = true ∧
    (paths logoutSetCookie).map (fun p => (p.conds, lastRet p)) =
      [([("err != nil", true)], some [.wrap ["err"]]), ([("err != nil", false)], some [.expr "cookie.EncryptAndSet(w, cookie.Logout, value, opts, crypter)"])] ∧
    logoutSetCookie.head? = some (.assign "in.Cookie.RedirectTo" "canonicalRedirect") := by decide

/-- front-channel logout: the session is named by the request's `sid` parameter alone; "missing" means empty -/
theorem frontchannel_sid :
    newLogoutFrontchannel = [.call ["params"] "r.URL.Query" [] [], .call ["sid"] "params.Get" ["\"sid\""] [], .ret [.expr "&LogoutFrontchannel{ sid: sid, }"]] ∧
    frontchannelSid = [.ret [.expr "l.sid"]] ∧ frontchannelMissingSid = [.ret [.expr "len(l.sid) <= 0"]] := by decide

end Ww.Proofs.GenTie.LogoutSrc
