import Ww.Gen.Provider
/-!
# What the ID-token checks compare against (tie G for C02 C03)

The getters `IDToken.Validate`, the callback gate and the grants read their reference values from, regenerated from pkg/openid/config/{provider,client}.go and
pkg/config/openid.go on every run: issuer, key-set URI and token endpoint are the DISCOVERY document's; "sid required" is front-channel logout with session
support, as the provider advertises it; the trusted audiences are the client id plus the configured extra audiences and nothing else.
-/
namespace Ww.Proofs.GenTie.ProviderCfg
open Ww.Gen.Provider Ww.Gen.Manager

theorem reference_values :
    providerIssuer = [.ret [.expr "p.metadata.Issuer"]] ∧ providerJwksURI = [.ret [.expr "p.metadata.JwksURI"]] ∧
    providerTokenEndpoint = [.ret [.expr "p.metadata.TokenEndpoint"]] ∧
    sidClaimRequired = [.ret [.expr "p.metadata.FrontchannelLogoutSupported && p.metadata.FrontchannelLogoutSessionSupported"]] ∧
    sessionStateRequired = [.ret [.expr "len(p.metadata.CheckSessionIframe) > 0"]] ∧
    issParameterSupported = [.ret [.expr "p.metadata.AuthorizationResponseIssParameterSupported"]] ∧
    clientClientID = [.ret [.expr "in.OpenID.ClientID"]] ∧ clientAudiences = [.ret [.expr "in.trustedAudiences"]] := by decide

/-- trusted audiences = { client id } ∪ configured audiences - built once from the configuration, no wildcard, no default entry -/
theorem trusted_audiences_shape :
    trustedAudiences = [.call ["m"] "make" ["map[string]bool"] [], .assign "m[in.ClientID]" "true", .loopBegin "_, aud := range in.Audiences", .assign "m[aud]" "true",
                        .loopEnd, .ret [.expr "m"]] ∧
    supportedContains = [.loopBegin "_, allowed := range in", .ifBegin "allowed == value", .ret [.expr "true"], .ifEnd, .loopEnd, .ret [.expr "false"]] := by decide

end Ww.Proofs.GenTie.ProviderCfg
