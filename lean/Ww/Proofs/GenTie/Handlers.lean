import Ww.Model.HandlerSrc
/-!
# What EVERY path through the logout / session handlers of the current source does (tie G for C05 C06 C11 C14)
-/
namespace Ww.Proofs.GenTie.Handlers
open Ww.Model.HandlerSrc Ww.Gen.Handlers Ww.Gen.Manager

set_option maxRecDepth 20000

private def lookupFailed := "err != nil && !errors.Is(err, session.ErrNotFound) && !errors.Is(err, session.ErrInvalid)"
private def deleteFailed := "err != nil && !errors.Is(err, session.ErrNotFound)"

/-- a path "reports an error" when it calls one of the error responders -/
def errorResponse (p : Path) : Bool := p.called "s.InternalError" || p.called "s.Unauthorized" || p.called "s.BadRequest"

/-- **local logout** (C05 C11 C14): every path that answers 204 looked the session up, did NOT see an unexpected lookup error, deleted the session when there
    was one (and that delete did not fail), and cleared the session cookie with the request's cookie options BEFORE answering; every other path is an error
    response that clears nothing -/
theorem logout_local_paths : (paths logoutLocal).all (fun p =>
    if p.statuses = ["http.StatusNoContent"] then
      p.called "s.SessionManager.Get" && p.took lookupFailed false &&
      (p.took "sess != nil" false || (p.before "s.SessionManager.Delete" "w.WriteHeader" && p.took deleteFailed false)) &&
      p.calls "cookie.Clear" = [["w", "cookie.Session", "s.GetCookieOptions(r)"]] && p.before "cookie.Clear" "w.WriteHeader" && !errorResponse p
    else p.statuses = [] && errorResponse p && !p.called "cookie.Clear" && (p.took lookupFailed true || p.took deleteFailed true)) = true := by decide

/-- **self-initiated logout**: the redirect to the provider's end-session endpoint is reached only without lookup / delete failure, after the delete (when there
    was a session) and after the session cookie was cleared with the request's cookie options; otherwise an error response -/
theorem logout_paths : (paths logout).all (fun p =>
    if p.called "http.Redirect" then
      p.took lookupFailed false && (p.took "sess != nil" false || (p.before "s.SessionManager.Delete" "http.Redirect" && p.took deleteFailed false)) &&
      (p.calls "cookie.Clear").contains ["w", "cookie.Session", "s.GetCookieOptions(r)"] && p.before "cookie.Clear" "http.Redirect" && !errorResponse p &&
      p.calls "http.Redirect" = [["w", "r", "logout.SingleLogoutURL(idToken)", "http.StatusFound"]]
    else errorResponse p) = true := by decide

/-- **front-channel logout**: the session cookie is cleared on EVERY path, first thing; 200 is answered only after DeleteForExternalID(sid) succeeded;
    a missing sid or a failed delete answers 202 (never 200) -/
theorem front_channel_paths : (paths logoutFrontChannel).all (fun p =>
    (p.calls "cookie.Clear").head? = some ["w", "cookie.Session", "s.GetCookieOptions(r)"] && p.firstIdx "cookie.Clear" = some 0 &&
    (if p.statuses = ["http.StatusOK"] then
       p.took "lfc.MissingSidParameter()" false && p.took "err != nil" false && p.before "s.SessionManager.DeleteForExternalID" "w.WriteHeader" &&
       p.calls "s.SessionManager.DeleteForExternalID" = [["r.Context()", "id"]] && (p.calls "cookie.Clear").contains ["w", "cookie.Retry", "s.GetCookieOptions(r)"]
     else p.statuses = ["http.StatusAccepted"])) = true := by decide

/-- **logout callback**: clears the logout cookie with the options it was set with, and the retry counter, before redirecting -/
theorem logout_callback_paths : (paths logoutCallback).all (fun p =>
    p.calls "cookie.Clear" = [["w", "cookie.Logout", "s.CookieOptions"], ["w", "cookie.Retry", "s.GetCookieOptions(r)"]] &&
    p.calls "http.Redirect" = [["w", "r", "redirect", "http.StatusFound"]] && p.before "cookie.Clear" "http.Redirect") = true := by decide

/-- **session info** (C06): metadata is written only when the lookup succeeded or failed with ErrInactive alone ("readable as inactive"); any other lookup
    error goes to the shared error mapping -/
theorem session_info_paths : (paths sessionInfo).all (fun p =>
    if p.called "s.sessionWriteMetadataResponse" then p.took "err != nil && !errors.Is(err, session.ErrInactive)" false && !p.called "handleGetSessionError"
    else p.calls "handleGetSessionError" = [["\"session/info\"", "w", "r", "err"]]) = true := by decide

/-- **manual refresh** (C06 C08 C11): ANY lookup error (inactive included) goes to the error mapping; a refresh error answers 401 for a provider rejection, an invalid
    or vanished session and 500 otherwise; metadata only after both succeeded -/
theorem session_refresh_paths : (paths sessionRefresh).all (fun p =>
    if p.called "s.sessionWriteMetadataResponse" then
      p.conds.take 2 = [("err != nil", false), ("err != nil", false)] && p.before "s.SessionManager.Get" "s.SessionManager.Refresh" &&
      p.before "s.SessionManager.Refresh" "s.sessionWriteMetadataResponse"
    else if p.called "s.SessionManager.Refresh" then
      (p.statuses = ["http.StatusUnauthorized"] && p.took "errors.Is(err, session.ErrInvalidExternal) || errors.Is(err, session.ErrInvalid) || errors.Is(err, session.ErrNotFound)" true) ||
      (p.statuses = ["http.StatusInternalServerError"])
    else p.calls "handleGetSessionError" = [["\"session/refresh\"", "w", "r", "err"]]) = true := by decide

/-- the shared lookup-error mapping: cancelled → 499, not found / invalid (ended, timed out, undecryptable) → 401, anything else → 500 — never a success status -/
theorem lookup_error_mapping : (paths handleGetSessionError).map (fun p => (p.conds.filter (·.2)).map (·.1) ++ p.statuses) =
    [["errors.Is(err, context.Canceled)", "499"], ["errors.Is(err, session.ErrNotFound)", "http.StatusUnauthorized"],
     ["errors.Is(err, session.ErrInvalid)", "http.StatusUnauthorized"], ["http.StatusInternalServerError"]] := by decide

/-- **forward-auth**: 204 only when GetSession returned no error; 404 when the feature is off; otherwise 401 / 500 -/
theorem forward_auth_paths : (paths sessionForwardAuth).all (fun p =>
    if p.statuses = ["http.StatusNoContent"] then p.took "!s.Config.Session.ForwardAuth" false && p.took "err != nil" false && p.called "s.GetSession"
    else if p.took "!s.Config.Session.ForwardAuth" true then p.called "http.NotFound" && !p.called "s.GetSession"
    else p.statuses = ["http.StatusUnauthorized"] || p.statuses = ["http.StatusInternalServerError"]) = true := by decide

/-- which read the handlers use: plain Get when auto-refresh is disabled, GetOrRefresh otherwise; the SSO proxy only ever reads -/
theorem get_session_choice :
    getSession = [.ifBegin "s.Config.AutoRefreshDisabled()", .ret [.expr "s.SessionManager.Get(r)"], .ifEnd, .ret [.expr "s.SessionManager.GetOrRefresh(r)"]] ∧
    proxyGetSession = [.ret [.expr "s.SessionReader.Get(r)"]] := by decide

/-- **reverse proxy** (C01 C11 C12): on EVERY path through `ReverseProxy.Handler` the access token is put into the upstream context only when
    `getSessionWithValidToken` returned no error AND the ACR gate did not object; it is the token that function returned; the ID token is added only next to it,
    only when configured, and it is the session's own; an auto-login answer never reaches the upstream; everything else is proxied exactly once -/
theorem proxy_handler_paths : (paths proxyHandler).all (fun p =>
    (if p.called "mw.WithAccessToken" then
       p.took "case err == nil" true && p.took "err != nil" false && p.took "isAuthenticated" true &&
       p.calls "mw.WithAccessToken" = [["ctx", "accessToken"]] &&
       p.evs.contains (.call ["sess", "accessToken", "err"] "getSessionWithValidToken" ["src", "r"] []) &&
       p.before "getSessionWithValidToken" "mw.WithAccessToken" && p.before "src.GetAcrHandler().Validate" "mw.WithAccessToken"
     else true) &&
    (if p.called "mw.WithIdToken" then
       p.called "mw.WithAccessToken" && p.took "rp.IncludeIdToken && sess != nil" true && p.calls "mw.WithIdToken" = [["ctx", "idToken"]] &&
       p.evs.contains (.call ["idToken"] "sess.IDToken" [] [])
     else true) &&
    -- a valid session ALWAYS gets its token: no error, ACR fine, not answered by auto-login ⇒ WithAccessToken
    (if p.took "case err == nil" true && p.took "err != nil" false && !p.called "handleAutologin" then p.called "mw.WithAccessToken" else true) &&
    (if p.called "handleAutologin" then p.returned && !p.called "rp.ServeHTTP" && !p.called "mw.WithAccessToken"
     else p.calls "rp.ServeHTTP" = [["w", "r.WithContext(ctx)"]] && (p.evs.getLast? = some (.call [] "rp.ServeHTTP" ["w", "r.WithContext(ctx)"] [])))) = true := by decide

/-- … and `getSessionWithValidToken` yields a token only from `Session.AccessToken()` of the session `GetSession` returned, both without error -/
theorem valid_token_paths : (paths getSessionWithValidToken).all (fun p =>
    if p.evs.getLast? = some (.ret [.expr "sess", .expr "accessToken", .nil]) then
      p.conds = [("err != nil", false), ("err != nil", false)] && p.evs.contains (.call ["sess", "err"] "src.GetSession" ["r"] []) &&
      p.evs.contains (.call ["accessToken", "err"] "sess.AccessToken" [] [])
    else p.evs.getLast? = some (.ret [.nil, .expr "\"\"", .expr "err"])) = true := by decide

/-- **login callback** (C02 C14 C17): the login cookie is cleared first thing on EVERY path; a session is created only after the login cookie was read and
    `Client.LoginCallback` (gate + code redemption + ID-token validation) returned no error; the session cookie is set only after the store write succeeded; the
    redirect goes to the CLEANED referer of the login cookie, after the retry counter was cleared; the raw-token legacy cookie only under its flag (finding F7) -/
theorem login_callback_paths : (paths loginCallback).all (fun p =>
    p.evs.take 2 = [.call ["opts"] "s.GetCookieOptions" ["r"] [], .call [] "cookie.Clear" ["w", "cookie.Login", "opts.WithSameSite(http.SameSiteLaxMode)"] []] &&
    (if p.called "s.SessionManager.Create" then
       p.conds.take 2 = [("err != nil", false), ("err != nil", false)] && p.before "openid.GetLoginCookie" "s.Client.LoginCallback" &&
       p.before "s.Client.LoginCallback" "s.SessionManager.Create" && p.calls "s.SessionManager.Create" = [["r", "tokens", "sessionLifetime"]] &&
       p.calls "s.Client.LoginCallback" = [["r", "loginCookie"]]
     else errorResponse p) &&
    (if p.called "sess.SetCookie" then p.conds.take 3 = [("err != nil", false), ("err != nil", false), ("err != nil", false)] && p.before "s.SessionManager.Create" "sess.SetCookie" else true) &&
    (if p.called "http.Redirect" then
       p.conds.take 4 = [("err != nil", false), ("err != nil", false), ("err != nil", false), ("err != nil", false)] && !errorResponse p &&
       p.calls "http.Redirect" = [["w", "r", "redirect", "http.StatusFound"]] && p.evs.contains (.call ["redirect"] "s.Redirect.Clean" ["r", "loginCookie.Referer"] []) &&
       (p.calls "cookie.Clear").getLast? = some ["w", "cookie.Retry", "s.GetCookieOptions(r)"] && p.before "sess.SetCookie" "http.Redirect"
     else errorResponse p) &&
    (if p.called "cookie.SetLegacyCookie" then p.took "s.Config.LegacyCookie" true else true)) = true := by decide

/-- **auto-login answer** (C12): a navigation is redirected (302) to the login URL naming the REQUESTED URL; anything else gets 401 with a Location header naming the
    referring page (or the ingress path when there is none) and is never redirected -/
theorem autologin_paths : (paths handleAutologin).all (fun p =>
    if p.took "httpinternal.IsNavigationRequest(r)" true then
      p.evs.contains (.call ["target"] "r.URL.String" [] []) && p.calls "loginURL" = [["target", "\"navigation request detected; redirecting to login...\""]] &&
      p.calls "http.Redirect" = [["w", "r", "location", "http.StatusFound"]] && p.statuses = [] && p.returned
    else
      p.evs.contains (.call ["target"] "r.Referer" [] []) && (p.took "target == \"\"" false || p.evs.contains (.assign "target" "path")) &&
      !p.called "http.Redirect" && p.statuses = ["http.StatusUnauthorized"] &&
      (p.calls "w.Header().Set").head? = some ["\"Location\"", "location"] && p.before "w.Header().Set" "w.WriteHeader") = true := by decide

-- non-vacuity: each handler has a success path
example : ((paths logoutLocal).filter (·.statuses = ["http.StatusNoContent"])).length = 2 ∧ ((paths logout).filter (·.called "http.Redirect")).length = 4 ∧
    ((paths logoutFrontChannel).filter (·.statuses = ["http.StatusOK"])).length = 1 ∧ ((paths proxyHandler).filter (·.called "mw.WithAccessToken")).length = 12 ∧
    ((paths proxyHandler).filter (·.called "handleAutologin")).length > 0 ∧ ((paths loginCallback).filter (·.called "http.Redirect")).length = 64 ∧
    (paths handleAutologin).length = 5 := by decide

end Ww.Proofs.GenTie.Handlers
