import Ww.Gen.Dec
import Ww.Model.Cookie
/-!
# Tie G by proof: the hand-written decision models ARE the translated source

`Ww.Gen.Dec` is regenerated from the Go source on every run (extract/translate2.go). Each theorem here states that a hand-written model function used
by the property proofs computes, for EVERY input, what the translation of the corresponding Go function computes. A change of the Go function that
changes its meaning breaks the equality (a proof obligation of every property that uses the model function); a rewrite that keeps the meaning but leaves
the translator's subset breaks the extraction instead. Either way the run no longer reports the property as shown.
-/
namespace Ww.Proofs.GenTie
open Ww.Model

theorem bne429_cast (n : Nat) : (n != 429) = ((n : Int) != 429) := by
  rw [Bool.eq_iff_iff]
  simp only [bne_iff_ne, ne_eq]
  omega

/-- pkg/handler/error.go: the retry decision and the counter written, from the counter the request carried (C17) -/
theorem retryStep_is_source (c : Option Int) (status : Nat) :
    retryStep c status = (Ww.Gen.Dec.retryCondition c.isSome (c.getD 0) status, Ww.Gen.Dec.nextRetryValue (c.getD 0) c.isSome) := by
  unfold retryStep Ww.Gen.Dec.retryCondition Ww.Gen.Dec.nextRetryValue maxAutoRetry
  cases c <;> simp [Ww.Gen.Consts.maxAutoRetryAttempts] <;> rw [bne429_cast] <;> rfl

end Ww.Proofs.GenTie
