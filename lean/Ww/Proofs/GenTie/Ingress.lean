import Ww.Model.HandlerSrc
/-!
# Authentication-level gate and ingress matching of the source (tie G for C01 C13 C20)
-/
namespace Ww.Proofs.GenTie.Ingress
open Ww.Model.HandlerSrc Ww.Gen.Handlers Ww.Gen.Manager

set_option maxRecDepth 20000

/-- **ACR gate** (C01): enabled exactly when a level is configured — whatever the level is called —, and then the session's acr is validated against the configured value by
    `acr.Validate` (ID-porten order, literal equality otherwise: `Ww.Proofs.GenTie.C03`); a missing session passes here because the token decision is the caller's -/
theorem acr_gate :
    acrNewHandler = [.ret [.expr "&Handler{ Enabled: len(cfg.OpenID.ACRValues) > 0, ExpectedValue: cfg.OpenID.ACRValues, }"]] ∧
    acrHandlerValidate = [.ifBegin "!h.Enabled || sess == nil", .ret [.nil], .ifEnd, .ret [.expr "acr.Validate(h.ExpectedValue, sess.Acr())"]] := by decide

/-- **matching ingress** (C13 C04): an ingress matches only when BOTH its host (against Host or X-Forwarded-Host) and its path (the longest configured path prefix of the request)
    are those of ONE configured ingress; otherwise there is no match (and no redirect_uri is built) -/
theorem matching_ingress_shape :
    matchingIngress = [.loopBegin "_, ingress := range i.ingressMap",
      .assign "hostMatch" "ingress.Host() == r.Host || ingress.Host() == r.Header.Get(XForwardedHost)", .assign "pathMatch" "ingress.Path() == i.MatchingPath(r)",
      .ifBegin "hostMatch && pathMatch", .ret [.expr "ingress", .expr "true"], .ifEnd, .loopEnd, .ret [.expr "Ingress{}", .expr "false"]] ∧
    matchingPath = [.assign "reqPath" "r.URL.Path", .assign "result" "\"\"", .loopBegin "_, p := range i.Paths()", .ifBegin "len(p) == 0", .other "continue", .ifEnd,
      .ifBegin "strings.HasPrefix(reqPath, p) && len(p) > len(result)", .assign "result" "p", .ifEnd, .loopEnd, .ret [.expr "result"]] := by decide

/-- **a valid ingress** (C20): non-empty, parsable, WITH A HOST, http or https; every other path through `ParseIngress` is an error -/
theorem parse_ingress_paths :
    ((paths parseIngress).filter fun p => p.evs.getLast? = some (.ret [.expr "&Ingress{ URL: u, }", .nil])).map (·.conds) =
      [[("len(ingress) == 0", false), ("err != nil", false), ("len(u.Host) == 0", false), ("err != nil", false)]] ∧
    (paths parseIngress).all (fun p => p.evs.getLast? = some (.ret [.expr "&Ingress{ URL: u, }", .nil]) || p.evs.getLast?.any (fun st => match st with | .ret (.nil :: _) => true | _ => false)) = true ∧
    parseIngress.contains (.call ["err"] "mustScheme" ["u"] []) = true ∧
    mustScheme = [.assign "validSchemes" "[]string{\"http\", \"https\"}", .assign "valid" "false", .loopBegin "_, scheme := range validSchemes", .ifBegin "u.Scheme == scheme",
      .assign "valid" "true", .ifEnd, .loopEnd, .ifBegin "!valid", .ret [.wrap []], .ifEnd, .ret [.nil]] := by decide

end Ww.Proofs.GenTie.Ingress
