import Ww.Model.HandlerSrc
/-!
# How the authorization request is built, read off the source (tie G for C13; C18 for where client credentials go)

pkg/openid/client/login.go and the parameter helpers of pkg/openid/oauth2.go, regenerated statement by statement on every run.
-/
namespace Ww.Proofs.GenTie.Authz
open Ww.Model.HandlerSrc Ww.Gen.Handlers Ww.Gen.Manager

set_option maxRecDepth 20000

/-- **fresh values per visit**: state and nonce are 32 random bytes each (256 bits, base64), the PKCE verifier comes from `oauth2.GenerateVerifier`, the redirect URI from the
    callback URL of the MATCHING INGRESS of this request (`url.LoginCallback`), level / locale / prompt from the guarded getters (`GenTie.C13`) — on the one path that yields parameters -/
theorem new_params_paths :
    ((paths newAuthorizationCodeParams).filter fun p => !p.took "err != nil" true).map (fun p => (p.evs.filterMap fun st => match st with | .call l f a _ => some (l, f, a) | _ => none)) =
      [[(["callbackURL", "err"], "url.LoginCallback", ["r"]), (["nonce", "err"], "strings.GenerateBase64", ["32"]), (["state", "err"], "strings.GenerateBase64", ["32"])]] ∧
    newAuthorizationCodeParams.getLast? = some (.ret [.expr "openid.AuthorizationCodeParams{ AcrValues: getAcrParam(c, r), ClientID: c.oauth2Config.ClientID, CodeVerifier: oauth2.GenerateVerifier(), Nonce: nonce, Prompt: getPromptParam(r), RedirectURI: callbackURL, Resource: c.cfg.Client().ResourceIndicator(), Scope: c.oauth2Config.Scopes, State: state, UILocales: getLocaleParam(c, r), }", .nil]) := by decide

/-- **the request parameters**: response_type=code, an S256 challenge OF THE VERIFIER, the state / nonce / redirect URI of these very parameters; acr_values, ui_locales, prompt (with
    max_age=0) and resource only when set -/
theorem request_params_shape :
    authRequestParams.head? = some (.assign "params" "RequestParams{ \"client_id\": a.ClientID, \"code_challenge\": oauth2.S256ChallengeFromVerifier(a.CodeVerifier), \"code_challenge_method\": \"S256\", \"nonce\": a.Nonce, \"redirect_uri\": a.RedirectURI, \"response_mode\": \"query\", \"response_type\": \"code\", \"scope\": a.Scope.String(), \"state\": a.State, }") ∧
    (authRequestParams.filterMap fun st => match st with | .assign l r => some (l, r) | _ => none).drop 1 =
      [("params[\"acr_values\"]", "a.AcrValues"), ("params[\"ui_locales\"]", "a.UILocales"), ("params[\"prompt\"]", "a.Prompt"), ("params[\"max_age\"]", "\"0\""), ("params[\"resource\"]", "a.Resource")] ∧
    authRequestParams.getLast? = some (.ret [.expr "params"]) := by decide

/-- **what is sealed into the login cookie** is the verifier, nonce, state and redirect URI OF THE SAME parameters the request was built from (plus the requested level), and
    `Client.Login` hands out exactly that cookie with that URL -/
theorem cookie_binds_the_request :
    authCookie = [.ret [.expr "LoginCookie{ Acr: a.AcrValues, CodeVerifier: a.CodeVerifier, Nonce: a.Nonce, State: a.State, RedirectURI: a.RedirectURI, }"]] ∧
    (paths clientLogin).all (fun p =>
      if p.evs.getLast? = some (.ret [.expr "&Login{ AuthCodeURL: authCodeURL, AuthorizationCodeParams: request, Cookie: request.Cookie(), }", .nil]) then
        p.evs.contains (.call ["request", "err"] "c.newAuthorizationCodeParams" ["r"] []) && p.evs.contains (.call ["authCodeURL", "err"] "c.authCodeURL" ["r.Context()", "request"] []) &&
        p.took "err != nil" false
      else p.evs.getLast?.any (fun st => match st with | .ret (.nil :: _) => true | _ => false)) = true ∧
    loginSetCookie.head? = some (.assign "l.Cookie.Referer" "canonicalRedirect") ∧
    loginSetCookie.getLast? = some (.ret [.expr "cookie.EncryptAndSet(w, cookie.Login, value, opts, crypter)"]) := by decide

/-- **front channel vs back channel**: with pushed authorization requests the parameters AND the client credentials go to the PAR endpoint (back channel, retried only on a provider
    5xx) and the browser's URL carries nothing but client_id and request_uri; without PAR the browser's URL carries the request parameters and NO client credentials; a refused
    PAR is an error — never a fall-back to the front channel -/
theorem auth_code_url_paths : (paths authCodeURL).all (fun p =>
    if p.took "usePushedAuthorization" true then
      (if p.evs.getLast? = some (.ret [.expr "c.makeAuthCodeURL(openid.ParAuthorizationRequestParams( c.oauth2Config.ClientID, resp.RequestUri, ))", .nil]) then
         p.evs.contains (.retry ["resp", "err"] "c.oauthPostRequest" ["ctx", "endpoint", "authCodeParams.RequestParams().With(clientAuth)"] false ["ErrOpenIDServer"] []) &&
         p.evs.contains (.call ["clientAuth", "err"] "c.ClientAuthenticationParams" [] []) && p.evs.contains (.call ["endpoint"] "c.cfg.Provider().PushedAuthorizationRequestEndpoint" [] [])
       else p.evs.getLast?.any (fun st => match st with | .ret [.expr "\"\"", .wrap _] => true | _ => false))
    else p.evs.getLast? = some (.ret [.expr "c.makeAuthCodeURL(authCodeParams.RequestParams())", .nil]) && !p.called "c.ClientAuthenticationParams") = true ∧
    authCodeURL.head? = some (.assign "usePushedAuthorization" "len(c.cfg.Provider().PushedAuthorizationRequestEndpoint()) > 0") ∧
    parRequestParams = [.ret [.expr "RequestParams{ \"client_id\": clientID, \"request_uri\": requestUri, }"]] := by decide

end Ww.Proofs.GenTie.Authz
