import Ww.Model.HandlerSrc
import Ww.Gen.Provider
/-!
# The key set of the source (tie G for C03 "a key currently published by the configured provider"; start-up for C20)

`JwksProvider.GetPublicJwkSet`, `RefreshPublicJwkSet`, `NewJwksProvider` and the key-set mutator, regenerated statement by statement from
pkg/openid/provider/provider.go on every run.
-/
namespace Ww.Proofs.GenTie.Jwks
open Ww.Model.HandlerSrc Ww.Gen.Provider Ww.Gen.Manager

set_option maxRecDepth 20000

private def lastRet (p : Path) : Option (List MgVal) := match p.evs.getLast? with
  | some (.ret v) => some v
  | _ => none

/-- **where keys come from**: always the cache entry of the CONFIGURED provider's `jwks_uri`; a forced refresh re-fetches that same URI, at most once per
    minimum interval (otherwise the cached set), under the provider's own mutex; a failure is an error, never an empty or stale-by-default set -/
theorem jwks_paths :
    (paths jwksGet).map (fun p => (p.conds, lastRet p)) =
      [([("err != nil", true)], some [.nil, .wrap ["err"]]), ([("err != nil", false)], some [.expr "&set", .nil])] ∧
    jwksGet.take 2 = [.call ["url"] "p.config.JwksURI" [] [], .call ["set", "err"] "p.jwksCache.Get" ["ctx", "url"] []] ∧
    (paths jwksRefresh).map (fun p => (p.conds, lastRet p)) =
      [([("diff < JwkMinimumRefreshInterval", true)], some [.expr "p.GetPublicJwkSet(ctx)"]),
       ([("diff < JwkMinimumRefreshInterval", false), ("err != nil", true)], some [.nil, .wrap ["err"]]),
       ([("diff < JwkMinimumRefreshInterval", false), ("err != nil", false)], some [.expr "&set", .nil])] ∧
    jwksRefresh.take 3 = [.call [] "p.jwksLock.Lock" [] [], .deferCalls ["p.jwksLock.Unlock"], .call ["diff"] "time.Since" ["p.jwksLock.lastRefresh"] []] ∧
    (paths jwksRefresh).all (fun p => if p.took "diff < JwkMinimumRefreshInterval" false then
        p.evs.contains (.call ["p.jwksLock.lastRefresh"] "time.Now" [] []) && p.evs.contains (.call ["url"] "p.config.JwksURI" [] []) &&
        p.calls "p.jwksCache.Refresh" = [["ctx", "url"]] else !p.called "p.jwksCache.Refresh") = true := by decide

/-- **start-up**: the provider's `jwks_uri` is registered with the key-set mutator and fetched once before the provider object exists; either failing is an error
    (the process does not start without a key set - C20) -/
theorem new_jwks_provider_paths : (paths newJwksProvider).all (fun p =>
    match lastRet p with
    | some [.expr "&JwksProvider{ config: providerCfg, jwksCache: cache, jwksLock: &jwksLock{}, }", .nil] =>
      p.conds.map (·.2) = [false, false] && p.calls "cache.Register" = [["uri", "jwk.WithPostFetcher(keySetMutator(providerCfg))"]] &&
      p.calls "cache.Refresh" = [["ctx", "uri"]] && p.before "cache.Register" "cache.Refresh" &&
      p.evs.contains (.call ["uri"] "providerCfg.JwksURI" [] []) && p.evs.contains (.call ["providerCfg"] "openidCfg.Provider" [] [])
    | some [.nil, .wrap ["err"]] => p.conds.getLast? = some ("err != nil", true)
    | _ => false) = true := by decide

/-- **never 'none', never a guessed family**: the mutator touches only keys WITHOUT an `alg` and gives them the configured ID-token signing algorithm (which start-up
    requires to be a JWA signature algorithm the provider supports - `GenTie.Startup`); a key that states its algorithm keeps it -/
theorem key_set_mutator_shape : keySetMutator =
    [.ret [.expr "jwk.PostFetchFunc(func(uri string, set jwk.Set) (jwk.Set, error) { for i := 0; i < set.Len(); i++ { key, ok := set.Key(i) if !ok || key.Algorithm().String() != \"\" { continue } err := key.Set(jwk.AlgorithmKey, cfg.IDTokenSigningAlg()) if err != nil { return nil, fmt.Errorf(\"setting key algorithm: %w\", err) } } return set, nil })"]] := by decide

end Ww.Proofs.GenTie.Jwks
