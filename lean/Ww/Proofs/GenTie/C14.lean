import Ww.Gen.Dec
import Ww.Model.Cookie
/-!
# Tie G by proof: cookie.Make / cookie.Clear (pkg/cookie/cookie.go) are the model's makeCookie / clearCookie (C14)
-/
namespace Ww.Proofs.GenTie
open Ww.Model Ww.Gen.Dec

/-- http.SameSite values are opaque to the translation (passed through as text) -/
def ssName : SameSite → String
  | .lax => "lax" | .strict => "strict" | .none => "none" | .default => "default"

/-- reading a translated cookie as the model's Set-Cookie record (SameSite is copied through, see `*_samesite`) -/
def ofGen (ss : SameSite) (g : GenCookie) : SetCookie :=
  { name := g.name, value := g.value, domain := g.domain, path := g.path, secure := g.secure, httpOnly := g.httpOnly, sameSite := ss,
    maxAge := g.maxAge, expiresPast := g.expires == "epoch" }

/-- pkg/cookie/cookie.go:Make = Model.makeCookie, for every name, value and options -/
theorem makeCookie_is_source (name value : String) (o : CookieOpts) :
    makeCookie name value o = ofGen o.sameSite (cookieMake name value o.domain o.path (ssName o.sameSite) o.secure) := by
  unfold makeCookie cookieMake ofGen
  by_cases hd : o.domain = "" <;> by_cases hp : o.path = "" <;> simp [hd, hp]

/-- pkg/cookie/cookie.go:Clear = Model.clearCookie -/
theorem clearCookie_is_source (name : String) (o : CookieOpts) :
    clearCookie name o = ofGen o.sameSite (cookieClear name o.domain o.path (ssName o.sameSite) o.secure) := by
  unfold clearCookie cookieClear ofGen
  by_cases hd : o.domain = "" <;> by_cases hp : o.path = "" <;> simp [hd, hp]

/-- SameSite and Secure are copied from the options unchanged, HttpOnly is always set - read directly off the translation -/
theorem source_attrs (name value d p ss : String) (sec : Bool) :
    (cookieMake name value d p ss sec).sameSite = ss ∧ (cookieMake name value d p ss sec).secure = sec ∧ (cookieMake name value d p ss sec).httpOnly = true ∧
    (cookieClear name d p ss sec).sameSite = ss ∧ (cookieClear name d p ss sec).secure = sec ∧ (cookieClear name d p ss sec).httpOnly = true ∧
    (cookieClear name d p ss sec).maxAge < 0 ∧ (cookieClear name d p ss sec).expires = "epoch" := by
  unfold cookieMake cookieClear
  by_cases hd : d = "" <;> by_cases hp : p = "" <;> simp [hd, hp]

/-- a cookie is cleared with exactly the scope Make would give it for the same options -/
theorem source_clear_scope (name value d p ss : String) (sec : Bool) :
    (cookieClear name d p ss sec).domain = (cookieMake name value d p ss sec).domain ∧ (cookieClear name d p ss sec).path = (cookieMake name value d p ss sec).path := by
  unfold cookieMake cookieClear
  by_cases hd : d = "" <;> by_cases hp : p = "" <;> simp [hd, hp]

end Ww.Proofs.GenTie
