import Ww.Model.Sys
/-!
# C01 — Upstream gets a bearer token only for a valid session, and it is that session's

Theorems about `Ww.Model.proxy` for EVERY cookie state, store state, provider answer, configuration and clock value
(so in particular for every state reachable by any history of login / request / refresh / logout / passage of time).
-/
namespace Ww.Proofs.C01
open Ww.Gen Ww.Model

/-- the property's notion of "a session that at that moment existed in the store, had not ended, had not timed out,
    held an unexpired access token and satisfied the configured authentication level" -/
def ValidSession (cfg : Cfg) (d : Data) (now : Int) : Prop :=
  d.AccessToken ≠ "" ∧ ¬ now > d.Metadata.Session.EndsAt ∧
  ¬ (d.Metadata.Session.TimeoutAt ≠ 0 ∧ now > d.Metadata.Session.TimeoutAt) ∧
  ¬ now > d.Metadata.Tokens.ExpireAt ∧ (cfg.acr = "" ∨ acrValid cfg.acr d.Acr = true)

theorem hasAccess_iff (d : Data) (now : Int) : d.HasAccessToken now = true ↔ d.AccessToken ≠ "" := by
  unfold Data.HasAccessToken
  simp
  constructor
  · intro h he; simp [he] at h
  · intro h
    have : d.AccessToken.length ≠ 0 := by
      intro h0; apply h; exact String.length_eq_zero_iff.mp h0
    omega

theorem validate_nil_iff (d : Data) (now : Int) :
    d.Validate now = [] ↔ d.AccessToken ≠ "" ∧ ¬ now > d.Metadata.Session.EndsAt ∧
      ¬ (d.Metadata.Session.TimeoutAt ≠ 0 ∧ now > d.Metadata.Session.TimeoutAt) := by
  have ha := hasAccess_iff d now
  unfold Data.Validate Metadata.IsEnded Metadata.IsTimedOut
  cases h1 : d.HasAccessToken now <;> simp [h1] at ha ⊢
  · exact fun h => absurd h (by simpa using ha)
  · by_cases h2 : d.Metadata.Session.EndsAt < now <;> simp [h2]
    · intro _; omega
    · by_cases h3 : d.Metadata.Session.TimeoutAt = 0 <;> simp [h3, ha]
      · omega
      · by_cases h4 : d.Metadata.Session.TimeoutAt < now <;> (try simp [h4]) <;> omega

theorem accessToken_some (d : Data) (now : Int) (t : String) (h : accessToken d now = some t) :
    t = d.AccessToken ∧ d.AccessToken ≠ "" ∧ ¬ now > d.Metadata.Tokens.ExpireAt := by
  unfold accessToken at h
  split at h
  · rename_i ha
    unfold Data.HasActiveAccessToken Metadata.IsExpired at ha
    simp at ha h
    exact ⟨h.symm, (hasAccess_iff d now).mp ha.1, by omega⟩
  · simp at h

/-- every session that `getSession` returns without error is the one now in the store and passes Validate -/
theorem getSession_ok (cfg : Cfg) (ck : CookieSt) (st : StoreSt) (plan : IdpPlan) (a r : String) (now : Int) (d : Data)
    (hs : (getSession cfg ck st plan a r now).sess = some d) (he : (getSession cfg ck st plan a r now).err = none) :
    ck = .valid ∧ ((getSession cfg ck st plan a r now).store = .present d) ∧
    (d.Validate now = [] ∨ (getSession cfg ck st plan a r now).granted = true) := by
  unfold getSession getOrRefresh refresh getSess validateErr at *
  cases ck <;> cases st <;> simp_all <;> (repeat' split at hs) <;> simp_all <;> grind


def notEndedNorIdle (d : Data) (now : Int) : Prop :=
  ¬ now > d.Metadata.Session.EndsAt ∧ ¬ (d.Metadata.Session.TimeoutAt ≠ 0 ∧ now > d.Metadata.Session.TimeoutAt)

theorem applyGrant_session (cfg : Cfg) (d : Data) (a r : String) (secs now : Int) :
    (applyGrant cfg d a r secs now).Metadata.Session.EndsAt = d.Metadata.Session.EndsAt ∧
    (applyGrant cfg d a r secs now).Metadata.Session.CreatedAt = d.Metadata.Session.CreatedAt ∧
    (cfg.inactivity > 0 → (applyGrant cfg d a r secs now).Metadata.Session.TimeoutAt = now + cfg.inactivity) ∧
    (¬ cfg.inactivity > 0 → (applyGrant cfg d a r secs now).Metadata.Session.TimeoutAt = d.Metadata.Session.TimeoutAt) := by
  unfold applyGrant Metadata.Refresh Metadata.WithTimeout
  by_cases h : cfg.inactivity > 0 <;> simp [h] <;> (try split) <;> simp

theorem applyGrant_live (cfg : Cfg) (d : Data) (a r : String) (secs now : Int) (h : notEndedNorIdle d now) :
    notEndedNorIdle (applyGrant cfg d a r secs now) now := by
  have hg := applyGrant_session cfg d a r secs now
  unfold notEndedNorIdle at *
  by_cases hi : cfg.inactivity > 0
  · rw [hg.1, hg.2.2.1 hi]; omega
  · rw [hg.1, hg.2.2.2 hi]; exact h

theorem validate_live (d : Data) (now : Int) (h : d.Validate now = []) : notEndedNorIdle d now :=
  ((validate_nil_iff d now).mp h).2

theorem validateErr_none (d : Data) (now : Int) (h : validateErr d now = none) : d.Validate now = [] := by
  unfold validateErr at h
  split at h
  · assumption
  · split at h <;> simp at h

/-- whatever `refresh` returns without error is in the store afterwards, and is neither ended nor idle -/
theorem refresh_ok (cfg : Cfg) (d0 : Data) (plan : IdpPlan) (a r : String) (now : Int) (d : Data)
    (hv : notEndedNorIdle d0 now)
    (hs : (refresh cfg d0 (.present d0) plan a r now).sess = some d) (he : (refresh cfg d0 (.present d0) plan a r now).err = none) :
    (refresh cfg d0 (.present d0) plan a r now).store = .present d ∧ notEndedNorIdle d now := by
  have hl := fun secs => applyGrant_live cfg d0 a r secs now hv
  unfold refresh getSess at *
  cases hve : validateErr d0 now <;> cases plan <;> by_cases hc : canRefresh d0 now <;> simp_all
  subst hs; exact hl _

/-- a failed refresh leaves the store untouched -/
theorem refresh_err_store (cfg : Cfg) (d0 : Data) (st : StoreSt) (plan : IdpPlan) (a r : String) (now : Int) (e : SessErr)
    (he : (refresh cfg d0 st plan a r now).err = some e) : (refresh cfg d0 st plan a r now).store = st := by
  unfold refresh at *
  by_cases hc : canRefresh d0 now <;> simp [hc] at he ⊢
  generalize getSess .valid st now = g at he ⊢
  rcases g with ⟨ge, gs⟩
  cases ge <;> cases gs <;> simp at he ⊢
  rename_i d2
  by_cases hc2 : canRefresh d2 now <;> simp [hc2] at he ⊢
  cases plan <;> simp at he ⊢

theorem getSession_valid (cfg : Cfg) (ck : CookieSt) (st : StoreSt) (plan : IdpPlan) (a r : String) (now : Int) (d : Data)
    (hs : (getSession cfg ck st plan a r now).sess = some d) (he : (getSession cfg ck st plan a r now).err = none) :
    ck = .valid ∧ (getSession cfg ck st plan a r now).store = .present d ∧ notEndedNorIdle d now := by
  cases ck
  · unfold getSession getOrRefresh getSess at *; split at he <;> simp at he hs
  · cases st with
    | absent => unfold getSession getOrRefresh getSess at *; split at he <;> simp at he hs
    | undecryptable => unfold getSession getOrRefresh getSess at *; split at he <;> simp at he hs
    | present d0 =>
      cases hve : validateErr d0 now with
      | some e => unfold getSession getOrRefresh getSess at *; split at he <;> simp [hve] at he hs
      | none =>
        have hv := validate_live d0 now (validateErr_none d0 now hve)
        unfold getSession getOrRefresh getSess at *
        simp only [hve] at hs he ⊢
        by_cases hm : (decide (cfg.mode = .ssoProxy) || cfg.autoRefreshDisabled) = true
        · simp [hm] at hs he ⊢; subst hs; exact ⟨rfl, hv⟩
        · simp only [hm] at hs he ⊢
          by_cases hsr : shouldRefresh d0 now
          · simp [hsr] at hs he ⊢
            cases hre : (refresh cfg d0 (.present d0) plan a r now).err with
            | none =>
              simp [hre] at he hs ⊢
              exact refresh_ok cfg d0 plan a r now d hv hs hre
            | some e =>
              have hst := refresh_err_store cfg d0 _ plan a r now e hre
              simp [hre] at he hs ⊢
              split at hs
              · simp at hs
              · rename_i hne; simp at hs; subst hs; simp [hne]; exact ⟨hst, hv⟩
          · simp [hsr] at hs he ⊢; subst hs; exact ⟨rfl, hv⟩
  · unfold getSession getOrRefresh getSess at *; split at he <;> simp at he hs

/-- **C01 (soundness).** Whenever the upstream receives an Authorization header written by wonderwall, the request carried
    a decryptable ticket, the store (after this request) holds a session for it that has not ended, has not timed out, has an
    unexpired non-empty access token and satisfies the configured level, and the header is that session's access token;
    the ID-token header, when enabled, is that session's ID token. -/
theorem sound (cfg : Cfg) (ck : CookieSt) (st : StoreSt) (plan : IdpPlan) (a r : String) (ign : Bool) (now : Int) (t : String)
    (h : (proxy cfg ck st plan a r ign now).upAuth = some t) :
    ∃ d, ck = .valid ∧ (proxy cfg ck st plan a r ign now).store = .present d ∧ ValidSession cfg d now ∧ t = d.AccessToken ∧
      (proxy cfg ck st plan a r ign now).upIdToken = (if cfg.includeIdToken then some d.IDToken else none) := by
  unfold proxy at h ⊢
  generalize hg : getSession cfg ck st plan a r now = g at h ⊢
  have hun : ∀ ign, (proxyUnauth cfg ign g).upAuth = none := by intro ign; unfold proxyUnauth; split <;> rfl
  cases hge : g.err <;> cases hgs : g.sess <;> simp only [hge, hgs, hun] at h ⊢ <;> try (simp at h)
  rename_i d
  cases hat : accessToken d now <;> simp only [hat, hun] at h ⊢ <;> try (simp at h)
  rename_i tok
  have hv := getSession_valid cfg ck st plan a r now d (by rw [hg]; exact hgs) (by rw [hg]; exact hge)
  rw [hg] at hv
  have hak := accessToken_some d now tok hat
  by_cases hacr : cfg.acr = "" ∨ acrValid cfg.acr d.Acr = true
  · have hb : (decide (cfg.acr = "") || acrValid cfg.acr d.Acr) = true := by simpa using hacr
    rw [if_pos hacr] at h
    rw [if_pos hb]
    simp at h
    exact ⟨d, hv.1, hv.2.1, ⟨hak.2.1, hv.2.2.1, hv.2.2.2, hak.2.2, hacr⟩, by rw [← h, hak.1], rfl⟩
  · have hb : ¬ (decide (cfg.acr = "") || acrValid cfg.acr d.Acr) = true := by simpa using hacr
    rw [if_neg hacr, hun] at h
    simp at h

theorem validateErr_of_nil (d : Data) (now : Int) (h : d.Validate now = []) : validateErr d now = none := by
  unfold validateErr; rw [h]

/-- with a live session in the store and a provider that does not reject the refresh token, `getSession` succeeds and returns
    either the stored session or the freshly refreshed one -/
theorem getSession_complete (cfg : Cfg) (d : Data) (plan : IdpPlan) (a r : String) (now : Int)
    (hv : d.Validate now = []) (hp : plan ≠ .clientErr) :
    (getSession cfg .valid (.present d) plan a r now).err = none ∧
    ((getSession cfg .valid (.present d) plan a r now).sess = some d ∨
      ∃ secs, plan = .ok secs ∧ (getSession cfg .valid (.present d) plan a r now).sess = some (applyGrant cfg d a r secs now)) := by
  have hve := validateErr_of_nil d now hv
  unfold getSession getOrRefresh refresh getSess
  simp only [hve]
  by_cases hm : (decide (cfg.mode = .ssoProxy) || cfg.autoRefreshDisabled) = true <;> simp only [hm]
  · simp
  · by_cases hsr : shouldRefresh d now <;> by_cases hc : canRefresh d now <;> cases plan <;> simp_all [SessErr.isInvalid]

/-- **C01 (completeness).** A request presenting the cookie of a session that is live, holds an unexpired token and has the required
    level is always forwarded with `Authorization` SET to the current token of that session (any client-supplied value is replaced:
    `Rewrite` uses `Header.Set`), provided the provider does not reject the refresh token and hands out a usable token. -/
theorem complete (cfg : Cfg) (d : Data) (plan : IdpPlan) (a r : String) (ign : Bool) (now : Int)
    (hv : ValidSession cfg d now) (hp : plan ≠ .clientErr) (hok : ∀ secs, plan = .ok secs → 0 ≤ secs ∧ a ≠ "") :
    ∃ d', (proxy cfg .valid (.present d) plan a r ign now).store = .present d' ∧
      (proxy cfg .valid (.present d) plan a r ign now).forwarded = true ∧
      (proxy cfg .valid (.present d) plan a r ign now).upAuth = some d'.AccessToken := by
  obtain ⟨h1, h2, h3, h4, h5⟩ := hv
  have hval : d.Validate now = [] := (validate_nil_iff d now).mpr ⟨h1, h2, h3⟩
  obtain ⟨he, hs⟩ := getSession_complete cfg d plan a r now hval hp
  have hst := getSession_valid cfg .valid (.present d) plan a r now
  unfold proxy
  generalize getSession cfg .valid (.present d) plan a r now = g at he hs hst ⊢
  have hacrb : ∀ x : Data, x.Acr = d.Acr → (decide (cfg.acr = "") || acrValid cfg.acr x.Acr) = true := by
    intro x hx; rw [hx]; rcases h5 with h | h <;> simp [h]
  rcases hs with hs | ⟨secs, hpl, hs⟩
  · have hat : accessToken d now = some d.AccessToken := by
      unfold accessToken Data.HasActiveAccessToken Metadata.IsExpired
      have := (hasAccess_iff d now).mpr h1
      simp [this]; omega
    have := (hst d hs he).2.1
    simp only [he, hs, hat, hacrb d rfl, if_true]
    refine ⟨d, this, ?_, ?_⟩ <;> simp
  · obtain ⟨hsec, ha⟩ := hok secs hpl
    have hg := applyGrant_session cfg d a r secs now
    have hat : accessToken (applyGrant cfg d a r secs now) now = some a := by
      unfold accessToken Data.HasActiveAccessToken Metadata.IsExpired
      have hx : (applyGrant cfg d a r secs now).AccessToken = a := by unfold applyGrant; rfl
      have := (hasAccess_iff (applyGrant cfg d a r secs now) now).mpr (by rw [hx]; exact ha)
      have hexp : ¬ now > (applyGrant cfg d a r secs now).Metadata.Tokens.ExpireAt := by
        unfold applyGrant Metadata.Refresh Metadata.WithTimeout
        by_cases hi : cfg.inactivity > 0 <;> simp [hi] <;> (try split) <;> (try simp) <;> omega
      simp [this, hx]; omega
    have hacr' : (applyGrant cfg d a r secs now).Acr = d.Acr := by unfold applyGrant; rfl
    have := (hst _ hs he).2.1
    simp only [he, hs, hat, hacrb _ hacr', if_true]
    refine ⟨_, this, ?_, ?_⟩ <;> simp [applyGrant]

/-- **C01 (no token without a session).** Corollary of `sound`: without a decryptable ticket, or without a store entry, no
    Authorization / ID-token header is written, whatever else the request carries. -/
theorem none_without_session (cfg : Cfg) (ck : CookieSt) (st : StoreSt) (plan : IdpPlan) (a r : String) (ign : Bool) (now : Int)
    (h : ck ≠ .valid ∨ (proxy cfg ck st plan a r ign now).store = .absent ∨ (proxy cfg ck st plan a r ign now).store = .undecryptable) :
    (proxy cfg ck st plan a r ign now).upAuth = none := by
  cases hu : (proxy cfg ck st plan a r ign now).upAuth with
  | none => rfl
  | some t =>
    obtain ⟨d, h1, h2, _⟩ := sound cfg ck st plan a r ign now t hu
    rcases h with h | h | h
    · exact absurd h1 h
    · rw [h] at h2; cases h2
    · rw [h] at h2; cases h2

/-- the ID-token header is never written without the Authorization header -/
theorem idtoken_only_with_auth (cfg : Cfg) (ck : CookieSt) (st : StoreSt) (plan : IdpPlan) (a r : String) (ign : Bool) (now : Int)
    (h : (proxy cfg ck st plan a r ign now).upAuth = none) : (proxy cfg ck st plan a r ign now).upIdToken = none := by
  unfold proxy proxyUnauth at *
  repeat' split at h
  all_goals simp_all
  all_goals (repeat' split) <;> simp_all

-- non-vacuity: a concrete live session in the refresh window is forwarded with the NEW token after an automatic refresh
def sampleData : Data := {
  ExternalSessionID := "sid", AccessToken := "at0", IDToken := "id", RefreshToken := "rt0", Acr := "idporten-loa-high",
  Metadata := { Session := { CreatedAt := 1000000000000, EndsAt := 37000000000000, TimeoutAt := 0 }, Tokens := { ExpireAt := 1600000000000, RefreshedAt := 1000000000000 } } }
example : (proxy { acr := "Level4", includeIdToken := true } .valid (.present sampleData) (.ok 600) "at1" "rt1" false 1400000000000).upAuth = some "at1" := by decide
example : (proxy { acr := "Level4" } .valid (.present sampleData) (.clientErr) "at1" "rt1" false 1400000000000).upAuth = none := by decide
example : (proxy {} .valid (.present sampleData) (.serverErr) "at1" "rt1" false 1700000000000).upAuth = none := by decide   -- expired + refresh impossible

end Ww.Proofs.C01
