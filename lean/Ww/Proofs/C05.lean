import Ww.Model.Sched
import Ww.Proofs.C07
/-!
# C05 — Logout is final, whatever runs concurrently
-/
namespace Ww.Proofs.C05
open Ww.Model.Sched

/-- nothing re-creates a deleted session: the refresh write is "update only if present" in ONE store step -/
theorem deleted_stays_deleted_step (s : St) (ev : Ev) (h : s.sess = none) : (apply s ev).sess = none := by
  cases ev with
  | crash p => simp [apply, crash, h]
  | run p =>
    unfold apply step
    simp only []
    split <;> (repeat' split) <;> simp_all

theorem deleted_stays_deleted (s : St) (evs : List Ev) (h : s.sess = none) : (runAll s evs).sess = none := by
  induction evs generalizing s with
  | nil => exact h
  | cons e es ih => exact ih _ (deleted_stays_deleted_step s e h)

/-- the delete step of a logout removes the entry -/
theorem del_removes (s : St) (p : Pid) (h : (s.procs p).pc = .del) : (step s p).1.sess = none ∧ ((step s p).1.procs p).pc = .done := by
  unfold step
  simp [h]

/-- **C05.** For every schedule `pre ++ [p] ++ post` of any number of concurrent refreshing / reading / logging-out processes (and crashes) in which
    process `p` is a logout that performs its delete after `pre`: at the end — and at every later moment — the session's store entry does not exist. -/
theorem logout_is_final (s0 : St) (pre post : List Ev) (p : Pid) (h : ((runAll s0 pre).procs p).pc = .del) :
    (runAll s0 (pre ++ [.run p] ++ post)).sess = none := by
  unfold runAll at *
  rw [List.foldl_append, List.foldl_append]
  apply deleted_stays_deleted
  simp only [List.foldl_cons, List.foldl_nil, apply]
  exact (del_removes _ p h).1

/-- a request that has not yet reached the provider when the entry is gone never reaches it: nothing is presented, nothing is written -/
theorem no_refresh_after_logout (s : St) (q : Pid) (h : s.sess = none) (hq : (s.procs q).pc ≠ .idp) :
    ((step s q).1.procs q).pc ≠ .idp ∧ (step s q).1.presented = s.presented ∧ (step s q).1.sess = none := by
  unfold step
  simp only []
  split <;> (try contradiction) <;> (repeat' split) <;> simp_all [setProc]
  · cases hk : (s.procs q).kind <;> simp [startNext]
  · have := Ww.Proofs.C07.getNext_outside (s.procs q).kind none
    rcases this with h1 | h1 | h1 <;> simp [h1]

/-- with no store entry a refresh / info request is answered 401 and a proxied request goes on WITHOUT a token (status 200 = forwarded unauthenticated) -/
theorem after_logout_unauthenticated (k : Kind) : (getNext k none).1 = .done ∨ (getNext k none).1 = .del := by
  cases k <;> simp [getNext]

-- non-vacuity: logout lands between a refresher's provider call and its write-back; the entry stays deleted and the refresher answers 401
example : let s := [0, 0, 0, 0, 0, 1, 1, 1, 0, 0, 0].foldl (fun s p => (step s p).1) (init (fun p => if p = 1 then .logoutLocal else .refresh) 0)
    s.sess = none ∧ s.lock = none ∧ (s.procs 0).status = 401 ∧ (s.procs 1).status = 204 ∧ s.presented = [0] := by decide

end Ww.Proofs.C05
