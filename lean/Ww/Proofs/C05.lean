import Ww.Model.Sched
import Ww.Proofs.C07
/-!
# C05 — Logout is final, whatever runs concurrently

"The session" is the one whose cookie the logging-out browser holds (owner 0 in the model). A NEW login may land on the same store key
(the provider re-uses the sid after a local logout); what it stores is another session, sealed with another data key, which the old cookie
cannot read (`mine`). The statements therefore speak about `mine s.sess`: what a holder of the old cookie can still read.
-/
namespace Ww.Proofs.C05
open Ww.Model.Sched
open Ww.Proofs.C07 (Inv inv_step inv_init)

theorem inv_crash (s : St) (p : Pid) (h : Inv s) : Inv (crash s p) := by
  obtain ⟨h1, h2, h3, h4, h5, h6, h7, h8, h9, h10⟩ := h
  unfold crash
  constructor <;> grind [setProc, inCrit]

theorem inv_apply (s : St) (ev : Ev) (h : Inv s) : Inv (apply s ev) := by
  cases ev with
  | run p => exact inv_step s p h
  | crash p => exact inv_crash s p h

theorem inv_runAll (s : St) (evs : List Ev) (h : Inv s) : Inv (runAll s evs) := by
  induction evs generalizing s with
  | nil => exact h
  | cons e es ih => exact ih _ (inv_apply s e h)

/-- nothing brings the logged-out session back: the refresh write-back is "update only if present" in ONE store step, and a new login that
    re-uses the key writes only while holding the refresh lock, so a write-back can never land on top of it -/
theorem deleted_stays_deleted_step (s : St) (ev : Ev) (hI : Inv s) (h : mine s.sess = none) : mine (apply s ev).sess = none := by
  cases ev with
  | crash p => simpa [apply, crash] using h
  | run p =>
    by_cases hu : (s.procs p).pc = .update
    · -- the write-back: by the invariant the entry, if present, is still the old session – but then it would be readable
      have ho := fun v hv => hI.ownUpdate p v hu hv
      unfold apply step
      simp only [hu]
      split
      · rename_i v hv
        have := ho v hv
        simp [mine, hv, this] at h
      · simpa using h
    · unfold apply step
      simp only []
      split <;> (try contradiction) <;> (repeat' split) <;> simp_all [mine]

theorem deleted_stays_deleted (s : St) (evs : List Ev) (hI : Inv s) (h : mine s.sess = none) : mine (runAll s evs).sess = none := by
  induction evs generalizing s with
  | nil => exact h
  | cons e es ih => exact ih _ (inv_apply s e hI) (deleted_stays_deleted_step s e hI h)

/-- the delete step of a logout removes the entry -/
theorem del_removes (s : St) (p : Pid) (h : (s.procs p).pc = .del) : (step s p).1.sess = none ∧ ((step s p).1.procs p).pc = .done := by
  unfold step
  simp [h]

/-- **C05.** For every schedule `pre ++ [p] ++ post` of any number of concurrent refreshing / reading / logging-out processes, NEW LOGINS that land
    on the same store key, and crashes, in which process `p` is a logout that performs its delete after `pre`: at the end — and at every later
    moment — nothing the old cookie can read exists in the store. -/
theorem logout_is_final (kinds : Pid → Kind) (g0 : Nat) (pre post : List Ev) (p : Pid)
    (h : ((runAll (init kinds g0) pre).procs p).pc = .del) :
    mine (runAll (init kinds g0) (pre ++ [.run p] ++ post)).sess = none := by
  have hI := inv_runAll _ pre (inv_init kinds g0)
  unfold runAll at *
  rw [List.foldl_append, List.foldl_append]
  apply deleted_stays_deleted
  · exact inv_apply _ (.run p) hI
  · simp only [List.foldl_cons, List.foldl_nil, apply]
    rw [(del_removes _ p h).1]; rfl

/-- a write-back never lands on a newer login's session: whenever a refresher is about to write, the entry is absent or still its own -/
theorem writeback_never_hits_new_login (kinds : Pid → Kind) (g0 : Nat) (evs : List Ev) (p : Pid) (v : Sess) :
    let s := runAll (init kinds g0) evs
    (s.procs p).pc = .update → s.sess = some v → v.owner = 0 :=
  fun hp hv => (inv_runAll _ evs (inv_init kinds g0)).ownUpdate p v hp hv

/-- a request that has not yet reached the provider when the entry is gone never reaches it: nothing is presented, nothing readable is written -/
theorem no_refresh_after_logout (s : St) (q : Pid) (hI : Inv s) (h : mine s.sess = none) (hq : (s.procs q).pc ≠ .idp) :
    ((step s q).1.procs q).pc ≠ .idp ∧ (step s q).1.presented = s.presented ∧ mine (step s q).1.sess = none := by
  refine ⟨?_, ?_, deleted_stays_deleted_step s (.run q) hI h⟩
  · unfold step
    simp only []
    split <;> (try contradiction) <;> (repeat' split) <;> simp_all [setProc]
    · cases hk : (s.procs q).kind <;> simp [startNext]
    · have := Ww.Proofs.C07.getNext_outside (s.procs q).kind none
      rcases this with h1 | h1 | h1 <;> simp [h1]
  · unfold step
    simp only []
    split <;> (try contradiction) <;> (repeat' split) <;> simp_all [setProc]

/-- with no readable store entry a refresh / info request is answered 401 and a proxied request goes on WITHOUT a token (status 200 = forwarded unauthenticated) -/
theorem after_logout_unauthenticated (k : Kind) : (getNext k none).1 = .done ∨ (getNext k none).1 = .del := by
  cases k <;> simp [getNext]

-- non-vacuity: logout lands between a refresher's provider call and its write-back; the entry stays deleted and the refresher answers 401
example : let s := [0, 0, 0, 0, 0, 1, 1, 1, 0, 0, 0].foldl (fun s p => (step s p).1) (init (fun p => if p = 1 then .logoutLocal else .refresh) 0)
    s.sess = none ∧ s.lock = none ∧ (s.procs 0).status = 401 ∧ (s.procs 1).status = 204 ∧ s.presented = [0] := by decide

-- non-vacuity with a new login: refresher 0 is between provider call and write-back, 1 logs out locally, 2 logs in again on the same key (it has to
-- wait for the lock); the write-back finds nothing, the new session is stored, the old cookie reads nothing
example : let s := [0, 0, 0, 0, 0, 1, 1, 1, 2, 2, 2, 2, 0, 0, 2, 2, 2].foldl (fun s p => (step s p).1) (init (fun p => if p = 1 then .logoutLocal else if p = 2 then .relogin else .refresh) 0)
    mine s.sess = none ∧ s.sess = some ⟨0, false, true, 3⟩ ∧ s.lock = none ∧ (s.procs 0).status = 401 ∧ (s.procs 1).status = 204 ∧ (s.procs 2).status = 302 := by decide

/-- **witness of the defect repaired by fix 078aa22** (`createLocks := false` = session creation without the lock): the same schedule lets the
    write-back of the logged-out session land on top of the new login — the OLD cookie reads a session again (and the new one does not) -/
theorem resurrection_without_create_lock :
    let s := [0, 0, 0, 0, 0, 1, 1, 1, 2, 2, 2, 0, 0].foldl (fun s p => (step s p).1) { init (fun p => if p = 1 then .logoutLocal else if p = 2 then .relogin else .refresh) 0 with createLocks := false }
    (s.procs 1).status = 204 ∧ (s.procs 2).status = 302 ∧ mine s.sess = some ⟨1, true, true, 0⟩ := by decide

end Ww.Proofs.C05
