import Ww.Model.Config
/-!
# C20 — Start-up refuses incomplete or unsafe configuration instead of running degraded
-/
namespace Ww.Proofs.C20
open Ww.Model

/-- the documented rules (docs/configuration.md and the property text), as one declarative statement -/
structure Documented (c : StartCfg) : Prop where
  key : c.key = .absent ∨ c.key = .bytes 32
  ingress : c.ingresses ≠ [] ∧ ∀ i ∈ c.ingresses, i.parses = true ∧ i.hasHost = true ∧ (i.scheme = "http" ∨ i.scheme = "https")
  openid : (c.sso = true ∧ c.ssoMode = .proxy) ∨
           ((c.clientJwk = .valid ∨ (c.clientJwk = .absent ∧ c.clientSecret = true)) ∧ c.providerName = true ∧ c.clientId = true ∧ c.wellKnown = true ∧
            c.discoveryReachable = true ∧ c.algInDiscovery = true ∧ (c.acr = true → c.acrInDiscovery = true) ∧ (c.locale = true → c.localeInDiscovery = true))
  sso : c.sso = true → c.redis = true ∧ c.ssoCookieName = true ∧
        ((c.ssoMode = .proxy ∧ c.ssoServerUrlParses = true) ∨ (c.ssoMode = .server ∧ c.ssoDomain = true ∧ c.ssoDefaultRedirectParses = true))
  store : c.redis = true → c.redisReachable = true
  cookies : c.sameSiteValid = true ∧ (c.cookieSecure = false → ∀ i ∈ c.ingresses, i.hostname = "localhost" ∧ i.scheme = "http")
  upstream : (c.upstreamIp = false ∧ c.upstreamPort = 0) ∨ (c.upstreamIp = true ∧ 1 ≤ c.upstreamPort ∧ c.upstreamPort ≤ 65535)
  shutdown : c.waitBefore < c.graceful
  alg : c.algIsJwa = true

/-- **C20 (sound).** The process reaches its listening socket only with a configuration satisfying every documented rule -/
theorem starts_only_if_documented (c : StartCfg) (h : startOk c = true) : Documented c := by
  unfold startOk at h
  by_cases hv : validateOk c <;> simp [hv] at h
  by_cases hk : keyOk c <;> simp [hk] at h
  unfold validateOk cookieOk ssoOk upstreamOk at hv
  simp only [Bool.and_eq_true, Bool.or_eq_true, decide_eq_true_eq, Bool.not_eq_true', List.all_eq_true, beq_iff_eq, bne_iff_ne] at hv
  obtain ⟨⟨⟨⟨⟨hss, hck⟩, halg⟩, hsso⟩, hup⟩, hsd⟩ := hv
  have hkey : c.key = .absent ∨ c.key = .bytes 32 := by
    unfold keyOk at hk
    cases hkk : c.key <;> simp [hkk] at hk ⊢
    exact hk
  have hcookies : c.sameSiteValid = true ∧ (c.cookieSecure = false → ∀ i ∈ c.ingresses, i.hostname = "localhost" ∧ i.scheme = "http") := by
    refine ⟨hss, ?_⟩
    intro hs i hi
    rcases hck with hck | hck
    · rw [hs] at hck; cases hck
    · have := hck i hi; exact ⟨this.1.2, this.2⟩
  have hupd : (c.upstreamIp = false ∧ c.upstreamPort = 0) ∨ (c.upstreamIp = true ∧ 1 ≤ c.upstreamPort ∧ c.upstreamPort ≤ 65535) := by
    rcases hup with h1 | h1
    · left; exact h1
    · right; exact ⟨h1.1.1.1, h1.1.2, h1.2⟩
  have hingr : ingressesOk c = true → c.ingresses ≠ [] ∧ ∀ i ∈ c.ingresses, i.parses = true ∧ i.hasHost = true ∧ (i.scheme = "http" ∨ i.scheme = "https") := by
    intro hi
    unfold ingressesOk ingressOk at hi
    simp only [Bool.and_eq_true, Bool.not_eq_true', List.all_eq_true, Bool.or_eq_true, beq_iff_eq, List.isEmpty_eq_false_iff] at hi
    exact ⟨hi.1, fun i hm => ⟨(hi.2 i hm).1.1, (hi.2 i hm).1.2, (hi.2 i hm).2⟩⟩
  have hstore : storeOk c = true → (c.redis = true → c.redisReachable = true) := by
    intro hs hr; unfold storeOk at hs; simp [hr] at hs; exact hs
  by_cases hp : c.sso = true ∧ c.ssoMode = SsoMode.proxy
  · rw [if_pos hp] at h
    have hssod : c.sso = true → c.redis = true ∧ c.ssoCookieName = true ∧
        ((c.ssoMode = .proxy ∧ c.ssoServerUrlParses = true) ∨ (c.ssoMode = .server ∧ c.ssoDomain = true ∧ c.ssoDefaultRedirectParses = true)) := by
      intro _
      rcases hsso with h1 | h1
      · rw [hp.1] at h1; cases h1
      · exact ⟨h1.1.1, h1.1.2, Or.inl ⟨hp.2, h.2⟩⟩
    exact ⟨hkey, hingr h.1.1, Or.inl hp, hssod, hstore h.1.2, hcookies, hupd, by omega, halg⟩
  · rw [if_neg hp] at h
    obtain ⟨ho, hs, hi, hred⟩ := h
    unfold openidOk at ho
    simp only [Bool.and_eq_true, Bool.or_eq_true, Bool.not_eq_true', bne_iff_ne, ne_eq] at ho
    obtain ⟨⟨⟨⟨⟨⟨⟨⟨hcred, hmal⟩, hpn⟩, hcid⟩, hwk⟩, hdr⟩, hacr⟩, hloc⟩, had⟩ := ho
    have hopen : (c.clientJwk = .valid ∨ (c.clientJwk = .absent ∧ c.clientSecret = true)) := by
      cases hj : c.clientJwk <;> simp [hj] at hcred hmal ⊢
      exact hcred
    have hssod : c.sso = true → c.redis = true ∧ c.ssoCookieName = true ∧
        ((c.ssoMode = .proxy ∧ c.ssoServerUrlParses = true) ∨ (c.ssoMode = .server ∧ c.ssoDomain = true ∧ c.ssoDefaultRedirectParses = true)) := by
      intro hson
      rcases hsso with h1 | h1
      · rw [hson] at h1; cases h1
      · refine ⟨h1.1.1, h1.1.2, ?_⟩
        cases hm : c.ssoMode <;> simp [hm] at h1 hp ⊢
        · exact h1.2
        · rw [hp] at hson; cases hson
    refine ⟨hkey, hingr hi, Or.inr ⟨hopen, hpn, hcid, hwk, hdr, had, ?_, ?_⟩, hssod, hstore hs, hcookies, hupd, by omega, halg⟩
    · intro ha; rcases hacr with h1 | h1
      · rw [ha] at h1; cases h1
      · exact h1
    · intro hl; rcases hloc with h1 | h1
      · rw [hl] at h1; cases h1
      · exact h1

/-- **C20 (complete).** A configuration satisfying all documented rules does start -/
theorem documented_starts (c : StartCfg) (d : Documented c) : startOk c = true := by
  obtain ⟨hkey, hing, hopen, hsso, hstore, hcook, hup, hsd, halg⟩ := d
  have hk : keyOk c = true := by unfold keyOk; rcases hkey with h | h <;> simp [h]
  have hi : ingressesOk c = true := by
    unfold ingressesOk ingressOk
    simp only [Bool.and_eq_true, Bool.not_eq_true', List.all_eq_true, Bool.or_eq_true, beq_iff_eq, List.isEmpty_eq_false_iff]
    exact ⟨hing.1, fun i hm => ⟨⟨(hing.2 i hm).1, (hing.2 i hm).2.1⟩, (hing.2 i hm).2.2⟩⟩
  have hst : storeOk c = true := by
    unfold storeOk; cases hr : c.redis <;> simp; exact hstore hr
  have hv : validateOk c = true := by
    unfold validateOk cookieOk ssoOk upstreamOk
    simp only [Bool.and_eq_true, Bool.or_eq_true, decide_eq_true_eq, Bool.not_eq_true', List.all_eq_true, beq_iff_eq, bne_iff_ne]
    refine ⟨⟨⟨⟨⟨hcook.1, ?_⟩, halg⟩, ?_⟩, ?_⟩, by omega⟩
    · cases hs : c.cookieSecure
      · right; intro i hm; exact ⟨⟨(hing.2 i hm).1, (hcook.2 hs i hm).1⟩, (hcook.2 hs i hm).2⟩
      · left; rfl
    · cases hs : c.sso
      · left; rfl
      · right
        obtain ⟨h1, h2, h3⟩ := hsso hs
        refine ⟨⟨h1, h2⟩, ?_⟩
        rcases h3 with ⟨hm, hu⟩ | ⟨hm, hd, hr⟩ <;> simp [hm, *]
    · rcases hup with ⟨h1, h2⟩ | ⟨h1, h2, h3⟩
      · left; exact ⟨h1, h2⟩
      · right; exact ⟨⟨⟨h1, by omega⟩, h2⟩, h3⟩
  unfold startOk
  simp only [hv, hk, Bool.not_true, Bool.false_eq_true, if_false]
  by_cases hp : (c.sso && c.ssoMode == .proxy) = true
  · simp only [hp, if_true]
    simp at hp
    obtain ⟨_, _, h3⟩ := hsso hp.1
    rcases h3 with ⟨_, hu⟩ | ⟨hm, _, _⟩
    · simp [hi, hst, hu]
    · rw [hp.2] at hm; cases hm
  · simp only [hp]
    rcases hopen with hpx | ⟨hcred, hpn, hcid, hwk, hdr, had, hacr, hloc⟩
    · exact absurd (by simp [hpx.1, hpx.2]) hp
    · have ho : openidOk c = true := by
        unfold openidOk
        simp only [Bool.and_eq_true, Bool.or_eq_true, Bool.not_eq_true', bne_iff_ne, ne_eq]
        refine ⟨⟨⟨⟨⟨⟨⟨⟨?_, ?_⟩, hpn⟩, hcid⟩, hwk⟩, hdr⟩, ?_⟩, ?_⟩, had⟩
        · rcases hcred with h | ⟨h, hs⟩
          · left; rw [h]; decide
          · right; exact hs
        · rcases hcred with h | ⟨h, _⟩ <;> (rw [h]; decide)
        · cases ha : c.acr
          · left; rfl
          · right; exact hacr ha
        · cases hl : c.locale
          · left; rfl
          · right; exact hloc hl
      simp only [ho, hst, hi, Bool.not_true, Bool.false_eq_true, if_false]
      cases hs : c.sso
      · simp
      · simp
        obtain ⟨_, _, h3⟩ := hsso hs
        rcases h3 with ⟨hm, _⟩ | ⟨_, _, hr⟩
        · exact absurd (by simp [hs, hm]) hp
        · exact hr

-- non-vacuity: a minimal valid standalone configuration, and a valid SSO proxy without any OpenID client settings
def https (h : String) : IngressSt := ⟨true, "https", true, h⟩
example : startOk { ingresses := [https "app.example.com"] } = true ∧
          startOk { ingresses := [https "app.example.com"], sso := true, ssoMode := .proxy, redis := true, ssoCookieName := true, ssoServerUrlParses := true,
                    clientId := false, clientJwk := .absent, wellKnown := false } = true ∧
          startOk { ingresses := [https "app.example.com"], key := .bytes 16 } = false ∧
          startOk { ingresses := [https "app.example.com"], cookieSecure := false } = false ∧
          startOk { ingresses := [⟨true, "http", true, "localhost"⟩], cookieSecure := false } = true := by decide

end Ww.Proofs.C20
