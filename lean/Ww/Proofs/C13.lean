import Ww.Model.Login
/-!
# C13 — Every authorization request is fresh, PKCE-bound and names a configured ingress
-/
namespace Ww.Proofs.C13
open Ww.Model

/-- the requested acr_values is a value the provider supports, or the configured default, or absent -/
theorem acr_allowed (cfg : LoginCfg) (level : String) :
    acrParam cfg level ∈ cfg.acrSupported ∨ acrParam cfg level = cfg.acrDefault ∨ acrParam cfg level = "" := by
  unfold acrParam
  by_cases h0 : cfg.acrDefault = ""
  · simp [h0]
  · simp only [h0, if_false]
    generalize (if level = "" then cfg.acrDefault else level) = v
    by_cases hv : cfg.acrSupported.contains v = true
    · simp only [hv, if_true]; left; simpa using hv
    · simp only [hv]
      cases legacyAcr v with
      | none => simp
      | some t =>
        by_cases ht : cfg.acrSupported.contains t = true
        · simp only [ht, if_true]; left; simpa using ht
        · have ht' : t ∉ cfg.acrSupported := by simpa using ht
          simp [ht']

theorem locale_allowed (cfg : LoginCfg) (locale : String) :
    localeParam cfg locale ∈ cfg.localesSupported ∨ localeParam cfg locale = cfg.localeDefault ∨ localeParam cfg locale = "" := by
  unfold localeParam
  by_cases h0 : cfg.localeDefault = ""
  · simp [h0]
  · simp only [h0, if_false]
    generalize (if locale = "" then cfg.localeDefault else locale) = v
    by_cases hv : cfg.localesSupported.contains v = true
    · simp only [hv, if_true]; left; simpa using hv
    · have hv' : v ∉ cfg.localesSupported := by simpa using hv
      simp [hv']

theorem prompt_allowed (p : String) : promptParam p = "" ∨ promptParam p = "login" ∨ promptParam p = "select_account" := by
  unfold promptParam
  split
  · left; rfl
  · split
    · rename_i h; rcases h with h | h <;> simp [h]
    · right; left; rfl

/-- the redirect_uri always names a CONFIGURED ingress that matches the request's Host or X-Forwarded-Host — it is never built from a header value -/
theorem redirect_uri_is_configured (cfg : LoginCfg) (ings : List Ingress) (host xfh p level locale prompt : String) (d : Draw) (a : AuthRequest)
    (h : authRequest cfg ings host xfh p level locale prompt d = some a) :
    ∃ ing ∈ ings, (ing.host = host ∨ ing.host = xfh) ∧ ing.path = matchingPath ings p ∧ a.cookieRedirectUri = ing.url ++ "/oauth2/callback" ∧
      ("redirect_uri", ing.url ++ "/oauth2/callback") ∈ a.params := by
  unfold authRequest at h
  cases hm : matchingIngress ings host xfh p with
  | none => simp [hm] at h
  | some ing =>
    simp only [hm] at h
    have hmem := List.mem_of_find?_eq_some hm
    have hprop := List.find?_some hm
    simp at hprop
    injection h with h
    subst h
    exact ⟨ing, hmem, hprop.1, hprop.2, rfl, by simp⟩

/-- an unconfigured Host / X-Forwarded-Host yields no authorization request at all -/
theorem unconfigured_host_no_request (cfg : LoginCfg) (ings : List Ingress) (host xfh p level locale prompt : String) (d : Draw)
    (h : ∀ ing ∈ ings, ing.host ≠ host ∧ ing.host ≠ xfh) : authRequest cfg ings host xfh p level locale prompt d = none := by
  unfold authRequest
  have : matchingIngress ings host xfh p = none := by
    unfold matchingIngress
    apply List.find?_eq_none.mpr
    intro ing hi
    have := h ing hi
    simp [this.1, this.2]
  rw [this]

/-- the parameters are bound to the sealed cookie: same state, nonce, redirect URI; S256 challenge of the cookie's verifier; response_type=code -/
theorem params_bound_to_cookie (cfg : LoginCfg) (ings : List Ingress) (host xfh p level locale prompt : String) (d : Draw) (a : AuthRequest)
    (h : authRequest cfg ings host xfh p level locale prompt d = some a) :
    ("state", a.cookieState) ∈ a.params ∧ ("nonce", a.cookieNonce) ∈ a.params ∧ ("redirect_uri", a.cookieRedirectUri) ∈ a.params ∧
    ("code_challenge", s256 a.cookieVerifier) ∈ a.params ∧ ("code_challenge_method", "S256") ∈ a.params ∧ ("response_type", "code") ∈ a.params ∧
    a.cookieState = d.state ∧ a.cookieNonce = d.nonce ∧ a.cookieVerifier = d.verifier := by
  unfold authRequest at h
  cases hm : matchingIngress ings host xfh p with
  | none => simp [hm] at h
  | some ing =>
    simp only [hm] at h
    injection h with h
    subst h
    simp

/-- prompt implies max_age=0 -/
theorem prompt_forces_reauth (cfg : LoginCfg) (ings : List Ingress) (host xfh p level locale prompt : String) (d : Draw) (a : AuthRequest)
    (h : authRequest cfg ings host xfh p level locale prompt d = some a) (v : String) (hp : ("prompt", v) ∈ a.params) : ("max_age", "0") ∈ a.params := by
  unfold authRequest at h
  cases hm : matchingIngress ings host xfh p with
  | none => simp [hm] at h
  | some ing =>
    simp only [hm] at h
    injection h with h
    subst h
    by_cases hpr : promptParam prompt = ""
    · simp [hpr] at hp
    · simp [hpr]

/-- **freshness from an injective random source**: visit `i` draws values number 3i, 3i+1, 3i+2; then no state, nonce or verifier is ever shared
    between two visits, nor between two roles. (Unpredictability is an assumption on crypto/rand, see DESIGN §6 H-RND.) -/
def drawOf (rnd : Nat → String) (i : Nat) : Draw := ⟨rnd (3 * i), rnd (3 * i + 1), rnd (3 * i + 2)⟩

theorem draws_fresh (rnd : Nat → String) (hinj : ∀ a b, rnd a = rnd b → a = b) (i j : Nat) (hij : i ≠ j) :
    let di := drawOf rnd i; let dj := drawOf rnd j
    di.state ≠ dj.state ∧ di.nonce ≠ dj.nonce ∧ di.verifier ≠ dj.verifier ∧ di.state ≠ dj.nonce ∧ di.state ≠ dj.verifier ∧ di.nonce ≠ dj.verifier ∧
    di.state ≠ di.nonce ∧ di.state ≠ di.verifier ∧ di.nonce ≠ di.verifier := by
  simp only [drawOf]
  refine ⟨?_, ?_, ?_, ?_, ?_, ?_, ?_, ?_, ?_⟩ <;> (intro h; have := hinj _ _ h; omega)

-- non-vacuity (test, evaluated by #guard): path-prefixed ingress, legacy level mapped, unsupported locale and prompt fall back
#guard (authRequest { acrDefault := "Level4", acrSupported := ["idporten-loa-high"], localeDefault := "nb", localesSupported := ["nb", "en"] }
    [⟨"https", "app.example.com", ""⟩, ⟨"https", "app.example.com", "/sub"⟩] "app.example.com" "" "/sub/oauth2/login" "" "xx" "bogus" ⟨"S", "N", "V"⟩).map (·.params) ==
    some [("client_id", "client-id"), ("code_challenge", "S256(V)"), ("code_challenge_method", "S256"), ("nonce", "N"),
          ("redirect_uri", "https://app.example.com/sub/oauth2/callback"), ("response_mode", "query"), ("response_type", "code"), ("state", "S"),
          ("acr_values", "idporten-loa-high"), ("ui_locales", "nb"), ("prompt", "login"), ("max_age", "0")]

end Ww.Proofs.C13
