import Ww.Model.Cookie
import Ww.Gen.Cookies
/-!
# C14 — Cookies carry safe attributes and are cleared with the scope they were set with
-/
namespace Ww.Proofs.C14
open Ww.Model Ww.Gen.Cookies

/-- every cookie made or cleared is HttpOnly, carries the configured Secure flag, and SameSite=None only if the options say so -/
theorem attrs (name v : String) (o : CookieOpts) :
    (makeCookie name v o).httpOnly = true ∧ (clearCookie name o).httpOnly = true ∧
    (makeCookie name v o).secure = o.secure ∧ (clearCookie name o).secure = o.secure ∧
    (makeCookie name v o).sameSite = o.sameSite ∧ (clearCookie name o).sameSite = o.sameSite := ⟨rfl, rfl, rfl, rfl, rfl, rfl⟩

/-- options per mode: Secure is the configured flag; SameSite=None needs SSO mode AND that setting; standalone scopes to the ingress path without
    Domain, SSO to the configured domain with path "/" -/
theorem opts_per_mode (c : CookieCfg) (p : String) :
    (requestOpts c p).secure = c.secure ∧ (baseOpts c).secure = c.secure ∧
    ((requestOpts c p).sameSite = .none → c.sso = true ∧ c.sameSite = .none) ∧
    (c.sso = false → (requestOpts c p).domain = "" ∧ (requestOpts c p).path = p) ∧
    (c.sso = true → (requestOpts c p).domain = c.ssoDomain ∧ (requestOpts c p).path = "/" ∧ requestOpts c p = baseOpts c) := by
  unfold requestOpts baseOpts
  cases h : c.sso <;> simp [h]

/-- start-up validation: Secure may be off only when every ingress is plain-http localhost -/
theorem insecure_only_on_localhost (secure : Bool) (ings : List (String × String)) (h : secureExemptionOk secure ings = true) (hs : secure = false) :
    ∀ i ∈ ings, i.1 = "http" ∧ i.2.toLower = "localhost" := by
  unfold secureExemptionOk at h
  simp [hs] at h
  intro i hi
  have := h i.1 i.2 hi
  exact ⟨this.2, this.1⟩

/-- **call-site table (regenerated).** For every cookie, all sites that set it and all sites that clear it use the same scope-determining
    options expression (modifiers that only change SameSite are ignored; `param:` sites are the inner helpers the outer sites call). -/
def hasInfix (p : List Char) : List Char → Bool
  | [] => p.isEmpty
  | c :: cs => p.isPrefixOf (c :: cs) || hasInfix p cs

/-- the scope-determining part of an options expression: which base object it starts from, provided no modifier touches Path or Domain -/
def scopeClass (opts : String) : String :=
  let o := opts.toList
  if hasInfix "WithPath".toList o || hasInfix "WithDomain".toList o then opts
  else if "s.GetCookieOptions(r)".toList.isPrefixOf o then "request-options"
  else if "s.CookieOptions".toList.isPrefixOf o then "base-options"
  else opts

def isParam (opts : String) : Bool := "param:".toList.isPrefixOf opts.toList

def namesOf : List String := (sites.map fun s => s.2.2.1).eraseDups

theorem clear_scope_matches_set_scope :
    namesOf.all (fun n =>
      let scopes := ((sites.filter fun s => s.2.2.1 == n && !isParam s.2.2.2).map fun s => scopeClass s.2.2.2).eraseDups
      scopes.length ≤ 1) = true ∧
    sites.all (fun s => !"unknown:".toList.isPrefixOf s.2.2.1.toList) = true ∧
    -- every cookie that is set somewhere is also cleared somewhere, except the login counter (it lapses with its Max-Age)
    (namesOf.filter fun n => !(sites.any fun s => s.2.2.1 == n && s.2.1 == "clear")) = ["cookie.LoginCount"] := by
  decide +kernel

/-! ## the jar: a clear with the set-time scope really removes the cookie -/

/-- all cookies wonderwall emits for one name carry that name's one scope (domain, path) — the content of `clear_scope_matches_set_scope` -/
def Scoped (scope : String → String × String) (sc : SetCookie) : Prop := (sc.domain, sc.path) = scope sc.name

def JarScoped (host : String) (scope : String → String × String) (jar : List JarCookie) : Prop :=
  ∀ c ∈ jar, c.path = (scope c.name).2 ∧ c.hostOnly = ((scope c.name).1 == "") ∧
    c.domain = (if (scope c.name).1 != "" then (trimDot (scope c.name).1).toLower else host.toLower)

theorem store_scoped (host : String) (scope : String → String × String) (jar : List JarCookie) (now : Int) (https : Bool) (sc : SetCookie)
    (hj : JarScoped host scope jar) (hs : Scoped scope sc) : JarScoped host scope (jarStore jar now https host sc) := by
  unfold jarStore
  cases htc : toJarCookie now https host sc with
  | none => exact hj
  | some jc =>
    have hjc : jc.name = sc.name ∧ jc.path = sc.path ∧ jc.hostOnly = (sc.domain == "") ∧
        jc.domain = (if sc.domain != "" then (trimDot sc.domain).toLower else host.toLower) := by
      unfold toJarCookie at htc
      split at htc; · cases htc
      split at htc; · cases htc
      injection htc with htc; subst htc; exact ⟨rfl, rfl, rfl, rfl⟩
    unfold Scoped at hs
    have hd : sc.domain = (scope sc.name).1 := by rw [← hs]
    have hp : sc.path = (scope sc.name).2 := by rw [← hs]
    have hnew : jc.path = (scope jc.name).2 ∧ jc.hostOnly = ((scope jc.name).1 == "") ∧
        jc.domain = (if (scope jc.name).1 != "" then (trimDot (scope jc.name).1).toLower else host.toLower) := by
      rw [hjc.1, ← hd, ← hp]; exact ⟨hjc.2.1, hjc.2.2.1, hjc.2.2.2⟩
    simp only []
    split
    · intro c hc; exact hj c (List.mem_filter.mp hc).1
    · intro c hc
      rcases List.mem_append.mp hc with h | h
      · exact hj c (List.mem_filter.mp h).1
      · simp at h; subst h; exact hnew

/-- **C14 (jar).** In a jar that only ever received consistently scoped cookies, processing an accepted clearing cookie for `n` leaves no cookie named `n` -/
theorem clear_removes (host : String) (scope : String → String × String) (jar : List JarCookie) (now : Int) (https : Bool) (sc : SetCookie)
    (hj : JarScoped host scope jar) (hs : Scoped scope sc) (hdel : isDelete sc = true) (hacc : (toJarCookie now https host sc).isSome = true) :
    ∀ c ∈ jarStore jar now https host sc, c.name ≠ sc.name := by
  unfold jarStore
  cases htc : toJarCookie now https host sc with
  | none => simp [htc] at hacc
  | some jc =>
    simp only [hdel, if_true]
    intro c hc hname
    obtain ⟨hmem, hk⟩ := List.mem_filter.mp hc
    have hcs := hj c hmem
    have hjc : jc.name = sc.name ∧ jc.path = sc.path ∧ jc.hostOnly = (sc.domain == "") ∧
        jc.domain = (if sc.domain != "" then (trimDot sc.domain).toLower else host.toLower) := by
      unfold toJarCookie at htc
      split at htc; · cases htc
      split at htc; · cases htc
      injection htc with htc; subst htc; exact ⟨rfl, rfl, rfl, rfl⟩
    unfold Scoped at hs
    have hd : sc.domain = (scope sc.name).1 := by rw [← hs]
    have hp : sc.path = (scope sc.name).2 := by rw [← hs]
    have : c.sameKey jc = true := by
      unfold JarCookie.sameKey
      rw [hname] at hcs
      simp [hjc.1, hname, hcs.1, hjc.2.1, hp, hcs.2.1, hjc.2.2.1, hd, hcs.2.2, hjc.2.2.2]
    simp [this] at hk

/-- history form: after any sequence of consistently scoped Set-Cookies that ends with an accepted clear of `n`, the jar holds no cookie named `n` -/
theorem history_clear (host : String) (scope : String → String × String) (now : Int) (https : Bool) (hist : List SetCookie) (last : SetCookie)
    (hh : ∀ sc ∈ hist, Scoped scope sc) (hl : Scoped scope last) (hdel : isDelete last = true) (hacc : (toJarCookie now https host last).isSome = true) :
    ∀ c ∈ jarStore (hist.foldl (fun j sc => jarStore j now https host sc) []) now https host last, c.name ≠ last.name := by
  apply clear_removes host scope _ now https last _ hl hdel hacc
  have : ∀ (l : List SetCookie) (j : List JarCookie), (∀ sc ∈ l, Scoped scope sc) → JarScoped host scope j →
      JarScoped host scope (l.foldl (fun j sc => jarStore j now https host sc) j) := by
    intro l
    induction l with
    | nil => intro j _ hj; exact hj
    | cons x xs ih =>
      intro j hl hj
      exact ih _ (fun sc h => hl sc (List.mem_cons_of_mem _ h)) (store_scoped host scope j now https x hj (hl x List.mem_cons_self))
  exact this hist [] hh (by intro c hc; cases hc)

-- non-vacuity: make / clear with the same options are scoped alike, the clear is a delete, and a browser on that host accepts it
example : let o : CookieOpts := { path := "/app", secure := false }
    Scoped (fun _ => ("", "/app")) (makeCookie "s" "v" o) ∧ Scoped (fun _ => ("", "/app")) (clearCookie "s" o) ∧
    isDelete (clearCookie "s" o) = true ∧ (toJarCookie 0 false "host" (clearCookie "s" o)).isSome = true := by
  refine ⟨rfl, rfl, rfl, ?_⟩
  simp [toJarCookie, clearCookie]

end Ww.Proofs.C14
