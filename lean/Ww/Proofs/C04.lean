import Ww.Proofs.C04Lemmas
/-!
# C04 — Redirects issued by wonderwall never leave the application's allowed origins

The theorems are about the composition the code performs:
`redirect parameter → url.Parse → (clear scheme/host) → URL.String → validator → (cookie) → validator → http.Redirect → browser`.
-/
namespace Ww.Proofs.C04
open Ww.Model Ww.Model.Url Ww.Model.Redirect Ww.Model.Browser Ww.Proofs.C04L

/-- a relative redirect target as wonderwall hands it to net/http: one leading slash, no control bytes, no backslash before the query -/
def SafeRel (E : Str) : Prop :=
  ∃ t, E = '/' :: t ∧ t.head? ≠ some '/' ∧ E.any isCTL = false ∧ '\\' ∉ (cut '?' E).1

/-- a Location header a browser keeps on the current origin: "/" followed by neither "/" nor "\", no TAB/LF/CR anywhere -/
def SafeLoc (L : Str) : Prop :=
  ∃ t, L = '/' :: t ∧ t.head? ≠ some '/' ∧ t.head? ≠ some '\\' ∧ ∀ c ∈ L, isTabNl c = false

/-! ## the browser -/

theorem dropWhile_snoc_ne_nil (p : Char → Bool) (a : Str) (x : Char) (h : p x = false) : (a ++ [x]).dropWhile p ≠ [] := by
  induction a with
  | nil => simp [List.dropWhile, h]
  | cons c a ih =>
    simp only [List.cons_append, List.dropWhile_cons]
    split
    · exact ih
    · simp

theorem stripEnd_rooted (t : Str) : ∃ t', ((('/' :: t).reverse.dropWhile isC0Space).reverse) = '/' :: t' ∧ t' <+: t := by
  have hsuf : (('/' :: t).reverse.dropWhile isC0Space) <:+ ('/' :: t).reverse := List.dropWhile_suffix _
  have hpre : (('/' :: t).reverse.dropWhile isC0Space).reverse <+: ('/' :: t) := by
    have := List.reverse_prefix.mpr hsuf
    simpa using this
  have hne : (('/' :: t).reverse.dropWhile isC0Space) ≠ [] := by
    rw [List.reverse_cons]
    exact dropWhile_snoc_ne_nil _ _ _ (by decide)
  obtain ⟨suf, hs⟩ := hpre
  cases hr : (('/' :: t).reverse.dropWhile isC0Space).reverse with
  | nil => rw [List.reverse_eq_nil_iff] at hr; exact absurd hr hne
  | cons c r =>
    rw [hr] at hs
    simp at hs
    refine ⟨r, by rw [hs.1], ⟨suf, hs.2⟩⟩

/-- **browser**: a Location of that shape resolves inside the origin of the request URL, whatever the base scheme -/
theorem browse_safeLoc (base L : Str) (h : SafeLoc L) : browse base L = .same := by
  obtain ⟨t, hL, h1, h2, h3⟩ := h
  subst hL
  obtain ⟨t', hstrip, hpre⟩ := stripEnd_rooted t
  have hclean : cleanInput ('/' :: t) = '/' :: t' := by
    unfold cleanInput
    have hd : ('/' :: t).dropWhile isC0Space = '/' :: t := by
      rw [List.dropWhile_cons_of_neg]; decide
    rw [hd, hstrip]
    apply List.filter_eq_self.mpr
    intro c hc
    have hmem : c ∈ '/' :: t := by
      rcases List.mem_cons.mp hc with h | h
      · rw [h]; exact List.mem_cons_self
      · exact List.mem_cons_of_mem _ (hpre.subset h)
    simp [h3 c hmem]
  unfold browse
  simp only [hclean]
  have hs : schemeOf ('/' :: t') = none := by simp [schemeOf, isAlpha]
  rw [hs]
  simp only
  unfold relRef
  cases t' with
  | nil => rfl
  | cons d r =>
    obtain ⟨suf, hsuf⟩ := hpre
    rw [← hsuf] at h1 h2
    simp at h1 h2
    simp [Browser.isSep, h1, h2]

/-! ## net/http's rewriting -/

theorem lowerhex_not_tabnl (n : Nat) (h : n < 16) : isTabNl (lowerhex n) = false := by
  have : ∀ n, n < 16 → isTabNl (lowerhex n) = false := by decide
  exact this n h

theorem hexEsc_safeLoc (t : Str) (h1 : t.head? ≠ some '/') (h2 : t.head? ≠ some '\\') (h3 : ∀ c ∈ '/' :: t, isTabNl c = false) :
    SafeLoc (hexEscapeNonASCII ('/' :: t)) := by
  have hcons : hexEscapeNonASCII ('/' :: t) = '/' :: hexEscapeNonASCII t := by
    unfold hexEscapeNonASCII
    rw [List.flatMap_cons]
    have : ¬ ('/' : Char).toNat ≥ 128 := by decide
    simp [this]
  refine ⟨hexEscapeNonASCII t, hcons, ?_, ?_, ?_⟩
  · cases t with
    | nil => simp [hexEscapeNonASCII]
    | cons c r =>
      simp at h1
      unfold hexEscapeNonASCII
      rw [List.flatMap_cons]
      split <;> simp [h1]
  · cases t with
    | nil => simp [hexEscapeNonASCII]
    | cons c r =>
      simp at h2
      unfold hexEscapeNonASCII
      rw [List.flatMap_cons]
      split <;> simp [h2]
  · intro x hx
    unfold hexEscapeNonASCII at hx
    rcases List.mem_flatMap.mp hx with ⟨c, hc, hxc⟩
    split at hxc
    · simp at hxc
      rcases hxc with h | h | h
      · rw [h]; decide
      · rw [h]; exact lowerhex_not_tabnl _ (Nat.mod_lt _ (by decide))
      · rw [h]; exact lowerhex_not_tabnl _ (Nat.mod_lt _ (by decide))
    · simp at hxc; rw [hxc]; exact h3 c hc

theorem ctl_tabnl (c : Char) (h : isCTL c = false) : isTabNl c = false := by
  unfold isCTL at h
  unfold isTabNl
  simp at h ⊢
  refine ⟨⟨?_, ?_⟩, ?_⟩ <;> (intro hc; subst hc; revert h; decide)

theorem safeRel_second (E t : Str) (hE : E = '/' :: t) (hb : '\\' ∉ (cut '?' E).1) : t.head? ≠ some '\\' := by
  subst hE
  cases t with
  | nil => simp
  | cons c r =>
    simp
    intro hc
    subst hc
    apply hb
    rw [cut_cons_ne _ _ _ (by decide), cut_cons_ne _ _ _ (by decide)]
    simp

theorem rewriteRooted_shape (t : Str) (ht : t.head? ≠ some '/') (hb : '\\' ∉ (cut '?' ('/' :: t)).1)
    (hc : ∀ c ∈ '/' :: t, isTabNl c = false) :
    ∃ r, rewriteRooted ('/' :: t) = '/' :: r ∧ r.head? ≠ some '/' ∧ r.head? ≠ some '\\' ∧ ∀ c ∈ '/' :: r, isTabNl c = false := by
  have hspec := cut_spec '?' ('/' :: t)
  have hp : (cut '?' ('/' :: t)).1 = '/' :: (cut '?' t).1 := cut_cons_ne _ _ _ (by decide)
  unfold rewriteRooted
  simp only [hp, List.drop_succ_cons, List.drop_zero]
  unfold cleanRootedStr
  -- every segment of the cleaned path comes from the part of the target before its first `?`
  have hseg : ∀ s ∈ cleanRooted (cut '?' t).1, s ≠ [] ∧ ∀ c ∈ s, c ∈ '/' :: t ∧ c ≠ '/' ∧ c ≠ '\\' := by
    intro s hs
    obtain ⟨h1, h2⟩ := cleanRooted_seg _ s hs
    refine ⟨h1, fun c hcs => ?_⟩
    obtain ⟨hm, hne⟩ := h2 c hcs
    have hin : c ∈ (cut '?' ('/' :: t)).1 := by rw [hp]; exact List.mem_cons_of_mem _ hm
    refine ⟨cut_fst_mem _ _ _ hin, hne, ?_⟩
    intro hcb; subst hcb; exact hb hin
  have hquery : ∀ c ∈ (if (cut '?' ('/' :: t)).2.2 = true then '?' :: (cut '?' ('/' :: t)).2.1 else []), isTabNl c = false := by
    intro c hcq
    split at hcq
    · rename_i hf
      rw [if_pos hf] at hspec
      rcases List.mem_cons.mp hcq with h | h
      · rw [h]; decide
      · exact hc c (by rw [hspec]; exact List.mem_append_right _ (List.mem_cons_of_mem _ h))
    · cases hcq
  have hjoin : ∀ c ∈ joinSlash (cleanRooted (cut '?' t).1), isTabNl c = false := by
    intro c hcj
    rcases joinSlash_mem _ c hcj with h | ⟨s, hs, hcs⟩
    · rw [h]; decide
    · exact hc c ((hseg s hs).2 c hcs).1
  refine ⟨joinSlash (cleanRooted (cut '?' t).1) ++
      (if endsWith ['/'] ('/' :: (cut '?' t).1) ∧ !endsWith ['/'] ('/' :: joinSlash (cleanRooted (cut '?' t).1)) then ['/'] else []) ++
      (if (cut '?' ('/' :: t)).2.2 = true then '?' :: (cut '?' ('/' :: t)).2.1 else []), ?_, ?_, ?_, ?_⟩
  · split <;> simp
  · cases hsegs : cleanRooted (cut '?' t).1 with
    | nil =>
      simp only [joinSlash, List.nil_append]
      have : endsWith ['/'] ['/'] = true := by decide
      simp only [this, Bool.not_true, Bool.false_eq_true, and_false, if_false, List.nil_append]
      split <;> simp
    | cons s ss =>
      obtain ⟨hne, hch⟩ := hseg s (by rw [hsegs]; exact List.mem_cons_self)
      rw [List.append_assoc, List.head?_append, joinSlash_head s ss hne]
      cases s with
      | nil => exact absurd rfl hne
      | cons a r => simp; exact (hch a List.mem_cons_self).2.1
  · cases hsegs : cleanRooted (cut '?' t).1 with
    | nil =>
      simp only [joinSlash, List.nil_append]
      have : endsWith ['/'] ['/'] = true := by decide
      simp only [this, Bool.not_true, Bool.false_eq_true, and_false, if_false, List.nil_append]
      split <;> simp
    | cons s ss =>
      obtain ⟨hne, hch⟩ := hseg s (by rw [hsegs]; exact List.mem_cons_self)
      rw [List.append_assoc, List.head?_append, joinSlash_head s ss hne]
      cases s with
      | nil => exact absurd rfl hne
      | cons a r => simp; exact (hch a List.mem_cons_self).2.2
  · intro c hcm
    rcases List.mem_cons.mp hcm with h | h
    · rw [h]; decide
    · rcases List.mem_append.mp h with h1 | h1
      · rcases List.mem_append.mp h1 with h2 | h2
        · exact hjoin c h2
        · split at h2
          · simp at h2; rw [h2]; decide
          · cases h2
      · exact hquery c h1

/-- **net/http**: what `http.Redirect` puts into Location for such a target is a SafeLoc, for every request path -/
theorem httpRedirect_safe (reqPath E : Str) (h : SafeRel E) : SafeLoc (httpRedirect reqPath E) := by
  obtain ⟨t, hE, ht, hctl, hb⟩ := h
  subst hE
  have htab : ∀ c ∈ '/' :: t, isTabNl c = false := by
    intro c hc
    apply ctl_tabnl
    have := List.any_eq_false.mp hctl c hc
    simpa using this
  have hplain : SafeLoc (hexEscapeNonASCII ('/' :: t)) := hexEsc_safeLoc t ht (safeRel_second _ t rfl hb) htab
  unfold httpRedirect
  split
  · split
    · simp only [List.head?_cons, ne_eq, not_true_eq_false, if_false]
      obtain ⟨r, hr, h1, h2, h3⟩ := rewriteRooted_shape t ht hb htab
      rw [hr]
      exact hexEsc_safeLoc r h1 h2 h3
    · exact hplain
  · exact hplain

/-! ## standalone mode: the chain from the redirect parameter to the browser -/

/-- whatever `redirect` parameter is sent, what StandaloneRedirect.Canonical returns is a SafeRel (given that the ingress path fallback is) -/
theorem canonical_aux (red fb : URL) (hop : startsWith ['/'] red.opaq = false) (hfb : SafeRel (toStr fb)) :
    SafeRel (clean relValid (toStr { red with scheme := [], host := [] }) fb) := by
  unfold clean
  by_cases hv : relValid (toStr { red with scheme := [], host := [] }) = true
  · rw [if_pos hv]
    obtain ⟨t, hE, ht, hctl⟩ := relValid_shape _ hv
    exact ⟨t, hE, ht, hctl, cleared_no_backslash _ rfl rfl hop t hE ht⟩
  · rw [if_neg hv]; exact hfb

theorem standaloneCanonical_safe (ip target : Str) (hfb : SafeRel (toStr (matchingPath ip))) : SafeRel (standaloneCanonical ip target) := by
  unfold standaloneCanonical
  apply canonical_aux _ _ _ hfb
  split
  · rename_i u hu; exact parseURL_opaq _ _ hu
  · rfl

/-- re-validation of a value carried in the login / logout cookie keeps the shape -/
theorem standaloneClean_safe (ip X : Str) (hX : SafeRel X) (hfb : SafeRel (toStr (matchingPath ip))) : SafeRel (standaloneClean ip X) := by
  unfold standaloneClean clean
  split
  · exact hX
  · exact hfb

/-- **C04, standalone, login callback / logout callback.** For EVERY value of the `redirect` parameter, every request path and either base
    scheme: the Location that net/http emits for the re-validated, cookie-carried canonical redirect keeps the browser on the request's origin. -/
theorem standalone_redirect_stays (ip target reqPath base : Str) (hfb : SafeRel (toStr (matchingPath ip))) :
    browse base (httpRedirect reqPath (standaloneClean ip (standaloneCanonical ip target))) = .same :=
  browse_safeLoc _ _ (httpRedirect_safe _ _ (standaloneClean_safe ip _ (standaloneCanonical_safe ip target hfb) hfb))

/-- the same for a value that was canonicalised under another ingress path `ip'` (the cookie is shared between path prefixes of one host) -/
theorem standalone_redirect_stays_mixed (ip ip' target reqPath base : Str) (hfb : SafeRel (toStr (matchingPath ip)))
    (hfb' : SafeRel (toStr (matchingPath ip'))) :
    browse base (httpRedirect reqPath (standaloneClean ip (standaloneCanonical ip' target))) = .same :=
  browse_safeLoc _ _ (httpRedirect_safe _ _ (standaloneClean_safe ip _ (standaloneCanonical_safe ip' target hfb') hfb))

/-- the fallbacks are safe for the root ingress and for a typical path prefix (non-vacuity of the hypothesis) -/
theorem fallback_root_safe : SafeRel (toStr (matchingPath [])) := by
  have : toStr (matchingPath []) = ['/'] := by decide
  rw [this]
  exact ⟨[], rfl, by decide, by decide, by decide⟩

-- the validator alone is NOT enough: it accepts a raw backslash target, which a browser reads as `//evil.com`; the property holds because
-- only `URL.String()` output (never containing a raw backslash before the query) is ever validated, stored and emitted  (tests, by evaluation)
#guard relValid "/\\evil.com".toList = true ∧ browse "https".toList "/\\evil.com".toList = .abs "https".toList "evil.com".toList []
#guard standaloneCanonical [] "/\\evil.com".toList = "/%5Cevil.com".toList
#guard standaloneCanonical [] "https://evil.com/a/../b?x=y#z".toList = "/".toList
#guard standaloneCanonical [] "https://evil.com/a/b?x=y#z".toList = "/a/b?x=y#z".toList
#guard toStr (matchingPath "/sub".toList) = "/sub".toList

end Ww.Proofs.C04
