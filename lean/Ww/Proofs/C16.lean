import Ww.Model.Router
import Ww.Model.Sys
import Ww.Gen.Facts
/-!
# C16 — SSO proxy is a read-only delegate; SSO server trusts only its own domain
-/
namespace Ww.Proofs.C16
open Ww.Model Ww.Gen.Facts

/-- **CORS.** Whatever `Origin` string arrives, credentialed access is granted only if it is (case-insensitively) `https://` followed by
    the SSO domain itself or by something ending in `.` + the SSO domain. In particular: https only, no port, no look-alike suffix
    (`evil-example.com`), no prefix trick (`example.com.evil.io`). -/
theorem cors_only_own_domain (ssoDomain origin : List Char) (h : corsAllows ssoDomain origin = true) :
    ∃ host, lower origin = "https://".toList ++ host ∧
      (host = lower (trimLeadingDot ssoDomain) ∨ ∃ sub, host = sub ++ '.' :: lower (trimLeadingDot ssoDomain)) := by
  unfold corsAllows at h
  simp only [Bool.or_eq_true, Bool.and_eq_true, beq_iff_eq, decide_eq_true_eq] at h
  rcases h with h | ⟨⟨hlen, hpre⟩, hsuf⟩
  · exact ⟨_, h, Or.inl rfl⟩
  · obtain ⟨rest, hrest⟩ := List.isPrefixOf_iff_prefix.mp hpre
    obtain ⟨front, hfront⟩ := List.isSuffixOf_iff_suffix.mp hsuf
    refine ⟨rest, hrest.symm, Or.inr ?_⟩
    -- the suffix lies entirely inside `rest` because the whole string is at least as long as prefix + suffix
    have hl : (lower origin).length = "https://".toList.length + rest.length := by rw [← hrest]; simp; omega
    have hl2 : (lower origin).length = front.length + ('.' :: lower (trimLeadingDot ssoDomain)).length := by rw [← hfront]; simp
    have hge : front.length ≥ "https://".toList.length := by omega
    have heq : "https://".toList ++ rest = front ++ '.' :: lower (trimLeadingDot ssoDomain) := by rw [hrest, hfront]
    obtain ⟨mid, hmid⟩ : ∃ mid, front = "https://".toList ++ mid := by
      have := List.append_eq_append_iff.mp heq
      rcases this with ⟨a', h1, h2⟩ | ⟨c', h1, h2⟩
      · exact ⟨a', h1⟩
      · have : c' = [] := by
          have hlen' : "https://".toList.length = front.length + c'.length := by rw [h1]; simp
          have : c'.length = 0 := by omega
          exact List.eq_nil_of_length_eq_zero this
        subst this
        exact ⟨[], by simpa using h1.symm⟩
    refine ⟨mid, ?_⟩
    rw [hmid, List.append_assoc] at heq
    exact List.append_cancel_left heq

/-- http origins, other domains and look-alikes are refused (tests on concrete strings) -/
example : corsAllows "example.com".toList "http://example.com".toList = false ∧
          corsAllows ".example.com".toList "https://evil-example.com".toList = false ∧
          corsAllows "example.com".toList "https://example.com.evil.io".toList = false ∧
          corsAllows "example.com".toList "https://app.example.com:8443".toList = false ∧
          corsAllows ".Example.com".toList "https://APP.example.com".toList = true := by decide

/-- **SSO proxy, structurally** (over the regenerated facts): the proxy type holds a session *Reader* only — no session manager, no OpenID
    client, no crypter for minting — and its constructor builds neither a manager nor a client. -/
theorem proxy_has_no_writer :
    ssoProxyFields.all (fun (_, ty) => !(["session.Manager", "session.Writer", "session.Store", "*openidclient.Client", "openidclient.Client"].contains ty)) = true ∧
    (ssoProxyCalls.all fun (_, calls) => calls.all fun c =>
      !(["session.NewManager", "openidclient.NewClient", "session.NewStore", "session.NewRedis", "session.NewMemory"].contains c)) = true := by decide +kernel

/-- no method of the SSO proxy calls a store-mutating or provider-contacting operation by name -/
theorem proxy_methods_read_only :
    (ssoProxyCalls.all fun (_, calls) => calls.all fun c =>
      !(c.endsWith ".Create" || c.endsWith ".Delete" || c.endsWith ".DeleteForExternalID" || c.endsWith ".Refresh" || c.endsWith ".GetOrRefresh" ||
        c.endsWith ".RefreshGrant" || c.endsWith ".AuthCodeGrant" || c.endsWith ".LoginCallback" && c != "url.LoginCallback" || c.endsWith ".Write" || c.endsWith ".Update")) = true := by
  decide +kernel

/-- the SSO server's wildcard route only redirects: it never reaches an upstream proxy -/
theorem server_wildcard_redirects :
    (ssoServerCalls.filter (fun (n, _) => n == "SSOServer.Wildcard")).map (·.2) = [["http.Redirect"]] := by decide +kernel

/-- **SSO proxy, behaviourally** (handler model): a proxied request in SSO-proxy mode never contacts the provider and never changes the store -/
theorem proxy_mode_read_only (cfg : Cfg) (hm : cfg.mode = .ssoProxy) (ck : CookieSt) (st : StoreSt) (plan : IdpPlan) (a r : String) (ign : Bool) (now : Int) :
    (proxy cfg ck st plan a r ign now).contacted = false ∧ (proxy cfg ck st plan a r ign now).store = st := by
  have hg : (getSession cfg ck st plan a r now).contacted = false ∧ (getSession cfg ck st plan a r now).store = st := by
    unfold getSession
    simp [hm]
    split <;> exact ⟨rfl, rfl⟩
  unfold proxy proxyUnauth
  dsimp only
  repeat' split
  all_goals exact hg

end Ww.Proofs.C16
