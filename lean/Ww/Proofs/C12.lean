import Ww.Model.Glob
import Ww.Model.Sys
/-!
# C12 — With auto-login on, only ignored paths reach the upstream unauthenticated

`Matches` is the documented pattern semantics, stated declaratively; the executable matcher is proved equal to it for
all patterns and all paths. The auto-login decision is then a statement about `Matches` on the cleaned path.
-/
namespace Ww.Proofs.C12
open Ww.Model

/-- one segment: `*` stands for any run of characters of that segment (it cannot cross a `/`: segments contain none) -/
inductive SegMatches : List Char → List Char → Prop where
  | nil : SegMatches [] []
  | star (p pre n full : List Char) : full = pre ++ n → SegMatches p n → SegMatches ('*' :: p) full
  | char (c : Char) (p n : List Char) : c ≠ '*' → SegMatches p n → SegMatches (c :: p) (c :: n)

/-- whole pattern: a `**` segment spans zero or more whole segments; any other segment matches exactly one segment -/
inductive Matches : List Seg → List Seg → Prop where
  | nil : Matches [] []
  | globstar (ps pre n full : List Seg) : full = pre ++ n → Matches ps n → Matches (globstar :: ps) full
  | seg (p : Seg) (ps : List Seg) (s : Seg) (ns : List Seg) : p ≠ globstar → SegMatches p s → Matches ps ns → Matches (p :: ps) (s :: ns)

theorem segMatch_correct (p n : List Char) : segMatch p n = true ↔ SegMatches p n := by
  induction p generalizing n with
  | nil =>
    cases n with
    | nil => simp [segMatch]; exact .nil
    | cons a n => simp [segMatch]; intro h; cases h
  | cons c p ih =>
    unfold segMatch
    by_cases hc : c = '*'
    · subst hc
      simp only [if_true, List.any_eq_true]
      constructor
      · rintro ⟨s, hs, hm⟩
        obtain ⟨pre, hpre⟩ := (mem_suffixes s n).mp hs
        exact .star p pre s n hpre.symm ((ih s).mp hm)
      · intro h
        cases h with
        | star _ pre n' _ heq h' => exact ⟨n', (mem_suffixes n' _).mpr ⟨pre, heq.symm⟩, (ih n').mpr h'⟩
        | char _ _ _ hne _ => exact absurd rfl hne
    · simp only [hc, if_false]
      cases n with
      | nil => simp; intro h; cases h; contradiction
      | cons d n' =>
        simp only [Bool.and_eq_true, beq_iff_eq]
        constructor
        · rintro ⟨hcd, hm⟩
          subst hcd
          exact .char c p n' hc ((ih n').mp hm)
        · intro h
          cases h with
          | star _ _ _ _ _ _ => contradiction
          | char _ _ _ _ h' => exact ⟨rfl, (ih n').mpr h'⟩

/-- **glob correctness**: the executable matcher decides exactly the documented relation, for every pattern and every path -/
theorem globMatch_correct (ps ns : List Seg) : globMatch ps ns = true ↔ Matches ps ns := by
  induction ps generalizing ns with
  | nil =>
    cases ns with
    | nil => simp [globMatch]; exact .nil
    | cons a n => simp [globMatch]; intro h; cases h
  | cons p ps ih =>
    unfold globMatch
    by_cases hp : p = globstar
    · subst hp
      simp only [if_true, List.any_eq_true]
      constructor
      · rintro ⟨s, hs, hm⟩
        obtain ⟨pre, hpre⟩ := (mem_suffixes s ns).mp hs
        exact .globstar ps pre s ns hpre.symm ((ih s).mp hm)
      · intro h
        cases h with
        | globstar _ pre n' _ heq h' => exact ⟨n', (mem_suffixes n' _).mpr ⟨pre, heq.symm⟩, (ih n').mpr h'⟩
        | seg _ _ _ _ hne _ _ => exact absurd rfl hne
    · simp only [hp, if_false]
      cases ns with
      | nil => simp; intro h; cases h; contradiction
      | cons s ns' =>
        simp only [Bool.and_eq_true]
        constructor
        · rintro ⟨h1, h2⟩
          exact .seg p ps s ns' hp ((segMatch_correct p s).mp h1) ((ih ns').mp h2)
        · intro h
          cases h with
          | globstar _ _ _ _ _ _ => contradiction
          | seg _ _ _ _ _ h1 h2 => exact ⟨(segMatch_correct p s).mpr h1, (ih ns').mpr h2⟩

/-- `*` stays within one path segment: a pattern without a `**` segment matches only paths with the same number of segments -/
theorem star_within_segment (ps ns : List Seg) (h : Matches ps ns) (hno : ∀ p ∈ ps, p ≠ globstar) : ps.length = ns.length := by
  induction h with
  | nil => rfl
  | globstar ps pre n full _ _ _ => exact absurd rfl (hno globstar List.mem_cons_self)
  | seg p ps s ns _ _ _ ih => simp; exact ih (fun q hq => hno q (List.mem_cons_of_mem _ hq))

/-- `**` spans segments: a trailing `**` matches everything below (and including) the prefix it follows -/
theorem globstar_spans (ns : List Seg) : Matches [globstar] ns :=
  .globstar [] ns [] ns (by simp) .nil

/-- **C12 (decision).** With auto-login on, an unauthenticated request is let through only if some configured pattern matches,
    in the documented sense, the request path after `path.Clean` (dot segments, doubled and trailing slashes removed) -/
theorem unauthenticated_passes_only_if_ignored (patterns : List (List Char)) (urlPath : List Char)
    (h : needsLogin true patterns urlPath false = false) :
    ∃ p ∈ patterns, Matches (splitSlash p) (splitSlash (loginPath urlPath)) := by
  unfold needsLogin at h
  simp at h
  obtain ⟨p, hp, hm⟩ := h
  exact ⟨p, hp, (globMatch_correct _ _).mp hm⟩

/-- and conversely a matching pattern always lets the request through untouched by auto-login -/
theorem ignored_passes (patterns : List (List Char)) (urlPath : List Char) (p : List Char) (hp : p ∈ patterns)
    (hm : Matches (splitSlash p) (splitSlash (loginPath urlPath))) : needsLogin true patterns urlPath false = false := by
  unfold needsLogin
  simp
  exact ⟨p, hp, (globMatch_correct _ _).mpr hm⟩

/-- the path that is matched never contains a dot segment: `/public/../admin` is matched as `/admin` -/
theorem matched_path_has_no_dot_segments (urlPath : List Char) :
    ∃ segs, loginPath urlPath = '/' :: joinSlash segs ∧ ∀ s ∈ segs, isDotSeg s = false := by
  unfold loginPath cleanRootedStr
  exact ⟨_, rfl, cleanRooted_nodot _⟩

/-- handler level (Ww.Model.proxy): with auto-login on, a request that is NOT authenticated reaches the upstream only if `ignored` -/
theorem proxy_forwards_unauthenticated_only_if_ignored (cfg : Cfg) (ck : CookieSt) (st : StoreSt) (plan : IdpPlan) (a r : String)
    (ign : Bool) (now : Int) (hal : cfg.autoLogin = true)
    (hf : (proxy cfg ck st plan a r ign now).forwarded = true) (hu : (proxy cfg ck st plan a r ign now).authenticated = false) : ign = true := by
  unfold proxy proxyUnauth at hf hu
  dsimp only at hf hu
  repeat' split at hf
  all_goals simp_all

-- the documented examples of docs/configuration.md (tests, labelled as tests)
example : matchStr "/public/**".toList "/public".toList = true ∧ matchStr "/public/**".toList "/public/a/b".toList = true ∧
          matchStr "/public/*".toList "/public".toList = false ∧ matchStr "/public/*".toList "/public/a/b".toList = false ∧
          matchStr "/any*".toList "/anything".toList = true ∧ matchStr "/any*".toList "/any/thing".toList = false ∧
          matchStr "/static/**/*.js".toList "/static/bundle.js".toList = true ∧ matchStr "/static/**/*.js".toList "/static/min/some.css".toList = false := by decide
-- the dot-segment bypass is closed: `/public/../admin` is matched as `/admin`
example : needsLogin true ["/public/**".toList] "/public/../admin".toList false = true := by decide
example : needsLogin true ["/public/**".toList] "/public/x/../y/".toList false = false := by decide

end Ww.Proofs.C12
