import Ww.Model.Cookie
import Ww.Gen.Consts
/-!
# C17 — Automatic retries and login bounces are bounded; no endless redirect loop
-/
namespace Ww.Proofs.C17
open Ww.Model

/-- the model's bound is the constant in pkg/handler/error.go -/
theorem bound_is_source_constant : maxAutoRetry = Ww.Gen.Consts.maxAutoRetryAttempts := by decide

/-- a cookie-keeping browser: the retry cookie it sends next is the one the last error response set -/
def failRun (status : Nat) : Option Int → Nat → List Bool
  | _, 0 => []
  | c, n + 1 => let (r, v) := retryStep c status; r :: failRun status (some v) n

/-- counter values a browser can hold: none, or what the server set (1, 2, 3, …) -/
def Reachable : Option Int → Prop
  | none => True
  | some v => 1 ≤ v

theorem step_reachable (c : Option Int) (status : Nat) (_h : Reachable c) : Reachable (some (retryStep c status).2) := by
  unfold retryStep Reachable at *
  cases c with
  | none => simp
  | some v => simp at _h ⊢; omega

/-- once the error page was rendered, every further failure renders it again (no redirect after a non-redirect) -/
theorem page_is_terminal (status : Nat) (c : Option Int) (h : Reachable c) (hr : (retryStep c status).1 = false) (hs : status ≠ 429) :
    (retryStep (some (retryStep c status).2) status).1 = false := by
  unfold retryStep maxAutoRetry at *
  cases c with
  | none => simp [hs] at hr
  | some v => simp [hs] at hr ⊢; omega

/-- how many redirects a counter state can still produce -/
def budget : Option Int → Nat
  | none => 3
  | some v => (3 - v).toNat

theorem retryStep_none (status : Nat) : retryStep none status = (status != 429, 1) := by simp [retryStep]
theorem retryStep_some (v : Int) (status : Nat) : retryStep (some v) status = (decide (v < 3) && status != 429, v + 1) := by unfold retryStep maxAutoRetry; rfl

theorem run_within_budget (status : Nat) (n : Nat) (c : Option Int) : ((failRun status c n).takeWhile id).length ≤ budget c := by
  induction n generalizing c with
  | zero => simp [failRun]
  | succ n ih =>
    cases c with
    | none =>
      simp only [failRun, retryStep_none]
      have := ih (some 1)
      cases hs : (status != 429) <;> simp [List.takeWhile, budget] at this ⊢
      omega
    | some v =>
      simp only [failRun, retryStep_some]
      have := ih (some (v + 1))
      cases hr : (decide (v < 3) && status != 429) <;> simp [List.takeWhile, budget] at this hr ⊢
      omega

/-- **C17 (retry bound).** Whatever keeps failing, a cookie-keeping browser starting from any reachable counter sees at most three automatic retry
    redirects in a row; the fourth consecutive failure (at the latest) renders the error page, and from then on only the error page -/
theorem at_most_three_redirects (status : Nat) (c : Option Int) (h : Reachable c) (n : Nat) :
    ((failRun status c n).takeWhile id).length ≤ 3 := by
  have := run_within_budget status n c
  have hb : budget c ≤ 3 := by
    unfold budget; cases c with
    | none => simp
    | some v => simp [Reachable] at h; simp; omega
  omega

/-- a rate-limited (429) response is never auto-retried -/
theorem no_retry_on_429 (c : Option Int) : (retryStep c 429).1 = false := by unfold retryStep; simp

/-- **rate limit.** A browser with a session sent to login again and again gets through exactly `logins` times, then 429, and the counter is
    not touched by the 429 (so it lapses `window` after the last counted attempt) -/
def loginRun (logins : Int) : Option Int → Nat → List Bool
  | _, 0 => []
  | c, n + 1 => let (lim, c') := rateLimitStep true logins c; lim :: loginRun logins c' n

theorem limited_stays_limited (logins k : Int) (hk : k ≥ logins) (n : Nat) : loginRun logins (some k) n = List.replicate n true := by
  induction n with
  | zero => simp [loginRun]
  | succ n ih => simp [loginRun, rateLimitStep, hk, ih, List.replicate_succ]

theorem rate_limit_after_n (logins k : Int) (m j : Nat) (hk : k + m = logins) :
    loginRun logins (some k) (m + j) = List.replicate m false ++ List.replicate j true := by
  induction m generalizing k with
  | zero => simp; exact limited_stays_limited logins k (by omega) j
  | succ m ih =>
    have hlt : ¬ k ≥ logins := by omega
    rw [show m + 1 + j = (m + j) + 1 by omega]
    simp only [loginRun, rateLimitStep]
    simp [hlt]
    rw [ih (k + 1) (by omega), List.replicate_succ]
    simp

/-- from no counter at all: exactly `logins` visits pass, every further one within the window is answered 429 -/
theorem rate_limit_from_fresh (logins : Nat) (j : Nat) :
    loginRun logins none (logins + j) = List.replicate logins false ++ List.replicate j true := by
  cases logins with
  | zero =>
    simp
    induction j with
    | zero => simp [loginRun]
    | succ j ih => simp [loginRun, rateLimitStep, ih, List.replicate_succ]
  | succ l =>
    rw [show l + 1 + j = (l + j) + 1 by omega]
    have hstep : rateLimitStep true ((l + 1 : Nat) : Int) none = (false, some 1) := by
      unfold rateLimitStep
      have : ¬ ((0 : Int) ≥ ((l + 1 : Nat) : Int)) := by omega
      simp [this]
    simp only [loginRun, hstep]
    rw [rate_limit_after_n ((l + 1 : Nat) : Int) 1 l j (by omega), List.replicate_succ]
    simp

theorem rate_limit_off (logins : Int) (c : Option Int) : (rateLimitStep false logins c).1 = false := by unfold rateLimitStep; simp

-- non-vacuity: no cookie → redirect, redirect, redirect, page, page
example : failRun 500 none 5 = [true, true, true, false, false] := by decide
example : loginRun 3 none 5 = [false, false, false, true, true] := by decide

end Ww.Proofs.C17
