import Ww.Model.Router
/-!
# C15 — Owned endpoints are never proxied, refuse scripted fetches and return no tokens

Statements over the route table REGENERATED from pkg/router/router.go (finite, so `decide` over the WHOLE table is a proof),
and over the routing function for every method, path, prefix list and configuration.
-/
namespace Ww.Proofs.C15
open Ww.Model Ww.Gen.Routes

def allCfgs : List RCfg := [⟨false, false, false⟩, ⟨false, false, true⟩, ⟨false, true, false⟩, ⟨false, true, true⟩,
                            ⟨true, false, false⟩, ⟨true, false, true⟩, ⟨true, true, false⟩, ⟨true, true, true⟩]

theorem allCfgs_complete (c : RCfg) : c ∈ allCfgs := by
  rcases c with ⟨a, b, d⟩; cases a <;> cases b <;> cases d <;> decide

/-- every guard in the table is one the model understands (otherwise the table is unsupported and this fails) -/
theorem table_guards_known :
    (table ++ mounts).all (fun e => e.conds.all (fun g => (condHolds ⟨false, false, false⟩ g).isSome) &&
                                    e.mws.all (fun (g, _) => (condHolds ⟨false, false, false⟩ g).isSome || g.contains '&')) = true := by decide +kernel

/-- the catch-all proxy route is registered exactly once, at top level; every other route with a `src.` handler lives under `<prefix>/oauth2` -/
theorem wildcard_only_toplevel :
    (table.filter (fun e => e.handler == "src.Wildcard")).map (fun e => (e.mount, e.pattern)) = [([], "/*")] ∧
    table.all (fun e => e.handler == "src.Wildcard" || e.mount.isEmpty || e.mount.head? == some "<prefix>/oauth2") = true ∧
    table.all (fun e => !e.mount.isEmpty || e.handler == "src.Wildcard" || (e.pattern == "/" && e.conds == ["cfg.SSO.IsServer()"])) = true ∧
    mounts.all (fun e => e.mount.head? == some "<prefix>/oauth2") = true := by decide +kernel

/-- **C15 (owned).** For every configuration, every list of ingress prefixes, every method and every request-target path in the
    `/oauth2` subtree of a configured prefix, routing ends in a wonderwall handler, 404 or 405 — never in the upstream proxy. -/
theorem owned_never_proxied (c : RCfg) (prefixes : List String) (p : String) (hp : p ∈ prefixes) (method path : String)
    (hu : underSubtree (p ++ "/oauth2") path = true) : route c prefixes method path ≠ .wildcard := by
  unfold route
  split
  · intro h; cases h
  cases hf : prefixes.find? (fun q => underSubtree (q ++ "/oauth2") path) with
  | none =>
    have := List.find?_eq_none.mp hf p hp
    simp [hu] at this
  | some q =>
    simp only []
    unfold routeIn
    simp only []
    split
    · intro h; cases h
    · split <;> (intro h; cases h)

/-- inside the subtree the handler reached is never `src.Wildcard` either -/
theorem owned_handler_not_wildcard : table.all (fun e => e.mount.isEmpty || e.handler != "src.Wildcard") = true := by decide +kernel

/-- every response generated under the subtree (handlers, 404 and 405 alike) passes through chi's NoCache middleware, in every configuration -/
theorem nocache_everywhere :
    allCfgs.all (fun c => (table.filter (fun e => !e.mount.isEmpty)).all (fun e => (e.activeMws c).contains "chi_middleware.NoCache") &&
                          mounts.all (fun e => (e.activeMws c).contains "chi_middleware.NoCache")) = true := by decide +kernel

/-- the interactive endpoints are wrapped by DisallowNonNavigationalRequests in every configuration -/
theorem interactive_guarded :
    allCfgs.all (fun c => (table.filter (fun e => e.active c && ["src.Login", "src.Logout", "src.LoginCallback", "src.LogoutCallback"].contains e.handler)).all
      (fun e => (e.activeMws c).contains "httpinternal.DisallowNonNavigationalRequests")) = true := by decide +kernel

/-- the guard: a browser request that carries Fetch metadata and is not a top-level navigation is answered 401 by the guard itself -/
theorem nonnav_blocked (method mode dest : String) (acc : Bool) (hm : mode ≠ "") (hd : dest ≠ "")
    (hn : ¬ (method = "GET" ∧ mode = "navigate" ∧ dest = "document")) : nonNavBlocked method mode dest acc = true := by
  unfold nonNavBlocked hasSecFetchMetadata isNavigation
  by_cases h1 : method = "GET" <;> simp [h1, hm, hd]
  by_cases h2 : mode = "navigate"
  · right; intro h3; exact hn ⟨h1, h2, h3⟩
  · left; exact h2

/-- and a genuine top-level navigation (or a client without Fetch metadata) is let through -/
theorem nav_passes (acc : Bool) : nonNavBlocked "GET" "navigate" "document" acc = false ∧ nonNavBlocked "GET" "" "" acc = false := by
  unfold nonNavBlocked hasSecFetchMetadata isNavigation; simp

-- non-vacuity / examples (tests, evaluated by #guard): concrete routing decisions
def isHandler (o : Outcome) (n : String) : Bool := match o with | .handler m _ => m == n | _ => false
def isNotFound (o : Outcome) : Bool := match o with | .notFound _ => true | _ => false
def isMNA (o : Outcome) : Bool := match o with | .methodNotAllowed _ => true | _ => false
#guard isHandler (route ⟨false, false, false⟩ ["", "/app"] "GET" "/app/oauth2/login") "src.Login"
#guard isNotFound (route ⟨false, false, false⟩ [""] "POST" "/oauth2/nope")
#guard isMNA (route ⟨false, false, false⟩ [""] "DELETE" "/oauth2/login")
#guard route ⟨false, false, false⟩ [""] "GET" "/oauth2x/login" == .wildcard

end Ww.Proofs.C15
