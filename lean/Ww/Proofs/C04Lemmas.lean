import Ww.Model.Redirect
import Ww.Model.Browser
/-!
# Helper lemmas for C04 (strings, net/url model, path.Clean, the browser model)
-/
namespace Ww.Proofs.C04L
open Ww.Model Ww.Model.Url Ww.Model.Redirect

/-! ## strings.Cut -/

theorem cut_spec (c : Char) (s : Str) :
    s = (cut c s).1 ++ (if (cut c s).2.2 then c :: (cut c s).2.1 else []) := by
  induction s with
  | nil => simp [cut]
  | cons d rest ih =>
    unfold cut
    by_cases h : d = c
    · simp [h]
    · simp only [h, if_false]
      by_cases hf : (cut c rest).2.2
      · simp only [hf, if_true] at ih ⊢
        rw [List.cons_append, ← ih]
      · simp only [hf] at ih ⊢
        simp at ih ⊢
        exact ih

theorem cut_not_mem (c : Char) (s : Str) : c ∉ (cut c s).1 := by
  induction s with
  | nil => simp [cut]
  | cons d rest ih =>
    unfold cut
    by_cases h : d = c
    · simp [h]
    · simp only [h, if_false]
      intro hm
      rcases List.mem_cons.mp hm with h1 | h1
      · exact h h1.symm
      · exact ih h1

theorem cut_fst_mem (c : Char) (s : Str) (x : Char) (h : x ∈ (cut c s).1) : x ∈ s := by
  have := cut_spec c s
  rw [this]
  exact List.mem_append_left _ h

theorem cut_cons_ne (c d : Char) (s : Str) (h : d ≠ c) : (cut c (d :: s)).1 = d :: (cut c s).1 := by
  simp [cut, h]

theorem cut_not_found (c : Char) (s : Str) (h : (cut c s).2.2 = false) : (cut c s).1 = s := by
  have := cut_spec c s
  simp [h] at this
  exact this.symm

/-! ## getScheme -/

theorem getSchemeGo_nil (acc s r : Str) (h : getSchemeGo acc s = some ([], r)) : r = acc.reverse ++ s := by
  induction s generalizing acc with
  | nil => simp [getSchemeGo] at h; simp [h]
  | cons c cs ih =>
    unfold getSchemeGo at h
    split at h
    · have := ih _ h; simp [this]
    · split at h
      · split at h
        · rename_i ha; simp at h; simp [ha, h]
        · have := ih _ h; simp [this]
      · split at h
        · split at h
          · cases h
          · rename_i ha; simp at h; exact absurd h.1 ha
        · simp at h; simp [h]

theorem getScheme_nil (raw r : Str) (h : getScheme raw = some ([], r)) : r = raw := by
  have := getSchemeGo_nil [] raw r h
  simpa using this

/-! ## escaping alphabets -/

theorem upperhex_ne_backslash (n : Nat) (h : n < 16) : upperhex n ≠ '\\' := by
  have : ∀ n, n < 16 → upperhex n ≠ '\\' := by decide
  exact this n h

theorem upperhex_not_tabnl (n : Nat) (h : n < 16) : upperhex n ≠ '\t' ∧ upperhex n ≠ '\n' ∧ upperhex n ≠ '\r' ∧ upperhex n ≠ '/' ∧ upperhex n ≠ '?' := by
  have : ∀ n, n < 16 → (upperhex n ≠ '\t' ∧ upperhex n ≠ '\n' ∧ upperhex n ≠ '\r' ∧ upperhex n ≠ '/' ∧ upperhex n ≠ '?') := by decide
  exact this n h

/-- a character that the path / fragment escaper leaves alone is not a backslash -/
theorem noEsc_ne_backslash (m : Mode) (c : Char) (h : shouldEscape c m = false) : c ≠ '\\' := by
  intro hc
  subst hc
  cases m <;> simp [shouldEscape, isAlnum, isAlpha, isDigit, hostExtra, unreservedMarks, reservedChars] at h

theorem escChar_no_backslash (m : Mode) (c x : Char) (h : x ∈ escChar m c) : x ≠ '\\' := by
  unfold escChar at h
  split at h
  · split at h
    · simp at h; rw [h]; decide
    · simp at h
      rcases h with h | h | h
      · rw [h]; decide
      · rw [h]; exact upperhex_ne_backslash _ (Nat.mod_lt _ (by decide))
      · rw [h]; exact upperhex_ne_backslash _ (Nat.mod_lt _ (by decide))
  · rename_i hs
    simp at h
    rw [h]
    exact noEsc_ne_backslash m c (by simpa using hs)

theorem escape_no_backslash (m : Mode) (s : Str) : '\\' ∉ escape m s := by
  intro h
  unfold escape at h
  rcases List.mem_flatMap.mp h with ⟨c, _, hc⟩
  exact escChar_no_backslash m c _ hc rfl

theorem validEncoded_no_backslash (m : Mode) (s : Str) (h : validEncoded m s = true) : '\\' ∉ s := by
  intro hm
  unfold validEncoded at h
  have := List.all_eq_true.mp h _ hm
  simp [validExtra] at this
  exact noEsc_ne_backslash m _ this rfl

theorem escapedPath_no_backslash (u : URL) : '\\' ∉ escapedPath u := by
  unfold escapedPath
  split
  · rename_i h; exact validEncoded_no_backslash _ _ h.2.1
  · split
    · simp
    · exact escape_no_backslash _ _

theorem escapedFragment_no_backslash (u : URL) : '\\' ∉ escapedFragment u := by
  unfold escapedFragment
  split
  · rename_i h; exact validEncoded_no_backslash _ _ h.2.1
  · exact escape_no_backslash _ _

/-! ## parse invariants -/

theorem setPath_fields (u u' : URL) (p : Str) (h : setPath u p = some u') :
    u'.opaq = u.opaq ∧ u'.scheme = u.scheme ∧ u'.host = u.host ∧ u'.user = u.user ∧ u'.omitHost = u.omitHost ∧ u'.rawQuery = u.rawQuery ∧
    u'.forceQuery = u.forceQuery ∧ u'.fragment = u.fragment ∧ u'.rawFragment = u.rawFragment ∧
    unescape .path p = some u'.path ∧ u'.rawPath = (if escape .path u'.path = p then [] else p) := by
  unfold setPath at h
  split at h
  · cases h
  · rename_i path hp
    injection h with h
    subst h
    simp [hp]

theorem setFragment_fields (u u' : URL) (f : Str) (h : setFragment u f = some u') :
    u'.opaq = u.opaq ∧ u'.scheme = u.scheme ∧ u'.host = u.host ∧ u'.user = u.user ∧ u'.omitHost = u.omitHost ∧ u'.rawQuery = u.rawQuery ∧
    u'.forceQuery = u.forceQuery ∧ u'.path = u.path ∧ u'.rawPath = u.rawPath := by
  unfold setFragment at h
  split at h
  · cases h
  · injection h with h
    subst h
    simp

/-- an Opaque part never starts with a slash -/
theorem parse_opaq (raw : Str) (v : Bool) (u : URL) (h : parse raw v = some u) : startsWith ['/'] u.opaq = false := by
  unfold parse at h
  split at h
  · cases h
  · split at h
    · cases h
    · split at h
      · injection h with h; subst h; rfl
      · split at h
        · cases h
        · dsimp only at h
          split at h
          · rename_i hc; injection h with h; subst h; simpa using hc.1
          · split at h
            · cases h
            · split at h
              · cases h
              · split at h
                · split at h
                  · cases h
                  · have := (setPath_fields _ _ _ h).1; rw [this]; rfl
                · split at h
                  · have := (setPath_fields _ _ _ h).1; rw [this]; rfl
                  · have := (setPath_fields _ _ _ h).1; rw [this]; rfl

theorem parseURL_opaq (raw : Str) (u : URL) (h : parseURL raw = some u) : startsWith ['/'] u.opaq = false := by
  unfold parseURL at h
  dsimp only at h
  split at h
  · cases h
  · rename_i u0 h0
    split at h
    · injection h with h; subst h; exact parse_opaq _ _ _ h0
    · have := (setFragment_fields _ _ _ h).1; rw [this]; exact parse_opaq _ _ _ h0

theorem toLower_eq_nil (s : Str) : toLower s = [] ↔ s = [] := by
  unfold toLower; simp

/-- ParseRequestURI yielding a URL without scheme: either "*" or an origin-form target whose path part starts with a slash -/
theorem parse_req_rel (raw : Str) (u : URL) (h : parse raw true = some u) (hs : u.scheme = []) :
    (raw = ['*'] ∧ u = { path := ['*'] }) ∨
    (raw.any isCTL = false ∧ startsWith ['/'] (splitQuery raw).1 = true ∧
      setPath { rawQuery := (splitQuery raw).2.1, forceQuery := (splitQuery raw).2.2 } (splitQuery raw).1 = some u) := by
  unfold parse at h
  split at h
  · cases h
  · rename_i hctl
    split at h
    · cases h
    · split at h
      · rename_i hstar; injection h with h; left; exact ⟨hstar, h.symm⟩
      · split at h
        · cases h
        · rename_i scheme0 rest0 hg
          dsimp only at h
          right
          have key : scheme0 = [] → rest0 = raw := fun h0 => by subst h0; exact getScheme_nil _ _ hg
          split at h
          · rename_i hc; injection h with h; subst h; simp at hs; exact absurd ((toLower_eq_nil _).mp hs) (by simpa [toLower_eq_nil] using hc.2)
          · split at h
            · cases h
            · rename_i hn1 hn2
              split at h
              · cases h
              · split at h
                · rename_i hc
                  split at h
                  · cases h
                  · have hf := setPath_fields _ _ _ h
                    rw [hf.2.1] at hs
                    simp at hs
                    have h0 := (toLower_eq_nil _).mp hs
                    simp [h0, toLower] at hc
                · split at h
                  · rename_i hc
                    have hf := setPath_fields _ _ _ h
                    rw [hf.2.1] at hs
                    simp at hs
                    exact absurd hs hc.1
                  · have hf := setPath_fields _ _ _ h
                    rw [hf.2.1] at hs
                    simp at hs
                    have h0 := (toLower_eq_nil _).mp hs
                    have hr := key h0
                    subst h0
                    subst hr
                    refine ⟨by simpa using hctl, ?_, ?_⟩
                    · simp at hn2
                      by_cases hsw : startsWith ['/'] (splitQuery rest0).1 = true
                      · exact hsw
                      · simp [hsw] at hn2
                    · simpa [toLower] using h

/-! ## URL.String of a URL without scheme, authority and opaque part -/

theorem toStr_rel (u : URL) (hs : u.scheme = []) (hh : u.host = []) (hu : u.user = none) (ho : u.opaq = []) :
    toStr u = (if (cut '/' (escapedPath u)).1.contains ':' then ['.', '/'] else []) ++ escapedPath u ++ queryString u ++ fragmentString u := by
  unfold toStr hierString authorityString
  simp [hs, hh, hu, ho]

theorem toStr_rel_rooted (u : URL) (hs : u.scheme = []) (hh : u.host = []) (hu : u.user = none) (ho : u.opaq = []) (p : Str)
    (hp : escapedPath u = '/' :: p) : toStr u = '/' :: p ++ queryString u ++ fragmentString u := by
  rw [toStr_rel u hs hh hu ho, hp]
  simp [cut]

theorem splitQuery_prefix (r : Str) : (splitQuery r).1 <+: r := by
  unfold splitQuery
  split
  · exact List.dropLast_prefix r
  · dsimp only
    exact ⟨_, (cut_spec '?' r).symm⟩

theorem splitQuery_slashslash (t : Str) : ∃ x, (splitQuery ('/' :: '/' :: t)).1 = '/' :: '/' :: x := by
  unfold splitQuery
  split
  · rename_i h
    cases t with
    | nil => simp [endsWith] at h
    | cons a t' => exact ⟨(a :: t').dropLast, by simp [List.dropLast]⟩
  · dsimp only
    rw [cut_cons_ne _ _ _ (by decide), cut_cons_ne _ _ _ (by decide)]
    exact ⟨_, rfl⟩

theorem unescapeRaw_plain (m : Mode) (c : Char) (s : Str) (h1 : c ≠ '%') (h2 : c ≠ '+') : unescapeRaw m (c :: s) = c :: unescapeRaw m s := by
  conv => lhs; unfold unescapeRaw
  simp only [h1, h2, if_false]

theorem unescapeRaw_slash (m : Mode) (s : Str) : unescapeRaw m ('/' :: s) = '/' :: unescapeRaw m s :=
  unescapeRaw_plain m '/' s (by decide) (by decide)

theorem escape_slash_path (s : Str) : escape .path ('/' :: s) = '/' :: escape .path s := by
  unfold escape
  simp [List.flatMap_cons, escChar, shouldEscape, isAlnum, isAlpha, isDigit, unreservedMarks, reservedChars]

/-- a request path starting with two slashes is serialised starting with two slashes -/
theorem escapedPath_slashslash (u : URL) (x : Str) (hp : u.path = '/' :: '/' :: x) (hr : u.rawPath = [] ∨ ∃ y, u.rawPath = '/' :: '/' :: y) :
    ∃ z, escapedPath u = '/' :: '/' :: z := by
  unfold escapedPath
  split
  · rename_i h
    rcases hr with hr | ⟨y, hy⟩
    · exact absurd hr h.1
    · exact ⟨y, hy⟩
  · split
    · rename_i h; rw [hp] at h; simp at h
    · rw [hp, escape_slash_path, escape_slash_path]; exact ⟨_, rfl⟩

theorem unescape_some (m : Mode) (s p : Str) (h : unescape m s = some p) : p = unescapeRaw m s := by
  unfold unescape at h
  split at h
  · injection h with h; exact h.symm
  · cases h

/-- what the relative validator accepts starts with exactly one slash and holds no control character -/
theorem relValid_shape (E : Str) (h : relValid E = true) :
    ∃ t, E = '/' :: t ∧ t.head? ≠ some '/' ∧ E.any isCTL = false := by
  unfold relValid parseRequestURI at h
  simp only [Bool.and_eq_true] at h
  obtain ⟨_, h⟩ := h
  split at h
  · cases h
  · rename_i u hp
    simp only [Bool.and_eq_true, isRelativeURL, decide_eq_true_eq] at h
    obtain ⟨⟨hs, hh⟩, hv⟩ := h
    rcases parse_req_rel E u hp hs with ⟨_, hu⟩ | ⟨hctl, hsl, hset⟩
    · subst hu
      have : isValidAbsolutePath (toStr { path := ['*'] }) = false := by decide
      rw [this] at hv; cases hv
    · have hf := setPath_fields _ _ _ hset
      have hpre := splitQuery_prefix E
      obtain ⟨suffix, hsuf⟩ := hpre
      cases hr : (splitQuery E).1 with
      | nil => rw [hr] at hsl; simp [startsWith] at hsl
      | cons c rt =>
        rw [hr] at hsl hsuf
        have hc : c = '/' := by simp [startsWith] at hsl; exact hsl.symm
        subst hc
        refine ⟨rt ++ suffix, by simpa using hsuf.symm, ?_, hctl⟩
        intro hhead
        -- E starts with two slashes: then so does the re-serialised URL, which the validator rejects
        have hE : ∃ t', E = '/' :: '/' :: t' := by
          cases hrt : rt ++ suffix with
          | nil => rw [hrt] at hhead; simp at hhead
          | cons a t' =>
            rw [hrt] at hhead; simp at hhead; subst hhead
            exact ⟨t', by rw [← hsuf]; simp [hrt]⟩
        obtain ⟨t', hE⟩ := hE
        obtain ⟨x, hx⟩ := splitQuery_slashslash t'
        rw [← hE] at hx
        have hpath : u.path = '/' :: '/' :: unescapeRaw .path x := by
          have := unescape_some _ _ _ hf.2.2.2.2.2.2.2.2.2.1
          rw [this, hx, unescapeRaw_slash, unescapeRaw_slash]
        have hraw : u.rawPath = [] ∨ ∃ y, u.rawPath = '/' :: '/' :: y := by
          rw [hf.2.2.2.2.2.2.2.2.2.2]
          split
          · left; rfl
          · right; exact ⟨x, hx⟩
        obtain ⟨z, hz⟩ := escapedPath_slashslash u _ hpath hraw
        have hstr := toStr_rel_rooted u hs hh (by rw [hf.2.2.2.1]) (by rw [hf.1]) _ hz
        rw [hstr] at hv
        simp [isValidAbsolutePath, startsWith] at hv

theorem cut_fst_append_mem (c x : Char) (a b : Str) (h : x ∈ (cut c (a ++ c :: b)).1) : x ∈ a := by
  induction a with
  | nil => simp [cut] at h
  | cons d a ih =>
    simp only [List.cons_append] at h
    unfold cut at h
    by_cases hd : d = c
    · simp [hd] at h
    · simp only [hd, if_false] at h
      rcases List.mem_cons.mp h with h1 | h1
      · rw [h1]; exact List.mem_cons_self
      · exact List.mem_cons_of_mem _ (ih h1)

/-- the serialised form of a parsed URL whose scheme and host were cleared: if it starts with exactly one slash, nothing before its
    first `?` is a backslash (the path and the fragment are re-escaped by URL.String) -/
theorem cleared_no_backslash (v : URL) (hs : v.scheme = []) (hh : v.host = []) (ho : startsWith ['/'] v.opaq = false) (t : Str)
    (hE : toStr v = '/' :: t) (ht : t.head? ≠ some '/') : '\\' ∉ (cut '?' (toStr v)).1 := by
  by_cases hop : v.opaq = []
  · cases huser : v.user with
    | some ui =>
      exfalso
      unfold toStr hierString authorityString at hE
      simp [hop, huser, hs, hh] at hE
      rw [← hE] at ht
      simp at ht
    | none =>
      have hrel := toStr_rel v hs hh huser hop
      rw [hrel] at hE ⊢
      split at hE
      · simp at hE
      · rename_i hdot
        simp only [hdot, if_false, Bool.false_eq_true, List.nil_append] at hE ⊢
        intro hm
        by_cases hq : queryString v = []
        · rw [hq] at hm
          simp only [List.append_nil] at hm
          have hm2 := cut_fst_mem _ _ _ hm
          rcases List.mem_append.mp hm2 with h1 | h1
          · exact escapedPath_no_backslash _ h1
          · unfold fragmentString at h1
            split at h1
            · rcases List.mem_cons.mp h1 with h2 | h2
              · revert h2; decide
              · exact escapedFragment_no_backslash _ h2
            · cases h1
        · unfold queryString at hq hm
          split at hq
          · rename_i hcond
            rw [if_pos hcond] at hm
            simp only [List.append_assoc, List.cons_append] at hm
            exact escapedPath_no_backslash _ (cut_fst_append_mem _ _ _ _ hm)
          · exact hq rfl
  · exfalso
    unfold toStr at hE
    simp [hop, hs] at hE
    cases hopq : v.opaq with
    | nil => exact hop hopq
    | cons c r =>
      rw [hopq] at hE ho
      simp at hE
      have hc : c = '/' := hE.1
      subst hc
      simp [startsWith] at ho

/-! ## path segments -/

theorem splitSlash_mem (l : Str) (s : Seg) (hs : s ∈ splitSlash l) (c : Char) (hc : c ∈ s) : c ∈ l ∧ c ≠ '/' := by
  induction l generalizing s with
  | nil => simp [splitSlash] at hs; subst hs; cases hc
  | cons d cs ih =>
    unfold splitSlash at hs
    split at hs
    · simp at hs; subst hs; cases hc
    · rename_i s0 ss heq
      have hsub : ∀ x, x ∈ s0 :: ss → x ∈ splitSlash cs := fun x hx => by rw [heq]; exact hx
      split at hs
      · rcases List.mem_cons.mp hs with h | h
        · subst h; cases hc
        · have := ih s (hsub s h) hc; exact ⟨List.mem_cons_of_mem _ this.1, this.2⟩
      · rename_i hd
        rcases List.mem_cons.mp hs with h | h
        · subst h
          rcases List.mem_cons.mp hc with h1 | h1
          · subst h1; exact ⟨List.mem_cons_self, hd⟩
          · have := ih s0 (hsub s0 List.mem_cons_self) h1; exact ⟨List.mem_cons_of_mem _ this.1, this.2⟩
        · have := ih s (hsub s (List.mem_cons_of_mem _ h)) hc; exact ⟨List.mem_cons_of_mem _ this.1, this.2⟩

theorem joinSlash_mem (segs : List Seg) (c : Char) (h : c ∈ joinSlash segs) : c = '/' ∨ ∃ s ∈ segs, c ∈ s := by
  induction segs with
  | nil => simp [joinSlash] at h
  | cons s ss ih =>
    cases ss with
    | nil => simp [joinSlash] at h; right; exact ⟨s, List.mem_cons_self, h⟩
    | cons s2 ss2 =>
      simp only [joinSlash] at h
      rcases List.mem_append.mp h with h1 | h1
      · right; exact ⟨s, List.mem_cons_self, h1⟩
      · rcases List.mem_cons.mp h1 with h2 | h2
        · left; exact h2
        · rcases ih h2 with h3 | ⟨s', hs', hc'⟩
          · left; exact h3
          · right; exact ⟨s', List.mem_cons_of_mem _ hs', hc'⟩

theorem joinSlash_head (s : Seg) (ss : List Seg) (hs : s ≠ []) : (joinSlash (s :: ss)).head? = s.head? := by
  cases s with
  | nil => exact absurd rfl hs
  | cons a r =>
    cases ss with
    | nil => simp [joinSlash]
    | cons s2 ss2 => simp [joinSlash]

theorem cleanRooted_seg (q : Str) (s : Seg) (hs : s ∈ cleanRooted q) : s ≠ [] ∧ ∀ c ∈ s, c ∈ q ∧ c ≠ '/' := by
  refine ⟨?_, ?_⟩
  · intro h
    have := cleanRooted_nodot q s hs
    subst h
    simp [isDotSeg] at this
  · intro c hc
    rcases cleanSegs_mem [] _ s hs with h | h
    · cases h
    · exact splitSlash_mem q s h c hc

end Ww.Proofs.C04L
