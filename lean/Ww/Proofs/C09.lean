import Ww.Model.Crypto
import Ww.Proofs.C01
import Ww.Proofs.C06
/-!
# C09 — Cookies and stored sessions are opaque, tamper-evident and key-separated  (PARTIAL: relative to H-AEAD / H-RND; see DESIGN §6)
-/
namespace Ww.Proofs.C09
open Ww.Model

theorem roundtrip (k : KeyId) (n : Nat) (p : Plain) : dec k (enc k n p) = some p := by simp [dec, enc]

/-- a ciphertext opens only under the key it was made with -/
theorem key_separation (k k' : KeyId) (n : Nat) (p : Plain) (h : k' ≠ k) : dec k' (enc k n p) = none := by
  simp [dec, enc]; exact fun e => absurd e.symm h

/-- anything that is not a ciphertext (modified, truncated, extended, random) opens under no key -/
theorem tampered_rejected (k : KeyId) (j : Nat) : dec k (.junk j) = none := rfl

/-- **opaque**: neither the session cookie nor the store value lets an observer without keys read a token, verifier or key -/
theorem outputs_opaque (dk dek : KeyId) (n m : Nat) (sk a r i : String) :
    visible (sessionCookie dk n sk dek) = [] ∧ visible (storeValue dek m a r i) = [] := ⟨rfl, rfl⟩

/-- **key separation of sessions**: a store value can be read only with the data key it was written under — the one inside that user's own cookie -/
theorem store_needs_own_data_key (dek dek' : KeyId) (m : Nat) (a r i : String) (h : dek' ≠ dek) :
    readStore dek' (some (storeValue dek m a r i)) = some none ∧ readStore dek (some (storeValue dek m a r i)) = some (some (a, r, i)) := by
  have h1 := key_separation dek dek' m (.sessionData a r i) h
  have h2 := roundtrip dek m (.sessionData a r i)
  unfold readStore storeValue
  simp only [h1, h2]
  exact ⟨trivial, trivial⟩

/-- a cookie can be read only with the deployment key; another cookie type's ciphertext under the session-cookie name is no ticket -/
theorem cookie_needs_deployment_key (dk dk' : KeyId) (n : Nat) (sk : String) (dek : KeyId) (h : dk' ≠ dk) :
    (cookieState dk' (some (sessionCookie dk n sk dek))).1 = .undecryptable ∧ (cookieState dk (some (sessionCookie dk n sk dek))).1 = .valid := by
  have h1 := key_separation dk dk' n (.ticket sk dek) h
  have h2 := roundtrip dk n (.ticket sk dek)
  unfold cookieState sessionCookie
  simp only [h1, h2]
  exact ⟨trivial, trivial⟩

theorem other_cookie_type_is_no_ticket (dk : KeyId) (n : Nat) (p : Plain) (h : ∀ sk dek, p ≠ .ticket sk dek) :
    (cookieState dk (some (enc dk n p))).1 = .undecryptable := by
  have h2 := roundtrip dk n p
  unfold cookieState
  simp only [h2]
  cases p <;> simp_all

/-- **fail closed**: whenever the cookie or the store value does not open, no token reaches the upstream and the session endpoints answer 401 — never 5xx -/
theorem unreadable_is_unauthenticated (cfg : Cfg) (ck : CookieSt) (st : StoreSt) (plan : IdpPlan) (a r : String) (ign : Bool) (now : Int)
    (h : ck = .undecryptable ∨ st = .undecryptable) :
    (proxy cfg ck st plan a r ign now).upAuth = none ∧ ((sessionInfo ck st now).status = 401) ∧ ((sessionRefresh cfg ck st plan a r now).status = 401) := by
  refine ⟨?_, ?_, ?_⟩
  · cases hu : (proxy cfg ck st plan a r ign now).upAuth with
    | none => rfl
    | some t =>
      obtain ⟨d, h1, h2, _⟩ := Ww.Proofs.C01.sound cfg ck st plan a r ign now t hu
      rcases h with h | h
      · rw [h] at h1; cases h1
      · exfalso
        -- the store entry changes only by deletion or by refreshing a VALIDATED record: an undecryptable entry never becomes a session
        have hs := Ww.Proofs.C06.proxy_step cfg ck st plan a r ign now
        rw [h2, h] at hs
        cases hs
  · rcases h with h | h <;> subst h
    · simp [sessionInfo, getSess, statusOfErr]
    · cases ck <;> simp [sessionInfo, getSess, statusOfErr]
  · rcases h with h | h <;> subst h
    · simp [sessionRefresh, getSess, statusOfErr]
    · cases ck <;> simp [sessionRefresh, getSess, statusOfErr]

/-- framing round trip and the minimum-length rejection -/
theorem frame_roundtrip (nonce sealed : List Nat) : unframe nonce.length (frame nonce sealed) = some (nonce, sealed) := by
  unfold unframe frame
  simp

theorem short_rejected (n : Nat) (c : List Nat) (h : c.length < n) : unframe n c = none := by
  unfold unframe; simp [h]

/-- **fresh nonces**: with an injective nonce source, the ciphertexts of any two encryptions differ — also of the same plaintext under the same key -/
theorem nonces_fresh (rnd : Nat → Nat) (hinj : ∀ a b, rnd a = rnd b → a = b) (k : KeyId) (p q : Plain) (i j : Nat) (hij : i ≠ j) :
    enc k (rnd i) p ≠ enc k (rnd j) q := by
  intro h
  simp [enc] at h
  exact hij (hinj i j h.1)

end Ww.Proofs.C09
