import Ww.Model.Callback
/-!
# C02 — Login callback creates a session only for the login this browser itself started
-/
namespace Ww.Proofs.C02
open Ww.Model

/-- **C02 (gate).** The authorization code is sent to the provider only if the request carries an authentic login cookie MINTED BY Login
    (not another cookie type), carries no error parameter, its state is present and equals the cookie's, its iss equals the issuer whenever the
    provider advertises issuer identification — and then the code is redeemed with exactly the verifier and redirect URI sealed in that cookie. -/
theorem gate (cfg : CbCfg) (ck : CookieIn) (q : CbQuery) (code v ru : String) (c : LoginCookie)
    (h : callbackGate cfg ck q = .redeem code v ru c) :
    ck = .authentic (.login c) ∧ q.error = "" ∧ q.state ≠ "" ∧ q.state = c.state ∧ (cfg.issSupported = true → q.iss = cfg.issuer) ∧
    code = q.code ∧ v = c.verifier ∧ ru = c.redirectUri ∧ c.verifier ≠ "" ∧ c.nonce ≠ "" ∧ c.redirectUri ≠ "" := by
  unfold callbackGate at h
  cases ck with
  | absent => simp at h
  | undecryptable => simp at h
  | authentic m =>
    simp only at h
    split at h; · simp at h
    split at h; · simp at h
    split at h; · simp at h
    split at h; · simp at h
    rename_i h1 h2 h3 h4
    simp at h
    obtain ⟨hc, hv, hr, hcc⟩ := h
    have hcomp : (m.asLoginCookie).complete = true := by simpa using h1
    unfold LoginCookie.complete at hcomp
    simp at hcomp h2 h3 h4
    have hm : m = .login c := by
      cases m with
      | login c' => simp [Minted.asLoginCookie] at hcc; rw [hcc]
      | logout st rt => simp [Minted.asLoginCookie] at hcomp
      | session => simp [Minted.asLoginCookie] at hcomp
    subst hm
    simp [Minted.asLoginCookie] at *
    refine ⟨h2, h3.1, h3.2, ?_, hc.symm, hv.symm, hr.symm, hcomp.1.1.2, hcomp.1.2, hcomp.2⟩
    intro hi
    have := h4 hi
    exact this.2

/-- **C02 (closed).** Whenever any browser-side check fails, no back-channel call is made at all -/
theorem closed (cfg : CbCfg) (ck : CookieIn) (q : CbQuery)
    (h : ck = .absent ∨ ck = .undecryptable ∨ q.error ≠ "" ∨ q.state = "" ∨ (∃ m, ck = .authentic m ∧ q.state ≠ m.asLoginCookie.state) ∨
         (cfg.issSupported = true ∧ q.iss ≠ cfg.issuer) ∨ (∃ st rt, ck = .authentic (.logout st rt)) ∨ ck = .authentic .session) :
    ∀ code v ru c, callbackGate cfg ck q ≠ .redeem code v ru c := by
  intro code v ru c hr
  have g := gate cfg ck q code v ru c hr
  obtain ⟨g1, g2, g3, g4, g5, _⟩ := g
  rcases h with h | h | h | h | ⟨m, hm, hs⟩ | ⟨hi, hq⟩ | ⟨st, rt, h⟩ | h
  · rw [h] at g1; cases g1
  · rw [h] at g1; cases g1
  · exact h g2
  · exact g3 h
  · rw [hm] at g1; cases g1; exact hs (by simpa [Minted.asLoginCookie] using g4)
  · exact hq (g5 hi)
  · rw [h] at g1; cases g1
  · rw [h] at g1; cases g1

/-- two concurrent attempts: attempt i's cookie with attempt j's state makes no call (states of distinct attempts differ: C13) -/
theorem crossed_attempts (cfg : CbCfg) (ci cj : LoginCookie) (hne : ci.state ≠ cj.state) (q : CbQuery) (hq : q.state = cj.state) :
    ∀ code v ru c, callbackGate cfg (.authentic (.login ci)) q ≠ .redeem code v ru c := by
  apply closed
  right; right; right; right; left
  exact ⟨.login ci, rfl, by simp [Minted.asLoginCookie, hq]; exact fun h => hne h.symm⟩

-- non-vacuity: the genuine case does redeem, with the cookie's verifier
example : callbackGate { issSupported := true, issuer := "https://idp" } (.authentic (.login { state := "s", nonce := "n", verifier := "v", redirectUri := "https://app/oauth2/callback" }))
    { state := "s", code := "c", iss := "https://idp" } =
    .redeem "c" "v" "https://app/oauth2/callback" { state := "s", nonce := "n", verifier := "v", redirectUri := "https://app/oauth2/callback" } := by decide
-- the cookie-type confusion: a logout cookie's ciphertext under the login-cookie name never reaches the provider
example : callbackGate {} (.authentic (.logout "s" "/x")) { state := "s", code := "attacker-code" } = .error := by decide

end Ww.Proofs.C02
