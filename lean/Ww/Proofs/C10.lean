import Ww.Model.Sched
import Ww.Gen.Consts
import Ww.Proofs.C07
/-!
# C10 — Store contents are always expiry-bounded, also after a crash at any point
-/
namespace Ww.Proofs.C10
open Ww.Model.Sched

def TtlInv (s : St) : Prop := ∀ v, s.sess = some v → v.hasTtl = true

theorem ttl_step (s : St) (ev : Ev) (h : TtlInv s) : TtlInv (apply s ev) := by
  cases ev with
  | crash p => intro v hv; exact h v (by simpa [apply, crash] using hv)
  | run p =>
    unfold apply step TtlInv at *
    simp only []
    split <;> (repeat' split) <;> simp_all
    all_goals (first | done | (intro v hv; simp_all))

/-- **TTL.** After any schedule of any processes with crashes at any points, the session entry (if any) carries an expiry: an update never
    drops it and never re-creates a key -/
theorem session_always_expires (kinds : Pid → Kind) (g0 : Nat) (evs : List Ev) : TtlInv (runAll (init kinds g0) evs) := by
  have : ∀ (l : List Ev) (s : St), TtlInv s → TtlInv (runAll s l) := by
    intro l
    induction l with
    | nil => intro s h; exact h
    | cons e es ih => intro s h; exact ih _ (ttl_step s e h)
  exact this evs _ (by intro v hv; simp [init] at hv; rw [← hv])

/-- **lock released.** A refresh that finishes removes its lock entry (crash-free part: the holder is the one that unlocks) -/
theorem lock_released_on_finish (s : St) (p : Pid) (h : Ww.Proofs.C07.Inv s) (hpc : (s.procs p).pc = .unlock) :
    (step s p).1.lock = none ∧ ((step s p).1.procs p).pc = .done := by
  have hl := h.mutex p (by simp [hpc, inCrit])
  unfold step
  simp [hpc, hl]

/-- a crashed holder keeps others out only until the lease runs out -/
theorem lease_frees_lock (s : St) : (leaseExpires s).lock = none ∧ (leaseExpires s).sess = s.sess := ⟨rfl, rfl⟩

/-- while the lock is free, the next process that tries obtains it: nobody is blocked for longer than the lease -/
theorem free_lock_is_obtained (s : St) (p : Pid) (hpc : (s.procs p).pc = .lock) (hl : s.lock = none) :
    (step s p).1.lock = some p ∧ inCrit ((step s p).1.procs p).pc = true := by
  unfold step
  simp [hpc, hl]
  split <;> simp [inCrit]

/-- **after a crash** between the provider's answer and the write-back the stored token is stale; the next refresh is rejected CLEANLY:
    the provider refuses, nothing is written, the lock is released and the request is answered 401 (session reported invalid) -/
theorem stale_session_reported_invalid (s : St) (p : Pid) (hpc : (s.procs p).pc = .idp) (hstale : (s.procs p).rt ≠ s.idpCur) :
    let s1 := (step s p).1
    (s1.procs p).pc = .unlock ∧ (s1.procs p).status = 401 ∧ s1.sess = s.sess ∧ s1.idpCur = s.idpCur := by
  unfold step
  simp [hpc, hstale]

/-- **the lease** (constants regenerated from session_manager.go): ten seconds, and shorter than the time a waiter keeps polling -/
theorem lease_is_ten_seconds :
    Ww.Gen.Consts.refreshLockDuration = 10 * 1000000000 ∧ Ww.Gen.Consts.refreshLockDuration < Ww.Gen.Consts.refreshAcquireLockTimeout ∧
    0 < Ww.Gen.Consts.refreshAcquireLockRetryInterval ∧ Ww.Gen.Consts.refreshAcquireLockRetryInterval < Ww.Gen.Consts.refreshAcquireLockTimeout - Ww.Gen.Consts.refreshLockDuration := by decide

/-- **nobody is blocked for longer than the lease**: a waiter that starts polling at `t` (every retry interval, until the acquire time-out) while a dead holder's lock
    entry - taken at some `t0 ≤ t` - is still there, polls at an instant AFTER the entry's expiry and BEFORE its own time-out, for every `t0`, `t` -/
theorem waiter_outlasts_dead_holder (t0 t : Int) (h : t0 ≤ t) :
    ∃ k : Int, 0 ≤ k ∧ t + k * Ww.Gen.Consts.refreshAcquireLockRetryInterval > t0 + Ww.Gen.Consts.refreshLockDuration ∧
      t + k * Ww.Gen.Consts.refreshAcquireLockRetryInterval < t + Ww.Gen.Consts.refreshAcquireLockTimeout := by
  refine ⟨1001, by decide, ?_, ?_⟩ <;> simp [Ww.Gen.Consts.refreshAcquireLockRetryInterval, Ww.Gen.Consts.refreshLockDuration, Ww.Gen.Consts.refreshAcquireLockTimeout] <;> omega

-- non-vacuity: the refresher is killed right after the provider answered; the lease passes; a second refresher is answered 401, no lock is left
example : let s1 := runAll (init (fun _ => .refresh) 0) [.run 0, .run 0, .run 0, .run 0, .run 0, .crash 0, .run 1, .run 1, .run 1, .run 1]
    let s2 := runAll (leaseExpires s1) [.run 1, .run 1, .run 1, .run 1, .run 1]
    s1.lock = some 0 ∧ (s1.procs 1).pc = .lock ∧ s2.lock = none ∧ (s2.procs 1).status = 401 ∧ s2.sess = some ⟨0, false, true, 0⟩ := by decide

end Ww.Proofs.C10
