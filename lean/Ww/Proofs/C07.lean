import Ww.Model.Sched
/-!
# C07 — Concurrent requests cause one refresh; no refresh token is presented twice

Inductive invariant over the small-step model, for ANY number of processes of any kind and ANY schedule (crash-free; within the lock lease).
-/
namespace Ww.Proofs.C07
open Ww.Model.Sched

structure Inv (s : St) : Prop where
  mutex : ∀ p, inCrit (s.procs p).pc = true → s.lock = some p
  unlocked : ∀ v, s.sess = some v → v.owner = 0 → s.lock = none → v.gen = s.idpCur
  atReread : ∀ p v, (s.procs p).pc = .reread → s.sess = some v → v.owner = 0 → v.gen = s.idpCur
  atIdp : ∀ p, (s.procs p).pc = .idp → (s.procs p).rt = s.idpCur
  atUpdate : ∀ p, (s.procs p).pc = .update → (s.procs p).newGen = s.idpCur
  atUnlock : ∀ p v, (s.procs p).pc = .unlock → s.sess = some v → v.owner = 0 → v.gen = s.idpCur
  ttl : ∀ v, s.sess = some v → v.hasTtl = true
  -- a NEW login writes only under the lock (fix 078aa22), so between a refresher's re-read and its write-back the entry can only disappear:
  cl : s.createLocks = true
  ownIdp : ∀ p v, (s.procs p).pc = .idp → s.sess = some v → v.owner = 0
  ownUpdate : ∀ p v, (s.procs p).pc = .update → s.sess = some v → v.owner = 0


theorem inv_init (kinds : Pid → Kind) (g0 : Nat) : Inv (init kinds g0) := by
  constructor <;> simp [init, inCrit]

theorem startNext_outside (k : Kind) : startNext k = .del ∨ startNext k = .get ∨ startNext k = .code := by cases k <;> simp [startNext]

theorem getNext_outside (k : Kind) (se : Option Sess) : (getNext k se).1 = .done ∨ (getNext k se).1 = .del ∨ (getNext k se).1 = .lock := by
  unfold getNext
  cases k <;> cases se <;> simp <;> (try split) <;> simp

theorem inv_step (s : St) (p : Pid) (h : Inv s) : Inv (step s p).1 := by
  obtain ⟨h1, h2, h3, h4, h5, h6, h7, h8, h9, h10⟩ := h
  unfold step
  simp only []
  split
  · -- start
    have := startNext_outside (s.procs p).kind
    generalize startNext (s.procs p).kind = n at this
    constructor <;> grind [setProc, inCrit]
  · -- get
    have := getNext_outside (s.procs p).kind (mine s.sess)
    generalize getNext (s.procs p).kind (mine s.sess) = n at this
    constructor <;> grind [setProc, inCrit]
  · -- code
    constructor <;> grind [setProc, inCrit]
  · -- lock
    split <;> constructor <;> grind [setProc, inCrit]
  · -- write
    constructor <;> grind [setProc, inCrit]
  · -- reread
    split
    · constructor <;> grind [setProc, inCrit]
    · rename_i v hv
      have hm := mine_some hv
      split <;> constructor <;> grind [setProc, inCrit]
  · -- idp
    split <;> constructor <;> grind [setProc, inCrit]
  · -- update
    split <;> constructor <;> grind [setProc, inCrit]
  · -- unlock
    constructor <;> grind [setProc, inCrit]
  · -- del
    constructor <;> grind [setProc, inCrit]
  · -- done
    exact ⟨h1, h2, h3, h4, h5, h6, h7, h8, h9, h10⟩

theorem inv_run (s : St) (ps : List Pid) (h : Inv s) : Inv (ps.foldl (fun s p => (step s p).1) s) := by
  induction ps generalizing s with
  | nil => exact h
  | cons p ps ih => exact ih _ (inv_step s p h)

/-- **mutual exclusion**: in every reachable state at most one process is between acquiring and releasing the refresh lock -/
theorem mutual_exclusion (kinds : Pid → Kind) (g0 : Nat) (ps : List Pid) (p q : Pid) :
    let s := ps.foldl (fun s p => (step s p).1) (init kinds g0)
    inCrit (s.procs p).pc = true → inCrit (s.procs q).pc = true → p = q := by
  intro s hp hq
  have h := inv_run _ ps (inv_init kinds g0)
  have a := h.mutex p hp
  have b := h.mutex q hq
  rw [a] at b; injection b

/-- refresh tokens presented so far: strictly below the provider's current generation and pairwise distinct -/
structure PInv (s : St) : Prop where
  below : ∀ g ∈ s.presented, g < s.idpCur
  nodup : s.presented.Nodup

theorem pinv_step (s : St) (p : Pid) (h : Inv s) (hp : PInv s) : PInv (step s p).1 := by
  obtain ⟨hb, hn⟩ := hp
  by_cases hpc : (s.procs p).pc = .idp
  · have hrt := h.atIdp p hpc
    unfold step
    simp only [hpc, hrt, if_true]
    constructor
    · intro g hg
      simp at hg
      rcases hg with hg | hg
      · have := hb g hg; simp; omega
      · simp; omega
    · simp
      rw [List.nodup_append]
      refine ⟨hn, by simp, ?_⟩
      intro a ha b hb'
      simp at hb'
      have := hb a ha
      omega
  · have : (step s p).1.presented = s.presented ∧ (step s p).1.idpCur = s.idpCur := by
      unfold step
      simp only []
      split <;> (try contradiction) <;> (repeat' split) <;> simp
    constructor
    · rw [this.1, this.2]; exact hb
    · rw [this.1]; exact hn

/-- **no refresh token is presented twice**, whatever the schedule and however many requests race -/
theorem token_presented_once (kinds : Pid → Kind) (g0 : Nat) (ps : List Pid) :
    (ps.foldl (fun s p => (step s p).1) (init kinds g0)).presented.Nodup := by
  have : ∀ (l : List Pid) (s : St), Inv s → PInv s → PInv (l.foldl (fun s p => (step s p).1) s) := by
    intro l
    induction l with
    | nil => intro s _ hp; exact hp
    | cons p ps ih => intro s hi hp; exact ih _ (inv_step s p hi) (pinv_step s p hi hp)
  exact (this ps _ (inv_init kinds g0) ⟨by simp [init], by simp [init]⟩).nodup

/-- bookkeeping for "ONE refresh": once a grant was made in a schedule the stored pair is on cooldown (`fresh`) for everyone who looks later -/
structure OneInv (s : St) : Prop where
  atIdp : ∀ p, (s.procs p).pc = .idp → s.presented = []
  atReread : ∀ p v, (s.procs p).pc = .reread → s.sess = some v → v.owner = 0 → v.fresh = false → s.presented = []
  unlocked : ∀ v, s.sess = some v → v.owner = 0 → v.fresh = false → s.lock = none → s.presented = []
  atUnlock : ∀ p v, (s.procs p).pc = .unlock → s.sess = some v → v.owner = 0 → v.fresh = false → s.presented = []
  len : s.presented.length ≤ 1

theorem one_init (kinds : Pid → Kind) (g0 : Nat) : OneInv (init kinds g0) := by
  constructor <;> simp [init]

theorem one_step (s : St) (p : Pid) (h : Inv s) (k : OneInv s) : OneInv (step s p).1 := by
  obtain ⟨h1, h2, h3, h4, h5, h6, h7, h8, h9, h10⟩ := h
  obtain ⟨k1, k2, k3, k4, k5⟩ := k
  unfold step
  simp only []
  split
  · have := startNext_outside (s.procs p).kind
    generalize startNext (s.procs p).kind = n at this
    constructor <;> grind [setProc, inCrit]
  · have := getNext_outside (s.procs p).kind (mine s.sess)
    generalize getNext (s.procs p).kind (mine s.sess) = n at this
    constructor <;> grind [setProc, inCrit]
  · constructor <;> grind [setProc, inCrit]
  · split <;> constructor <;> grind [setProc, inCrit]
  · constructor <;> grind [setProc, inCrit]
  · split
    · constructor <;> grind [setProc, inCrit]
    · rename_i v hv
      have hm := mine_some hv
      split <;> constructor <;> grind [setProc, inCrit]
  · -- idp: the only step that presents a token; nothing was presented before (k1), and mutual exclusion keeps everybody else out
    rename_i hpc
    have hp0 := k1 p hpc
    have hlk := h1 p (by simp [hpc, inCrit])
    split <;> constructor <;> grind [setProc, inCrit]
  · split <;> constructor <;> grind [setProc, inCrit]
  · constructor <;> grind [setProc, inCrit]
  · constructor <;> grind [setProc, inCrit]
  · exact ⟨k1, k2, k3, k4, k5⟩

/-- **concurrent requests cause ONE refresh**: whatever the number of racing requests (manual refreshes, proxied requests with a refresh due, readers,
    logouts) and whatever the schedule, the provider sees at most one refresh-token grant request for the session while the cooldown of the first
    one runs (a schedule is shorter than the cooldown) -/
theorem one_refresh (kinds : Pid → Kind) (g0 : Nat) (ps : List Pid) :
    (ps.foldl (fun s p => (step s p).1) (init kinds g0)).presented.length ≤ 1 := by
  have : ∀ (l : List Pid) (s : St), Inv s → OneInv s → OneInv (l.foldl (fun s p => (step s p).1) s) := by
    intro l
    induction l with
    | nil => intro s _ hk; exact hk
    | cons p ps ih => intro s hi hk; exact ih _ (inv_step s p hi) (one_step s p hi hk)
  exact (this ps _ (inv_init kinds g0) (one_init kinds g0)).len

/-- ranges for ONE process: every token generation it carries lies between the generation the schedule started with (`b`) and the provider's current one (`cur`) -/
def POk (b cur : Nat) (x : Proc) : Prop :=
  (x.pc = .idp → b ≤ x.rt ∧ x.rt ≤ cur) ∧ (x.pc = .update → b ≤ x.newGen ∧ x.newGen ≤ cur) ∧
  (∀ g, x.seen = some g → b ≤ g ∧ g ≤ cur) ∧ (∀ g, x.served = some g → b ≤ g ∧ g ≤ cur)

theorem POk_mono {b cur cur' : Nat} {x : Proc} (h : cur ≤ cur') (k : POk b cur x) : POk b cur' x := by
  obtain ⟨k1, k2, k3, k4⟩ := k
  refine ⟨fun e => ?_, fun e => ?_, fun g e => ?_, fun g e => ?_⟩
  · have := k1 e; omega
  · have := k2 e; omega
  · have := k3 g e; omega
  · have := k4 g e; omega

/-- ranges: every token generation that appears anywhere - stored, read, carried by a process, handed to the upstream - lies between the generation the schedule
    started with and the provider's current one, and the provider's current one has advanced exactly once per presentation -/
structure RInv (s : St) : Prop where
  count : s.idpCur = s.base + s.presented.length
  sessR : ∀ v, s.sess = some v → v.owner = 0 → s.base ≤ v.gen ∧ v.gen ≤ s.idpCur
  procsR : ∀ q, POk s.base s.idpCur (s.procs q)

theorem rinv_init (kinds : Pid → Kind) (g0 : Nat) : RInv (init kinds g0) := by
  refine ⟨by simp [init], by simp [init], fun q => ?_⟩
  simp [init, POk]

theorem servedAtGet_some {k : Kind} {se : Option Sess} {g : Nat} (h : servedAtGet k se = some g) : ∃ v, se = some v ∧ v.gen = g := by
  unfold servedAtGet at h
  split at h
  · rename_i v
    split at h <;> simp_all
  · simp at h

/-- one process `p` gets the new record `x'`, everybody else is untouched, the provider's generation does not go down -/
theorem procs_ok_of (s : St) (p : Pid) (x' : Proc) (cur' : Nat) (r : RInv s) (hc : s.idpCur ≤ cur') (hx : POk s.base cur' x') :
    ∀ q, POk s.base cur' ((setProc s p x').procs q) := by
  intro q
  by_cases hq : q = p
  · subst hq; simpa using hx
  · rw [setProc_other s p q x' hq]; exact POk_mono hc (r.procsR q)

theorem rinv_step (s : St) (p : Pid) (h : Inv s) (r : RInv s) : RInv (step s p).1 := by
  have r1 := r.count
  have r2 := r.sessR
  obtain ⟨q1, q2, q3, q4⟩ := r.procsR p
  unfold step
  simp only []
  split
  · -- start
    rename_i hpc
    have hn := startNext_outside (s.procs p).kind
    refine ⟨by simpa using r1, by simpa using r2, ?_⟩
    simp only [setProc_base, setProc_idpCur]
    apply procs_ok_of s p _ s.idpCur r (Nat.le_refl _)
    refine ⟨fun e => ?_, fun e => ?_, q3, q4⟩ <;> (simp at e; rcases hn with hn | hn | hn <;> simp [hn] at e)
  · -- get: what is read is the stored, readable session
    rename_i hpc
    have hn := getNext_outside (s.procs p).kind (mine s.sess)
    refine ⟨by simpa using r1, by simpa using r2, ?_⟩
    simp only [setProc_base, setProc_idpCur]
    apply procs_ok_of s p _ s.idpCur r (Nat.le_refl _)
    refine ⟨fun e => ?_, fun e => ?_, fun g e => ?_, fun g e => ?_⟩
    · simp at e; rcases hn with hn | hn | hn <;> simp [hn] at e
    · simp at e; rcases hn with hn | hn | hn <;> simp [hn] at e
    · cases hm : mine s.sess with
      | none => simp [hm] at e
      | some v =>
        have hv := mine_some hm
        simp [hm] at e
        have := r2 v hv.1 hv.2
        omega
    · obtain ⟨v, hv, hgv⟩ := servedAtGet_some e
      have hv' := mine_some hv
      have := r2 v hv'.1 hv'.2
      omega
  · -- code
    refine ⟨by simpa using r1, by simpa using r2, ?_⟩
    simp only [setProc_base, setProc_idpCur]
    apply procs_ok_of s p _ s.idpCur r (Nat.le_refl _)
    refine ⟨fun e => ?_, fun e => ?_, q3, q4⟩ <;> (simp at e; split at e <;> simp at e)
  · -- lock
    split
    · refine ⟨by simpa using r1, by simpa using r2, ?_⟩
      simp only [setProc_base, setProc_idpCur]
      apply procs_ok_of s p _ s.idpCur r (Nat.le_refl _)
      refine ⟨fun e => ?_, fun e => ?_, q3, q4⟩ <;> (simp at e; split at e <;> simp at e)
    · exact r
  · -- write: a new login's session is not "the" session (owner ≠ 0)
    refine ⟨by simpa using r1, ?_, ?_⟩
    · intro v hv ho; simp at hv; rw [← hv] at ho; simp at ho
    · simp only [setProc_base, setProc_idpCur]
      apply procs_ok_of s p _ s.idpCur r (Nat.le_refl _)
      refine ⟨fun e => ?_, fun e => ?_, q3, q4⟩ <;> (simp at e; split at e <;> simp at e)
  · -- reread
    split
    · refine ⟨by simpa using r1, by simpa using r2, ?_⟩
      simp only [setProc_base, setProc_idpCur]
      apply procs_ok_of s p _ s.idpCur r (Nat.le_refl _)
      refine ⟨fun e => ?_, fun e => ?_, q3, fun g e => ?_⟩
      · simp at e
      · simp at e
      · simp at e; exact q3 g e.2
    · rename_i v hv
      have hm := mine_some hv
      have hr := r2 v hm.1 hm.2
      split
      · refine ⟨by simpa using r1, by simpa using r2, ?_⟩
        simp only [setProc_base, setProc_idpCur]
        apply procs_ok_of s p _ s.idpCur r (Nat.le_refl _)
        refine ⟨fun e => ?_, fun e => ?_, q3, fun g e => ?_⟩
        · simp at e
        · simp at e
        · simp at e; have := e.2; omega
      · refine ⟨by simpa using r1, by simpa using r2, ?_⟩
        simp only [setProc_base, setProc_idpCur]
        apply procs_ok_of s p _ s.idpCur r (Nat.le_refl _)
        refine ⟨fun _ => ?_, fun e => ?_, q3, q4⟩
        · simpa using hr
        · simp at e
  · -- idp: by the invariant the token presented is the provider's current one, so the grant succeeds and the provider advances by one
    rename_i hpc
    have hrt := h.atIdp p hpc
    simp only [hrt, if_true]
    refine ⟨?_, ?_, ?_⟩
    · simp; omega
    · intro v hv ho; have := r2 v (by simpa using hv) ho; simp; omega
    · simp only [setProc_base]
      show ∀ q, POk s.base (s.idpCur + 1) ((setProc { s with presented := s.presented ++ [s.idpCur] } p _).procs q)
      intro q
      by_cases hq : q = p
      · subst hq
        simp only [setProc_same]
        refine ⟨fun e => ?_, fun _ => ?_, fun g e => ?_, fun g e => ?_⟩
        · simp at e
        · simp; omega
        · have := q3 g e; omega
        · have := q4 g e; omega
      · rw [setProc_other _ p q _ hq]; exact POk_mono (Nat.le_succ _) (r.procsR q)
  · -- update
    rename_i hpc
    have hnew := q2 hpc
    split
    · refine ⟨by simpa using r1, ?_, ?_⟩
      · intro v hv ho; simp at hv; rw [← hv]; simpa using hnew
      · simp only [setProc_base, setProc_idpCur]
        apply procs_ok_of s p _ s.idpCur r (Nat.le_refl _)
        refine ⟨fun e => ?_, fun e => ?_, q3, fun g e => ?_⟩
        · simp at e
        · simp at e
        · simp at e; have := e.2; omega
    · refine ⟨by simpa using r1, by simpa using r2, ?_⟩
      simp only [setProc_base, setProc_idpCur]
      apply procs_ok_of s p _ s.idpCur r (Nat.le_refl _)
      refine ⟨fun e => ?_, fun e => ?_, q3, fun g e => ?_⟩
      · simp at e
      · simp at e
      · simp at e; exact q3 g e.2
  · -- unlock
    refine ⟨by simpa using r1, by simpa using r2, ?_⟩
    simp only [setProc_base, setProc_idpCur]
    apply procs_ok_of s p _ s.idpCur r (Nat.le_refl _)
    refine ⟨fun e => ?_, fun e => ?_, q3, q4⟩ <;> simp at e
  · -- del
    refine ⟨by simpa using r1, by intro v hv; simp at hv, ?_⟩
    simp only [setProc_base, setProc_idpCur]
    apply procs_ok_of s p _ s.idpCur r (Nat.le_refl _)
    refine ⟨fun e => ?_, fun e => ?_, q3, q4⟩ <;> simp at e
  · exact r

/-- **every concurrent request is served with the previous or the new access token**: whatever the schedule and however many requests race, a proxied request that
    hands a token to the upstream hands the one the schedule started with or the one the (single) refresh of this schedule produced - never anything else -/
theorem served_previous_or_new (kinds : Pid → Kind) (g0 : Nat) (ps : List Pid) (p : Pid) (g : Nat) :
    let s := ps.foldl (fun s p => (step s p).1) (init kinds g0)
    (s.procs p).served = some g → g = g0 ∨ g = g0 + 1 := by
  intro s hg
  have key : ∀ (l : List Pid) (t : St), Inv t → OneInv t → RInv t → t.base = g0 →
      let u := l.foldl (fun s p => (step s p).1) t
      Inv u ∧ OneInv u ∧ RInv u ∧ u.base = g0 := by
    intro l
    induction l with
    | nil => intro t a b c d; exact ⟨a, b, c, d⟩
    | cons q qs ih =>
      intro t a b c d
      have hb : (step t q).1.base = g0 := by
        rw [← d]; unfold step; simp only []; split <;> (repeat' split) <;> simp
      exact ih _ (inv_step t q a) (one_step t q a b) (rinv_step t q a c) hb
  obtain ⟨_, ho, hr, hbase⟩ := key ps _ (inv_init kinds g0) (one_init kinds g0) (rinv_init kinds g0) rfl
  have h1 := (hr.procsR p).2.2.2 g hg
  have h2 := hr.count
  have h3 := ho.len
  rw [hbase] at h1 h2
  omega

/-- every presentation is accepted by the provider (the token presented is the current one): no request is logged out by a lost race -/
theorem every_grant_succeeds (s : St) (p : Pid) (h : Inv s) (hpc : (s.procs p).pc = .idp) : ((step s p).1.procs p).pc = .update := by
  have hrt := h.atIdp p hpc
  unfold step
  simp [hpc, hrt]

/-- the stored pair is always one the provider issued together: the stored generation is the provider's current one whenever nobody is inside
    the critical section -/
theorem stored_pair_is_current (kinds : Pid → Kind) (g0 : Nat) (ps : List Pid) :
    let s := ps.foldl (fun s p => (step s p).1) (init kinds g0)
    ∀ v, s.sess = some v → v.owner = 0 → s.lock = none → v.gen = s.idpCur :=
  fun v hv ho hl => (inv_run _ ps (inv_init kinds g0)).unlocked v hv ho hl

-- non-vacuity: two refreshers and a proxied request interleaved; exactly one grant
example : let s := [0, 1, 2, 0, 1, 0, 1, 2, 0, 0, 1, 2, 0, 1, 1, 2, 2, 2, 0, 1, 2, 0, 1, 2, 0, 1, 2, 2, 2, 2].foldl (fun s p => (step s p).1) (init (fun p => if p = 2 then .proxy else .refresh) 0)
    s.presented = [0] ∧ s.sess = some ⟨1, true, true, 0⟩ ∧ s.lock = none ∧ (s.procs 0).status = 200 ∧ (s.procs 1).status = 200 ∧ (s.procs 2).status = 200 := by decide

-- non-vacuity of `served_previous_or_new`: process 2 (proxied) is served the NEW token after refresher 0's write-back; process 3 (proxied), whose refresh finds the
-- entry gone after a logout (process 1), falls back to the PREVIOUS token it read first
example : let s := [0, 0, 0, 0, 0, 0, 0, 2, 2].foldl (fun s p => (step s p).1) (init (fun p => if p = 2 then .proxy else .refresh) 5)
    (s.procs 2).served = some 6 ∧ (s.procs 2).status = 200 := by decide

example : let s := [3, 3, 1, 1, 1, 3, 3, 3].foldl (fun s p => (step s p).1) (init (fun p => if p = 1 then .logoutLocal else .proxy) 5)
    (s.procs 3).served = some 5 ∧ s.sess = none ∧ s.presented = [] := by decide

end Ww.Proofs.C07
