import Ww.Gen.LogSites
/-!
# C18 — Secrets never appear in logs  (PARTIAL: a decidable statement about the regenerated table of ALL log and error-construction sites,
plus the runtime monitor of the harness; the classification of identifiers below is trusted)
-/
namespace Ww.Proofs.C18
open Ww.Gen.LogSites

def hasInfix (p : List Char) : List Char → Bool
  | [] => p.isEmpty
  | c :: cs => p.isPrefixOf (c :: cs) || hasInfix p cs

/-- identifiers under which the code holds secret material (tokens, verifier, cookie values, keys, client credentials, ciphertext/plaintext) -/
def secretWords : List String := ["AccessToken", "RefreshToken", "accessToken", "refreshToken", "idToken", "IdToken", "rawIdToken", "IDToken()", "Serialized()",
  "CodeVerifier", "codeVerifier", "ClientSecret()", "clientSecret", "ClientJWK()", "clientJwk", "EncryptionKey", "encKey", "Password", "password", "ssertion",
  "Ciphertext", "ciphertext", "ticketJson", "CookieJson", "rawTokens", "tokenResponse", ".Value", "dek", "rawData", "r.Cookies()", "Authorization", "payload"]

/-- arguments that contain such a word but are not secret values: names of configuration flags and a size -/
def exceptions : List String := ["config.OpenIDClientJWK", "config.OpenIDClientSecret", "plaintextSize"]

def isLiteral (a : String) : Bool := "\"".toList.isPrefixOf a.toList

/-- the same words as character lists, computed once (the kernel decodes a string literal every time it meets `toList`) -/
def secretWordsL : List (List Char) := secretWords.map String.toList

def suspiciousL (a : String) (al : List Char) : Bool := !isLiteral a && !exceptions.contains a && secretWordsL.any fun w => hasInfix w al

def suspicious (a : String) : Bool := suspiciousL a a.toList

def infixN (p : List Nat) : List Nat → Bool
  | [] => p.isEmpty
  | c :: cs => p.isPrefixOf (c :: cs) || infixN p cs

/-- `secretWords` / `exceptions` as lists of code points (the kernel compares numbers fast and decodes string literals slowly) -/
def secretWordCodes : List (List Nat) := [[65, 99, 99, 101, 115, 115, 84, 111, 107, 101, 110],
  [82, 101, 102, 114, 101, 115, 104, 84, 111, 107, 101, 110],
  [97, 99, 99, 101, 115, 115, 84, 111, 107, 101, 110],
  [114, 101, 102, 114, 101, 115, 104, 84, 111, 107, 101, 110],
  [105, 100, 84, 111, 107, 101, 110],
  [73, 100, 84, 111, 107, 101, 110],
  [114, 97, 119, 73, 100, 84, 111, 107, 101, 110],
  [73, 68, 84, 111, 107, 101, 110, 40, 41],
  [83, 101, 114, 105, 97, 108, 105, 122, 101, 100, 40, 41],
  [67, 111, 100, 101, 86, 101, 114, 105, 102, 105, 101, 114],
  [99, 111, 100, 101, 86, 101, 114, 105, 102, 105, 101, 114],
  [67, 108, 105, 101, 110, 116, 83, 101, 99, 114, 101, 116, 40, 41],
  [99, 108, 105, 101, 110, 116, 83, 101, 99, 114, 101, 116],
  [67, 108, 105, 101, 110, 116, 74, 87, 75, 40, 41],
  [99, 108, 105, 101, 110, 116, 74, 119, 107],
  [69, 110, 99, 114, 121, 112, 116, 105, 111, 110, 75, 101, 121],
  [101, 110, 99, 75, 101, 121],
  [80, 97, 115, 115, 119, 111, 114, 100],
  [112, 97, 115, 115, 119, 111, 114, 100],
  [115, 115, 101, 114, 116, 105, 111, 110],
  [67, 105, 112, 104, 101, 114, 116, 101, 120, 116],
  [99, 105, 112, 104, 101, 114, 116, 101, 120, 116],
  [116, 105, 99, 107, 101, 116, 74, 115, 111, 110],
  [67, 111, 111, 107, 105, 101, 74, 115, 111, 110],
  [114, 97, 119, 84, 111, 107, 101, 110, 115],
  [116, 111, 107, 101, 110, 82, 101, 115, 112, 111, 110, 115, 101],
  [46, 86, 97, 108, 117, 101],
  [100, 101, 107],
  [114, 97, 119, 68, 97, 116, 97],
  [114, 46, 67, 111, 111, 107, 105, 101, 115, 40, 41],
  [65, 117, 116, 104, 111, 114, 105, 122, 97, 116, 105, 111, 110],
  [112, 97, 121, 108, 111, 97, 100]]

def exceptionCodes : List (List Nat) := [[99, 111, 110, 102, 105, 103, 46, 79, 112, 101, 110, 73, 68, 67, 108, 105, 101, 110, 116, 74, 87, 75], [99, 111, 110, 102, 105, 103, 46, 79, 112, 101, 110, 73, 68, 67, 108, 105, 101, 110, 116, 83, 101, 99, 114, 101, 116], [112, 108, 97, 105, 110, 116, 101, 120, 116, 83, 105, 122, 101]]

/-- the code-point lists ARE the words above -/
theorem word_codes_are_the_words : secretWordCodes = secretWords.map (fun w => w.toList.map Char.toNat) ∧ exceptionCodes = exceptions.map (fun w => w.toList.map Char.toNat) := by
  decide +kernel

/-- a non-literal argument (as code points) that names secret material -/
def suspiciousN (a : List Nat) : Bool := !exceptionCodes.contains a && secretWordCodes.any fun w => infixN w a

/-- **no log statement and no error construction interpolates a secret-bearing identifier** — over the WHOLE regenerated table (`nonLiteralArgCodes`: per site, every
    argument that is not a string literal, as code points; literals are program text and cannot carry a run-time secret) -/
theorem no_secret_argument : nonLiteralArgCodes.all (fun args => args.all fun a => !suspiciousN a) = true := by decide +kernel

/-- the reduced tables cover every site, argument for argument -/
theorem tables_aligned : nonLiteralArgCodes.length = sites.length ∧ nonLiteralArgCodes.map List.length = nonLiteralArgs.map List.length := by decide +kernel

/-- format strings use `%+v` / `%v` only on errors, on the masked configuration copy or on provider metadata — never on a token-bearing struct -/
def plusVTargets : List String :=
  (sites.filter fun s => s.2.2.1 == "log" && (s.2.2.2.2.head?.map fun f => hasInfix "%+v".toList f.toList || hasInfix "%v".toList f.toList).getD false).flatMap fun s => s.2.2.2.2.drop 1

theorem plusv_only_on_safe_values :
    verbFormattedArgs.all (fun a => ["err", "cause", "masked", "c", "id", "route", "level"].contains a) = true := by decide +kernel

/-- the start-up banner prints a copy of the configuration in which every secret-bearing field has been overwritten -/
theorem config_secrets_masked :
    ["EncryptionKey", "OpenID.ClientJWK", "OpenID.ClientSecret", "Redis.Password", "Redis.URI"].all (fun f => maskedConfigFields.contains f) = true := by decide +kernel

/-- ... and each of them is overwritten with the constant marker or with `url.URL.Redacted()` (which drops the password whatever its text): no masker
    that searches for the secret's own characters (and can therefore miss an escaped or repeated one) -/
theorem config_maskers_are_total :
    maskedConfigAssignments.all (fun (_, rhs) => rhs == "redacted" || rhs == "u.Redacted()") = true := by decide +kernel

/-- the per-request log attributes are built from cookie NAMES, the referer without query, and three Fetch-metadata headers — no header map, no raw query -/
theorem request_attributes_safe :
    requestAttributes.all (fun a => !(hasInfix "r.Header)".toList a.toList || hasInfix "r.Cookies()".toList a.toList || hasInfix "RawQuery".toList a.toList ||
      hasInfix "RequestURI".toList a.toList || hasInfix "r.URL.String()".toList a.toList || hasInfix "Authorization".toList a.toList || hasInfix "r.Referer()".toList a.toList)) = true := by
  decide +kernel

end Ww.Proofs.C18
