import Ww.Gen.LogSites
/-!
# C18 — Secrets never appear in logs  (PARTIAL: a decidable statement about the regenerated table of ALL log and error-construction sites,
plus the runtime monitor of the harness; the classification of identifiers below is trusted)
-/
namespace Ww.Proofs.C18
open Ww.Gen.LogSites

def hasInfix (p : List Char) : List Char → Bool
  | [] => p.isEmpty
  | c :: cs => p.isPrefixOf (c :: cs) || hasInfix p cs

/-- identifiers under which the code holds secret material (tokens, verifier, cookie values, keys, client credentials, ciphertext/plaintext) -/
def secretWords : List String := ["AccessToken", "RefreshToken", "accessToken", "refreshToken", "idToken", "IdToken", "rawIdToken", "IDToken()", "Serialized()",
  "CodeVerifier", "codeVerifier", "ClientSecret()", "clientSecret", "ClientJWK()", "clientJwk", "EncryptionKey", "encKey", "Password", "password", "ssertion",
  "Ciphertext", "ciphertext", "ticketJson", "CookieJson", "rawTokens", "tokenResponse", ".Value", "dek", "rawData", "r.Cookies()", "Authorization", "payload"]

/-- arguments that contain such a word but are not secret values: names of configuration flags and a size -/
def exceptions : List String := ["config.OpenIDClientJWK", "config.OpenIDClientSecret", "plaintextSize"]

def isLiteral (a : String) : Bool := "\"".toList.isPrefixOf a.toList

/-- the same words as character lists, computed once (the kernel decodes a string literal every time it meets `toList`) -/
def secretWordsL : List (List Char) := secretWords.map String.toList

def suspiciousL (a : String) (al : List Char) : Bool := !isLiteral a && !exceptions.contains a && secretWordsL.any fun w => hasInfix w al

def suspicious (a : String) : Bool := suspiciousL a a.toList

/-- **no log statement and no error construction interpolates a secret-bearing identifier** — over the WHOLE regenerated table -/
theorem no_secret_argument : sites.all (fun s => s.2.2.2.2.all fun a => !suspicious a) = true := by decide +kernel

/-- format strings use `%+v` / `%v` only on errors, on the masked configuration copy or on provider metadata — never on a token-bearing struct -/
def plusVTargets : List String :=
  (sites.filter fun s => s.2.2.1 == "log" && (s.2.2.2.2.head?.map fun f => hasInfix "%+v".toList f.toList || hasInfix "%v".toList f.toList).getD false).flatMap fun s => s.2.2.2.2.drop 1

theorem plusv_only_on_safe_values :
    plusVTargets.all (fun a => ["err", "cause", "masked", "c", "id", "route", "level"].contains a) = true := by decide +kernel

/-- the start-up banner prints a copy of the configuration in which every secret-bearing field has been overwritten -/
theorem config_secrets_masked :
    ["EncryptionKey", "OpenID.ClientJWK", "OpenID.ClientSecret", "Redis.Password", "Redis.URI"].all (fun f => maskedConfigFields.contains f) = true := by decide +kernel

/-- ... and each of them is overwritten with the constant marker or with `url.URL.Redacted()` (which drops the password whatever its text): no masker
    that searches for the secret's own characters (and can therefore miss an escaped or repeated one) -/
theorem config_maskers_are_total :
    maskedConfigAssignments.all (fun (_, rhs) => rhs == "redacted" || rhs == "u.Redacted()") = true := by decide +kernel

/-- the per-request log attributes are built from cookie NAMES, the referer without query, and three Fetch-metadata headers — no header map, no raw query -/
theorem request_attributes_safe :
    requestAttributes.all (fun a => !(hasInfix "r.Header)".toList a.toList || hasInfix "r.Cookies()".toList a.toList || hasInfix "RawQuery".toList a.toList ||
      hasInfix "RequestURI".toList a.toList || hasInfix "r.URL.String()".toList a.toList || hasInfix "Authorization".toList a.toList || hasInfix "r.Referer()".toList a.toList)) = true := by
  decide +kernel

end Ww.Proofs.C18
