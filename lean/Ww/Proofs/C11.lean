import Ww.Model.Faults
import Ww.Proofs.C01
/-!
# C11 — Store and identity-provider faults fail closed
-/
namespace Ww.Proofs.C11
open Ww.Gen Ww.Model Ww.Proofs.C01

/-- without faults the faulty handlers are the ordinary ones -/
theorem no_faults_same (cfg : Cfg) (ck : CookieSt) (st : StoreSt) (plan : IdpPlan) (a r : String) (ign : Bool) (now : Int) :
    proxyF cfg {} ck st plan a r ign now = proxy cfg ck st plan a r ign now := by
  have hg : ∀ ck st, getSessF false ck st now = getSess ck st now := by
    intro ck st; unfold getSessF; cases ck <;> simp
  have hr : ∀ d, refreshF cfg {} d st plan a r now = refresh cfg d st plan a r now := by
    intro d; unfold refreshF refresh
    simp only [hg, Bool.false_eq_true, if_false]
    by_cases hc : canRefresh d now <;> simp [hc]
    generalize getSess .valid st now = g
    rcases g with ⟨ge, gs⟩
    cases ge <;> cases gs <;> simp
    rename_i d2
    by_cases hc2 : canRefresh d2 now <;> simp [hc2]
    cases plan <;> simp
  unfold proxyF proxy getSessionF getSession getOrRefreshF getOrRefresh
  simp only [hg, hr]
  rfl

theorem refreshF_ok (cfg : Cfg) (fl : Faults) (d0 d : Data) (plan : IdpPlan) (a r : String) (now : Int) (hve : validateErr d0 now = none)
    (he : (refreshF cfg fl d0 (.present d0) plan a r now).err = none) (hs : (refreshF cfg fl d0 (.present d0) plan a r now).sess = some d) :
    d = d0 ∨ ∃ secs, plan = .ok secs ∧ d = applyGrant cfg d0 a r secs now ∧ fl.update = false ∧ fl.lock = false ∧ fl.reread = false := by
  unfold refreshF getSessF getSess at he hs
  by_cases hc : canRefresh d0 now
  · simp only [hc, Bool.not_true, Bool.false_eq_true, if_false] at he hs
    cases hl : fl.lock
    · simp only [hl, Bool.false_eq_true, if_false] at he hs
      cases hrr : fl.reread
      · simp only [hrr, Bool.false_eq_true, if_false, hve, hc, Bool.not_true] at he hs
        cases plan with
        | ok secs =>
          cases hu : fl.update
          · simp [hu] at hs; right; exact ⟨secs, rfl, hs.symm, rfl, rfl, rfl⟩
          · simp [hu] at he
        | clientErr => simp at he
        | serverErr => simp at he
        | broken => simp at he
      · simp [hrr] at he
    · simp [hl] at he
  · simp [hc] at hs; left; exact hs.symm

/-- whatever `getSessionF` returns without error was read from the store in this request and passed Validate, or was just granted and stored -/
theorem getSessionF_read (cfg : Cfg) (fl : Faults) (ck : CookieSt) (st : StoreSt) (plan : IdpPlan) (a r : String) (now : Int) (d : Data)
    (hs : (getSessionF cfg fl ck st plan a r now).sess = some d) (he : (getSessionF cfg fl ck st plan a r now).err = none) :
    ck = .valid ∧ fl.read = false ∧
    ((st = .present d ∧ d.Validate now = []) ∨
     (∃ d0 secs, st = .present d0 ∧ d0.Validate now = [] ∧ d = applyGrant cfg d0 a r secs now ∧ plan = .ok secs ∧ fl.update = false ∧ fl.lock = false ∧ fl.reread = false)) := by
  -- every case in which the first lookup does not deliver a session ends with an error
  have key : (getSessF fl.read ck st now).err = none := by
    cases hge : (getSessF fl.read ck st now).err with
    | none => rfl
    | some e =>
      exfalso
      unfold getSessionF getOrRefreshF at he
      simp only [hge] at he
      split at he <;> simp at he
  have hck : ck = .valid ∧ fl.read = false ∧ ∃ d0, st = .present d0 ∧ validateErr d0 now = none ∧ getSessF fl.read ck st now = ⟨none, some d0⟩ := by
    unfold getSessF getSess at key ⊢
    cases ck <;> simp at key ⊢
    cases hfr : fl.read <;> simp [hfr] at key ⊢
    cases st <;> simp at key ⊢
    exact key
  obtain ⟨hck1, hfr, d0, hst, hve, hget⟩ := hck
  have hv := validateErr_none d0 now hve
  refine ⟨hck1, hfr, ?_⟩
  subst hst
  unfold getSessionF getOrRefreshF at hs he
  simp only [hget] at hs he
  by_cases hm : (decide (cfg.mode = .ssoProxy) || cfg.autoRefreshDisabled) = true
  · simp [hm] at hs; left; exact ⟨by rw [hs], by rw [← hs]; exact hv⟩
  · simp only [hm] at hs he
    by_cases hsr : shouldRefresh d0 now
    · simp only [hsr, Bool.not_true, Bool.false_eq_true, if_false] at hs he
      cases hre : (refreshF cfg fl d0 (.present d0) plan a r now).err with
      | some e =>
        simp only [hre] at hs he
        split at hs
        · simp at hs
        · simp at hs; left; exact ⟨by rw [hs], by rw [← hs]; exact hv⟩
      | none =>
        simp only [hre] at hs
        rcases refreshF_ok cfg fl d0 d plan a r now hve hre hs with h | ⟨secs, h1, h2, h3, h4, h5⟩
        · left; exact ⟨by rw [h], by rw [h]; exact hv⟩
        · right; exact ⟨d0, secs, rfl, hv, h2, h1, h3, h4, h5⟩
    · simp [hsr] at hs; left; exact ⟨by rw [hs], by rw [← hs]; exact hv⟩

/-- **C11 (fail closed).** Whatever faults occur, a request is forwarded with a token only if the session was actually read (or just refreshed) and
    validated during that request, and the token forwarded is not expired -/
theorem forwarded_token_was_read_and_is_fresh (cfg : Cfg) (fl : Faults) (ck : CookieSt) (st : StoreSt) (plan : IdpPlan) (a r : String) (ign : Bool) (now : Int) (t : String)
    (h : (proxyF cfg fl ck st plan a r ign now).upAuth = some t) :
    ck = .valid ∧ fl.read = false ∧ ∃ d, (getSessionF cfg fl ck st plan a r now).sess = some d ∧ t = d.AccessToken ∧ ¬ now > d.Metadata.Tokens.ExpireAt ∧
      (st = .present d ∨ ∃ d0 secs, st = .present d0 ∧ d = applyGrant cfg d0 a r secs now ∧ plan = .ok secs ∧ fl.update = false ∧ fl.lock = false ∧ fl.reread = false) := by
  unfold proxyF at h
  generalize hg : getSessionF cfg fl ck st plan a r now = g at h
  have hun : ∀ ign, (proxyUnauth cfg ign g).upAuth = none := by intro ign; unfold proxyUnauth; split <;> rfl
  cases hge : g.err <;> cases hgs : g.sess <;> simp only [hge, hgs, hun] at h <;> try (simp at h)
  rename_i d
  cases hat : accessToken d now <;> simp only [hat, hun] at h <;> try (simp at h)
  rename_i tok
  have hr := getSessionF_read cfg fl ck st plan a r now d (by rw [hg]; exact hgs) (by rw [hg]; exact hge)
  have hak := accessToken_some d now tok hat
  by_cases hacr : cfg.acr = "" ∨ acrValid cfg.acr d.Acr = true
  · rw [if_pos hacr] at h
    simp at h
    refine ⟨hr.1, hr.2.1, d, rfl, by rw [← h, hak.1], hak.2.2, ?_⟩
    rcases hr.2.2 with h1 | ⟨d0, secs, h1, _, h3, h4, h5, h6, h7⟩
    · left; exact h1.1
    · right; exact ⟨d0, secs, h1, h3, h4, h5, h6, h7⟩
  · rw [if_neg hacr, hun] at h; simp at h

/-- **never a stale token.** An expired access token is never forwarded when the refresh does not succeed — whichever fault prevents it -/
theorem expired_token_never_forwarded (cfg : Cfg) (fl : Faults) (d : Data) (plan : IdpPlan) (a r : String) (ign : Bool) (now : Int)
    (hexp : now > d.Metadata.Tokens.ExpireAt)
    (hfail : fl.lock = true ∨ fl.reread = true ∨ fl.update = true ∨ fl.read = true ∨ plan = .clientErr ∨ plan = .serverErr ∨ plan = .broken) :
    (proxyF cfg fl .valid (.present d) plan a r ign now).upAuth = none := by
  cases hu : (proxyF cfg fl .valid (.present d) plan a r ign now).upAuth with
  | none => rfl
  | some t =>
    obtain ⟨_, hread, d', _, _, hne, hor⟩ := forwarded_token_was_read_and_is_fresh cfg fl .valid (.present d) plan a r ign now t hu
    rcases hor with h1 | ⟨d0, secs, _, _, hpl, hfu, hfl, hfr⟩
    · injection h1 with h1; subst h1; exact absurd hexp hne
    · exfalso
      rcases hfail with h | h | h | h | h | h | h
      · rw [h] at hfl; cases hfl
      · rw [h] at hfr; cases hfr
      · rw [h] at hfu; cases hfu
      · rw [h] at hread; cases hread
      · rw [h] at hpl; cases hpl
      · rw [h] at hpl; cases hpl
      · rw [h] at hpl; cases hpl

/-- a provider rejection (4xx) of the refresh token makes the session unauthenticated: proxied requests go on without a token, forward-auth and manual refresh answer 401 -/
theorem provider_rejection_unauthenticates (cfg : Cfg) (d : Data) (a r : String) (ign : Bool) (now : Int)
    (hm : cfg.mode ≠ .ssoProxy) (ha : cfg.autoRefreshDisabled = false) (hv : d.Validate now = [])
    (hsr : shouldRefresh d now = true) (hc : canRefresh d now = true) :
    (proxyF cfg {} .valid (.present d) .clientErr a r ign now).upAuth = none ∧
    (sessionRefreshF cfg {} .valid (.present d) .clientErr a r now).status = 401 ∧
    (cfg.forwardAuth = true → (forwardAuthF cfg {} .valid (.present d) .clientErr a r now).status = 401) := by
  have hve := validateErr_of_nil d now hv
  refine ⟨?_, ?_, ?_⟩
  · unfold proxyF getSessionF getOrRefreshF refreshF getSessF getSess proxyUnauth
    simp [hm, ha, hve, hsr, hc, SessErr.isInvalid]
    split <;> rfl
  · unfold sessionRefreshF refreshF getSessF getSess
    simp [hve, hc, SessErr.isInvalid]
  · intro hf
    unfold forwardAuthF getSessionF getOrRefreshF refreshF getSessF getSess
    simp [hf, hm, ha, hve, hsr, hc, SessErr.isInvalid, statusOfErr]

/-- **logout reports faults.** A logout whose session could not be looked up or deleted because of a store fault does not answer success -/
theorem logout_fault_is_reported (k : LogoutKind) (fl : Faults) (st : StoreSt) (now : Int) (d : Data) (hst : st = .present d)
    (hf : fl.read = true ∨ fl.del = true) (hk : k = .frontchannel → fl.del = true) :
    (logoutF k fl .valid st now).1 ≠ 204 ∧ (logoutF k fl .valid st now).1 ≠ 302 ∧ (logoutF k fl .valid st now).1 ≠ 200 ∧ (logoutF k fl .valid st now).2 = st := by
  subst hst
  unfold logoutF getSessF getSess
  cases k with
  | frontchannel => simp [hk rfl]
  | local_ =>
    cases hr : fl.read <;> simp [hr]
    · rcases hf with h | h
      · rw [hr] at h; cases h
      · cases hve : validateErr d now with
        | none => simp [h]
        | some e => cases e <;> simp [h]
  | global =>
    cases hr : fl.read <;> simp [hr]
    · rcases hf with h | h
      · rw [hr] at h; cases h
      · cases hve : validateErr d now with
        | none => simp [h]
        | some e => cases e <;> simp [h]

theorem validateErr_ne_other (d : Data) (now : Int) : validateErr d now ≠ some .other := by
  unfold validateErr
  split
  · simp
  · split <;> simp

/-- and without faults a logout removes the entry and answers success -/
theorem logout_success (k : LogoutKind) (st : StoreSt) (now : Int) (d : Data) (hst : st = .present d) :
    (logoutF k {} .valid st now).2 = .absent := by
  subst hst
  unfold logoutF getSessF getSess
  cases k <;> simp
  all_goals (cases hve : validateErr d now with | none => simp | some e => cases e <;> simp <;> exact absurd hve (validateErr_ne_other d now))

end Ww.Proofs.C11
