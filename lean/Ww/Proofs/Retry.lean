import Ww.Model.Retry
import Ww.Gen.Consts
/-!
# C11 "short transient store faults are absorbed by retries": the back-off schedule, for every base, budget and fault length

Unbounded statements about `Ww.Model.Retry` (any base, any budget, any fault duration), then the instance at the constants regenerated from pkg/retry/retry.go.
-/
namespace Ww.Proofs.Retry
open Ww.Model.Retry

theorem pause_pos {next left : Nat} (h : 0 < left) : 0 < pause next left := by
  unfold pause; split <;> omega

theorem pause_le (next left : Nat) : pause next left ≤ left := by
  unfold pause; split <;> omega

/-- no attempt is made before the running offset -/
theorem attempts_ge (max f p c t : Nat) : ∀ x ∈ attempts max f p c t, t ≤ x := by
  induction f generalizing p c t with
  | zero => intro x hx; simp [attempts] at hx; omega
  | succ f ih =>
    intro x hx
    unfold attempts at hx
    split at hx
    · simp at hx; omega
    · simp only [List.mem_cons] at hx
      rcases hx with rfl | hx
      · exact Nat.le_refl _
      · have := ih _ _ _ x hx; omega

/-- **the budget is never overrun**: every attempt happens within `max` of the start -/
theorem attempts_le_max (max f p c t : Nat) (ht : t ≤ max) : ∀ x ∈ attempts max f p c t, x ≤ max := by
  induction f generalizing p c t with
  | zero => intro x hx; simp [attempts] at hx; omega
  | succ f ih =>
    intro x hx
    unfold attempts at hx
    split at hx
    · simp at hx; omega
    · simp only [List.mem_cons] at hx
      rcases hx with rfl | hx
      · exact ht
      · have hp := pause_le (p + c) (max - t)
        exact ih _ _ _ (by omega) x hx

/-- **the last attempt is made exactly when the budget runs out**, whatever the base: the pause is cut down to what is left, never skipped -/
theorem last_attempt_at_max (max f p c t : Nat) (ht : t ≤ max) (hf : max - t < f) : (attempts max f p c t).getLast? = some max := by
  induction f generalizing p c t with
  | zero => omega
  | succ f ih =>
    unfold attempts
    split
    · have : t = max := by omega
      simp [this]
    · rename_i hlt
      have hpos := pause_pos (next := p + c) (left := max - t) (by omega)
      have hle := pause_le (p + c) (max - t)
      have := ih c (p + c) (t + pause (p + c) (max - t)) (by omega) (by omega)
      rw [List.getLast?_cons]
      simp [this]

/-- attempts are strictly increasing: the policy always waits before it tries again -/
theorem attempts_increasing (max f p c t : Nat) : (attempts max f p c t).Pairwise (· < ·) := by
  induction f generalizing p c t with
  | zero => simp [attempts]
  | succ f ih =>
    unfold attempts
    split
    · simp
    · rename_i hlt
      have hpos := pause_pos (next := p + c) (left := max - t) (by omega)
      refine List.Pairwise.cons ?_ (ih _ _ _)
      intro x hx
      have := attempts_ge _ _ _ _ _ x hx
      omega

theorem length_le (max f p c t : Nat) : (attempts max f p c t).length ≤ max - t + 1 := by
  induction f generalizing p c t with
  | zero => simp [attempts]
  | succ f ih =>
    unfold attempts
    split
    · simp
    · rename_i hlt
      have hpos := pause_pos (next := p + c) (left := max - t) (by omega)
      have := ih c (p + c) (t + pause (p + c) (max - t))
      simp only [List.length_cons]; omega

theorem outcomeOf_ok_of_mem (d : Nat) : ∀ (l : List Nat) (n : Nat), (∃ x ∈ l, d ≤ x) → ∃ t k, outcomeOf d l n = .ok t k ∧ t ∈ l ∧ d ≤ t
  | [], _, h => by obtain ⟨x, hx, _⟩ := h; cases hx
  | [t], n, h => by
    obtain ⟨x, hx, hd⟩ := h
    simp at hx; subst hx
    exact ⟨x, n + 1, by simp [outcomeOf, hd], by simp, hd⟩
  | t :: u :: rest, n, h => by
    by_cases hd : d ≤ t
    · exact ⟨t, n + 1, by simp [outcomeOf, hd], by simp, hd⟩
    · obtain ⟨x, hx, hdx⟩ := h
      have hx' : x ∈ u :: rest := by
        simp only [List.mem_cons] at hx ⊢
        rcases hx with rfl | hx
        · exact absurd hdx hd
        · exact hx
      obtain ⟨t', k, h1, h2, h3⟩ := outcomeOf_ok_of_mem d (u :: rest) (n + 1) ⟨x, hx', hdx⟩
      exact ⟨t', k, by simp [outcomeOf, hd, h1], List.mem_cons_of_mem _ h2, h3⟩

theorem outcomeOf_gaveUp (d : Nat) : ∀ (l : List Nat) (n : Nat), l ≠ [] → (∀ x ∈ l, x < d) → outcomeOf d l n = .gaveUp (l.getLast?.getD 0) (n + l.length)
  | [], _, h, _ => absurd rfl h
  | [t], n, _, h => by
    have : ¬ d ≤ t := by have := h t (by simp); omega
    simp [outcomeOf, this]
  | t :: u :: rest, n, _, h => by
    have : ¬ d ≤ t := by have := h t (by simp); omega
    have ih := outcomeOf_gaveUp d (u :: rest) (n + 1) (by simp) (fun x hx => h x (List.mem_cons_of_mem _ hx))
    simp only [outcomeOf, this, if_false, ih, List.length_cons]
    rw [List.getLast?_cons_cons]
    congr 1; omega

/-- **transient faults are absorbed** — for every base, every budget `max`, every fault that ends at some `d ≤ max` after the call began: one of the attempts
    succeeds, at an offset within the budget, and no later than the budget's end. (`fuel` only bounds the recursion: anything above `max` will do.) -/
theorem transient_fault_absorbed (base max fuel d : Nat) (hf : max < fuel) (hd : d ≤ max) :
    ∃ t k, outcome base max fuel d = .ok t k ∧ d ≤ t ∧ t ≤ max := by
  have hlast := last_attempt_at_max max fuel 0 base 0 (Nat.zero_le _) (by omega)
  have hmem : max ∈ attempts max fuel 0 base 0 := List.mem_of_getLast? hlast
  obtain ⟨t, k, h1, h2, h3⟩ := outcomeOf_ok_of_mem d (schedule base max fuel) 0 ⟨max, hmem, hd⟩
  exact ⟨t, k, h1, h3, attempts_le_max max fuel 0 base 0 (Nat.zero_le _) t h2⟩

/-- **a fault that outlasts the budget ends the call** (fail closed, in bounded time): the last attempt is made exactly at `max`, after at most `max + 1` tries,
    and the call gives up there -/
theorem persistent_fault_gives_up (base max fuel d : Nat) (hf : max < fuel) (hd : max < d) :
    ∃ k, outcome base max fuel d = .gaveUp max k ∧ k ≤ max + 1 := by
  have hlast := last_attempt_at_max max fuel 0 base 0 (Nat.zero_le _) (by omega)
  have hne : attempts max fuel 0 base 0 ≠ [] := by intro h; simp [h] at hlast
  have hall : ∀ x ∈ attempts max fuel 0 base 0, x < d := fun x hx => by
    have := attempts_le_max max fuel 0 base 0 (Nat.zero_le _) x hx; omega
  have := outcomeOf_gaveUp d _ 0 hne hall
  refine ⟨_, by simpa [outcome, schedule, hlast] using this, ?_⟩
  have := length_le max fuel 0 base 0; omega

/-- **the abstraction `Ww.Model.Faults` uses, justified**: a retried operation fails if and only if the fault outlasts the budget -/
theorem absorbed_iff_within_budget (base max fuel d : Nat) (hf : max < fuel) :
    (∃ t k, outcome base max fuel d = .ok t k) ↔ d ≤ max := by
  constructor
  · intro ⟨t, k, h⟩
    by_cases hd : d ≤ max
    · exact hd
    · obtain ⟨k', h', _⟩ := persistent_fault_gives_up base max fuel d hf (by omega)
      rw [h'] at h; cases h
  · intro hd
    obtain ⟨t, k, h, _, _⟩ := transient_fault_absorbed base max fuel d hf hd
    exact ⟨t, k, h⟩

/-- the schedule of the CURRENT constants (pkg/retry/retry.go, regenerated): 50 ms base, 5 s budget ⇒ ten attempts at
    0, 50, 150, 300, 550, 950, 1600, 2650, 4350 ms and - cut down from 7100 - at 5000 ms -/
theorem schedule_of_the_source :
    (schedule Ww.Gen.Consts.retryBase.toNat Ww.Gen.Consts.retryMax.toNat 64).map (· / 1000000) = [0, 50, 150, 300, 550, 950, 1600, 2650, 4350, 5000] ∧
    0 < Ww.Gen.Consts.retryBase ∧ 0 < Ww.Gen.Consts.retryMax := by decide

/-- at the current constants: any store / provider fault shorter than the 5 s budget is absorbed -/
theorem source_absorbs_short_faults (d : Nat) (hd : d ≤ Ww.Gen.Consts.retryMax.toNat) :
    ∃ t k, outcome Ww.Gen.Consts.retryBase.toNat Ww.Gen.Consts.retryMax.toNat (Ww.Gen.Consts.retryMax.toNat + 1) d = .ok t k ∧ d ≤ t ∧ t ≤ Ww.Gen.Consts.retryMax.toNat :=
  transient_fault_absorbed _ _ _ d (Nat.lt_succ_self _) hd

/-- non-vacuity: a 120 ms fault is absorbed by the third attempt (at 150 ms); a fault outlasting the budget costs ten attempts -/
example : outcome 50 5000 64 120 = .ok 150 3 ∧ outcome 50 5000 64 6000 = .gaveUp 5000 10 ∧ outcome 50 5000 64 0 = .ok 0 1 := by decide

end Ww.Proofs.Retry
