/-!
# Spec of the refresh schedule / session-lifetime rules (C06, C08), stated on OBSERVATIONS.

Written from the property text and docs/sessions.md, not from data.go: plain integers, no reference to `Ww.Gen`.
Each check returns the reason codes of the conjuncts that fail. The same predicates are proved of the regenerated
model in `Ww.Proofs.C06/C08` and evaluated on what the implementation returned in every run.
-/
namespace Ww.Spec.Meta

def fiveMin : Int := 300000000000
def oneMin : Int := 60000000000
def second : Int := 1000000000

structure Obs where
  now : Int
  created : Int
  ends : Int
  timeout : Int
  expire : Int
  refreshed : Int
  access : Bool
  refresh : Bool
  isEnded : Bool
  isExpired : Bool
  isTimedOut : Bool
  onCooldown : Bool
  shouldRefresh : Bool
  nextRefresh : Int
  cooldown : Int
  lifetime : Int
  validate : List String
  hasActive : Bool
  vEndsIn : Int
  vActive : Bool
  vTimeoutIn : Int
  vExpireIn : Int
  vNextAuto : Int
  vCooldown : Bool
  vCooldownSecs : Int

def earliest (o : Obs) : Int :=
  if o.timeout = 0 then o.expire - fiveMin
  else min (o.expire - fiveMin) (o.refreshed + (o.timeout - o.refreshed) / 2)

/-- whole seconds remaining, clamped at 0 (docs/endpoints.md: "…_in_seconds") -/
def secs (d : Int) : Int := if d < second then 0 else d / second

def check (o : Obs) : List (String × String) :=
  let ended := decide (o.now > o.ends)
  let timedOut := decide (o.timeout ≠ 0 ∧ o.now > o.timeout)
  let expired := decide (o.now > o.expire)
  let life := o.expire - o.refreshed
  let r : List (Bool × String × String) := [
    -- C08
    (expired && !o.shouldRefresh, "C08.missed_when_expired", "token expired but ShouldRefresh is false"),
    (o.shouldRefresh && !expired && o.onCooldown, "C08.during_cooldown", "ShouldRefresh while the cooldown runs"),
    (o.shouldRefresh && !expired && decide (o.now < o.cooldown), "C08.during_cooldown", "ShouldRefresh before the reported cooldown end"),
    (o.shouldRefresh && !expired && decide (o.timeout = 0 ∨ o.refreshed ≤ o.timeout) && !decide (o.now > earliest o), "C08.early",
      "ShouldRefresh earlier than expiry-5min / half-life"),
    (decide (0 ≤ life) && !(decide (o.refreshed ≤ o.cooldown) && decide (o.cooldown ≤ o.refreshed + oneMin)), "C08.cooldown_bound", "cooldown not within [0, 1 min]"),
    (decide (0 ≤ life) && !decide (o.cooldown ≤ o.refreshed + life), "C08.cooldown_bound", "cooldown outlasts the token (an expired token could be on cooldown)"),
    (decide (1 ≤ life) && !decide (o.cooldown < o.expire), "C08.no_opportunity", "cooldown ends no earlier than the token: no refresh opportunity before expiry"),
    (decide (0 ≤ life) && (o.onCooldown != decide (o.now < o.cooldown)), "C08.cooldown_bound", "IsRefreshOnCooldown disagrees with the cooldown end"),
    -- a session that keeps being used gets an opportunity before expiry: the last unexpired instant must refresh
    (decide (o.now = o.expire) && decide (second ≤ life) && !o.shouldRefresh, "C08.no_opportunity", "last unexpired instant does not refresh"),
    (o.vActive != !timedOut, "C08.metadata_field.active", "active flag"),
    (o.vCooldown != o.onCooldown, "C08.metadata_field.refresh_cooldown", "cooldown flag"),
    (decide (o.vExpireIn ≠ secs (o.expire - o.now)), "C08.metadata_field.expire_in_seconds", ""),
    (decide (o.vCooldownSecs ≠ secs (o.cooldown - o.now)), "C08.metadata_field.refresh_cooldown_seconds", ""),
    (decide (o.vNextAuto ≠ secs (o.nextRefresh - o.now)), "C08.metadata_field.next_auto_refresh_in_seconds", ""),
    (decide (o.vEndsIn ≠ secs (o.ends - o.now)), "C08.metadata_field.ends_in_seconds", ""),
    (decide (o.vTimeoutIn ≠ (if o.timeout = 0 then -1 else secs (o.timeout - o.now))), "C08.metadata_field.timeout_in_seconds", ""),
    -- a reported next auto refresh in the future must not already be due, and a due one must be reported as 0
    (o.shouldRefresh && !expired && decide (o.vNextAuto > 0), "C08.metadata_field.next_auto_refresh_in_seconds", "refresh due but next_auto_refresh > 0"),
    -- C06
    (ended && o.validate.isEmpty, "C06.accepted_after_end", "Validate accepts a session past its end"),
    (timedOut && o.validate.isEmpty, "C06.accepted_after_idle", "Validate accepts a session past its inactivity timeout"),
    (ended && !(o.validate == ["ErrInvalid"]) && o.access, "C06.status.ended", "an ended session must be plain invalid (401), not 'inactive'"),
    (!ended && timedOut && o.access && !(o.validate == ["ErrInvalid", "ErrInactive"]), "C06.status.inactive", "a merely inactive session must be reported invalid+inactive"),
    (!o.access && o.validate.isEmpty, "C01.token_without_valid_session.no_access_token", "Validate accepts a session without access token"),
    (o.access && !ended && !timedOut && !o.validate.isEmpty, "C01.rejected_valid_session", "Validate rejects a live session"),
    (o.hasActive && (expired || !o.access), "C01.token_without_valid_session.expired", "HasActiveAccessToken true for an expired/absent token"),
    (o.access && !expired && !o.hasActive, "C01.rejected_valid_session", "HasActiveAccessToken false for an unexpired token"),
    (o.isEnded != ended, "C06.accepted_after_end", "IsEnded"),
    (o.isTimedOut != timedOut, "C06.accepted_after_idle", "IsTimedOut"),
    (o.isExpired != expired, "C08.missed_when_expired", "IsExpired")
  ]
  r.filterMap fun (b, c, d) => if b then some (c, d) else none

/-- observation of a refresh of the metadata (Refresh(secs) followed by WithTimeout(inact) when inactivity is on) -/
structure RefreshObs where
  now : Int
  created : Int
  ends : Int
  timeout : Int
  expire : Int
  refreshed : Int
  secsIn : Int
  inact : Int
  rcreated : Int
  rends : Int
  rtimeout : Int
  rexpire : Int
  rrefreshed : Int

def checkRefresh (o : RefreshObs) : List (String × String) :=
  let r : List (Bool × String × String) := [
    (decide (o.rends ≠ o.ends), "C06.end_moved", "refresh moved the session end"),
    (decide (o.rcreated ≠ o.created), "C06.end_moved", "refresh moved the creation time"),
    (decide (o.rrefreshed ≠ o.now), "C08.cooldown_bound", "refresh did not stamp RefreshedAt = now"),
    (decide (o.inact > 0) && decide (o.rtimeout ≠ o.now + o.inact), "C06.accepted_after_idle", "inactivity timeout not re-armed to now + timeout"),
    (decide (o.inact = 0) && decide (o.rtimeout ≠ o.timeout), "C06.accepted_after_idle", "timeout changed although inactivity is off"),
    (decide (o.inact > 0) && decide (o.rexpire > o.rtimeout), "C06.accepted_after_idle", "token outlives the inactivity timeout"),
    (decide (o.rexpire > o.now + o.secsIn * second), "C08.missed_when_expired", "expiry later than the provider's expires_in"),
    (decide (o.rexpire ≠ (if o.inact > 0 then min (o.now + o.secsIn * second) (o.now + o.inact) else o.now + o.secsIn * second)), "C08.metadata_field.expire_at", "")
  ]
  r.filterMap fun (b, c, d) => if b then some (c, d) else none

end Ww.Spec.Meta
