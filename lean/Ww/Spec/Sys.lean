/-!
# Spec of the session-bearing endpoints, stated on OBSERVATIONS of one handler step (C01 C05 C06 C08 C10 C11 C15 C16)

Independent of `Ww.Model` and `Ww.Gen`: plain records of what the harness saw (pre-state read from the store, request, provider
answer, response, upstream request, post-state). `check` lists the reason codes of the conjuncts that fail.
-/
namespace Ww.Spec.Sys

def second : Int := 1000000000
def fiveMin : Int := 300 * second
def oneMin : Int := 60 * second

structure St where
  st : Nat            -- 0 absent, 1 present, 2 undecryptable
  ttl : Int := 0
  created : Int := 0
  ends : Int := 0
  timeout : Int := 0
  expire : Int := 0
  refreshed : Int := 0
  atok : String := ""
  rtok : String := ""
  idt : String := ""
  sacr : String := ""
  sid : String := ""
  deriving Repr, BEq

structure Step where
  mode : Nat          -- 0 standalone, 1 sso server, 2 sso proxy
  cfwd : Bool
  inact : Int
  maxlife : Int
  acr : String
  idtok : Bool
  autologin : Bool
  op : String
  now : Int
  lag : Int := 0      -- how far the store's clock trails the replicas' in this run (harness-made; entries live that much longer)
  ck : Nat            -- 0 none, 1 valid ticket, 2 undecryptable
  plan : String
  secs : Int
  newat : String
  ignored : Bool
  cauth : Bool
  pre : St
  status : Nat
  fwd : Bool
  upauth : String     -- "-", "client", "other", "w:<name>"
  nauth : Nat
  upid : String
  contacted : Nat
  granted : Nat
  hasbody : Bool
  bactive : Bool
  bnext : Int
  bcooldown : Bool
  cleared : Bool
  leak : String
  nocache : Bool
  post : St

def acrRank (s : String) : Option Nat :=
  if s = "idporten-loa-substantial" ∨ s = "Level3" then some 1
  else if s = "idporten-loa-high" ∨ s = "Level4" then some 2 else none

/-- "acr is at least the level required": substantial ≤ high, legacy names mapped, plain equality for anything else -/
def acrAtLeast (required actual : String) : Bool :=
  match acrRank required with
  | some r => match acrRank actual with
    | some a => decide (r ≤ a) && (actual = "idporten-loa-substantial" || actual = "idporten-loa-high")
    | none => false
  | none => required = actual

def ended (s : St) (now : Int) : Bool := decide (now > s.ends)
def idle (s : St) (now : Int) : Bool := decide (s.timeout ≠ 0 ∧ now > s.timeout)
def expired (s : St) (now : Int) : Bool := decide (now > s.expire)
def cooldownEnd (s : St) : Int :=
  let life := s.expire - s.refreshed
  if life ≤ 2 * oneMin then s.refreshed + life.tdiv 2 else s.refreshed + oneMin
def earliest (s : St) : Int :=
  if s.timeout = 0 then s.expire - fiveMin else min (s.expire - fiveMin) (s.refreshed + (s.timeout - s.refreshed) / 2)

def live (s : St) (now : Int) : Bool := s.st == 1 && s.atok != "" && !ended s now && !idle s now
def validFor (acr : String) (s : St) (now : Int) : Bool := live s now && !expired s now && (acr = "" || acrAtLeast acr s.sacr)

def autoRefreshAvailable (x : Step) : Bool := x.mode == 0 || (x.mode == 1 && x.cfwd)

def whyInvalid (acr : String) (ck : Nat) (s : St) (now : Int) : String :=
  if ck = 0 then "nocookie" else if ck = 2 then "undecryptable_cookie"
  else if s.st = 0 then "absent" else if s.st = 2 then "undecryptable"
  else if s.atok = "" then "no_access_token" else if ended s now then "ended" else if idle s now then "idle"
  else if expired s now then "expired" else if !(acr = "" || acrAtLeast acr s.sacr) then "acr" else "?"

def check (x : Step) : List (String × String) :=
  -- the session's end as the PROPERTY defines it: creation + configured maximum lifetime, whatever end the record itself claims (a refresh that moved the
  -- stored end forward must not make the session count as live)
  let cap := fun (s : St) => if x.maxlife > 0 && s.st == 1 && decide (s.created + x.maxlife < s.ends) then { s with ends := s.created + x.maxlife } else s
  let preRaw := x.pre
  let postRaw := x.post
  let pre := cap preRaw
  let post := cap postRaw
  let now := x.now
  let wrote := x.upauth.startsWith "w:"
  let wname := (x.upauth.drop 2).toString
  let isProxy := x.op == "proxy"
  let rejected := x.contacted > 0 && x.plan == "client"
  let r : List (Bool × String × String) := [
    -- C01 ---------------------------------------------------------------------------------------------------------------
    (isProxy && wrote && !(x.ck == 1 && validFor x.acr post now), "C01.token_without_valid_session." ++ whyInvalid x.acr x.ck post now,
      "upstream got a token although the session (as stored after the request) is not valid"),
    (isProxy && wrote && x.ck == 1 && post.st == 1 && wname != post.atok, "C01.wrong_token", s!"forwarded {wname}, session's current token is {post.atok}"),
    (isProxy && wrote && x.nauth != 1, "C01.client_header_kept", "client-supplied Authorization value kept next to the session's token"),
    (isProxy && x.mode != 1 && x.ck == 1 && validFor x.acr pre now && !rejected && !(x.fwd && wrote), "C01.rejected_valid_session",
      s!"valid session but upstream did not get its token (fwd={x.fwd} upauth={x.upauth})"),
    (isProxy && wrote && x.idtok && x.upid != "w:id0", "C01.idtoken_mismatch", s!"id-token header is {x.upid}"),
    (isProxy && x.upid.startsWith "w:" && !(wrote && x.idtok), "C01.idtoken_mismatch", "id-token header written without Authorization / although disabled"),
    -- C06 ---------------------------------------------------------------------------------------------------------------
    (isProxy && wrote && x.ck == 1 && post.st == 1 && ended post now, "C06.accepted_after_end", "token forwarded for an ended session"),
    (isProxy && wrote && x.ck == 1 && post.st == 1 && idle post now, "C06.accepted_after_idle", "token forwarded for an idle session"),
    (x.ck == 1 && pre.st == 1 && pre.atok != "" && ended pre now && (x.op == "session" || x.op == "refresh" || x.op == "fwdauth") && x.status != 401 && !(x.op == "fwdauth" && x.status == 404),
      "C06.status.ended", s!"{x.op} answered {x.status} for an ended session"),
    (x.ck == 1 && pre.st == 1 && pre.atok != "" && !ended pre now && idle pre now && x.op == "session" && !(x.status == 200 && x.hasbody && !x.bactive),
      "C06.status.inactive", s!"session endpoint answered {x.status} active={x.bactive} for an inactive session"),
    (x.ck == 1 && pre.st == 1 && idle pre now && (x.op == "refresh" || x.op == "fwdauth") && x.status != 401 && !(x.op == "fwdauth" && x.status == 404),
      "C06.status.inactive", s!"{x.op} answered {x.status} for an inactive session"),
    (pre.st == 1 && (ended pre now || idle pre now) && x.contacted > 0, "C06.refreshed_when_idle", "provider contacted for an ended / inactive session"),
    (preRaw.st == 1 && postRaw.st == 1 && preRaw.sid == postRaw.sid && (postRaw.ends != preRaw.ends || postRaw.created != preRaw.created), "C06.end_moved", "session end / creation time changed"),
    (postRaw.st == 1 && x.maxlife > 0 && decide ((postRaw.ends - (postRaw.created + x.maxlife)).natAbs > 2000000000), "C06.end_moved", "stored session end is not creation + maximum lifetime"),
    (x.granted > 0 && post.st == 1 && x.inact > 0 && !(decide (post.timeout - now ≤ x.inact + 2 * second) && decide (post.timeout - now ≥ x.inact - 2 * second) && decide (post.expire ≤ post.timeout)),
      "C06.accepted_after_idle", "refresh did not re-arm the inactivity timeout to now + timeout"),
    (post.st == 1 && x.inact == 0 && post.timeout != 0, "C06.accepted_after_idle", "timeout armed although inactivity is off"),
    -- state invariant, whoever wrote the entry (login included): with inactivity on, the timeout is armed at (login or last refresh) + inactivity timeout
    -- and the token never outlives it — otherwise the session would be accepted after the inactivity timeout has passed
    (post.st == 1 && x.inact > 0 && !(decide ((post.timeout - (post.refreshed + x.inact)).natAbs ≤ 2000000000) && decide (post.expire ≤ post.timeout)),
      "C06.accepted_after_idle", s!"inactivity is on but the stored timeout ({post.timeout - post.refreshed} after the last refresh) is not last refresh + inactivity timeout ({x.inact}), or the token outlives it"),
    -- C08 ---------------------------------------------------------------------------------------------------------------
    (x.contacted > 0 && !((x.op == "proxy" || x.op == "fwdauth") && autoRefreshAvailable x || x.op == "refresh"), "C08.wrong_mode." ++ x.op,
      s!"refresh grant during {x.op} in mode {x.mode} fwd={x.cfwd}"),
    (x.contacted > 0 && pre.st == 1 && decide (now < cooldownEnd pre), "C08.during_cooldown", "provider contacted while the refresh cooldown is running"),
    (x.contacted > 0 && pre.st == 1 && pre.rtok == "", "C08.during_cooldown", "provider contacted without a refresh token"),
    (x.contacted > 0 && (x.op == "proxy" || x.op == "fwdauth") && pre.st == 1 && !expired pre now && (pre.timeout == 0 || decide (pre.refreshed ≤ pre.timeout)) && !decide (now > earliest pre),
      "C08.early", "automatic refresh earlier than expiry-5min / half-life"),
    ((x.op == "proxy" && x.mode != 1 || x.op == "fwdauth" && x.cfwd) && autoRefreshAvailable x && x.ck == 1 && live pre now && expired pre now && pre.rtok != "" && x.contacted == 0,
      "C08.missed_when_expired", "expired token on a live session with a refresh token, but no refresh was attempted"),
    (x.op == "refresh" && x.ck == 1 && live pre now && decide (now < cooldownEnd pre) && !(x.contacted == 0 && x.status == 200 && post == pre), "C08.not_idempotent",
      "manual refresh during cooldown is not a no-op"),
    (x.op == "refresh" && x.ck == 1 && live pre now && pre.rtok != "" && decide (now > cooldownEnd pre) && x.contacted == 0, "C08.metadata_field.refresh_cooldown",
      "cooldown is over on a refreshable session but a manual refresh performed no grant"),
    (x.hasbody && (x.mode != 0 && !x.cfwd) && x.bnext != -1, "C08.metadata_field.next_auto_refresh_in_seconds", "auto refresh unavailable but next_auto_refresh ≠ -1"),
    (x.hasbody && !(x.mode != 0 && !x.cfwd) && x.bnext < 0, "C08.metadata_field.next_auto_refresh_in_seconds", "auto refresh available but next_auto_refresh < 0"),
    (x.hasbody && post.st == 1 && (x.bcooldown != decide (now < cooldownEnd post)) && decide ((now - cooldownEnd post).natAbs > 2000000000), "C08.metadata_field.refresh_cooldown", "cooldown flag disagrees with the stored metadata"),
    (post.st == 1 && x.inact > 0 && post.timeout != 0 && decide (post.expire > post.timeout + 2 * second), "C08.metadata_field.expire_at",
      "the token expiry kept (and reported by the session endpoints) lies beyond the inactivity timeout: the documented schedule (refresh no later than the half-way point to the timeout, expiry capped by it) no longer holds"),
    (x.granted > 0 && post.st == 1 && !(post.atok == x.newat), "C07.pair_split", "stored access token is not the one just issued"),
    -- C10 ---------------------------------------------------------------------------------------------------------------
    (post.st != 0 && post.ttl ≤ 0, "C10.no_ttl.session", "session entry without expiry"),
    (post.st == 1 && decide (post.ttl > post.ends - now + 2 * second + x.lag), "C10.ttl_beyond_lifetime", "TTL exceeds creation + max lifetime"),
    (pre.st == 1 && post.st == 1 && pre.sid == post.sid && decide (post.ttl > pre.ttl + second), "C10.ttl_beyond_lifetime", "TTL extended by an update"),
    -- C11 ---------------------------------------------------------------------------------------------------------------
    (rejected && isProxy && wrote, "C11.rejected_refresh_still_auth", "provider rejected the refresh token (4xx) but the request was forwarded with a token"),
    (rejected && (x.op == "refresh" || x.op == "fwdauth") && x.status != 401, "C11.rejected_refresh_still_auth", s!"provider rejected the refresh token but {x.op} answered {x.status}"),
    (isProxy && wrote && x.granted == 0 && pre.st == 1 && expired pre now, "C11.stale_token", "expired token forwarded although no refresh succeeded"),
    (x.plan == "broken" && post.st == 1 && pre.st == 1 && post.atok != pre.atok, "C11.stale_token", "an unusable provider answer (non-JSON, or a 200 without access token) changed the stored access token"),
    (x.plan == "ok" && x.contacted > 0 && x.granted > 0 && x.op == "refresh" && x.status != 200, "C11.transient_not_absorbed", "refresh granted but endpoint failed"),
    -- C09 ---------------------------------------------------------------------------------------------------------------
    ((x.ck == 2 || pre.st == 2) && isProxy && wrote, "C09.accepted_tampered.history", "a request with an undecryptable cookie / store value got a token"),
    ((x.ck == 2 || pre.st == 2) && x.status ≥ 500 && !(x.op == "logoutlocal" || x.op == "logout"), "C09.crash_on_tampered", s!"{x.op} answered {x.status} for an undecryptable cookie / store value"),
    -- C15 / C16 ---------------------------------------------------------------------------------------------------------
    (x.leak != "", "C15.token_in_response." ++ x.op, s!"{x.leak} token in an owned-endpoint response"),
    (!isProxy && !x.nocache, "C15.cacheable", s!"{x.op} response lacks no-store/no-cache"),
    (x.mode == 2 && isProxy && (x.contacted > 0 || post != pre), "C16.proxy_effect", "SSO proxy changed the store or contacted the provider"),
    (x.mode == 1 && isProxy && x.fwd, "C16.server_proxied", "SSO server forwarded a request upstream")
  ]
  r.filterMap fun (b, c, d) => if b then some (c, d) else none

structure After where
  op : String
  lstatus : Nat
  deleted : Bool
  status : Nat
  upauth : String
  prest : Nat
  sidmatch : Bool   -- the logout addressed this session (front-channel: the request's sid is this session's)

def checkAfter (a : After) : List (String × String) :=
  let success := (a.op == "logoutlocal" && a.lstatus == 204) || (a.op == "logout" && a.lstatus == 302) || (a.op == "frontchannel" && a.lstatus == 200 && a.sidmatch)
  let r : List (Bool × String × String) := [
    (success && a.prest == 1 && !a.deleted, "C05.recreated_after_del", "logout answered success but the store entry exists"),
    (success && a.upauth != "-", "C05.authenticated_after_logout", "old cookie authenticated after a successful logout")
  ]
  r.filterMap fun (b, c, d) => if b then some (c, d) else none

end Ww.Spec.Sys
