import Ww.Driver.Proto
import Ww.Driver.Sys
import Ww.Model.Faults
namespace Ww.Driver
open Ww.Gen Ww.Model

def near8 (a b : Int) : Bool := (a - b).natAbs ≤ 9000000000

def cmpStoreLoose (impl : Ww.Spec.Sys.St) (model : StoreSt) : List String :=
  match model, impl.st with
  | .absent, 0 => []
  | .undecryptable, 2 => []
  | .present d, 1 =>
    (if d.AccessToken == impl.atok && d.RefreshToken == impl.rtok then [] else [s!"post tokens: impl=({impl.atok},{impl.rtok}) model=({d.AccessToken},{d.RefreshToken})"]) ++
    (if d.Metadata.Session.EndsAt == impl.ends then [] else ["post ends differ"]) ++
    (if near8 d.Metadata.Tokens.ExpireAt impl.expire then [] else [s!"post expire: impl={impl.expire} model={d.Metadata.Tokens.ExpireAt}"])
  | _, k => [s!"post store state: impl={k} model={repr model}"]

def handleFault (l : Line) : List Verdict :=
  let r : Option (List Verdict) := do
    let handler ← l.get? "handler"
    let flabel ← l.str? "flabel"
    let focc ← l.nat? "focc"
    let fkind ← l.get? "fkind"
    let fcount ← l.int? "fcount"
    let now ← l.int? "now"
    let newat ← l.str? "newat"; let newrt ← l.str? "newrt"
    let secs ← l.int? "secs"
    let trace ← l.strs? "trace"
    let pre ← stOfLine l ""
    let post ← stOfLine l "p"
    let status ← l.nat? "status"
    let fwd ← l.bool? "fwd"
    let upauth ← l.get? "upauth"
    let contacted ← l.nat? "contacted"
    let granted ← l.nat? "granted"
    let finalstatus ← l.nat? "finalstatus"
    let finalexists ← l.bool? "finalexists"
    let persistent := fcount < 0
    let fl : Faults := {
      read := persistent && flabel == "GET session" && focc == 0 && handler != "frontchannel",
      reread := persistent && flabel == "GET session" && focc == 1,
      lock := flabel == "LOCK",                                   -- an error from the lock script is not retried
      update := persistent && flabel == "SETXX-KEEPTTL session",
      del := persistent && flabel == "DEL session" }
    let plan : IdpPlan := if flabel.startsWith "IDP" then
        (match fkind with | "idp4xx" => .clientErr | "idp4xx-html" => .clientErr | "idp4xx-empty" => .clientErr | "idpgarbage" => .broken | "idpgarbage-typed" => .broken | "idplost" => .broken | _ => if persistent then .serverErr else .ok secs)
      else .ok secs
    let cfg : Cfg := { mode := .standalone, forwardAuth := true }
    let st := toStoreSt pre
    let diffs : List String :=
      match handler with
      | "proxy" =>
        let o := proxyF cfg fl .valid st plan newat newrt false now
        cmp "forwarded" fwd o.forwarded ++ cmp "upAuth" upauth (match o.upAuth with | some t => "w:" ++ t | none => "-") ++
        cmp "contacted" (decide (contacted > 0)) o.contacted ++ cmp "granted" (decide (granted > 0)) o.granted ++ cmpStoreLoose post o.store
      | "fwdauth" =>
        let o := forwardAuthF cfg fl .valid st plan newat newrt now
        cmp "status" status o.status ++ cmp "contacted" (decide (contacted > 0)) o.contacted ++ cmpStoreLoose post o.store
      | "session" => cmp "status" status (sessionInfoF fl .valid st now).status
      | "refresh" =>
        let o := sessionRefreshF cfg fl .valid st plan newat newrt now
        cmp "status" status o.status ++ cmp "contacted" (decide (contacted > 0)) o.contacted ++ cmp "granted" (decide (granted > 0)) o.granted ++ cmpStoreLoose post o.store
      -- the error path is the automatic retry redirect (307) while attempts remain, then the 500 page
      | "logoutlocal" => let o := logoutF .local_ fl .valid st now; cmp "status" (if status == 307 then 500 else status) o.1 ++ cmpStoreLoose post o.2
      | "logout" => let o := logoutF .global fl .valid st now; cmp "status" (if status == 307 then 500 else status) o.1 ++ cmpStoreLoose post o.2
      | "frontchannel" => let o := logoutF .frontchannel fl .valid st now; cmp "status" status o.1 ++ cmpStoreLoose post o.2
      | _ => ["unknown handler"]
    -- Spec (C11) on the observation
    let wrote := upauth.startsWith "w:"
    let readOk := trace.any fun e => e == "A:GET session"
    let expiredPre := decide (now > pre.expire)
    let transient := !persistent && (fkind == "store" || fkind == "idp5xx") && flabel != "LOCK" && flabel != "UNLOCK"
    let isLogout := handler == "logoutlocal" || handler == "logout" || handler == "frontchannel"
    let successStatus := (handler == "logoutlocal" && status == 204) || (handler == "logout" && status == 302) || (handler == "frontchannel" && status == 200)
    let cleanStatus : Nat := match handler with | "fwdauth" => 204 | "session" => 200 | "refresh" => 200 | "logoutlocal" => 204 | "logout" => 302 | "frontchannel" => 200 | _ => 200
    let viol : List (String × String) :=
      (if wrote && (upauth.drop 2).toString != pre.atok && (upauth.drop 2).toString != post.atok then
        [("C01.token_not_of_session", s!"{handler}: the upstream received {upauth.drop 2}, but the session held {pre.atok} before the request and holds {if post.atok.isEmpty then "nothing" else post.atok} after it: a token that no stored session ever held (fault: {fcount} x '{flabel}')")] else []) ++
      (if wrote && !readOk then [("C11.token_without_read", "a token was forwarded although no store read of the session succeeded in this request")] else []) ++
      (if wrote && expiredPre && (upauth.drop 2).toString == pre.atok then [("C11.stale_token", s!"the expired token {pre.atok} was forwarded")] else []) ++
      (if fkind.startsWith "idp4xx" && contacted > 0 && handler == "proxy" && wrote then [("C11.rejected_refresh_still_auth", "provider rejected the refresh token, request still forwarded with a token")] else []) ++
      (if fkind.startsWith "idp4xx" && contacted > 0 && (handler == "refresh" || handler == "fwdauth") && status != 401 then [("C11.rejected_refresh_still_auth", s!"{handler} answered {status} after a 4xx from the provider")] else []) ++
      (if transient && handler != "proxy" && status != cleanStatus then [("C11.transient_not_absorbed", s!"{handler}: {fcount} failure(s) of '{flabel}' changed the answer to {status}")] else []) ++
      (if transient && handler == "proxy" && !(fwd && wrote) then [("C11.transient_not_absorbed", s!"proxy: {fcount} failure(s) of '{flabel}': forwarded={fwd} token={upauth}")] else []) ++
      (if fkind == "idplost" && contacted > 1 then [("C07.token_presented_twice.lost_response", s!"the refresh token was sent {contacted} times: a grant whose answer was lost in transit was re-sent (only a server-error ANSWER may be retried)")] else []) ++
      (if isLogout && persistent && flabel == "GET session" && successStatus then [("C11.logout_fault_success.lookup", s!"{handler} answered {status} although the session lookup failed")] else []) ++
      (if (handler == "logoutlocal" && finalstatus == 204 || handler == "logout" && finalstatus == 302) && finalexists && status == 307 then
        [("C11.logout_fault_success.chain", s!"{handler}: the faulted request answered the retry redirect, the browser followed it and was told {finalstatus} (success) - but the session entry is still in the store")] else []) ++
      (if isLogout && persistent && flabel == "DEL session" && successStatus then [("C11.logout_fault_success.delete", s!"{handler} answered {status} although the delete failed")] else [])
    pure (verdictsOf diffs viol)
  r.getD [Verdict.bad "fault"]

end Ww.Driver
