/-!
Line protocol between the Go harness and the Lean oracle.
`kind <TAB> key=value ...`; strings are `x`+hex, string lists comma-separated (`-` = empty), ints decimal.
The oracle never defaults a malformed line: it answers `bad-op`.
-/
namespace Ww.Driver

structure Line where
  kind : String
  kv : List (String × String)
  deriving Repr

inductive Verdict where
  | ok
  | diff (what : String)                          -- model and implementation disagree (tie H broken)
  | violated (reason : String) (detail : String)  -- the Spec evaluated on the implementation's observation fails
  | bad (why : String)
  deriving Repr, BEq

def parseLine (s : String) : Line :=
  match s.splitOn "\t" with
  | [] => { kind := "", kv := [] }
  | k :: rest =>
    { kind := k,
      kv := rest.filterMap fun f =>
        match f.splitOn "=" with
        | [a, b] => some (a, b)
        | _ => none }

def Line.get? (l : Line) (k : String) : Option String := (l.kv.find? (·.1 == k)).map (·.2)

def hexVal (c : Char) : Option Nat :=
  if '0' ≤ c ∧ c ≤ '9' then some (c.toNat - '0'.toNat)
  else if 'a' ≤ c ∧ c ≤ 'f' then some (c.toNat - 'a'.toNat + 10)
  else none

/-- hex → bytes → String (bytes are kept as chars 0..255: byte-exact, no UTF-8 interpretation) -/
def unhexChars : List Char → Option (List Char)
  | [] => some []
  | a :: b :: rest => do
    let x ← hexVal a; let y ← hexVal b
    let r ← unhexChars rest
    pure (Char.ofNat (x * 16 + y) :: r)
  | _ => none

def decodeStr (s : String) : Option (List Char) :=
  match s.toList with
  | 'x' :: rest => unhexChars rest
  | _ => none

def Line.int? (l : Line) (k : String) : Option Int := (l.get? k).bind String.toInt?
def Line.nat? (l : Line) (k : String) : Option Nat := (l.get? k).bind String.toNat?
def Line.bool? (l : Line) (k : String) : Option Bool :=
  match l.get? k with | some "1" => some true | some "0" => some false | _ => none
def Line.chars? (l : Line) (k : String) : Option (List Char) := (l.get? k).bind decodeStr
def Line.str? (l : Line) (k : String) : Option String := (l.chars? k).map String.ofList
def Line.strs? (l : Line) (k : String) : Option (List String) :=
  match l.get? k with
  | none => none
  | some "-" => some []
  | some s => (s.splitOn ",").mapM fun e => (decodeStr e).map String.ofList

def showBool (b : Bool) : String := if b then "1" else "0"

/-- compare one observed field with the model's value -/
def cmp [BEq α] [ToString α] (name : String) (impl model : α) : List String :=
  if impl == model then [] else [s!"{name}: impl={impl} model={model}"]

def verdictsOf (diffs : List String) (viol : List (String × String)) : List Verdict :=
  let d := if diffs.isEmpty then [] else [Verdict.diff (", ".intercalate diffs)]
  let v := viol.map fun (r, t) => Verdict.violated r t
  if d.isEmpty && v.isEmpty then [Verdict.ok] else d ++ v

/-- one verdict = one line: line breaks and tabs inside a message (e.g. a `repr`) are flattened -/
def oneLine (s : String) : String := String.ofList (s.toList.map fun c => if c == '\n' || c == '\r' || c == '\t' then ' ' else c)

def Verdict.render (i : Nat) : Verdict → String
  | .ok => s!"{i}\tok"
  | .diff w => s!"{i}\tdiff\t{oneLine w}"
  | .violated r d => s!"{i}\tviolated\t{oneLine r}\t{oneLine d}"
  | .bad w => s!"{i}\tbad-op\t{oneLine w}"

end Ww.Driver
