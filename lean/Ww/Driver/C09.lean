import Ww.Driver.Proto
namespace Ww.Driver

def handleCrypt (l : Line) : List Verdict :=
  let r : Option (List Verdict) := do
    let size ← l.nat? "size"
    let roundtrip ← l.bool? "roundtrip"
    let flipacc ← l.nat? "flipaccepted"; let truncacc ← l.nat? "truncaccepted"
    let ext ← l.bool? "extaccepted"; let other ← l.bool? "otherkeyaccepted"; let plain ← l.bool? "plainaccepted"
    let panics ← l.nat? "panics"; let contains ← l.bool? "containsplain"; let overhead ← l.int? "overhead"
    let viol : List (String × String) :=
      (if !roundtrip then [("C09.accepted_tampered.roundtrip", s!"size {size}: decrypt(encrypt(p)) ≠ p")] else []) ++
      (if flipacc > 0 then [("C09.accepted_tampered.bitflip", s!"size {size}: {flipacc} single-bit modifications were accepted")] else []) ++
      (if truncacc > 0 then [("C09.accepted_tampered.truncation", s!"size {size}: {truncacc} truncations were accepted")] else []) ++
      (if ext then [("C09.accepted_tampered.extension", s!"size {size}")] else []) ++
      (if other then [("C09.accepted_tampered.other_key", s!"size {size}: ciphertext opened under another key")] else []) ++
      (if plain && size > 0 then [("C09.accepted_tampered.plaintext", s!"size {size}: plaintext accepted as ciphertext")] else []) ++
      (if panics > 0 then [("C09.crash_on_tampered", s!"size {size}: {panics} panics in Decrypt")] else []) ++
      (if contains then [("C09.secret_in_clear.ciphertext", s!"size {size}: ciphertext contains the plaintext")] else []) ++
      (if overhead < 24 + 16 then [("C09.nonce_reuse", s!"ciphertext overhead {overhead} bytes: no room for a 24-byte nonce and a tag")] else [])
    pure (verdictsOf [] viol)
  r.getD [Verdict.bad "crypt"]

def handleNonces (l : Line) : List Verdict :=
  let r : Option (List Verdict) := do
    let dups ← l.nat? "dups"
    let n ← l.nat? "encryptions"
    pure (verdictsOf [] (if dups > 0 then [("C09.nonce_reuse", s!"{dups} repeated nonces in {n} encryptions")] else []))
  r.getD [Verdict.bad "nonces"]

def handleCookieDec (l : Line) : List Verdict :=
  let r : Option (List Verdict) := do
    let accepted ← l.bool? "accepted"
    let panicked ← l.bool? "panicked"
    let v ← l.str? "value"
    pure (verdictsOf [] ((if accepted then [("C09.accepted_tampered.cookie", s!"malformed cookie value accepted: {v.take 20}")] else []) ++
                         (if panicked then [("C09.crash_on_tampered", "cookie.Decrypt panicked")] else [])))
  r.getD [Verdict.bad "cookiedec"]

def handleTamper09 (l : Line) : List Verdict :=
  let r : Option (List Verdict) := do
    let variant ← l.get? "variant"
    let ep ← l.get? "ep"
    let status ← l.nat? "status"
    let auth ← l.bool? "authenticated"
    let genuine ← l.bool? "genuine"
    -- the store is healthy in this driver: a manipulated cookie / store value is "no valid session" - proxied without token, 401 on the session endpoints,
    -- and the logouts simply find nothing to log out (204 / 302 to the provider); any 5xx is a crash on attacker-controlled input
    let okStatus := if ep == "/some/page" then status == 200 else if ep == "/oauth2/logout/local" then status == 204 else if ep == "/oauth2/logout" then status == 302 else status == 401
    let viol : List (String × String) :=
      (if !genuine && auth then [("C09.accepted_tampered." ++ variant, s!"{ep}: request with a manipulated cookie / store value was authenticated")] else []) ++
      (if !genuine && status ≥ 500 then [("C09.crash_on_tampered", s!"{ep} answered {status} for {variant}")] else []) ++
      (if !genuine && !okStatus && status < 500 && status != 307 then [("C09.type_confusion." ++ variant, s!"{ep} answered {status}")] else []) ++
      (if genuine && ep == "/some/page" && !auth then [("C01.rejected_valid_session", "the untampered cookie was not authenticated")] else [])
    pure (verdictsOf [] viol)
  r.getD [Verdict.bad "tamper09"]

/-- a second login landing on the same external session id: the re-created entry must open under the NEW cookie's data key only -/
def handleRelogin09 (l : Line) : List Verdict :=
  let r : Option (List Verdict) := do
    let samedek ← l.bool? "samedek"
    let oldopens ← l.bool? "oldopens"
    let newopens ← l.bool? "newopens"
    pure (verdictsOf [] ((if samedek then [("C09.key_separation.dek_reused", "two logins were given the same data encryption key")] else []) ++
                         (if oldopens && !samedek then [("C09.key_separation.superseded_key_opens", "the store value written by the second login opens under the first login's data key")] else []) ++
                         (if !newopens then [("C09.key_separation.own_key_fails", "the store value does not open under the data key carried by the user's own (current) cookie")] else [])))
  r.getD [Verdict.bad "relogin09"]

/-- several users' sessions used concurrently through one replica: every request is served with the token of the session whose cookie it carried -/
def handleConcurrent09 (l : Line) : List Verdict :=
  let r : Option (List Verdict) := do
    let n ← l.nat? "n"
    let foreign ← l.nat? "foreign"
    let unauth ← l.nat? "unauth"
    let infobad ← l.nat? "infobad"
    let crashed ← l.nat? "crashed"
    pure (verdictsOf
      ((if unauth > 0 then [s!"{unauth} of {n} concurrent requests with an untouched cookie were forwarded WITHOUT a token (model: every one authenticated)"] else []) ++
       (if infobad > 0 then [s!"{infobad} concurrent session-info requests with an untouched cookie were not answered 200"] else []))
      ((if foreign > 0 then [("C09.key_separation.concurrent", s!"{foreign} of {n} concurrent requests were served with ANOTHER user's token")] else []) ++
       (if crashed > 0 then [("C09.crash_on_tampered", s!"{crashed} concurrent requests answered 5xx")] else [])))
  r.getD [Verdict.bad "concurrent09"]

/-- keys of any other length than 256 bits are unusable: nothing is sealed or opened with them -/
def handleKeyLen09 (l : Line) : List Verdict :=
  let r : Option (List Verdict) := do
    let n ← l.nat? "n"
    let encok ← l.bool? "encok"
    let decok ← l.bool? "decok"
    pure (verdictsOf [] (if n != 32 && (encok || decok) then [("C09.key_separation.bad_key_length_accepted", s!"a {n}-byte key seals={encok} / opens={decok} (padded or truncated to 256 bits)")] else []))
  r.getD [Verdict.bad "keylen09"]

def handleOutScan (l : Line) : List Verdict :=
  let r : Option (List Verdict) := do
    let found ← l.bool? "found"
    let kind ← l.get? "kind"
    let sink ← l.str? "sink"
    pure (verdictsOf [] (if found then [("C09.secret_in_clear." ++ sink, s!"{kind} readable in {sink}")] else []))
  r.getD [Verdict.bad "outscan"]

end Ww.Driver
