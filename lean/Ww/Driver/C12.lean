import Ww.Driver.Proto
import Ww.Model.Glob
import Ww.Model.Router
namespace Ww.Driver
open Ww.Model

def hasDotSeg (path : List Char) : Bool := (splitSlash path).any fun s => s = dot || s = dotdot

def handleGlob (l : Line) : List Verdict :=
  let r : Option (List Verdict) := do
    let pat ← l.chars? "pat"
    let path ← l.chars? "path"
    let dm ← l.get? "dm"
    if !inContract pat path then pure [Verdict.ok] else
    let m := matchStr pat path
    pure (verdictsOf (cmp "doublestar.Match" dm (if m then "1" else "0")) [])
  r.getD [Verdict.bad "glob"]

/-- Spec (C12): the normalised path — dot segments, doubled and trailing slashes removed — must match an ignore pattern (or a built-in default) -/
def specIgnored (pats : List (List Char)) (urlPath : List Char) : Bool :=
  let norm := cleanRootedStr (match urlPath with | '/' :: _ => urlPath | _ => '/' :: urlPath)
  (normPatterns pats).any fun p => matchStr p norm

def handleNeedsLogin (l : Line) : List Verdict :=
  let r : Option (List Verdict) := do
    let pats := (← l.strs? "pats").map String.toList
    let path ← l.chars? "path"
    let nl ← l.bool? "nl"
    let nl2 ← l.bool? "nl2"
    let authnl ← l.bool? "authnl"
    if (normPatterns pats).any (fun p => !inContract p (loginPath path)) then pure [Verdict.ok] else
    let model := needsLogin true (normPatterns pats) path false
    let ign := specIgnored pats path
    let viol : List (String × String) :=
      (if !nl && !ign then [(if hasDotSeg path then "C12.dotseg_bypass" else "C12.forwarded_unmatched", s!"path {String.ofList path} passes without login but matches no ignore pattern after normalisation")] else []) ++
      (if nl && ign then [("C12.ignored_path_blocked", "path matches an ignore pattern but login is demanded")] else []) ++
      (if nl != nl2 then [("C12.cache_changes_answer", "second evaluation differs")] else []) ++
      (if authnl then [("C12.wrong_response.authenticated", "authenticated request sent to login")] else [])
    pure (verdictsOf (cmp "NeedsLogin" nl model) viol)
  r.getD [Verdict.bad "needslogin"]

def stripPrefix (pre s : List Char) : Option (List Char) :=
  if pre.isPrefixOf s then some (s.drop pre.length) else none

def handleALog (l : Line) : List Verdict :=
  let r : Option (List Verdict) := do
    let prefix_ ← l.chars? "prefix"
    let pats := (← l.strs? "pats").map String.toList
    let urlpath ← l.chars? "urlpath"
    let reqstr ← l.str? "reqstr"
    let navHarness ← l.bool? "nav"
    let method ← l.get? "method"
    let nav := isNavigation method (← l.str? "sfmode") (← l.str? "sfdest") (acceptsMedia (← l.str? "accept") "text/html")
    let referer ← l.str? "referer"
    let authed ← l.bool? "authed"
    let status ← l.nat? "status"
    let fwd ← l.bool? "fwd"
    let uppath ← l.chars? "uppath"
    let upquery ← l.str? "upquery"
    let rawquery ← l.str? "rawquery"
    let locpath ← l.str? "locpath"
    let locredirect ← l.str? "locredirect"
    let needs := needsLogin true (normPatterns pats) urlpath authed
    let ign := specIgnored pats urlpath
    -- ingress.MatchingPath: the configured ingress path the request path starts with ("" when none)
    let matched := if prefix_.isPrefixOf urlpath then String.ofList prefix_ else ""
    let loginPath := matched ++ "/oauth2/login"
    let wantRedirect := if nav then reqstr else if referer != "" then referer else matched
    let diffs := cmp "navigation (harness' own reading vs the model)" navHarness nav ++ cmp "forwarded" fwd (!needs) ++ (if needs then cmp "status" status (if nav then 302 else 401) else [])
    let viol : List (String × String) :=
      (if fwd && !authed && !ign then [(if hasDotSeg urlpath then "C12.dotseg_bypass" else "C12.forwarded_unmatched", s!"{String.ofList urlpath} reached the upstream unauthenticated")] else []) ++
      (if !fwd && (authed || ign) then [("C12.ignored_path_blocked", s!"{String.ofList urlpath} not forwarded (status {status})")] else []) ++
      (if !fwd && !authed && nav && !(status == 302 && locpath == loginPath && locredirect == wantRedirect) then [("C12.wrong_response.nav", s!"status {status} location {locpath}?redirect={locredirect}, wanted 302 {loginPath}?redirect={wantRedirect}")] else []) ++
      (if !fwd && !authed && !nav && !(status == 401 && locpath == loginPath && locredirect == wantRedirect) then [("C12.wrong_response.nonnav", s!"status {status} location {locpath}?redirect={locredirect}, wanted 401 {loginPath}?redirect={wantRedirect}")] else []) ++
      (if fwd && !(uppath == urlpath && upquery == rawquery) then [("C12.path_rewritten", s!"upstream saw {String.ofList uppath}?{upquery}")] else [])
    pure (verdictsOf diffs viol)
  r.getD [Verdict.bad "alog"]

/-- the decision is a function of (patterns, path) alone (`Ww.Model.needsLogin` has no state): a long-lived instance must answer like a fresh one -/
def handleCacheSound (l : Line) : List Verdict :=
  let r : Option (List Verdict) := do
    let pats := (← l.strs? "pats").map String.toList
    let n ← l.nat? "n"
    let mism ← l.nat? "mismatches"
    let path ← l.chars? "path"
    let got ← l.bool? "got"
    let fresh ← l.bool? "fresh"
    if mism == 0 then pure [Verdict.ok] else
    let model := needsLogin true (normPatterns pats) path false
    let viol : List (String × String) :=
      if !got && model then [("C12.forwarded_unmatched", s!"after a long sequence of other requests (of {n}) the path {String.ofList path} passes WITHOUT login although it matches no ignore pattern; a fresh instance answers needsLogin={fresh}: the memoised decision of another path was served")]
      else if got && !model then [("C12.ignored_path_blocked", s!"after a long sequence of other requests the ignored path {String.ofList path} demands login; a fresh instance answers needsLogin={fresh}")]
      else []
    pure (verdictsOf [s!"{mism} answers of a long-lived instance differ from the stateless decision, first: {String.ofList path} impl={got} model={model}"] viol)
  r.getD [Verdict.bad "cachesound"]

end Ww.Driver
