import Ww.Driver.Proto
import Ww.Model.Retry
import Ww.Gen.Consts
namespace Ww.Driver
open Ww.Model.Retry

/-- tolerance (µs) for one attempt of the real library against the ideal schedule: timers fire late, never early (2 ms for clock granularity) -/
def retryEarly : Nat := 2000
def retryLate : Nat := 400000

def handleRetry (l : Line) : List Verdict :=
  let r : Option (List Verdict) := do
    let wave ← l.nat? "wave"
    let mode ← l.get? "mode"
    let kind ← l.get? "kind"
    let d ← l.nat? "d"            -- ms; 99999999 = never recovers
    let got ← l.str? "outcome"
    let offsS ← l.str? "offsets"
    let total ← l.nat? "total"    -- µs
    let offs ← (if offsS.isEmpty then some [] else (offsS.splitOn ",").mapM String.toNat?)
    let base := Ww.Gen.Consts.retryBase.toNat
    let max := Ww.Gen.Consts.retryMax.toNat
    let maxUs := max / 1000
    let persistent := d ≥ 99999999
    let tag := s!"wave {wave} {mode} {kind} d={if persistent then "never" else toString d}ms"
    if kind == "plain" then
      -- a non-retryable error is handed back at once
      pure (verdictsOf (cmp s!"{tag}: attempts" offs.length 1 ++ cmp s!"{tag}: outcome" got "error") [])
    else
      let model := Ww.Model.Retry.outcome base max 64 (d * 1000000)
      let sched := (schedule base max 64).map (· / 1000)      -- µs
      let (mOutcome, mTries) := match model with
        | .ok _ k => ("ok", k)
        | .gaveUp _ k => ("error", k)
      let offDiffs := (offs.zip sched).zipIdx.filterMap fun ((i, m), k) =>
        if i + retryEarly < m || i > m + retryLate then some s!"{tag}: attempt {k + 1} at {i}µs, schedule says {m}µs" else none
      let diffs := cmp s!"{tag}: outcome" got mOutcome ++ cmp s!"{tag}: attempts" offs.length mTries ++ offDiffs
      let viol : List (String × String) :=
        (if !persistent && d * 1000 + retryLate ≤ maxUs && got != "ok" then
          [("C11.transient_fault_not_absorbed", s!"{tag}: the fault ended {d} ms after the call began, well inside the {maxUs / 1000} ms budget, yet the call returned '{got}' after {offs.length} attempt(s) at {offs} µs")] else []) ++
        (if persistent && got == "ok" then [("C11.persistent_fault_reported_ok", s!"{tag}: every attempt failed and the call reports success")] else []) ++
        (if persistent && got != "ok" && got != "error" then [("C11.retry_error_replaced", s!"{tag}: the call ended with '{got}' instead of the wrapped function's own error")] else []) ++
        (if total > maxUs + 1000000 then [("C11.retry_budget_overrun", s!"{tag}: the call took {total} µs, budget {maxUs} µs")] else [])
      pure (verdictsOf diffs viol)
  r.getD [Verdict.bad "retry"]

end Ww.Driver
