import Ww.Driver.Proto
import Ww.Model.Sys
namespace Ww.Driver
open Ww.Model

/-- what the big-step model says about a refresh whose re-read (under the lock) finds the session in state `what`:
    `Ww.Model.refresh` re-reads through `getSess`, i.e. WITH validation, so an inactive / ended / vanished session yields an error and no provider contact -/
def lockWaitExpect (handler what : String) : Nat × Bool × Bool :=   -- (status, provider contacted, token forwarded)
  match what, handler with
  | "nothing", "refresh" => (200, true, false)
  | "nothing", "proxy" => (200, true, true)
  | "nothing", "fwdauth" => (204, true, false)
  -- logged out during the wait: the re-read finds nothing (ErrNotFound), nothing is granted or written. For the AUTOMATIC refresh paths GetOrRefresh then
  -- "falls back to the existing tokens" it had read BEFORE the logout (still unexpired): the in-flight request completes as authenticated - it is not a
  -- LATER request in the sense of C05; what matters is that the provider is not contacted and the entry is not re-created
  | "logout", "proxy" => (200, false, true)
  | "logout", "fwdauth" => (204, false, false)
  | _, "proxy" => (200, false, false)          -- not authenticated any more: forwarded without token (auto-login is off)
  | _, _ => (401, false, false)

def handleLockWait (l : Line) : List Verdict :=
  let r : Option (List Verdict) := do
    let handler ← l.get? "handler"
    let what ← l.get? "what"
    let waited ← l.bool? "waited"
    let status ← l.nat? "status"
    let contacted ← l.nat? "contacted"
    let upauth ← l.bool? "upauth"
    let exists_ ← l.bool? "exists"
    let (mStatus, mContacted, mAuth) := lockWaitExpect handler what
    let diffs := (if waited then [] else ["the request never had to wait for the lock (the scenario did not materialise)"]) ++
      cmp "status" status mStatus ++ cmp "provider contacted" (decide (contacted > 0)) mContacted ++ cmp "token forwarded" upauth mAuth
    let viol : List (String × String) :=
      (if (what == "timeout" || what == "end") && contacted > 0 then
        [("C06.refreshed_when_idle", s!"{handler}: the session became {if what == "end" then "ended" else "inactive"} while the request waited for the refresh lock, yet the provider was contacted"),
         ("C08.never_refreshed_violated", s!"{handler}: refresh grant for a session that is {what} at the time of the grant")] else []) ++
      (if (what == "timeout" || what == "end") && upauth then [("C06.accepted_after_" ++ (if what == "end" then "end" else "idle"), s!"{handler}: token forwarded for a session past its {what}")] else []) ++
      (if (what == "timeout" || what == "end") && handler != "proxy" && status != 401 then [("C06.status." ++ what, s!"{handler} answered {status}")] else []) ++
      (if what == "logout" && exists_ then [("C05.recreated_after_del", s!"{handler}: logged out while the request waited for the lock, and the entry exists again afterwards")] else []) ++
      (if what == "logout" && contacted > 0 then [("C05.refreshed_after_logout", s!"{handler}: logged out while the request waited for the lock, yet a refresh grant was performed for the deleted session")] else []) ++
      (if contacted > 1 then [("C07.grants_within_cooldown.redis", s!"{contacted} grants for one waiting request")] else [])
    pure (verdictsOf diffs viol)
  r.getD [Verdict.bad "lockwait"]

/-- replicas that disagree on session.inactivity: the STORED timeout decides (`Ww.Model.Sys`: validity is a function of the stored metadata and the clock only) -/
def handleMixedCfg (l : Line) : List Verdict :=
  let r : Option (List Verdict) := do
    let handler ← l.get? "handler"
    let idle ← l.nat? "idlemin"
    let timeout ← l.nat? "timeoutmin"
    let status ← l.nat? "status"
    let contacted ← l.nat? "contacted"
    let upauth ← l.bool? "upauth"
    let inactive := idle ≥ timeout
    -- model: inside the timeout the (expired) token is refreshed on proxy / forward-auth / manual refresh and the session endpoint answers 200; past it nothing is
    let (mStatus, mContacted, mAuth) : Nat × Bool × Bool :=
      if inactive then (match handler with | "proxy" | "session" => (200, false, false) | _ => (401, false, false))   -- an inactive session stays READABLE (as inactive) on /oauth2/session
      else (match handler with | "proxy" => (200, true, true) | "fwdauth" => (204, true, false) | "refresh" => (200, true, false) | _ => (200, false, false))
    let diffs := cmp s!"{handler} idle {idle} min: status" status mStatus ++ cmp s!"{handler} idle {idle} min: provider contacted" (decide (contacted > 0)) mContacted ++
      cmp s!"{handler} idle {idle} min: token forwarded" upauth mAuth
    let viol : List (String × String) :=
      (if inactive && contacted > 0 then
        [("C06.refreshed_when_idle", s!"{handler}: the stored inactivity timeout ({timeout} min) passed {idle - timeout} min ago, yet a replica with session.inactivity off refreshed the session"),
         ("C08.never_refreshed_violated", s!"{handler}: refresh grant for a session whose stored inactivity timeout has passed")] else []) ++
      (if inactive && upauth then [("C06.accepted_after_idle", s!"{handler}: token forwarded {idle} min after the last refresh, stored timeout {timeout} min")] else []) ++
      (if inactive && handler != "proxy" && handler != "session" && status != 401 then [("C06.status.timeout", s!"{handler} answered {status} for a session past its stored inactivity timeout")] else [])
    pure (verdictsOf diffs viol)
  r.getD [Verdict.bad "mixedcfg"]

/-- the lock entry after its request ended (`Ww.Model.Sched`: a lock is only ever touched by the step that takes it and the step that releases it; its lease
    runs from the acquisition - `Ww.Proofs.C10.lease_is_ten_seconds`) -/
def handleLease (l : Line) : List Verdict :=
  let r : Option (List Verdict) := do
    let handler ← l.get? "handler"
    let unlock ← l.get? "unlock"
    let sawlock ← l.bool? "sawlock"
    let sawunlock ← l.bool? "sawunlock"
    let lockleft ← l.bool? "lockleft"
    let late ← l.nat? "latecmds"
    let cmds ← l.str? "late"
    let watch ← l.nat? "watchms"
    let diffs := cmp s!"{handler}: took the lock" sawlock true ++ cmp s!"{handler}: released the lock" sawunlock true ++
      cmp s!"{handler}/{unlock}: lock entry left behind" lockleft (unlock == "fault") ++ cmp s!"{handler}/{unlock}: store commands on the lock entry after the answer" late 0
    pure (verdictsOf diffs
      (if late > 0 then [("C10.lease_extended_after_request", s!"{handler}, unlock {unlock}: within {watch} ms AFTER the request had answered, {late} more command(s) [{cmds}] were issued on its lock entry - a lock that is touched after its holder is done can outlive its lease, and every other replica's refresh of this session waits in vain")] else []))
  r.getD [Verdict.bad "lease"]

end Ww.Driver
