import Ww.Driver.Proto
import Ww.Model.Sys
import Ww.Spec.Sys
namespace Ww.Driver
open Ww.Gen Ww.Model

def stOfLine (l : Line) (p : String) : Option Ww.Spec.Sys.St := do
  let st ← l.nat? (p ++ "st")
  let ttl ← l.int? (p ++ "ttl")
  if st != 1 then pure { st, ttl } else
  pure { st, ttl, created := ← l.int? (p ++ "created"), ends := ← l.int? (p ++ "ends"), timeout := ← l.int? (p ++ "timeout"),
         expire := ← l.int? (p ++ "expire"), refreshed := ← l.int? (p ++ "refreshed"), atok := ← l.str? (p ++ "at"), rtok := ← l.str? (p ++ "rt"),
         idt := ← l.str? (p ++ "idt"), sacr := ← l.str? (p ++ "sacr"), sid := ← l.str? (p ++ "sid") }

def toStoreSt (s : Ww.Spec.Sys.St) : StoreSt :=
  match s.st with
  | 0 => .absent
  | 1 => .present { ExternalSessionID := s.sid, AccessToken := s.atok, IDToken := s.idt, RefreshToken := s.rtok, Acr := s.sacr,
                    Metadata := { Session := { CreatedAt := s.created, EndsAt := s.ends, TimeoutAt := s.timeout }, Tokens := { ExpireAt := s.expire, RefreshedAt := s.refreshed } } }
  | _ => .undecryptable

def near (a b : Int) : Bool := (a - b).natAbs ≤ 2000000000

/-- compare the implementation's post-state with the model's (times stamped inside the handler may lag the harness clock by ≤ 2 s) -/
def cmpStore (impl : Ww.Spec.Sys.St) (model : StoreSt) : List String :=
  match model, impl.st with
  | .absent, 0 => []
  | .undecryptable, 2 => []
  | .present d, 1 =>
    let m := d.Metadata
    (if d.AccessToken == impl.atok && d.RefreshToken == impl.rtok && d.IDToken == impl.idt && d.Acr == impl.sacr && d.ExternalSessionID == impl.sid then [] else
      [s!"post tokens: impl=({impl.atok},{impl.rtok},{impl.idt},{impl.sacr}) model=({d.AccessToken},{d.RefreshToken},{d.IDToken},{d.Acr})"]) ++
    (if m.Session.CreatedAt == impl.created && m.Session.EndsAt == impl.ends then [] else ["post created/ends differ"]) ++
    (if (m.Session.TimeoutAt == 0) == (impl.timeout == 0) && near m.Session.TimeoutAt impl.timeout then [] else [s!"post timeout: impl={impl.timeout} model={m.Session.TimeoutAt}"]) ++
    (if near m.Tokens.ExpireAt impl.expire then [] else [s!"post expire: impl={impl.expire} model={m.Tokens.ExpireAt}"]) ++
    (if near m.Tokens.RefreshedAt impl.refreshed then [] else [s!"post refreshed: impl={impl.refreshed} model={m.Tokens.RefreshedAt}"])
  | _, k => [s!"post store state: impl={k} model={repr model}"]

def handleHStep (l : Line) : List Verdict :=
  let r : Option (List Verdict) := do
    let pre ← stOfLine l ""
    let post ← stOfLine l "p"
    let x : Ww.Spec.Sys.Step := {
      mode := ← l.nat? "mode", cfwd := ← l.bool? "cfwd", inact := ← l.int? "inact", maxlife := ← l.int? "maxlife", acr := ← l.str? "acr",
      idtok := ← l.bool? "idtok", autologin := ← l.bool? "autologin", op := ← l.get? "op", now := ← l.int? "now", lag := ← l.int? "lag", ck := ← l.nat? "ck",
      plan := ← l.get? "plan", secs := ← l.int? "secs", newat := ← l.str? "newat", ignored := ← l.bool? "ignored", cauth := ← l.bool? "cauth",
      pre, status := ← l.nat? "status", fwd := ← l.bool? "fwd", upauth := ← l.get? "upauth", nauth := ← l.nat? "nauth", upid := ← l.get? "upid",
      contacted := ← l.nat? "contacted", granted := ← l.nat? "granted", hasbody := ← l.bool? "hasbody", bactive := ← l.bool? "bactive",
      bnext := ← l.int? "bnext", bcooldown := ← l.bool? "bcooldown", cleared := ← l.bool? "cleared", leak := ← l.str? "leak", nocache := ← l.bool? "nocache", post }
    let newrt ← l.str? "newrt"
    let dup := (l.bool? "dup").getD false
    let afterRefusal := (l.bool? "afterrefusal").getD false
    let hop ← l.bool? "hop"
    let sidmatch ← l.bool? "sidmatch"
    let cfg : Cfg := { mode := (match x.mode with | 0 => .standalone | 1 => .ssoServer | _ => .ssoProxy), forwardAuth := x.cfwd, inactivity := x.inact,
                       maxLifetime := x.maxlife, acr := x.acr, includeIdToken := x.idtok, autoLogin := x.autologin }
    let ck : CookieSt := match x.ck with | 0 => .none | 1 => .valid | _ => .undecryptable
    let st := toStoreSt pre
    let plan : IdpPlan := match x.plan with | "ok" => .ok x.secs | "client" => .clientErr | "server" => .serverErr | _ => .broken
    let b2n (b : Bool) : Nat := if b then 1 else 0
    let diffs : List String :=
      match x.op with
      | "proxy" =>
        if x.mode == 1 then
          cmp "status" x.status 302 ++ cmp "forwarded" x.fwd false ++ cmp "contacted" (decide (x.contacted > 0)) false ++ cmpStore post st
        else
          let o := proxy cfg ck st plan x.newat newrt x.ignored x.now
          cmp "forwarded" x.fwd o.forwarded ++
          cmp "upAuth" x.upauth (match o.upAuth with | some t => "w:" ++ t | none => if o.forwarded && x.cauth && !hop then "client" else "-") ++
          cmp "upIdToken" (x.upid.startsWith "w:") o.upIdToken.isSome ++
          cmp "contacted" (decide (x.contacted > 0)) o.contacted ++ cmp "granted" (decide (x.granted > 0)) o.granted ++ cmpStore post o.store
      | "session" =>
        let o := sessionInfo ck st x.now
        cmp "status" x.status o.status ++ cmp "contacted" (decide (x.contacted > 0)) o.contacted ++ cmpStore post o.store ++
        (match o.body with
         | some d => cmp "body.active" x.bactive (!d.Metadata.IsTimedOut x.now) ++
                     cmp "body.next_auto_refresh" (x.bnext == -1) cfg.autoRefreshDisabled
         | none => cmp "hasbody" x.hasbody false)
      | "refresh" =>
        let o := sessionRefresh cfg ck st plan x.newat newrt x.now
        cmp "status" x.status o.status ++ cmp "contacted" (decide (x.contacted > 0)) o.contacted ++ cmp "granted" (decide (x.granted > 0)) o.granted ++ cmpStore post o.store
      | "fwdauth" =>
        let o := forwardAuth cfg ck st plan x.newat newrt x.now
        cmp "status" x.status o.status ++ cmp "contacted" (decide (x.contacted > 0)) o.contacted ++ cmp "granted" (decide (x.granted > 0)) o.granted ++ cmpStore post o.store
      | "logoutlocal" => cmp "status" x.status 204 ++ cmpStore post (logoutStore ck st x.now) ++ cmp "cleared" x.cleared true
      | "logout" => cmp "status" x.status 302 ++ cmpStore post (logoutStore ck st x.now) ++ cmp "cleared" x.cleared true
      | "frontchannel" => cmp "cleared" x.cleared true ++ cmp "contacted" x.contacted 0 ++ cmp "status" x.status 200 ++
                          (if sidmatch then cmpStore post .absent else cmpStore post st)
      | _ => ["unknown op"]
    let _ := b2n
    pure (verdictsOf diffs (Ww.Spec.Sys.check x ++
      -- (a refusal met on a MANUAL refresh far from expiry leaves the still-valid token usable until a refresh is due - that is how the code reads the
      --  sentence and it is not claimed as a finding; what must not happen is that a DUE refresh is skipped after a refusal and the old token served)
      (if afterRefusal && x.op == "proxy" && x.upauth.startsWith "w:" && x.contacted == 0 && Ww.Spec.Sys.autoRefreshAvailable x && pre.st == 1 && pre.rtok != "" &&
          decide (x.now > Ww.Spec.Sys.earliest pre + 2 * Ww.Spec.Sys.second) && decide (x.now > Ww.Spec.Sys.cooldownEnd pre + 2 * Ww.Spec.Sys.second) then
         [("C11.rejected_refresh_still_auth", "the provider had refused this session's refresh token and a refresh was due again, yet the request was forwarded with the old token without the provider being asked")] else []) ++
      (if dup then [("C07.token_presented_twice.history", "a refresh-token value the provider had already redeemed was presented again")] else [])))
  r.getD [Verdict.bad "hstep"]

def handleHAfter (l : Line) : List Verdict :=
  let r : Option (List Verdict) := do
    let a : Ww.Spec.Sys.After := { op := ← l.get? "op", lstatus := ← l.nat? "lstatus", deleted := ← l.bool? "deleted", status := ← l.nat? "status",
                                   upauth := ← l.get? "upauth", prest := ← l.nat? "prest", sidmatch := ← l.bool? "sidmatch" }
    pure (verdictsOf [] (Ww.Spec.Sys.checkAfter a))
  r.getD [Verdict.bad "hafter"]

end Ww.Driver
