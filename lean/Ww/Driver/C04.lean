import Ww.Driver.Proto
import Ww.Model.Redirect
import Ww.Model.Browser
namespace Ww.Driver
open Ww.Model.Url Ww.Model.Redirect Ww.Model.Browser

def sh (s : List Char) : String := String.ofList (s.map fun c => if c.toNat < 32 ∨ c.toNat ≥ 127 then '?' else c)

def cmpS (name : String) (impl model : List Char) : List String :=
  if impl == model then [] else [s!"{name}: impl={sh impl} model={sh model}"]

def Line.charsList? (l : Line) (k : String) : Option (List (List Char)) :=
  match l.get? k with
  | none => none
  | some "-" => some []
  | some s => (s.splitOn ",").mapM decodeStr

def urlFields (l : Line) (u : URL) : Option (List String) := do
  let scheme ← l.chars? "scheme"; let opaq ← l.chars? "opaque"; let hasuser ← l.bool? "hasuser"; let user ← l.chars? "user"
  let haspass ← l.bool? "haspass"; let pass ← l.chars? "pass"; let host ← l.chars? "host"; let path ← l.chars? "path"
  let rawpath ← l.chars? "rawpath"; let omitH ← l.bool? "omithost"; let fq ← l.bool? "forcequery"; let rq ← l.chars? "rawquery"
  let frag ← l.chars? "fragment"; let rawfrag ← l.chars? "rawfragment"; let str ← l.chars? "str"; let hn ← l.chars? "hostname"
  let esc ← l.chars? "escpath"
  pure (cmpS "Scheme" scheme u.scheme ++ cmpS "Opaque" opaq u.opaq ++ cmp "User set" hasuser u.user.isSome ++
    cmpS "Username" user ((u.user.map (·.1)).getD []) ++ cmp "Password set" haspass ((u.user.bind (·.2)).isSome) ++
    cmpS "Password" pass ((u.user.bind (·.2)).getD []) ++ cmpS "Host" host u.host ++ cmpS "Path" path u.path ++
    cmpS "RawPath" rawpath u.rawPath ++ cmp "OmitHost" omitH u.omitHost ++ cmp "ForceQuery" fq u.forceQuery ++ cmpS "RawQuery" rq u.rawQuery ++
    cmpS "Fragment" frag u.fragment ++ cmpS "RawFragment" rawfrag u.rawFragment ++ cmpS "String()" str (toStr u) ++
    cmpS "Hostname()" hn (hostname u.host) ++ cmpS "EscapedPath()" esc (escapedPath u))

def reqFields (l : Line) (u : URL) : Option (List String) := do
  let rstr ← l.chars? "rstr"; let rhost ← l.chars? "rhost"; let rscheme ← l.chars? "rscheme"
  pure (cmpS "ParseRequestURI String()" rstr (toStr u) ++ cmpS "ParseRequestURI Host" rhost u.host ++ cmpS "ParseRequestURI Scheme" rscheme u.scheme)

/-- url04: url.Parse / String / ParseRequestURI / Hostname on one string -/
def handleUrl04 (l : Line) : List Verdict :=
  let r : Option (List Verdict) := do
    let s ← l.chars? "s"
    let ok ← l.bool? "ok"
    let rok ← l.bool? "rok"
    let m := parseURL s
    let mr := parseRequestURI s
    let d1 := cmp "Parse ok" ok m.isSome
    let d2 ← match m, ok with
      | some u, true => urlFields l u
      | _, _ => some []
    let d3 := cmp "ParseRequestURI ok" rok mr.isSome
    let d4 ← match mr, rok with
      | some u, true => reqFields l u
      | _, _ => some []
    pure (verdictsOf (d1 ++ d2 ++ d3 ++ d4) [])
  r.getD [Verdict.bad "url04"]

/-- esc04: the escaping primitives on one string, all modes -/
def handleEsc04 (l : Line) : List Verdict :=
  let r : Option (List Verdict) := do
    let s ← l.chars? "s"
    let pe ← l.chars? "pathesc"; let qe ← l.chars? "queryesc"
    let pu ← l.chars? "pathunesc"; let puok ← l.bool? "pathunescok"
    let qu ← l.chars? "queryunesc"; let quok ← l.bool? "queryunescok"
    let mpu := unescape .pathSegment s
    let mqu := unescape .queryComponent s
    pure (verdictsOf (cmpS "PathEscape" pe (escape .pathSegment s) ++ cmpS "QueryEscape" qe (escape .queryComponent s) ++
      cmp "PathUnescape ok" puok mpu.isSome ++ (if puok then cmpS "PathUnescape" pu (mpu.getD []) else []) ++
      cmp "QueryUnescape ok" quok mqu.isSome ++ (if quok then cmpS "QueryUnescape" qu (mqu.getD []) else [])) [])
  r.getD [Verdict.bad "esc04"]

/-- valid04: the two validators and the regular expression on one string -/
def handleValid04 (l : Line) : List Verdict :=
  let r : Option (List Verdict) := do
    let s ← l.chars? "s"
    let allowed ← l.charsList? "allowed"
    let rel ← l.bool? "rel"
    let abs ← l.bool? "abs"
    let re ← l.bool? "regex"
    pure (verdictsOf (cmp "RelativeValidator" rel (relValid s) ++ cmp "AbsoluteValidator" abs (absValid allowed s) ++ cmp "invalidRedirectRegex" re (invalidRegex s)) [])
  r.getD [Verdict.bad "valid04"]

def originOf (url : List Char) : Option (List Char × List Char × List Char) :=
  match browse [] url with
  | .abs s h p => some (s, h, p)
  | _ => none

/-- host h is the SSO domain or below it -/
def underDomain (h dom : List Char) : Bool :=
  let d := if startsWith ['.'] dom then dom.drop 1 else dom
  d ≠ [] && (h = d || endsWith ('.' :: d) h)

def showTarget : Target → String
  | .same => "same-origin"
  | .failure => "navigation-failure"
  | .other s => s!"other-scheme {sh s}:"
  | .abs s h p => s!"{sh s}://{sh h}" ++ (if p = [] then "" else s!":{sh p}")

/-- the property's judgement of one Location header: `origins` = origins it may name (matching ingress, operator-configured endpoints) -/
def judge (mode emitter : String) (baseScheme : List Char) (origins : List (List Char × List Char × List Char)) (domain : List Char)
    (what : String) (loc : List Char) (requireAbs : Bool) : List (String × String) :=
  match browse baseScheme loc with
  | .same => if requireAbs then [("C04.cross_origin." ++ emitter, s!"{what} {sh loc} does not name the ingress origin")] else []
  | .failure => []
  | .other s => [("C04.other_scheme." ++ emitter, s!"{what} {sh loc} leads to scheme {sh s}: ({mode})")]
  | .abs s h p =>
    if origins.contains (s, h, p) then []
    else if mode == "sso-server" then
      (if underDomain h domain then [] else [("C04.outside_sso_domain." ++ emitter, s!"{what} {sh loc} leads to {showTarget (.abs s h p)}, outside {sh domain}")])
    else [("C04.cross_origin." ++ emitter, s!"{what} {sh loc} leads to {showTarget (.abs s h p)} ({mode})")]

/-- canon04: Canonical / Clean of one mode on one redirect parameter, followed by http.Redirect -/
def handleCanon04 (l : Line) : List Verdict :=
  let r : Option (List Verdict) := do
    let mode ← l.str? "mode"
    let target ← l.chars? "target"
    let out ← l.chars? "out"
    let out2 ← l.chars? "out2"
    let reqpath ← l.chars? "reqpath"
    let loc ← l.chars? "loc"
    let basescheme ← l.chars? "basescheme"
    let (mout, origins, domain) ← match mode with
      | "standalone" => do
        let ip ← l.chars? "ingresspath"
        pure (standaloneCanonical ip target, [], [])
      | "sso-server" => do
        let dom ← l.chars? "domain"
        let fb ← l.chars? "fallback"
        let fbu ← parseRequestURI fb
        pure (ssoServerCanonical dom fbu target, (originOf fb).toList, dom)
      | "sso-proxy" => do
        let hosts ← l.charsList? "hosts"
        let ing ← l.chars? "ingress"
        let fb ← l.chars? "fallback"
        let ingu ← parseRequestURI ing
        let fbu ← parseRequestURI fb
        pure (ssoProxyCanonical hosts ingu fbu target, (originOf ing).toList ++ (originOf fb).toList, [])
      | _ => none
    let mloc := httpRedirect reqpath out
    let diffs := cmpS "Canonical" out mout ++ cmpS "Clean(Canonical)" out2 out ++ cmpS "http.Redirect Location" loc mloc
    let viol := judge mode "canonical" basescheme origins domain "Location" loc false
    -- hypothesis of Proofs.C04Abs.abs_authority_agrees, checked on what the implementation returned: everything before the first `?` is ASCII
    let asciiViol := if mode != "standalone" && (cut '?' out).1.any (fun c => c.toNat ≥ 128)
      then [("C04.hypothesis.non_ascii_before_query", s!"Canonical returned {sh out} with a raw non-ASCII byte before the query")] else []
    pure (verdictsOf diffs (viol ++ asciiViol))
  r.getD [Verdict.bad "canon04"]

/-- redir04: net/http's rewriting alone -/
def handleRedir04 (l : Line) : List Verdict :=
  let r : Option (List Verdict) := do
    let reqpath ← l.chars? "reqpath"
    let url ← l.chars? "url"
    let loc ← l.chars? "loc"
    pure (verdictsOf (cmpS "http.Redirect Location" loc (httpRedirect reqpath url)) [])
  r.getD [Verdict.bad "redir04"]

def parseExpect (e : String) : Option Target :=
  if e == "same" then some .same
  else if e == "failure" then some .failure
  else if e.startsWith "other:" then some (.other (e.drop 6).toString.toList)
  else if e.startsWith "abs:" then
    match (e.drop 4).toString.splitOn "|" with
    | [s, h, p] => some (.abs s.toList h.toList p.toList)
    | _ => none
  else none

/-- whatwg04: the browser model against a hand-kept table of WHATWG URL-parsing expectations;
    goref04: against Go's ResolveReference where the two standards agree -/
def handleWhatwg04 (l : Line) : List Verdict :=
  let r : Option (List Verdict) := do
    let base ← l.chars? "basescheme"
    let loc ← l.chars? "loc"
    let exp ← l.str? "expect"
    let t ← parseExpect exp
    let m := browse base loc
    pure (verdictsOf (if m == t then [] else [s!"browser model on {sh loc}: table={exp} model={showTarget m}"]) [])
  r.getD [Verdict.bad "whatwg04"]

/-- loc04: one Location header emitted by the real handlers -/
def handleLoc04 (l : Line) : List Verdict :=
  let r : Option (List Verdict) := do
    let mode ← l.str? "mode"
    let emitter ← l.str? "emitter"
    let basescheme ← l.chars? "basescheme"
    let basehost ← l.chars? "basehost"
    let allowed ← l.charsList? "origins"
    let domain ← l.chars? "domain"
    let loc ← l.chars? "loc"
    let hasEmb ← l.bool? "hasembedded"
    let emb ← l.chars? "embedded"
    let embOrigins ← l.charsList? "embeddedorigins"
    let origins := allowed.filterMap originOf
    let v1 := judge mode emitter basescheme origins domain "Location" loc false
    -- an embedded redirect that IS one of the operator-configured URLs, character for character (the fallback the cleaners substitute), is the operator's choice
    let v2 := if hasEmb && emb ≠ [] && !(allowed.contains emb) then judge mode (emitter ++ ".embedded") basescheme (embOrigins.filterMap originOf) domain
                  s!"redirect parameter handed on by {sh basehost} in" emb (mode == "sso-proxy") else []
    pure (verdictsOf [] (v1 ++ v2))
  r.getD [Verdict.bad "loc04"]

end Ww.Driver
