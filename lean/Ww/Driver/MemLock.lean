import Ww.Driver.Proto
import Ww.Model.MemLock
namespace Ww.Driver
open Ww.Model.MemLock

/-- µs around a lease boundary inside which the harness' time stamp (taken just before the call) cannot decide what the implementation's own clock saw -/
def memLockSlack : Nat := 3000

def handleMemLock (l : Line) : List Verdict :=
  let r : Option (List Verdict) := do
    let opsS ← l.str? "ops"
    let ops := if opsS.isEmpty then [] else opsS.splitOn ","
    let res := ops.foldl (fun (acc : St × List String × List (String × String) × Nat) o =>
      let (s, diffs, viol, idx) := acc
      match o.splitOn ":" with
      | ["a", w, now, lease, ok] =>
        match w.toNat?, now.toNat?, lease.toNat?, ok.toNat? with
        | some w, some now, some lease, some ok =>
          let (s', mOk) := acquire s w now lease
          let near : Bool := match s with | some h => decide ((if h.expires ≥ now then h.expires - now else now - h.expires) < memLockSlack) | none => false
          let implOk := ok == 1
          if mOk == implOk then (s', diffs, viol, idx + 1)
          else if near then ((if implOk then some ⟨w, now + lease⟩ else s), diffs, viol, idx + 1)
          else
            let d := s!"op {idx} acquire by {w} at {now}µs: impl={implOk} model={mOk} (entry {repr s})"
            let v := if implOk then ("C07.memory_lock_not_exclusive", s!"holder {w} obtained the lock at {now} µs although {repr s} is held by another holder whose lease has not run out")
                     else ("C10.memory_lock_outlives_lease", s!"holder {w} was refused at {now} µs although the entry {repr s} is free, its own, or past its lease")
            ((if implOk then some ⟨w, now + lease⟩ else s), diffs ++ [d], viol ++ [v], idx + 1)
        | _, _, _, _ => (s, diffs ++ [s!"unparsable op {o}"], viol, idx + 1)
      | ["r", w, _] =>
        match w.toNat? with
        | some w => (release s w, diffs, viol, idx + 1)
        | none => (s, diffs ++ [s!"unparsable op {o}"], viol, idx + 1)
      | ["o", _, _, _, ok] =>
        if ok == "1" then (s, diffs, viol, idx + 1)
        else (s, diffs ++ [s!"op {idx}: the lock of ANOTHER key was refused"], viol ++ [("C10.memory_lock_outlives_lease", "the lock of another, free key was refused")], idx + 1)
      | _ => (s, diffs ++ [s!"unparsable op {o}"], viol, idx + 1)) ((none : St), [], [], 0)
    pure (verdictsOf res.2.1 res.2.2.1)
  r.getD [Verdict.bad "memlock"]

end Ww.Driver
