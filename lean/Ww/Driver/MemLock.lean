import Ww.Driver.Proto
import Ww.Model.MemLock
namespace Ww.Driver
open Ww.Model.MemLock

/-- µs around a lease boundary inside which the harness' time stamps cannot decide what the implementation's own clock saw -/
def memLockSlack : Nat := 3000

structure MemLockAcc where
  s : St := none
  unc : Nat := 0          -- how long the call that created the current entry took: its expiry is known only up to that
  diffs : List String := []
  viol : List (String × String) := []
  idx : Nat := 0

def memLockStep (a : MemLockAcc) (o : String) : MemLockAcc :=
  let next := { a with idx := a.idx + 1 }
  let bad := { next with diffs := a.diffs ++ [s!"unparsable op {o}"] }
  match o.splitOn ":" with
  | ["a", w, now, lease, ok, took] =>
    match w.toNat?, now.toNat?, lease.toNat?, ok.toNat?, took.toNat? with
    | some w, some now, some lease, some ok, some took =>
      let (s', mOk) := acquire a.s w now lease
      let implOk := ok == 1
      -- ambiguous: the entry's expiry lies between (the earliest moment the lock can have read its clock − slack) and (the latest + slack)
      let near : Bool := match a.s with
        | some h => decide (now < h.expires + a.unc + memLockSlack ∧ h.expires < now + took + memLockSlack)
        | none => false
      let adopt : MemLockAcc := if implOk then { next with s := some ⟨w, now + lease⟩, unc := took } else next
      if mOk == implOk then { next with s := s', unc := if implOk then took else a.unc }
      else if near then adopt
      else
        let d := s!"op {a.idx} acquire by {w} at {now}µs: impl={implOk} model={mOk} (entry {repr a.s})"
        let v := if implOk then ("C07.memory_lock_not_exclusive", s!"holder {w} obtained the lock at {now} µs although {repr a.s} is held by another holder whose lease has not run out")
                 else ("C10.memory_lock_outlives_lease", s!"holder {w} was refused at {now} µs although the entry {repr a.s} is free, its own, or past its lease")
        { adopt with diffs := a.diffs ++ [d], viol := a.viol ++ [v] }
    | _, _, _, _, _ => bad
  | ["r", w, _] =>
    match w.toNat? with
    | some w => { next with s := release a.s w }
    | none => bad
  | ["o", _, _, _, ok] =>
    if ok == "1" then next
    else { next with diffs := a.diffs ++ [s!"op {a.idx}: the lock of ANOTHER key was refused"], viol := a.viol ++ [("C10.memory_lock_outlives_lease", "the lock of another, free key was refused")] }
  | _ => bad

def handleMemLock (l : Line) : List Verdict :=
  let r : Option (List Verdict) := do
    let opsS ← l.str? "ops"
    let ops := if opsS.isEmpty then [] else opsS.splitOn ","
    let res := ops.foldl memLockStep {}
    pure (verdictsOf res.diffs res.viol)
  r.getD [Verdict.bad "memlock"]

end Ww.Driver
