import Ww.Driver.Proto
import Ww.Model.Callback
namespace Ww.Driver
open Ww.Model

def handleIdTok (l : Line) : List Verdict :=
  let r : Option (List Verdict) := do
    let sidreq ← l.bool? "sidreq"
    let acrcfg ← l.bool? "acrcfg"
    let trusted ← l.bool? "trusted"
    let cookieAcr ← l.str? "cookieacr"
    let now ← l.int? "now"
    let g := fun k => l.get? k
    let sig ← g "sig"; let iss ← g "iss"; let audFull ← g "aud"; let aud := (audFull.splitOn "/azp:").headD audFull; let exp ← g "exp"; let iat ← g "iat"; let nbf ← g "nbf"
    let nonce ← g "nonce"; let sub ← g "sub"; let sid ← g "sid"; let acr ← g "acr"
    let created ← l.bool? "created"
    let sesscookie ← l.bool? "sesscookie"
    let cfg : OidcCfg := { issuer := "ISS", clientId := "client-id", trusted := if trusted then ["trusted-aud"] else [], sidRequired := sidreq, acrConfigured := acrcfg }
    let off : String → Option Int := fun s => match s with
      | "+60" => some (now + 60) | "-3" => some (now - 3) | "-7" => some (now - 7) | "0" => some now | "+3" => some (now + 3) | "+7" => some (now + 7) | _ => none
    let tok : Option IdToken := if sig == "noidtoken" then none else some {
      sig := match sig with | "good" => .publishedKey | "otherkey" => .otherKey | "rs512key" => .otherKey | "enckey" => .otherKey | "none" => .algNone | "hs256pub" => .symmetricWithPublic | _ => .malformed,
      iss := match iss with | "ok" => some "ISS" | "wrong" => some "https://evil.example" | _ => none,
      aud := match aud with
        | "client" => ["client-id"] | "other" => ["someone-else"] | "client+untrusted" => ["client-id", "untrusted-aud"] | "untrusted+client" => ["untrusted-aud", "client-id"]
        | "client+trusted" => ["client-id", "trusted-aud"] | "client+trusted+untrusted" => ["client-id", "trusted-aud", "untrusted-aud"] | _ => [],
      exp := off exp, iat := off iat, nbf := off nbf,
      nonce := match nonce with | "ok" => some "NONCE" | "wrong" => some "some-other-nonce" | _ => none,
      sub := if sub == "ok" then some "subject" else none,
      sid := if sid == "present" then some "sid" else none,
      acr := match acr with | "high" => some "idporten-loa-high" | "substantial" => some "idporten-loa-substantial" | "garbage" => some "Level0" | _ => none }
    let model := acceptIdToken cfg "NONCE" cookieAcr now tok
    -- Spec, written independently of acceptIdToken: every listed check must hold for a session to exist
    let audOk := match aud with
      | "client" => true | "client+trusted" => trusted | _ => false
    let acrOk := !acrcfg || (match acr with
      | "high" => true
      | "substantial" => cookieAcr != "idporten-loa-high" && cookieAcr != "Level4"
      | "garbage" => cookieAcr == "" || cookieAcr == "Level0"
      | _ => false)
    let checks : List (Bool × String) := [
      (sig == "good", if sig == "none" then "alg_none" else if sig == "hs256pub" then "alg_sym" else if sig == "noidtoken" then "no_idtoken" else "sig"),
      (iss == "ok", "iss"), (audOk, if aud == "other" || aud == "absent" then "aud_missing" else "aud_untrusted"),
      (exp == "+60" || exp == "-3", "exp"), (iat == "0" || iat == "+3", "iat"), (nbf != "+7", "nbf"), (nonce == "ok", "nonce"), (sub == "ok", "sub"),
      (!sidreq || sid == "present", "sid"), (acrOk, if acr == "absent" then "acr_missing" else "acr_low")]
    let failed := checks.filterMap fun (ok, n) => if ok then none else some n
    let viol : List (String × String) :=
      (if (created || sesscookie) && !failed.isEmpty then failed.map fun n => ("C03.accepted." ++ n, s!"session created although check {n} fails") else []) ++
      (if !(created && sesscookie) && failed.isEmpty then [("C03.rejected_valid", "a token passing every check did not create a session")] else []) ++
      (if created != sesscookie then [("C03.partial_session", s!"store entry={created} session cookie={sesscookie}")] else [])
    pure (verdictsOf (cmp "session created" created model) viol)
  r.getD [Verdict.bad "idtok"]

/-- concurrent validations of one token under different login cookies: the decision for each cookie is the sequential one (the model's), whatever runs beside it -/
def handleIdTokBurst (l : Line) : List Verdict :=
  let r : Option (List Verdict) := do
    let kind ← l.get? "kind"
    let phase ← l.get? "phase"
    let n ← l.nat? "n"
    let wa ← l.nat? "wrongaccept"
    let wr ← l.nat? "wrongreject"
    let reason := if kind == "othernonce" then "C03.accepted.nonce" else if kind == "higherlevel" then "C03.accepted.acr_low" else "C03.accepted.sig"
    pure (verdictsOf (if wr > 0 then [s!"{phase}: a token passing every check was rejected {wr} times in {n} validations ({kind})"] else [])
      (if wa > 0 then [(reason, s!"{phase}: accepted {wa} times in {n} validations although the check fails for this login attempt ({kind})")] else []))
  r.getD [Verdict.bad "idtokburst"]

end Ww.Driver
