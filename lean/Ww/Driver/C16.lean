import Ww.Driver.Proto
import Ww.Model.Router
namespace Ww.Driver
open Ww.Model

/-- Spec side (independent of corsAllows): parse an Origin the way a browser forms it, scheme "://" host [":" port] -/
def originHostHttps (origin : List Char) : Option (List Char) :=
  let o := lower origin
  if "https://".toList.isPrefixOf o then some (o.drop 8) else none

/-- what a browser can put into `Origin`: scheme "://" host [":" port] with host over [A-Za-z0-9.-] or a bracketed IPv6 literal (RFC 6454) -/
def browserOrigin (origin : List Char) : Bool :=
  match (String.ofList origin).splitOn "://" with
  | [scheme, rest] => !scheme.isEmpty && scheme.toList.all (fun c => c.isAlphanum || c == '+' || c == '-' || c == '.') &&
                      !rest.isEmpty && rest.toList.all (fun c => c.isAlphanum || c == '.' || c == '-' || c == ':' || c == '[' || c == ']')
  | _ => false

def hostUnderDomain (host dom : List Char) : Bool :=
  host == dom || (('.' :: dom).isSuffixOf host && host.length > dom.length + 1) || host == '.' :: dom

def handleCors (l : Line) : List Verdict :=
  let r : Option (List Verdict) := do
    let dom ← l.chars? "dom"
    let origin ← l.chars? "origin"
    let corsep ← l.bool? "corsep"
    let acao ← l.chars? "acao"
    let acac ← l.bool? "acac"
    let allowed := corsep && corsAllows dom origin && !origin.isEmpty
    let d := lower (trimLeadingDot dom)
    let specOk := match originHostHttps origin with
      | some host => hostUnderDomain host d && !host.contains ':' && !host.contains '/' && !host.contains '@' && !host.contains '?' && !host.contains '#'
      | none => false
    let granted := !acao.isEmpty || acac
    let diffs := cmp "CORS grant" granted allowed ++ (if allowed then cmp "ACAO echoes origin" (String.ofList acao) (String.ofList origin) ++ cmp "ACAC" acac true else [])
    let viol : List (String × String) :=
      (if granted && browserOrigin origin && !specOk then [("C16.cors_allowed", s!"origin {String.ofList origin} was granted credentialed access (domain {String.ofList dom})")] else []) ++
      (if granted && !corsep then [("C16.cors_allowed.endpoint", "CORS headers on an endpoint that should not have them")] else [])
    pure (verdictsOf diffs viol)
  r.getD [Verdict.bad "cors"]

def handleProxyCmds (l : Line) : List Verdict :=
  let r : Option (List Verdict) := do
    let op ← l.str? "op"
    let cmds ← l.strs? "cmds"
    let idpcalls ← l.nat? "idpcalls"
    let locbase ← l.str? "locbase"
    let locredirect ← l.str? "locredirect"
    let setcookies ← l.nat? "setcookies"
    let lockeys ← l.strs? "lockeys"
    let reqkeys ← l.strs? "reqkeys"
    let foreign := lockeys.filter fun k => k != "redirect" && !reqkeys.contains k
    let readOnly := ["GET", "PING", "HELLO", "CLIENT", "SELECT", "AUTH", "TTL", "EXISTS"]
    let bad := cmds.filter fun x => !readOnly.contains x
    let isLogin := op.startsWith "/oauth2/login"
    let isLogout := op.startsWith "/oauth2/logout" && !op.startsWith "/oauth2/logout/"
    let redirectOk := locredirect == "" || locredirect.startsWith "http://app.example.com/" || locredirect == "http://app.example.com"
    let viol : List (String × String) :=
      (bad.map fun x => ("C16.proxy_effect." ++ x, s!"SSO proxy issued store command {x} during {op}")) ++
      (if idpcalls > 0 then [("C16.proxy_effect.idp", s!"SSO proxy contacted the identity provider during {op}")] else []) ++
      (if setcookies > 0 then [("C16.proxy_effect.cookie", s!"SSO proxy set a cookie during {op}")] else []) ++
      (if isLogin && locbase != "http://sso.example.com/oauth2/login" then [("C16.proxy_redirect", s!"login redirect to {locbase}")] else []) ++
      (if isLogout && locbase != "http://sso.example.com/oauth2/logout" then [("C16.proxy_redirect", s!"logout redirect to {locbase}")] else []) ++
      (if (isLogin || isLogout) && !foreign.isEmpty then [("C16.proxy_redirect", s!"the redirect to the SSO server carries parameters {foreign} that THIS request did not have (state kept from an earlier request)")] else []) ++
      (if (isLogin || isLogout) && !redirectOk then [("C16.proxy_redirect", s!"redirect parameter {locredirect} leaves the proxy's ingress")] else [])
    pure (verdictsOf [] viol)
  r.getD [Verdict.bad "proxycmds"]

/-- every cookie the SSO server sets or clears - under whatever Host it was reached - is scoped to the SSO domain -/
def handleSsoCookie (l : Line) : List Verdict :=
  let r : Option (List Verdict) := do
    let host ← l.str? "host"
    let op ← l.str? "op"
    let name ← l.str? "name"
    let domain ← l.str? "domain"
    let ssodomain ← l.str? "ssodomain"
    let httponly := (l.bool? "httponly").getD true
    pure (verdictsOf [] ((if domain.toLower != ssodomain.toLower then [("C16.cookie_domain", s!"the SSO server (Host {host}, {op}) wrote cookie {name} with Domain '{domain}' instead of the SSO domain '{ssodomain}'")] else []) ++
                         (if !httponly then [("C14.attr.httponly", s!"the SSO server ({op}) wrote cookie {name} without HttpOnly")] else [])))
  r.getD [Verdict.bad "ssocookie"]

end Ww.Driver
