import Ww.Driver.Proto
import Ww.Model.Config
namespace Ww.Driver
open Ww.Model

def ingressesOf : String → List IngressSt
  | "https" => [⟨true, "https", true, "app.example.com"⟩]
  | "http-localhost" => [⟨true, "http", true, "localhost"⟩]
  | "absent" => []
  | "ftp" => [⟨true, "ftp", true, "app.example.com"⟩]
  | "garbage" => [⟨false, "", false, ""⟩]
  | "nohost" => [⟨true, "https", false, ""⟩]
  | "nohost-oneslash" => [⟨true, "https", false, ""⟩]                      -- https:/app.example.com: a scheme and a path, no authority
  | "valid+nohost" => [⟨true, "https", true, "app.example.com"⟩, ⟨true, "http", false, ""⟩]   -- one good ingress does not excuse a hostless one
  | "https+localhost" => [⟨true, "https", true, "app.example.com"⟩, ⟨true, "http", true, "localhost"⟩]
  | "http-localhost-upper" => [⟨true, "http", true, "localhost"⟩]                       -- host names compare case-insensitively
  | "http-localhost-prefix" => [⟨true, "http", true, "localhost.example.com"⟩]
  | "http-localhost+prefix" => [⟨true, "http", true, "localhost"⟩, ⟨true, "http", true, "localhost.nais.io"⟩]
  | "http-remote" => [⟨true, "http", true, "app.example.com"⟩]
  | _ => []

def handleStart20 (l : Line) : List Verdict :=
  let r : Option (List Verdict) := do
    let g := fun k => l.get? k
    let b := fun k => l.bool? k
    let key ← g "key"; let ingress ← g "ingress"; let jwk ← g "jwk"; let wellknown ← g "wellknown"; let mode ← g "mode"; let redis ← g "redis"
    let upstream ← g "upstream"; let shutdown ← g "shutdown"; let alg ← g "alg"; let acr ← g "acr"; let locale ← g "locale"; let redissecret ← g "redissecret"
    let disco ← g "disco"
    let listening ← b "listening"
    let exitcode ← l.int? "exitcode"
    let leak ← l.str? "leak"
    let sso := mode != "standalone"
    let c : StartCfg := {
      key := match key with | "ok" => .bytes 32 | "short" => .bytes 16 | "short31" => .bytes 31 | "long33" => .bytes 33 | "long64" => .bytes 64 | "notb64" => .notBase64 | "crlf" => .empty | _ => .absent,
      ingresses := ingressesOf ingress, clientId := ← b "clientid",
      clientJwk := match jwk with | "valid" => .valid | "malformed" => .malformed | _ => .absent, clientSecret := ← b "secret",
      wellKnown := wellknown != "absent", discoveryReachable := wellknown != "unreachable",
      sso, ssoMode := match mode with | "proxy" => .proxy | "badmode" => .other | _ => .server,
      redis := redis != "none" || redissecret != "none", redisReachable := redis != "unreachable" || redissecret == "uri" || redissecret == "uri-enc" || redissecret == "uri-dup",
      ssoCookieName := (← b "cookiename") && sso, ssoServerUrlParses := (← g "serverurl") == "ok" && sso, ssoDomain := (← b "domain") && sso,
      ssoDefaultRedirectParses := (← g "defaulturl") == "ok" && sso,
      cookieSecure := ← b "secure", sameSiteValid := (← g "samesite") == "Lax",
      upstreamIp := upstream == "both" || upstream == "iponly" || upstream == "port70000" || upstream == "portneg",
      upstreamPort := match upstream with | "both" => 8081 | "portonly" => 8081 | "port70000" => 70000 | "portneg" => -5 | _ => 0,
      graceful := match shutdown with | "equal" => 5 | "less" => 2 | _ => 30, waitBefore := match shutdown with | "ok" => 0 | _ => 5,
      algIsJwa := alg != "BOGUS", algInDiscovery := alg == "RS256" && disco != "noalg",
      acr := acr != "none", acrInDiscovery := acr != "unsupported" && disco != "noacr" && disco != "emptyacr",
      locale := locale != "none", localeInDiscovery := locale != "unsupported" && disco != "nolocale" }
    let model := startOk c
    -- Spec: the documented rules, evaluated rule by rule (first failing rule names the violation)
    let rules : List (Bool × String) := [
      (key == "absent" || key == "ok", "encryption_key"), (ingress != "absent" && ingress != "ftp" && ingress != "garbage" && ingress != "nohost" && ingress != "nohost-oneslash" && ingress != "valid+nohost", "ingress"),
      (mode == "proxy" || (c.clientId && (jwk == "valid" || (jwk == "absent" && c.clientSecret)) && wellknown == "ok"), "client_settings"),
      (mode != "badmode", "sso_mode"), (!sso || (c.redis && c.ssoCookieName), "sso_store_and_cookie_name"),
      (mode != "proxy" || c.ssoServerUrlParses, "sso_server_url"), (mode != "server" || (c.ssoDomain && c.ssoDefaultRedirectParses), "sso_domain_default_redirect"),
      (c.cookieSecure || ingress == "http-localhost" || ingress == "http-localhost-upper" || ingress == "absent", "insecure_cookie_non_localhost"), (c.sameSiteValid, "same_site"),
      (upstream == "none" || upstream == "both", "upstream"), (shutdown == "ok", "shutdown_periods"),
      (mode == "proxy" || (alg == "RS256" && disco != "noalg" && (acr == "none" || (acr != "unsupported" && disco != "noacr" && disco != "emptyacr")) &&
                           (locale == "none" || (locale != "unsupported" && disco != "nolocale"))), "discovery_support"), (alg != "BOGUS", "signing_alg"),
      (c.redisReachable || !c.redis, "store_unreachable")]
    let failed := rules.filterMap fun (ok, n) => if ok then none else some n
    let viol : List (String × String) :=
      (if listening && !failed.isEmpty then failed.map fun n => ("C20.started_despite." ++ n, "the process listens although the rule fails") else []) ++
      (if !listening && failed.isEmpty then [("C20.refused_valid", s!"a configuration satisfying every rule did not start (exit code {exitcode})")] else []) ++
      (if !listening && exitcode == 0 then [("C20.exit_code", "refused configuration but exit status 0")] else []) ++
      (if leak != "" then [("C18.secret_in_log.startup." ++ leak, "a supplied secret appears in the start-up output")] else [])
    pure (verdictsOf (cmp "process listens" listening model) viol)
  r.getD [Verdict.bad "start20"]


def handleLogScan (l : Line) : List Verdict :=
  let r : Option (List Verdict) := do
    let kind ← l.get? "kind"
    let found ← l.bool? "found"
    let sample ← l.str? "sample"
    pure (verdictsOf [] (if found then [("C18.secret_in_log." ++ kind, sample)] else []))
  r.getD [Verdict.bad "logscan"]

end Ww.Driver
