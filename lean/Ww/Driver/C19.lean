import Ww.Driver.Proto
import Ww.Model.Shutdown
namespace Ww.Driver
open Ww.Model

def parseReq (s : String) : Option Req :=
  match s.splitOn "/" with
  | [a, d] => do pure ⟨← a.toInt?, ← d.toInt?⟩
  | _ => none

def handleShutdown19 (l : Line) : List Verdict :=
  let r : Option (List Verdict) := do
    let started ← l.bool? "started"
    if !started then pure [Verdict.diff "the binary did not start for the shutdown scenario"] else
    let c : ShutdownCfg := ⟨← l.int? "wait", ← l.int? "grace"⟩
    let reqs ← (← l.strs? "reqs").mapM parseReq
    let outcomes ← l.strs? "outcomes"
    let exitcode ← l.int? "exitcode"
    let exitms ← l.int? "exitms"
    let tol : Int := 250
    let (mExit, mOk) := exitOf c reqs
    let obs := outcomes.map fun s => (s.splitOn "@").headD ""
    let model := reqs.map fun rq => match outcome c rq with | .complete => "complete" | .refused => "refused" | .cut => "cut"
    -- http.Server.Shutdown notices that the last connection went idle only at its next poll (intervals double up to 500 ms, +10 % jitter):
    -- when the last request finishes less than ~650 ms before the deadline the runtime may still hit the deadline. That zone is not compared.
    let gray := mOk && mExit > c.wait && mExit + 650 > c.grace
    let diffs := cmp "request outcomes" obs model ++ (if gray then [] else cmp "exit status ok" (decide (exitcode = 0)) mOk) ++
      (if (exitms - mExit).natAbs ≤ tol.toNat + 550 then [] else [s!"exit time: impl={exitms} ms model={mExit} ms (Shutdown polls idle connections at up to 500 ms)"])
    let viol : List (String × String) :=
      (if exitms < 0 then [("C19.late_exit", "the process did not exit at all")] else []) ++
      (if exitms > c.grace + tol then [("C19.late_exit", s!"exited {exitms} ms after the signal, graceful period {c.grace} ms")] else []) ++
      ((reqs.zip obs).filterMap fun (rq, o) =>
        if rq.arrive < c.wait - tol && rq.arrive + rq.dur < c.grace - tol && o != "complete" then some ("C19.cut_request", s!"request arriving at {rq.arrive} ms lasting {rq.dur} ms ended as {o}")
        else if rq.arrive < c.wait - tol && rq.arrive > 0 && o == "refused" then some ("C19.refused_during_wait", s!"request at {rq.arrive} ms refused although the wait-before period runs until {c.wait} ms")
        else none) ++
      (if mOk && !gray && exitcode != 0 && exitms ≥ 0 then [("C19.exit_code", s!"all requests drained but exit status {exitcode}")] else []) ++
      (if !mOk && exitcode == 0 then [("C19.exit_code", "deadline reached with requests in flight but exit status 0")] else []) ++
      (if mOk && exitms > mExit + 800 then [("C19.late_exit", s!"requests drained at {mExit} ms but the process exited at {exitms} ms")] else [])
    pure (verdictsOf diffs viol)
  r.getD [Verdict.bad "shutdown19"]

end Ww.Driver
