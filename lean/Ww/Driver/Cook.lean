import Ww.Driver.Proto
import Ww.Model.Cookie
namespace Ww.Driver
open Ww.Model

def ssOf : String → SameSite | "lax" => .lax | "strict" => .strict | "none" => .none | _ => .default

def handleSetCookie (l : Line) : List Verdict :=
  let r : Option (List Verdict) := do
    let cfg : CookieCfg := { sso := ← l.bool? "sso", ssoDomain := ← l.str? "ssodomain", secure := ← l.bool? "cfgsecure", sameSite := ssOf (← l.get? "cfgsamesite") }
    let ipath ← l.str? "ingresspath"
    let cls ← l.get? "class"
    let isClear ← l.bool? "clear"
    let domain ← l.str? "domain"; let path ← l.str? "path"; let secure ← l.bool? "secure"; let httponly ← l.bool? "httponly"
    let samesite ← l.get? "samesite"; let maxage ← l.int? "maxage"; let expirespast ← l.bool? "expirespast"
    let ro := requestOpts cfg ipath
    let opts : Option CookieOpts := match cls with
      | "session" | "retry" | "logincount" => some ro
      | "login" => some { ro with sameSite := .lax }
      | "logout" => some (baseOpts cfg)
      | "legacy" => some { ro with sameSite := .lax, path := "/" }
      | _ => none
    let diffs := match opts with
      | none => [s!"unexpected cookie {cls}"]
      | some o =>
        let m := if isClear then clearCookie "n" o else makeCookie "n" "v" o
        -- net/http serialises Domain without a leading dot
        cmp "Domain" domain (trimDot m.domain) ++ cmp "Path" path m.path ++ cmp "Secure" secure m.secure ++ cmp "HttpOnly" httponly m.httpOnly ++
        cmp "SameSite" samesite (match m.sameSite with | .lax => "lax" | .strict => "strict" | .none => "none" | .default => "default") ++
        (if isClear then cmp "Expires in the past" expirespast true else (if cls == "logincount" then [] else cmp "Max-Age" maxage 0))
    let sensitive := cls == "session" || cls == "login" || cls == "logout"
    let viol : List (String × String) :=
      (if sensitive && !httponly then [("C14.attr.httponly", s!"{cls} cookie without HttpOnly")] else []) ++
      (if sensitive && !secure && cfg.secure then [("C14.attr.secure", s!"{cls} cookie without Secure although cookie.secure is on")] else []) ++
      (if sensitive && samesite == "none" && !(cfg.sso && cfg.sameSite == .none) then [("C14.attr.samesite", s!"{cls} cookie with SameSite=None although not configured")] else []) ++
      (if cls == "session" && !cfg.sso && !(domain == "" && path == (if ipath == "" then "/" else ipath)) then [("C14.scope.path", s!"session cookie scoped to domain '{domain}' path '{path}', ingress path '{ipath}'")] else []) ++
      (if cls == "session" && cfg.sso && !(domain == trimDot cfg.ssoDomain && path == "/") then [("C14.scope.domain", s!"SSO session cookie scoped to domain '{domain}' path '{path}'"),
                                                                                                      ("C16.cookie_domain", s!"the SSO server scopes its session cookie to domain '{domain}' path '{path}' instead of the SSO domain '{trimDot cfg.ssoDomain}'")] else []) ++
      (if cfg.sso && (cls == "login" || cls == "logout" || cls == "retry") && domain != trimDot cfg.ssoDomain then [("C16.cookie_domain", s!"the SSO server scopes its {cls} cookie to domain '{domain}'")] else [])
    pure (verdictsOf diffs viol)
  r.getD [Verdict.bad "setcookie"]

def handleJar (l : Line) : List Verdict :=
  let r : Option (List Verdict) := do
    let after ← l.get? "after"
    let names ← l.strs? "names"
    let status ← l.nat? "status"
    let viol : List (String × String) :=
      (if after == "callback" && status == 302 && names.contains "login" then [("C14.cookie_survives.login", "login cookie still in the jar after a completed callback")] else []) ++
      (if after == "callback" && status == 302 && !names.contains "session" then [("C14.cookie_survives.nosession", "no session cookie in the jar after a completed callback (the browser dropped it)")] else []) ++
      (if ["logout", "logoutlocal", "frontchannel", "logout+callback"].contains after && names.contains "session" then [("C14.cookie_survives.session", s!"session cookie still in the jar after {after}"),
              ("C05.cookie_not_cleared", s!"a cookie-honouring browser still holds the session cookie after {after}")] else []) ++
      (if after == "logoutcallback" && names.contains "logout" then [("C14.cookie_survives.logout", "logout cookie still in the jar after the logout callback")] else [])
    pure (verdictsOf [] viol)
  r.getD [Verdict.bad "jar"]

/-- longest run of consecutive "307" -/
def maxRun307 : List String → Nat → Nat → Nat
  | [], cur, best => max cur best
  | s :: rest, cur, best => if s == "307" then maxRun307 rest (cur + 1) best else maxRun307 rest 0 (max cur best)

def handleRetryChain (l : Line) : List Verdict :=
  let r : Option (List Verdict) := do
    let statuses ← l.strs? "statuses"
    let cause ← l.get? "cause"
    -- model: a browser without retry cookie that keeps failing
    let model := (List.range statuses.length).foldl (fun (acc : List Bool × Option Int) _ =>
      let (rd, v) := retryStep acc.2 500; (acc.1 ++ [rd], some v)) ([], none)
    let implRedirects := statuses.map (· == "307")
    let afterPage := (statuses.dropWhile (· == "307"))
    let viol : List (String × String) :=
      (if maxRun307 statuses 0 0 > 3 then [("C17.too_many_retries", s!"{cause}: statuses {statuses}")] else []) ++
      (if afterPage.any (· == "307") then [("C17.too_many_retries", s!"{cause}: redirect again after the error page: {statuses}")] else []) ++
      (if statuses.any (· == "429") && implRedirects.any id then [("C17.retry_on_429", s!"{cause}: {statuses}")] else [])
    pure (verdictsOf (cmp s!"redirect pattern ({cause})" implRedirects model.1) viol)
  r.getD [Verdict.bad "retrychain"]

def handleRetryReset (l : Line) : List Verdict :=
  let r : Option (List Verdict) := do
    let via ← l.get? "via"
    let before ← l.bool? "before"
    let after ← l.bool? "after"
    pure (verdictsOf [] (if before && after then [("C17.counter_not_cleared", s!"retry cookie survives a successful {via}")] else []))
  r.getD [Verdict.bad "retryreset"]

/-- config.Cookie.Validate against the model rule (C14: insecure cookies only when every ingress is plain-http localhost) -/
def handleCookieVal14 (l : Line) : List Verdict :=
  let r : Option (List Verdict) := do
    let secure ← l.bool? "secure"
    let samesite ← l.str? "samesite"
    let schemes ← l.strs? "schemes"
    let hostnames ← l.strs? "hostnames"
    let parses ← l.bool? "parses"
    let accepted ← l.bool? "accepted"
    let ssOk := samesite == "Lax" || samesite == "None" || samesite == "Strict"
    let model := ssOk && (secure || (parses && Ww.Model.secureExemptionOk secure (schemes.zip hostnames)))
    let offending := (schemes.zip hostnames).filter fun (s, h) => !(s == "http" && h.toLower == "localhost")
    pure (verdictsOf (cmp "configuration accepted" accepted model)
      (if accepted && !secure && !offending.isEmpty then
        [("C14.attr.secure", s!"cookies without Secure were accepted although ingress {offending.head?.map (fun (s, h) => s ++ "://" ++ h)} is not plain-http localhost")] else []))
  r.getD [Verdict.bad "cookieval14"]

def handleRateLimit (l : Line) : List Verdict :=
  let r : Option (List Verdict) := do
    let enabled ← l.bool? "enabled"
    let logins ← l.int? "logins"
    let windowms ← l.int? "windowms"
    let session ← l.bool? "session"
    let statuses ← l.strs? "statuses"
    let afterwindow ← l.get? "afterwindow"
    let maxage ← l.int? "maxage"
    let model := (List.range statuses.length).foldl (fun (acc : List Bool × Option Int) _ =>
      let (lim, c) := rateLimitStep (enabled && session) logins acc.2; (acc.1 ++ [lim], c)) ([], none)
    let impl := statuses.map (· == "429")
    let n := logins.toNat
    let viol : List (String × String) :=
      (if !(enabled && session) && (impl.any id || afterwindow == "429") then [("C17.rate_limit.early", "429 although rate limiting is off / the browser has no session")] else []) ++
      (if enabled && session && (impl.take n).any id then [("C17.rate_limit.early", s!"429 within the first {n} visits: {statuses}")] else []) ++
      (if enabled && session && !(impl.drop n).all id then [("C17.rate_limit.late", s!"no 429 after {n} visits: {statuses}")] else []) ++
      (if enabled && session && logins > 0 && afterwindow == "429" then [("C17.rate_limit.never_lapses", s!"still 429 after the window ({windowms} ms) has passed; Max-Age={maxage}")] else [])
    pure (verdictsOf (cmp "429 pattern" impl model.1) viol)
  r.getD [Verdict.bad "ratelimit"]

end Ww.Driver
