import Ww.Driver.Proto
import Ww.Model.Login
namespace Ww.Driver
open Ww.Model

def parseIngress (s : String) : Option Ingress :=
  match s.splitOn "://" with
  | [scheme, rest] =>
    match rest.splitOn "/" with
    | [] => none
    | host :: segs => some ⟨scheme, host, if segs.isEmpty then "" else "/" ++ "/".intercalate segs⟩
  | _ => none

def handleLogin13 (l : Line) : List Verdict :=
  let r : Option (List Verdict) := do
    let ings ← (← l.strs? "ings").mapM parseIngress
    let par ← l.bool? "par"
    let secret ← l.bool? "secret"
    let ep ← l.get? "ep"
    let host ← l.str? "host"; let xfh ← l.str? "xfh"; let path ← l.str? "path"
    let level ← l.str? "level"; let locale ← l.str? "locale"; let prompt ← l.str? "prompt"
    let status ← l.nat? "status"
    let locbase ← l.str? "locbase"
    let frontkeys ← l.strs? "frontkeys"
    let hascookie ← l.bool? "hascookie"
    let haslogoutcookie ← l.bool? "haslogoutcookie"
    let g := fun k => l.str? k
    let p_rt ← g "p_response_type"; let p_m ← g "p_method"; let p_state ← g "p_state"; let p_nonce ← g "p_nonce"; let p_redirect ← g "p_redirect"
    let p_acr ← g "p_acr"; let p_locale ← g "p_locale"; let p_prompt ← g "p_prompt"; let p_maxage ← g "p_maxage"; let p_postlogout ← g "p_postlogout"
    let c_state ← g "c_state"; let c_nonce ← g "c_nonce"; let c_redirect ← g "c_redirect"; let c_acr ← g "c_acr"
    let c_verlen ← l.nat? "c_verlen"; let c_statelen ← l.nat? "c_statelen"; let c_noncelen ← l.nat? "c_noncelen"
    let challengeok ← l.bool? "challengeok"
    let parcalled ← l.bool? "parcalled"; let par_secret ← l.bool? "par_secret"; let par_assertion ← l.bool? "par_assertion"
    let assertok ← l.bool? "assertok"; let assertwhy ← g "assertwhy"; let leak ← g "leak"
    let authz ← g "authzendpoint"; let endsession ← g "endsession"
    let cfg : LoginCfg := { acrDefault := ← g "acrdef", localeDefault := ← g "locdef", acrSupported := ← l.strs? "acrsup", localesSupported := ← l.strs? "locsup", par }
    let ing := matchingIngress ings host xfh path
    -- only requests that the router hands to the login / logout handler are in scope (everything else is the proxy's business)
    if !(ings.any fun i => path == i.path ++ "/oauth2/" ++ ep) then pure [Verdict.ok] else
    if ep == "logout" then
      -- logout: redirect to the provider's end-session endpoint with the post-logout URI of the MATCHING CONFIGURED ingress, or the error path
      let viol : List (String × String) := match ing with
        | some i =>
          (if status == 302 && locbase == endsession && p_postlogout != i.url ++ "/oauth2/logout/callback" then [("C13.redirect_uri_unconfigured", s!"post_logout_redirect_uri {p_postlogout}")] else [])
        | none =>
          (if status == 302 && locbase == endsession then [("C13.redirect_uri_unconfigured", s!"logout redirected to the provider for unconfigured host {host}/{xfh}")] else []) ++
          (if haslogoutcookie then [("C13.redirect_uri_unconfigured", "logout cookie set for unconfigured host")] else [])
      let diffs := match ing with
        | some _ => cmp "logout redirects to provider" (status == 302 && locbase == endsession) true
        | none => cmp "logout redirects to provider" (status == 302 && locbase == endsession) false
      pure (verdictsOf diffs (viol ++ (if leak != "" then [("C13.front_channel_leak." ++ leak, "client credential visible to the browser")] else [])))
    else
    let parfault ← l.bool? "parfault"
    -- a refused pushed authorization request fails the login attempt: no redirect to the provider (the PAR endpoint was of course called)
    let model := if parfault then none else authRequest cfg ings host xfh path level locale prompt ⟨p_state, p_nonce, "V"⟩
    let diffs := match model with
      | none => cmp "redirected to provider" (status == 302 && locbase == authz) false ++ cmp "login cookie set" hascookie false ++ (if parfault then [] else cmp "PAR called" parcalled false)
      | some a =>
        let pm := fun k => (a.params.find? (·.1 == k)).map (·.2) |>.getD ""
        cmp "redirected to provider" (status == 302 && locbase == authz) true ++ cmp "redirect_uri" p_redirect (pm "redirect_uri") ++ cmp "acr_values" p_acr (pm "acr_values") ++
        cmp "ui_locales" p_locale (pm "ui_locales") ++ cmp "prompt" p_prompt (pm "prompt") ++ cmp "max_age" p_maxage (pm "max_age") ++ cmp "cookie.acr" c_acr a.cookieAcr ++
        (if par then cmp "front-channel keys" frontkeys ["client_id", "request_uri"] else []) ++
        cmp "PAR called" parcalled par
    -- Spec on the observation
    let configured := ings.any fun i => p_redirect == i.url ++ "/oauth2/callback" && (i.host == host || i.host == xfh)
    let allowedAcr := p_acr == "" || cfg.acrSupported.contains p_acr || p_acr == cfg.acrDefault
    let allowedLoc := p_locale == "" || cfg.localesSupported.contains p_locale || p_locale == cfg.localeDefault
    let went := status == 302 && locbase == authz
    let viol : List (String × String) :=
      (if went && p_rt != "code" then [("C13.param_not_allowed.response_type", p_rt)] else []) ++
      (if went && (p_m != "S256" || !challengeok) then [("C13.cookie_mismatch.code_challenge", s!"method {p_m}, challenge matches cookie verifier: {challengeok}")] else []) ++
      (if went && !(hascookie && p_state == c_state && p_nonce == c_nonce && p_redirect == c_redirect) then [("C13.cookie_mismatch.state_nonce_redirect", "authorization request and sealed cookie differ")] else []) ++
      (if went && !configured then [("C13.redirect_uri_unconfigured", s!"redirect_uri {p_redirect} for host {host} xfh {xfh}")] else []) ++
      (if went && !allowedAcr then [("C13.param_not_allowed.acr_values", p_acr)] else []) ++
      (if went && !allowedLoc then [("C13.param_not_allowed.ui_locales", p_locale)] else []) ++
      (if went && !(p_prompt == "" || p_prompt == "login" || p_prompt == "select_account") then [("C13.param_not_allowed.prompt", p_prompt)] else []) ++
      (if went && p_prompt != "" && p_maxage != "0" then [("C13.param_not_allowed.max_age", p_maxage)] else []) ++
      (if went && (c_verlen < 43 || c_statelen < 43 || c_noncelen < 43) then [("C13.short", s!"verifier {c_verlen} state {c_statelen} nonce {c_noncelen} characters")] else []) ++
      (if went && par && frontkeys != ["client_id", "request_uri"] then [("C13.front_channel_leak.par", s!"browser saw {frontkeys}")] else []) ++
      (if parcalled && !(if secret then par_secret && !par_assertion else par_assertion && !par_secret) then [("C13.assertion.method", "wrong client authentication in PAR body")] else []) ++
      (if !assertok then [("C13.assertion." ++ assertwhy, "client assertion")] else []) ++
      (if leak != "" then [("C13.front_channel_leak." ++ leak, "client credential visible to the browser")] else []) ++
      (if parfault && went then [("C13.front_channel_leak.par_fallback", s!"the pushed authorization request was refused, yet the browser was sent to the provider with {frontkeys}")] else []) ++
      (if !went && ing.isNone && (hascookie || parcalled) then [("C13.redirect_uri_unconfigured", "cookie set / PAR called for an unconfigured host")] else [])
    pure (verdictsOf diffs viol)
  r.getD [Verdict.bad "login13"]

def handleFresh13 (l : Line) : List Verdict :=
  let r : Option (List Verdict) := do
    let dups ← l.nat? "dups"
    let minlen ← l.nat? "minlen"
    let total ← l.nat? "total"
    let overlaps ← l.nat? "overlaps"
    pure (verdictsOf [] ((if overlaps > 0 then [("C13.reused", s!"{overlaps} of {total} state / nonce / verifier values contain a run of 12 random bytes that also occurs in ANOTHER value: the same random bytes were handed out twice")] else []) ++
                         (if dups > 0 then [("C13.reused", s!"{dups} repeated state/nonce/verifier/jti values among {total}")] else []) ++
                         (if total > 0 && minlen < 36 then [("C13.short", s!"shortest value has {minlen} characters")] else [])))
  r.getD [Verdict.bad "fresh13"]

def handleBurst13 (l : Line) : List Verdict :=
  let r : Option (List Verdict) := do
    let visits ← l.nat? "visits"
    let failed ← l.nat? "failed"
    pure (verdictsOf (if failed > 0 then [s!"{failed} of {visits} concurrent login visits did not end in a redirect to the provider with a sealed login cookie"] else []) [])
  r.getD [Verdict.bad "burst13"]

end Ww.Driver