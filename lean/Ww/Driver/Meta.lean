import Ww.Driver.Proto
import Ww.Gen.Meta
import Ww.Spec.Meta
namespace Ww.Driver
open Ww.Gen

def metaOfLine (l : Line) (p : String := "") : Option Metadata := do
  pure { Session := { CreatedAt := ← l.int? (p ++ "created"), EndsAt := ← l.int? (p ++ "ends"), TimeoutAt := ← l.int? (p ++ "timeout") },
         Tokens := { ExpireAt := ← l.int? (p ++ "expire"), RefreshedAt := ← l.int? (p ++ "refreshed") } }

def handleMeta (l : Line) : List Verdict :=
  let r : Option (List Verdict) := do
    let m ← metaOfLine l
    let now ← l.int? "now"
    let o : Ww.Spec.Meta.Obs := {
      now, created := m.Session.CreatedAt, ends := m.Session.EndsAt, timeout := m.Session.TimeoutAt, expire := m.Tokens.ExpireAt,
      refreshed := m.Tokens.RefreshedAt, access := ← l.bool? "access", refresh := ← l.bool? "refresh",
      isEnded := ← l.bool? "isEnded", isExpired := ← l.bool? "isExpired", isTimedOut := ← l.bool? "isTimedOut",
      onCooldown := ← l.bool? "onCooldown", shouldRefresh := ← l.bool? "shouldRefresh", nextRefresh := ← l.int? "nextRefresh",
      cooldown := ← l.int? "cooldown", lifetime := ← l.int? "lifetime", validate := ← l.strs? "validate", hasActive := ← l.bool? "hasActive",
      vEndsIn := ← l.int? "vEndsIn", vActive := ← l.bool? "vActive", vTimeoutIn := ← l.int? "vTimeoutIn", vExpireIn := ← l.int? "vExpireIn",
      vNextAuto := ← l.int? "vNextAuto", vCooldown := ← l.bool? "vCooldown", vCooldownSecs := ← l.int? "vCooldownSecs" }
    let d : Data := { AccessToken := if o.access then "a" else "", RefreshToken := if o.refresh then "r" else "", Metadata := m }
    let v := m.Verbose now
    let diffs :=
      cmp "IsEnded" o.isEnded (m.IsEnded now) ++ cmp "IsExpired" o.isExpired (m.IsExpired now) ++
      cmp "IsTimedOut" o.isTimedOut (m.IsTimedOut now) ++ cmp "IsRefreshOnCooldown" o.onCooldown (m.IsRefreshOnCooldown now) ++
      cmp "ShouldRefresh" o.shouldRefresh (m.ShouldRefresh now) ++ cmp "NextRefresh" o.nextRefresh (m.NextRefresh now) ++
      cmp "RefreshCooldown" o.cooldown (m.RefreshCooldown now) ++ cmp "TokenLifetime" o.lifetime (m.TokenLifetime now) ++
      cmp "Validate" o.validate (d.Validate now) ++ cmp "HasActiveAccessToken" o.hasActive (d.HasActiveAccessToken now) ++
      cmp "Verbose.EndsInSeconds" o.vEndsIn v.Session.EndsInSeconds ++ cmp "Verbose.Active" o.vActive v.Session.Active ++
      cmp "Verbose.TimeoutInSeconds" o.vTimeoutIn v.Session.TimeoutInSeconds ++ cmp "Verbose.ExpireInSeconds" o.vExpireIn v.Tokens.ExpireInSeconds ++
      cmp "Verbose.NextAutoRefreshInSeconds" o.vNextAuto v.Tokens.NextAutoRefreshInSeconds ++ cmp "Verbose.RefreshCooldown" o.vCooldown v.Tokens.RefreshCooldown ++
      cmp "Verbose.RefreshCooldownSeconds" o.vCooldownSecs v.Tokens.RefreshCooldownSeconds
    pure (verdictsOf diffs (Ww.Spec.Meta.check o))
  r.getD [Verdict.bad "meta"]

def handleMRefresh (l : Line) : List Verdict :=
  let r : Option (List Verdict) := do
    let m ← metaOfLine l
    let m' ← metaOfLine l "r"
    let now ← l.int? "now"
    let secs ← l.int? "secs"
    let inact ← l.int? "inact"
    let model := let a := m.Refresh secs now; if inact > 0 then a.WithTimeout inact now else a
    let o : Ww.Spec.Meta.RefreshObs := {
      now, created := m.Session.CreatedAt, ends := m.Session.EndsAt, timeout := m.Session.TimeoutAt,
      expire := m.Tokens.ExpireAt, refreshed := m.Tokens.RefreshedAt, secsIn := secs, inact := inact,
      rcreated := m'.Session.CreatedAt, rends := m'.Session.EndsAt, rtimeout := m'.Session.TimeoutAt, rexpire := m'.Tokens.ExpireAt, rrefreshed := m'.Tokens.RefreshedAt }
    pure (verdictsOf (if model == m' then [] else [s!"Refresh/WithTimeout: impl={repr m'} model={repr model}"]) (Ww.Spec.Meta.checkRefresh o))
  r.getD [Verdict.bad "mrefresh"]

def handleMNew (l : Line) : List Verdict :=
  let r : Option (List Verdict) := do
    let m' ← metaOfLine l "r"
    let now ← l.int? "now"
    let ex ← l.int? "expiresIn"
    let en ← l.int? "endsIn"
    let inact ← l.int? "inact"
    let model := let a := NewMetadata ex en now; if inact > 0 then a.WithTimeout inact now else a
    let viol : List (String × String) :=
      (if m'.Session.EndsAt ≠ m'.Session.CreatedAt + en ∨ m'.Session.CreatedAt ≠ now then [("C06.end_moved", "new session: EndsAt ≠ CreatedAt + max lifetime")] else []) ++
      (if inact > 0 ∧ (m'.Session.TimeoutAt ≠ now + inact ∨ m'.Tokens.ExpireAt > m'.Session.TimeoutAt) then [("C06.accepted_after_idle", "new session: timeout not armed")] else []) ++
      (if inact = 0 ∧ m'.Session.TimeoutAt ≠ 0 then [("C06.accepted_after_idle", "timeout armed although inactivity is off")] else [])
    pure (verdictsOf (if model == m' then [] else [s!"NewMetadata: impl={repr m'} model={repr model}"]) viol)
  r.getD [Verdict.bad "mnew"]

end Ww.Driver
