import Ww.Driver.Proto
import Ww.Model.Callback
namespace Ww.Driver
open Ww.Model

def handleCb (l : Line) : List Verdict :=
  let r : Option (List Verdict) := do
    let cfg : CbCfg := { issSupported := ← l.bool? "isssup", issuer := ← l.str? "issuer" }
    let dec ← l.get? "dec"
    let minted ← l.get? "minted"
    let kind ← l.get? "kind"
    let lc : LoginCookie := { state := ← l.str? "cstate", verifier := ← l.str? "cverifier", redirectUri := ← l.str? "credirect", nonce := ← l.str? "cnonce" }
    let q : CbQuery := { state := ← l.str? "qstate", code := ← l.str? "qcode", error := ← l.str? "qerror", iss := ← l.str? "qiss" }
    let status ← l.nat? "status"
    let calls ← l.nat? "calls"
    let sentcode ← l.str? "sentcode"
    let sentverifier ← l.str? "sentverifier"
    let sentredirect ← l.str? "sentredirect"
    let storechanged ← l.bool? "storechanged"
    let sesscookie ← l.bool? "sesscookie"
    let logincleared ← l.bool? "logincleared"
    let ck : CookieIn := match dec, minted with
      | "absent", _ => .absent
      | "authentic", "logout" => .authentic (.logout lc.state "")
      | "authentic", "session" => .authentic .session
      | "authentic", _ => .authentic (.login lc)
      | _, _ => .undecryptable
    let o := callbackGate cfg ck q
    let diffs := match o with
      | .redeem code v ru _ => cmp "provider calls" calls 1 ++ cmp "code" sentcode code ++ cmp "verifier" sentverifier v ++ cmp "redirect_uri" sentredirect ru
      | _ => cmp "provider calls" calls 0 ++ cmp "session cookie" sesscookie false ++ cmp "store changed" storechanged false
    let diffs := diffs ++ cmp "login cookie cleared" logincleared true
    -- Spec on the observation
    let gateOk := minted == "login" && dec == "authentic" && q.error == "" && q.state != "" && q.state == lc.state && (!cfg.issSupported || q.iss == cfg.issuer)
    let why := if dec == "absent" then "cookie_absent" else if dec != "authentic" then "cookie_undecryptable" else if minted != "login" then "cookie_foreign_type"
               else if q.error != "" then "error_param" else if q.state == "" then "state_missing" else if q.state != lc.state then "state_mismatch" else "iss"
    let viol : List (String × String) :=
      (if calls > 0 && !gateOk then [("C02.idp_called_without_gate." ++ why, s!"token endpoint called (cookie kind {kind}, status {status})")] else []) ++
      (if calls > 0 && gateOk && (sentverifier != lc.verifier || sentredirect != lc.redirectUri || sentcode != q.code) then [("C02.verifier_not_from_cookie", "redeemed with other verifier / redirect_uri / code than bound in the cookie")] else []) ++
      (if (sesscookie || storechanged) && !(calls > 0 && gateOk) then [("C02.store_changed_on_reject", s!"session cookie={sesscookie} store changed={storechanged} although the gate failed")] else []) ++
      (if calls > 1 then [("C02.idp_called_without_gate.repeated", "more than one back-channel call")] else [])
    pure (verdictsOf diffs viol)
  r.getD [Verdict.bad "cb"]

/-- two overlapping callbacks presenting the SAME code: A with its own cookie, B with B's own cookie and state. The model: A redeems and gets a session; B's gate passes too,
    so B sends the code with B's verifier - which the provider refuses - and gets no session -/
def handleCbRace (l : Line) : List Verdict :=
  let r : Option (List Verdict) := do
    let order ← l.get? "order"
    let asession ← l.bool? "asession"
    let bsession ← l.bool? "bsession"
    let callsb ← l.nat? "callsb"
    let okb ← l.nat? "okb"
    let diffs := cmp "A obtained a session" asession true ++ cmp "B obtained a session" bsession false ++ cmp "B redeemed with its own verifier" (decide (callsb ≥ 1)) true
    pure (verdictsOf diffs
      (if bsession && okb == 0 then [("C02.verifier_not_from_cookie", s!"{order}: browser B obtained a session although no redemption carrying the verifier bound in B's cookie succeeded ({callsb} such calls)")] else []))
  r.getD [Verdict.bad "cbrace"]

/-- a burst of callbacks of different browsers: the model handles each callback on its own (`Ww.Model.Callback` has no shared state between attempts) -/
def handleCbBurst (l : Line) : List Verdict :=
  let r : Option (List Verdict) := do
    let n ← l.nat? "n"
    let mixed ← l.nat? "mixed"
    let redirMixed ← l.nat? "redirmixed"
    let dup ← l.nat? "dup"
    let sessions ← l.nat? "sessions"
    let redeemed ← l.nat? "redeemed"
    let diffs := cmp "browsers with a session" sessions n ++ cmp "codes redeemed" redeemed n
    pure (verdictsOf diffs (
      (if mixed > 0 then [("C02.verifier_not_from_cookie", s!"{mixed} of the token requests of {n} simultaneous callbacks carried the code of one login attempt with the PKCE verifier of another")] else []) ++
      (if redirMixed > 0 then [("C02.redirect_uri_not_from_cookie", s!"{redirMixed} token requests carried a redirect URI other than the one bound in that attempt's cookie")] else []) ++
      (if dup > 0 then [("C02.code_redeemed_twice", s!"{dup} authorization codes were sent to the token endpoint more than once during a burst of {n} distinct callbacks")] else [])))
  r.getD [Verdict.bad "cbburst"]

end Ww.Driver
