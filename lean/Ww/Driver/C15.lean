import Ww.Driver.Proto
import Ww.Model.Router
namespace Ww.Driver
open Ww.Model

def handleRoute (l : Line) : List Verdict :=
  let r : Option (List Verdict) := do
    let c : RCfg := { ssoServer := ← l.bool? "sso", otel := false, idporten := ← l.bool? "idporten" }
    let prefixes ← l.strs? "prefixes"
    let method ← l.get? "method"
    let wire ← l.str? "wire"
    let rpath ← l.str? "rpath"
    let impl ← l.get? "impl"
    let nocache ← l.bool? "nocache"
    let o := route c prefixes method rpath
    let (model, mws) := match o with
      | .handler n m => (if n.startsWith "src." then n else "inline", m)
      | .notFound m => ("404", m)
      | .methodNotAllowed m => ("405", m)
      | .wildcard => ("src.Wildcard", [])
    -- CORS preflight is answered by the middleware before routing reaches a handler: OPTIONS on an SSO server is not compared
    let skip := method == "OPTIONS" && c.ssoServer
    let diffs := if skip then [] else cmp "route" impl model ++ (if model != "src.Wildcard" then cmp "NoCache" nocache (mws.contains "chi_middleware.NoCache") else [])
    -- (prefixes are the DECODED ingress paths; `rpath` is the path the router matches on - decoded unless the client used a non-canonical escaping)
    let owned := prefixes.any fun p => underSubtree (p ++ "/oauth2") wire || underSubtree (p ++ "/oauth2") rpath
    let viol : List (String × String) :=
      (if owned && impl == "src.Wildcard" then [("C15.proxied_owned_path", s!"{method} {wire} reached the upstream proxy handler")] else []) ++
      (if owned && !nocache && impl != "src.Wildcard" && standardMethods.contains method then [("C15.cacheable", s!"{method} {wire} answered without no-store")] else [])
    pure (verdictsOf diffs viol)
  r.getD [Verdict.bad "route"]

def handleGuard (l : Line) : List Verdict :=
  let r : Option (List Verdict) := do
    let method ← l.get? "method"
    let mode ← l.str? "mode"
    let dest ← l.str? "dest"
    let acc ← l.bool? "acc"
    let status ← l.nat? "status"
    let hasloc ← l.bool? "hasloc"
    let idpcalls ← l.nat? "idpcalls"
    let nocache ← l.bool? "nocache"
    let blocked := nonNavBlocked method mode dest acc
    let diffs := cmp "guard answered 401 without Location" (status == 401 && !hasloc) blocked
    let specBlocked := mode != "" && dest != "" && !(method == "GET" && mode == "navigate" && dest == "document")
    let viol : List (String × String) :=
      (if specBlocked && !(status == 401 && !hasloc && idpcalls == 0) then [("C15.nonnav_redirected", s!"non-navigation ({mode}/{dest}) answered {status} location={hasloc}")] else []) ++
      (if !nocache then [("C15.cacheable", "interactive endpoint response lacks no-store")] else [])
    pure (verdictsOf diffs viol)
  r.getD [Verdict.bad "guard"]

/-- responses an SSO proxy generates itself under /oauth2 -/
def handleProxyOwn (l : Line) : List Verdict :=
  let r : Option (List Verdict) := do
    let ep ← l.str? "ep"
    let status ← l.nat? "status"
    let nocache ← l.bool? "nocache"
    pure (verdictsOf [] (if !nocache then [("C15.cacheable", s!"SSO proxy: {ep} answered {status} without no-store / no-cache")] else []))
  r.getD [Verdict.bad "proxyown"]

def handleErrPage (l : Line) : List Verdict :=
  let r : Option (List Verdict) := do
    let bad ← l.str? "bad"
    let nocache ← l.bool? "nocache"
    pure (verdictsOf [] ((if bad != "" then [("C15.unescaped", bad)] else []) ++ (if !nocache then [("C15.cacheable", "error page lacks no-store")] else [])))
  r.getD [Verdict.bad "errpage"]

/-- every response wonderwall generates on an owned endpoint is non-cacheable - including the rate limiter's 429 -/
def handleOwnCache (l : Line) : List Verdict :=
  let r : Option (List Verdict) := do
    let ep ← l.str? "ep"
    let n ← l.nat? "n"
    let status ← l.nat? "status"
    let cc ← l.str? "cc"
    let nocache ← l.bool? "nocache"
    pure (verdictsOf [] (if !nocache then [("C15.cacheable", s!"visit {n + 1} of {ep} with a session, rate limit on: answered {status} with Cache-Control '{cc}' (neither no-store nor no-cache)")] else []))
  r.getD [Verdict.bad "owncache"]

end Ww.Driver
