import Ww.Driver.Proto
import Ww.Model.Sched
namespace Ww.Driver
open Ww.Model.Sched

def pidOf : String → Option Nat | "A" => some 0 | "B" => some 1 | "C" => some 2 | "D" => some 3 | _ => none
/-- process kinds as the harness names them: `<kind>[+late][@<pid whose replica serves it>]` — lateness of replies and replica placement are
    invisible to the model (every process does its own reads; a read takes effect when the store executes it) -/
def baseKind (s : String) : String := ((s.splitOn "@").headD "" |>.splitOn "+").headD ""

def kindOf' : String → Option Kind
  | "refresh" => some .refresh | "proxy" => some .proxy | "info" => some .info | "logoutlocal" => some .logoutLocal
  | "logout" => some .logout | "frontchannel" => some .frontchannel | "relogin" => some .relogin | _ => none

def kindOf (s : String) : Option Kind := kindOf' (baseKind s)

def splitColon (s : String) : String × String :=
  match s.splitOn ":" with
  | a :: rest => (a, ":".intercalate rest)
  | [] => (s, "")

def handleSched (l : Line) : List Verdict :=
  let r : Option (List Verdict) := do
    let store ← l.get? "store"
    let procs ← l.strs? "procs"
    let trace ← l.strs? "trace"
    let crashIdx ← l.int? "crash"
    let statuses ← l.strs? "statuses"
    let exists_ ← l.bool? "exists"
    let ttl ← l.int? "ttl"
    let atn ← l.str? "at"; let rtn ← l.str? "rt"
    let presented ← l.strs? "presented"
    let maxinflight ← l.nat? "maxinflight"
    let uptokens ← l.strs? "uptokens"
    let lockafter ← l.bool? "lockafter"
    let followauth ← l.bool? "followauth"
    let newauth := (l.bool? "newauth").getD false
    let infostatus ← l.nat? "infostatus"
    let maxlife ← l.int? "maxlife"
    let pk ← procs.mapM fun s => do let (a, b) := splitColon s; pure (← pidOf a, ← kindOf b)
    let kinds : Pid → Kind := fun p => ((pk.find? (·.1 == p)).map (·.2)).getD .info
    let crashed := crashIdx ≥ 0
    -- (tie H) replay the executed trace in the model, step by step
    let diffs : List String :=
      if store != "redis" || crashed then [] else
      let (sEnd, ds) := trace.foldl (fun (acc : St × List String) (e : String) =>
        let (pidS, label) := splitColon e
        match pidOf pidS with
        | none => (acc.1, acc.2 ++ [s!"unknown pid in trace: {e}"])
        | some p =>
          if label == "REPLY" then acc else      -- delivery of a reply whose read the store executed at the earlier "GET session" step
          let (s', lab) := step acc.1 p
          (s', if lab == label then acc.2 else acc.2 ++ [s!"step of {pidS}: impl '{label}' model '{lab}'"])) (init kinds 0, [])
      let ds := ds.take 3
      let stOf := fun (pidS : String) => (statuses.find? (·.startsWith (pidS ++ "="))).map fun s => (s.drop 2).toString
      ds ++ cmp "session exists at the end" exists_ sEnd.sess.isSome ++
        (match sEnd.sess with
          | some v => if v.owner = 0 then cmp "stored access token" atn s!"at{v.gen}" ++ cmp "stored refresh token" rtn s!"rt{v.gen}"
                      else cmp "stored value readable with the old cookie" atn "undecryptable"
          | none => []) ++
        cmp "old cookie still authenticated" followauth (mine sEnd.sess).isSome ++
        cmp "new login's cookie authenticated" newauth (match sEnd.sess with | some v => v.owner != 0 | none => false) ++
        cmp "presented refresh tokens" (presented.map fun s => (s.splitOn "/").headD "") (sEnd.presented.map fun g => s!"rt{g}") ++
        cmp "lock left" lockafter sEnd.lock.isSome ++
        -- what each proxied request handed to the upstream (C07: the previous or the new token, never anything else) - as a multiset
        (let modelUp := (pk.filter fun (q, k) => k == .proxy && (sEnd.procs q).pc == .done && (sEnd.procs q).status == 200).map fun (q, _) =>
            match (sEnd.procs q).served with | some g => s!"at{g}" | none => "-"
         cmp "tokens handed to the upstream" (uptokens.mergeSort (· ≤ ·)) (modelUp.mergeSort (· ≤ ·))) ++
        (pk.foldl (fun acc (p, _) =>
          let name := match p with | 0 => "A" | 1 => "B" | 2 => "C" | _ => "D"
          acc ++ (if (sEnd.procs p).pc == .done then cmp s!"status of {name}" (stOf name) (some (toString (sEnd.procs p).status)) else [s!"process {name} not finished in the model"])) [])
    -- Spec on the observations
    let succ := fun (s : String) =>
      procs.any fun pr => let (a, k) := splitColon pr
        (k == "logoutlocal" && s == a ++ "=204") || (k == "logout" && s == a ++ "=302") || (k == "frontchannel" && s == a ++ "=200")
    let logoutOk := statuses.any succ
    -- a request that STARTED after a logout had answered success and was nevertheless served as authenticated
    let idxOf := fun (e : String) => (trace.zipIdx.find? (fun x => x.1 == e || x.1.startsWith (e ++ " "))).map (·.2)   -- "C:START" also as "C:START (blocked)"
    let logoutDoneAt : Option Nat := (procs.filterMap fun pr =>
      let (a, k) := splitColon pr
      if (k == "logoutlocal" || k == "logout" || k == "frontchannel") && statuses.any (fun s => s.startsWith (a ++ "=") && succ s) then idxOf (a ++ ":DEL session") else none).head?
    let lateStarters := procs.filter fun pr =>
      let (a, k) := splitColon pr
      let bk := baseKind k
      (bk == "info" || bk == "refresh") && statuses.contains (a ++ "=200") &&
        (match logoutDoneAt, idxOf (a ++ ":START") with | some d, some st => st > d | _, _ => false)
    let names := presented.filterMap fun s => match s.splitOn "/" with | [n, o] => if o == "fault" then none else some n | _ => none
    let dup := names.length != names.eraseDups.length
    let genOf := fun (s : String) => (s.drop 2).toString
    let viol : List (String × String) :=
      (if logoutOk && exists_ && (atn != "undecryptable" || !(procs.any fun pr => (splitColon pr).2 == "relogin")) then [("C05.recreated_after_del", s!"a logout answered success but the session's entry exists at the end (ttl {ttl})")] else []) ++
      (if logoutOk && followauth then [("C05.authenticated_after_logout", "the old cookie is authenticated after a successful logout")] else []) ++
      (if !crashed && !lateStarters.isEmpty then [("C05.authenticated_after_logout", s!"{lateStarters} started after the logout had answered success and was answered 200")] else []) ++
      (if !crashed && dup then [("C07.token_presented_twice." ++ store, s!"presented {presented}")] else []) ++
      (if !crashed && maxinflight > 1 then [("C07.concurrent_grants." ++ store, s!"{maxinflight} refresh grants in flight at once")] else []) ++
      (if !crashed && (presented.filter fun s => s.endsWith "/ok").length > 1 then
         [("C07.grants_within_cooldown." ++ store, s!"more than one successful refresh grant within one schedule: {presented}"),
          ("C08.during_cooldown", s!"a refresh grant was performed while the cooldown of the previous one was running: {presented}")] else []) ++
      (if exists_ && store == "redis" && atn != "undecryptable" && genOf atn != genOf rtn then [("C07.pair_split", s!"stored {atn} with {rtn}")] else []) ++
      -- every concurrent request is served with the previous (at0) or the new token (at1, which exists only if the provider granted a refresh in this schedule)
      (if !crashed && store == "redis" && !(uptokens.all fun t => t == "-" || t == "at0" || (t == "at1" && presented.any (·.endsWith "/ok"))) then
         [("C07.served_other_token", s!"upstream saw {uptokens}; provider log {presented}")] else []) ++
      (if exists_ && store == "redis" && ttl ≤ 0 then [("C10.no_ttl.session", "session entry without expiry at the end of the schedule")] else []) ++
      (if exists_ && ttl > maxlife then [("C10.ttl_beyond_lifetime", s!"ttl {ttl}")] else []) ++
      (if lockafter then [("C10.lock_leak", if crashed then "lock entry still present after the lease" else "lock entry left behind although every refresh finished")] else []) ++
      (if crashed && !(infostatus == 200 || infostatus == 401) then [("C10.unusable_after_crash", s!"session endpoint answered {infostatus} after crash + lease")] else [])
    pure (verdictsOf diffs viol)
  r.getD [Verdict.bad "sched"]

end Ww.Driver
