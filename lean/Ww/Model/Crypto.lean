import Ww.Model.Sys
/-!
# Symbolic model of the encryption layer (C09)

Anchors: internal/crypto/crypter.go (XChaCha20-Poly1305, random 24-byte nonce prepended), pkg/cookie/cookie.go (base64url of the ciphertext),
pkg/session/ticket.go (ticket = {session key, data key} sealed under the DEPLOYMENT key), pkg/session/data.go (session data sealed under the
ticket's DATA key), pkg/session/session_reader.go (decrypt failures → invalid session).

Dolev–Yao style: a `Blob` is either a ciphertext term — which records the key, the nonce and the plaintext it was made from — or bytes that are not a
ciphertext of any key (H-AEAD: whatever authenticates under a key was produced under that key). Cryptographic strength is an assumption; what is
modelled and proved is the protocol-level use: what is encrypted, under which key, framing, and fail-closed handling.
-/
namespace Ww.Model

abbrev KeyId := Nat

inductive Plain where
  | ticket (sessionKey : String) (dek : KeyId)
  | sessionData (accessToken refreshToken idToken : String)
  | loginCookie (state verifier nonce : String)
  | logoutCookie (state : String)
  deriving Repr, DecidableEq

inductive Blob where
  | sealed (key : KeyId) (nonce : Nat) (p : Plain)      -- Seal(nonce, nonce, plaintext) under key
  | junk (id : Nat)                                       -- anything else: flipped, truncated, extended, random
  deriving Repr, DecidableEq

def enc (k : KeyId) (nonce : Nat) (p : Plain) : Blob := .sealed k nonce p

/-- crypter.Decrypt -/
def dec (k : KeyId) : Blob → Option Plain
  | .sealed k' _ p => if k' = k then some p else none
  | .junk _ => none

/-- secret strings an observer WITHOUT any key can read off a blob (H-AEAD confidentiality: nothing from a ciphertext) -/
def visible : Blob → List String
  | .sealed _ _ _ => []
  | .junk _ => []

/-- what the cookie and the store entry of a session are -/
def sessionCookie (deployKey : KeyId) (n : Nat) (sessionKey : String) (dek : KeyId) : Blob := enc deployKey n (.ticket sessionKey dek)
def storeValue (dek : KeyId) (n : Nat) (a r i : String) : Blob := enc dek n (.sessionData a r i)

/-- session_reader.go: cookie → ticket → store value → data; classification as in `Ww.Model.Sys` -/
def cookieState (deployKey : KeyId) (cookie : Option Blob) : CookieSt × Option (String × KeyId) :=
  match cookie with
  | none => (.none, none)
  | some b =>
    match dec deployKey b with
    | some (.ticket sk dek) => (.valid, some (sk, dek))
    | _ => (.undecryptable, none)          -- another cookie type's plaintext decodes to a ticket without key and data key: no session either

def readStore (dek : KeyId) (v : Option Blob) : Option (Option (String × String × String)) :=   -- none = absent, some none = undecryptable
  match v with
  | none => none
  | some b => match dec dek b with
    | some (.sessionData a r i) => some (some (a, r, i))
    | _ => some none

/-- crypter.go framing: nonce ‖ sealed, and the minimum length check -/
def frame (nonce sealed : List Nat) : List Nat := nonce ++ sealed
def unframe (nonceSize : Nat) (c : List Nat) : Option (List Nat × List Nat) :=
  if c.length < nonceSize then none else some (c.take nonceSize, c.drop nonceSize)

end Ww.Model
