/-!
# Paths as segment lists; Go's `path.Clean` for rooted paths

Segments are the primary representation (`List (List Char)`); strings are split on '/' and joined back.
-/
namespace Ww.Model

abbrev Seg := List Char

/-- strings.Split(s, "/") -/
def splitSlash : List Char → List Seg
  | [] => [[]]
  | c :: cs =>
    match splitSlash cs with
    | [] => [[]]                      -- unreachable: splitSlash never returns []
    | s :: ss => if c = '/' then [] :: s :: ss else (c :: s) :: ss

def joinSlash : List Seg → List Char
  | [] => []
  | [s] => s
  | s :: ss => s ++ '/' :: joinSlash ss

def dot : Seg := ['.']
def dotdot : Seg := ['.', '.']

/-- the stack machine of `path.Clean` on a ROOTED path: drop empty and "." segments, ".." pops (at the root: dropped) -/
def cleanSegs (acc : List Seg) : List Seg → List Seg
  | [] => acc.reverse
  | s :: rest =>
    if s = [] ∨ s = dot then cleanSegs acc rest
    else if s = dotdot then cleanSegs acc.tail rest
    else cleanSegs (s :: acc) rest

/-- `path.Clean("/" ++ p)` as segments (no leading empty segment); [] stands for "/" -/
def cleanRooted (p : List Char) : List Seg := cleanSegs [] (splitSlash p)

/-- the cleaned path as a string: "/" ++ a/b/c -/
def cleanRootedStr (p : List Char) : List Char := '/' :: joinSlash (cleanRooted p)

def isDotSeg (s : Seg) : Bool := s = [] || s = dot || s = dotdot

theorem cleanSegs_mem (acc segs : List Seg) (s : Seg) (h : s ∈ cleanSegs acc segs) : s ∈ acc ∨ s ∈ segs := by
  induction segs generalizing acc with
  | nil => simp [cleanSegs] at h; exact Or.inl h
  | cons x rest ih =>
    unfold cleanSegs at h
    split at h
    · rcases ih acc h with h1 | h1
      · exact Or.inl h1
      · exact Or.inr (List.mem_cons_of_mem _ h1)
    · split at h
      · rcases ih acc.tail h with h1 | h1
        · exact Or.inl (List.mem_of_mem_tail h1)
        · exact Or.inr (List.mem_cons_of_mem _ h1)
      · rcases ih (x :: acc) h with h1 | h1
        · rcases List.mem_cons.mp h1 with h2 | h2
          · exact Or.inr (by rw [h2]; exact List.mem_cons_self)
          · exact Or.inl h2
        · exact Or.inr (List.mem_cons_of_mem _ h1)

/-- a cleaned path contains no empty, "." or ".." segment -/
theorem cleanSegs_nodot (acc segs : List Seg) (hacc : ∀ s ∈ acc, isDotSeg s = false) :
    ∀ s ∈ cleanSegs acc segs, isDotSeg s = false := by
  induction segs generalizing acc with
  | nil => intro s hs; simp [cleanSegs] at hs; exact hacc s hs
  | cons x rest ih =>
    unfold cleanSegs
    split
    · exact ih acc hacc
    · split
      · exact ih acc.tail (fun s hs => hacc s (List.mem_of_mem_tail hs))
      · rename_i h1 h2
        apply ih (x :: acc)
        intro s hs
        rcases List.mem_cons.mp hs with h | h
        · subst h
          simp [isDotSeg]
          simp at h1
          exact ⟨⟨h1.1, h1.2⟩, h2⟩
        · exact hacc s h

theorem cleanRooted_nodot (p : List Char) : ∀ s ∈ cleanRooted p, isDotSeg s = false :=
  cleanSegs_nodot [] _ (by intro s hs; cases hs)

/-- all suffixes of a list, longest first -/
def suffixes : List α → List (List α)
  | [] => [[]]
  | a :: as => (a :: as) :: suffixes as

theorem mem_suffixes {α} (s l : List α) : s ∈ suffixes l ↔ ∃ pre, pre ++ s = l := by
  induction l with
  | nil =>
    simp [suffixes]
  | cons a as ih =>
    simp only [suffixes, List.mem_cons, ih]
    constructor
    · rintro (h | ⟨pre, h⟩)
      · exact ⟨[], by simp [h]⟩
      · exact ⟨a :: pre, by simp [h]⟩
    · rintro ⟨pre, h⟩
      cases pre with
      | nil => left; simpa using h
      | cons b pre => right; simp at h; exact ⟨pre, h.2⟩

end Ww.Model
