/-!
# Small-step interleaving model of concurrent requests on ONE session

Anchors: pkg/session/session_manager.go (Refresh, GetOrRefresh, update, Delete*), pkg/session/store_redis.go (Read, Update = SET … XX KEEPTTL,
Delete), pkg/session/lock.go + bsm/redislock (obtain = SET NX PX, release = delete-if-token-matches), pkg/handler/handler.go (logout variants).

One transition = one store command, one lock script or one provider call of ONE process — exactly the scheduling points of the harness
executor. Any number of processes, any schedule. The clock does not move inside a schedule except through `advance` (lock lease expiry);
a token pair refreshed inside the schedule is therefore on cooldown for the rest of it (`fresh`).
-/
namespace Ww.Model.Sched

abbrev Pid := Nat

inductive Kind where
  | refresh        -- POST /oauth2/session/refresh
  | proxy          -- proxied request with automatic refresh due
  | info           -- GET /oauth2/session (read only)
  | logoutLocal
  | logout
  | frontchannel   -- front-channel logout for this session's sid
  | relogin        -- callback of a NEW login whose session lands on the same store key (the provider re-uses the sid, e.g. after a local logout)
  deriving Repr, DecidableEq

inductive PC where
  | start | get | lock | reread | idp | update | unlock | del | done
  | code | write   -- relogin: redeem the authorization code; write the new session (SET … EX)
  deriving Repr, DecidableEq

structure Sess where
  gen : Nat          -- generation of the (access, refresh) token pair stored
  fresh : Bool       -- refreshed during this schedule: the cooldown is running
  hasTtl : Bool      -- the key carries an expiry
  owner : Nat := 0   -- 0 = the session whose cookie every non-relogin process presents; ≠ 0 = a newer login's session under the same key
                     -- (sealed with another data key: unreadable with the old cookie, session_reader.go:getForTicket → ErrInvalid)
  deriving Repr, DecidableEq

structure Proc where
  kind : Kind
  pc : PC := .start
  rt : Nat := 0           -- generation of the refresh token read under the lock
  newGen : Nat := 0       -- generation granted by the provider, to be written
  status : Nat := 0       -- HTTP status once done
  seen : Option Nat := none    -- generation of the session as first read (before the lock): what GetOrRefresh falls back to when the refresh fails softly
  served : Option Nat := none  -- proxied request: generation of the access token the upstream was given (none = forwarded without a token / not a proxied request)
  deriving Repr, DecidableEq

structure St where
  sess : Option Sess
  lock : Option Pid
  idpCur : Nat               -- generation of the refresh token the provider currently honours
  presented : List Nat       -- refresh-token generations presented to the provider, oldest first
  procs : Pid → Proc
  base : Nat := 0            -- generation of the token pair at the start of the schedule (constant)
  createLocks : Bool := true -- session_manager.go:Create takes the per-key lock around its write (false = the tree before fix 078aa22, kept for the witness)

/-- what a holder of the OLD cookie can read: the entry, if it is still its own session -/
def mine : Option Sess → Option Sess
  | some v => if v.owner = 0 then some v else none
  | none => none

theorem mine_some {se : Option Sess} {v : Sess} (h : mine se = some v) : se = some v ∧ v.owner = 0 := by
  unfold mine at h
  split at h
  · split at h <;> simp_all
  · simp at h

def setProc (s : St) (p : Pid) (x : Proc) : St := { s with procs := fun q => if q = p then x else s.procs q }

@[simp] theorem setProc_same (s : St) (p : Pid) (x : Proc) : (setProc s p x).procs p = x := by simp [setProc]
@[simp] theorem setProc_other (s : St) (p q : Pid) (x : Proc) (h : q ≠ p) : (setProc s p x).procs q = s.procs q := by simp [setProc, h]
@[simp] theorem setProc_sess (s : St) (p : Pid) (x : Proc) : (setProc s p x).sess = s.sess := rfl
@[simp] theorem setProc_lock (s : St) (p : Pid) (x : Proc) : (setProc s p x).lock = s.lock := rfl
@[simp] theorem setProc_idpCur (s : St) (p : Pid) (x : Proc) : (setProc s p x).idpCur = s.idpCur := rfl
@[simp] theorem setProc_presented (s : St) (p : Pid) (x : Proc) : (setProc s p x).presented = s.presented := rfl
@[simp] theorem setProc_createLocks (s : St) (p : Pid) (x : Proc) : (setProc s p x).createLocks = s.createLocks := rfl
@[simp] theorem setProc_base (s : St) (p : Pid) (x : Proc) : (setProc s p x).base = s.base := rfl

/-- token handed to the upstream by a proxied request that finishes at the first read: the stored one when no refresh is due (cooldown running) -/
def servedAtGet (k : Kind) (se : Option Sess) : Option Nat :=
  match k, se with
  | .proxy, some v => if v.fresh then some v.gen else none
  | _, _ => none

/-- holding (or about to release) the refresh lock -/
def inCrit : PC → Bool
  | .reread | .idp | .update | .unlock | .write => true
  | _ => false

/-- first command of each kind of request -/
def startNext : Kind → PC
  | .frontchannel => .del
  | .relogin => .code
  | _ => .get

/-- after the first read: (next pc, status if finished) -/
def getNext (k : Kind) (se : Option Sess) : PC × Nat :=
  match k, se with
  | .info, some _ => (.done, 200)
  | .info, none => (.done, 401)
  | .logoutLocal, some _ => (.del, 204)
  | .logoutLocal, none => (.done, 204)
  | .logout, some _ => (.del, 302)
  | .logout, none => (.done, 302)
  | .frontchannel, _ => (.del, 0)
  | .relogin, _ => (.done, 0)                                               -- (a relogin never reads)
  | .refresh, none => (.done, 401)
  | .proxy, none => (.done, 200)
  | .refresh, some v => if v.fresh then (.done, 200) else (.lock, 0)      -- on cooldown: nothing to refresh
  | .proxy, some v => if v.fresh then (.done, 200) else (.lock, 0)

/-- one step of process `p`; returns the new state and the label of the command issued ("" = nothing to do) -/
def step (s : St) (p : Pid) : St × String :=
  let x := s.procs p
  match x.pc with
  | .start => (setProc s p { x with pc := startNext x.kind }, "START")
  | .get =>
    let n := getNext x.kind (mine s.sess)
    (setProc s p { x with pc := n.1, status := n.2, seen := (mine s.sess).map (fun v => v.gen), served := servedAtGet x.kind (mine s.sess) }, "GET session")
  | .code => (setProc s p { x with pc := if s.createLocks then .lock else .write }, "IDP authorization_code")
  | .lock =>
    match s.lock with
    | none => ({ setProc s p { x with pc := if x.kind = .relogin then .write else .reread } with lock := some p }, "LOCK")
    | some _ => (s, "LOCK")                                                                       -- not obtained: poll again
  | .write =>   -- Create: SET key value EX lifetime — replaces whatever is there; the new session has its own data key
    ({ setProc s p { x with pc := if s.createLocks then .unlock else .done, status := 302 } with sess := some { gen := 0, fresh := false, hasTtl := true, owner := p + 1 } },
      "SET-EX session")
  | .reread =>
    match mine s.sess with
    | none =>   -- gone meanwhile (ErrNotFound): the refresh fails softly and a proxied request falls back to the session it read first; replaced by a new login's
                -- session (undecryptable with this cookie's key: ErrInvalid): the request goes on WITHOUT a token
      (setProc s p { x with pc := .unlock, status := if x.kind = .proxy then 200 else 401,
                            served := if x.kind = .proxy && s.sess.isNone then x.seen else none }, "GET session")
    | some v =>
      if v.fresh then (setProc s p { x with pc := .unlock, status := 200, served := if x.kind = .proxy then some v.gen else none }, "GET session")      -- already refreshed by someone else
      else (setProc s p { x with pc := .idp, rt := v.gen }, "GET session")
  | .idp =>
    let s' := { s with presented := s.presented ++ [x.rt] }
    if x.rt = s.idpCur then ({ setProc s' p { x with pc := .update, newGen := x.rt + 1 } with idpCur := x.rt + 1 }, "IDP refresh_token")
    else (setProc s' p { x with pc := .unlock, status := 401 }, "IDP refresh_token")          -- rejected: invalid at the provider
  | .update =>
    match s.sess with
    | some v =>   -- SET XX: succeeds on ANY existing value, and what it writes is the old session sealed with the old data key
      ({ setProc s p { x with pc := .unlock, status := 200, served := if x.kind = .proxy then some x.newGen else none } with
          sess := some { v with gen := x.newGen, fresh := true, owner := 0 } }, "SETXX-KEEPTTL session")
    | none =>   -- update only if present; a proxied request falls back to the session it read first (GetOrRefresh: "falling back to existing tokens")
      (setProc s p { x with pc := .unlock, status := if x.kind = .proxy then 200 else 401, served := if x.kind = .proxy then x.seen else none }, "SETXX-KEEPTTL session")
  | .unlock =>
    ({ setProc s p { x with pc := .done } with lock := if s.lock = some p then none else s.lock }, "UNLOCK")
  | .del =>
    ({ setProc s p { x with pc := .done, status := if x.kind = .frontchannel then 200 else x.status } with sess := none }, "DEL session")
  | .done => (s, "")

/-- a process dies: it issues nothing more (its lock entry stays until the lease runs out) -/
def crash (s : St) (p : Pid) : St := setProc s p { s.procs p with pc := .done, status := 0 }

/-- the lock lease passes: a lock entry expires. Only taken when no LIVE process is inside the critical section (the property's proviso:
    a refresh completes within the lease) -/
def leaseExpires (s : St) : St := { s with lock := none }

inductive Ev where
  | run (p : Pid)
  | crash (p : Pid)
  deriving Repr, DecidableEq

def apply (s : St) : Ev → St
  | .run p => (step s p).1
  | .crash p => crash s p

def runAll (s : St) (evs : List Ev) : St := evs.foldl apply s

/-- initial state: a session of generation g0 with an expiry, nobody holds the lock, every process about to start -/
def init (kinds : Pid → Kind) (g0 : Nat) : St :=
  { sess := some { gen := g0, fresh := false, hasTtl := true }, lock := none, idpCur := g0, presented := [], procs := fun p => { kind := kinds p }, base := g0 }

end Ww.Model.Sched
