import Ww.Model.Url
import Ww.Model.Path
/-!
# Redirect validation and canonicalisation (pkg/url) and net/http's rewriting of the Location

Anchors: pkg/url/validator.go (RelativeValidator, AbsoluteValidator, isValidAbsolutePath, isAllowedDomain, the regular expression),
pkg/url/redirect.go (Canonical / Clean of the three runtime modes, clean, fallback), net/http server.go (Redirect), http.go (hexEscapeNonASCII).
-/
namespace Ww.Model.Redirect
open Ww.Model.Url

def isSep (c : Char) : Bool := c = '/' || c = '\\'
/-- Go regexp `[\s\v]`: \t \n \f \r space and \v -/
def isWs (c : Char) : Bool := c = '\t' || c = '\n' || c = '\x0c' || c = '\r' || c = ' ' || c = '\x0b'

def headSep : Str → Bool
  | c :: _ => isSep c
  | [] => false

/-- does `[/\\](?:[\s\v]*|\.{1,2})[/\\]` match at the very beginning of the string? -/
def regexHere : Str → Bool
  | c :: rest => isSep c && (headSep (rest.dropWhile isWs) ||
      (match rest with | '.' :: r => headSep r || (match r with | '.' :: r2 => headSep r2 | _ => false) | _ => false))
  | [] => false

/-- `invalidRedirectRegex.MatchString` -/
def invalidRegex : Str → Bool
  | [] => false
  | c :: rest => regexHere (c :: rest) || invalidRegex rest

/-- validator.go: isValidAbsolutePath -/
def isValidAbsolutePath (s : Str) : Bool := startsWith ['/'] s && !startsWith ['/', '/'] s && !invalidRegex s

def isRelativeURL (u : URL) : Bool := u.scheme = [] && u.host = []
def isValidScheme (u : URL) : Bool := u.scheme = "http".toList || u.scheme = "https".toList

/-- validator.go: RelativeValidator.IsValidRedirect -/
def relValid (redirect : Str) : Bool :=
  redirect ≠ [] &&
  match parseRequestURI redirect with
  | none => false
  | some u => isRelativeURL u && isValidAbsolutePath (toStr u)

/-- validator.go: isAllowedDomain -/
def isAllowedDomain (host : Str) (allowed : Str) : Bool :=
  allowed ≠ [] && (host = allowed || hostname host = allowed || endsWith (if startsWith ['.'] allowed then allowed else '.' :: allowed) host)

/-- validator.go: isAllowedHost -/
def isAllowedHost (u : URL) (allowedDomains : List Str) : Bool :=
  u.host ≠ [] && hostname u.host ≠ [] && allowedDomains.any (isAllowedDomain u.host)

/-- validator.go: AbsoluteValidator.IsValidRedirect -/
def absValid (allowedDomains : List Str) (redirect : Str) : Bool :=
  redirect ≠ [] &&
  match parseRequestURI redirect with
  | none => false
  | some u => !isRelativeURL u && isValidScheme u && isAllowedHost u allowedDomains

/-- redirect.go: clean -/
def clean (valid : Str → Bool) (target : Str) (fallback : URL) : Str := if valid target then target else toStr fallback

/-- url.go: MatchingPath — the matched ingress path, "/" when empty -/
def matchingPath (ingressPath : Str) : URL := { path := if ingressPath = [] then ['/'] else ingressPath }

/-- redirect.go: StandaloneRedirect.Canonical on the value of the `redirect` query parameter -/
def standaloneCanonical (ingressPath target : Str) : Str :=
  let redirect := match parseURL target with | some u => u | none => matchingPath ingressPath
  clean relValid (toStr { redirect with scheme := [], host := [] }) (matchingPath ingressPath)

def standaloneClean (ingressPath target : Str) : Str := clean relValid target (matchingPath ingressPath)

/-- redirect.go: SSOServerRedirect.Canonical -/
def ssoServerCanonical (domain : Str) (fallback : URL) (target : Str) : Str :=
  let redirect := match parseURL target with | some u => u | none => fallback
  clean (absValid [domain]) (toStr redirect) fallback

def ssoServerClean (domain : Str) (fallback : URL) (target : Str) : Str := clean (absValid [domain]) target fallback

/-- redirect.go: SSOProxyRedirect.Canonical; `ingress` = URL of the matching ingress (or of the single configured one) -/
def ssoProxyCanonical (hosts : List Str) (ingress fallback : URL) (target : Str) : Str :=
  let redirect := match parseURL target with
    | some p => { ingress with path := p.path, rawQuery := p.rawQuery, fragment := p.fragment }
    | none => ingress
  clean (absValid hosts) (toStr redirect) fallback

/-- http.go: hexEscapeNonASCII -/
def lowerhex (n : Nat) : Char := if n < 10 then Char.ofNat ('0'.toNat + n) else Char.ofNat ('a'.toNat + (n - 10))
def hexEscapeNonASCII (s : Str) : Str :=
  s.flatMap fun c => if c.toNat ≥ 128 then ['%', lowerhex (c.toNat / 16 % 16), lowerhex (c.toNat % 16)] else [c]

/-- path.Split: everything up to and including the last '/' -/
def dirOf (p : Str) : Str := match cutLast '/' p with | some (d, _) => d ++ ['/'] | none => []

/-- the rewriting of a relative target: split off the query, path.Clean, keep a trailing slash; `url` starts with '/' -/
def rewriteRooted (url : Str) : Str :=
  let c := cut '?' url
  let p := c.1
  let query := if c.2.2 then '?' :: c.2.1 else []
  let cleaned := cleanRootedStr (p.drop 1)
  (if endsWith ['/'] p ∧ !endsWith ['/'] cleaned then cleaned ++ ['/'] else cleaned) ++ query

/-- server.go: Redirect — the Location header it sets, for a request whose URL path is `reqPath` (rooted) -/
def httpRedirect (reqPath url : Str) : Str :=
  match parseURL url with
  | some u =>
    if u.scheme = [] ∧ u.host = [] then
      let oldpath := if reqPath = [] then ['/'] else reqPath
      let url1 := if url.head? ≠ some '/' then dirOf oldpath ++ url else url
      hexEscapeNonASCII (rewriteRooted url1)
    else hexEscapeNonASCII url
  | none => hexEscapeNonASCII url

end Ww.Model.Redirect
