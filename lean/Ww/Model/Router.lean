import Ww.Gen.Routes
/-!
# chi routing over the REGENERATED route table, the non-navigation guard, and the CORS origin rule

Anchors: pkg/router/router.go (table: `Ww.Gen.Routes`), go-chi/chi v5 mount/static-route semantics (modelled, tied differentially
against the real `router.New`), internal/http/{request,middleware}.go, pkg/middleware/cors.go + rs/cors wildcard matching.
-/
namespace Ww.Model
open Ww.Gen.Routes

structure RCfg where
  ssoServer : Bool
  otel : Bool
  idporten : Bool
  deriving Repr, DecidableEq

/-- the guards that occur in router.go; an unknown guard makes the table unsupported (checked by `decide` in the proofs) -/
def condHolds (c : RCfg) : String → Option Bool
  | "" => some true
  | "cfg.SSO.IsServer()" => some c.ssoServer
  | "!(cfg.SSO.IsServer())" => some (!c.ssoServer)
  | "cfg.OpenTelemetry.Enabled" => some c.otel
  | "cfg.OpenID.Provider != config.ProviderIDPorten" => some (!c.idporten)
  | _ => none

def _root_.Ww.Gen.Routes.Entry.active (c : RCfg) (e : Entry) : Bool := e.conds.all fun s => condHolds c s == some true
def _root_.Ww.Gen.Routes.Entry.activeMws (c : RCfg) (e : Entry) : List String := e.mws.filterMap fun (g, m) => if condHolds c g == some true then some m else none

inductive Outcome where
  | handler (name : String) (mws : List String)
  | notFound (mws : List String)
  | methodNotAllowed (mws : List String)
  | wildcard
  deriving Repr, DecidableEq

def strStartsWith (s p : String) : Bool := p.toList.isPrefixOf s.toList

/-- the request-target path lies in the subtree rooted at `m`: equal to it, or below it (split on literal '/') -/
def underSubtree (m path : String) : Bool := path == m || strStartsWith path (m ++ "/")

def instMount (pfx : String) (m : String) : String := m.replace "<prefix>" pfx

/-- full path pattern of an entry for a given ingress prefix; a sub-router's "/" pattern stands for the mount point itself -/
def _root_.Ww.Gen.Routes.Entry.fullPaths (pfx : String) (e : Entry) : List String :=
  let base := String.join (e.mount.map (instMount pfx))
  if e.pattern == "/" && !e.mount.isEmpty then [base, base ++ "/"] else [base ++ e.pattern]

/-- the innermost sub-router whose mount contains the path (for the middleware stack of 404/405 answers) -/
def mountFor (c : RCfg) (pfx path : String) : Option Entry :=
  (mounts.filter fun m => m.active c && underSubtree (String.join (m.mount.map (instMount pfx))) path).getLast?

def routeIn (c : RCfg) (pfx method path : String) : Outcome :=
  let cands := table.filter fun e => e.active c && !e.mount.isEmpty && (e.fullPaths pfx).contains path
  match cands.find? fun e => e.method == method || e.method == "ANY" with
  | some e => .handler e.handler (e.activeMws c)
  | none =>
    let mws := match mountFor c pfx path with | some m => m.activeMws c | none => []
    if cands.isEmpty then .notFound mws else .methodNotAllowed mws

/-- chi: the mounted sub-router owns its whole subtree; everything else goes to top-level routes, last the catch-all -/
def standardMethods : List String := ["GET", "HEAD", "POST", "PUT", "PATCH", "DELETE", "CONNECT", "OPTIONS", "TRACE"]

def route (c : RCfg) (prefixes : List String) (method path : String) : Outcome :=
  -- chi answers methods it does not know with its top-level 405 before any routing (no group middleware involved)
  if !standardMethods.contains method then .methodNotAllowed [] else
  match prefixes.find? fun p => underSubtree (p ++ "/oauth2") path with
  | some p => routeIn c p method path
  | none =>
    let top := table.filter fun e => e.active c && e.mount.isEmpty && e.pattern != "/*" && e.pattern == path
    match top.find? fun e => e.method == method || e.method == "ANY" with
    | some e => .handler e.handler (e.activeMws c)
    | none => .wildcard       -- the catch-all `/*` also matches a path that has a static route for other methods

/-- internal/http: IsNavigationRequest / HasSecFetchMetadata / DisallowNonNavigationalRequests -/
def isNavigation (method mode dest : String) (acceptsHtml : Bool) : Bool :=
  if method != "GET" then false
  else if mode == "" && dest == "" then acceptsHtml
  else mode == "navigate" && dest == "document"

def hasSecFetchMetadata (mode dest : String) : Bool := mode != "" && dest != ""

def trimSp (s : List Char) : List Char := ((s.dropWhile Char.isWhitespace).reverse.dropWhile Char.isWhitespace).reverse

/-- internal/http/request.go:Accepts for ONE Accept header line: some comma-separated element, lower-cased, trimmed and cut at its first `;`, equals the wanted media type.
    (A wildcard such as `*/*` or `text/*` is NOT an acceptance of text/html: only browsers' explicit `text/html` marks a navigation.) -/
def acceptsMedia (accept : String) (want : String) : Bool :=
  (accept.splitOn ",").any fun v =>
    let v := String.ofList (trimSp v.toLower.toList)
    ((v.splitOn ";").headD "") == want

/-- true = the guard answers 401 itself -/
def nonNavBlocked (method mode dest : String) (acceptsHtml : Bool) : Bool :=
  hasSecFetchMetadata mode dest && !isNavigation method mode dest acceptsHtml

/-- pkg/middleware/cors.go + rs/cors: lower-cased origin equals `https://dom` or matches the wildcard `https://*.dom` -/
def trimLeadingDot (d : List Char) : List Char := match d with | '.' :: r => r | _ => d

def lower (s : List Char) : List Char := s.map Char.toLower

def corsAllows (ssoDomain origin : List Char) : Bool :=
  let dom := lower (trimLeadingDot ssoDomain)
  let o := lower origin
  let pre := "https://".toList
  let suf := '.' :: dom
  o == pre ++ dom || (decide (o.length ≥ pre.length + suf.length) && pre.isPrefixOf o && suf.isSuffixOf o)

end Ww.Model
