import Ww.Gen.Meta
/-!
# Big-step model of the session manager and the session-bearing handlers

Anchors: pkg/session/{session_reader,session_manager,session,ticket}.go, pkg/handler/{handler,reverseproxy}.go,
pkg/handler/acr, pkg/openid/acr, pkg/config/config.go:AutoRefreshDisabled.

All time predicates are the functions REGENERATED from pkg/session/data.go (`Ww.Gen`). The model is sequential:
one request at a time (interleavings are `Ww.Model.Sched`). Tokens are abstract strings; the provider's answer to a
refresh grant is an input (`IdpPlan`). Every definition is executable: the Go harness reports, for every step of every
history, the pre-state it read from the store, and `Driver/Sys.lean` compares the implementation's answer with these
functions.
-/
namespace Ww.Model
open Ww.Gen

inductive Mode where
  | standalone | ssoServer | ssoProxy
  deriving Repr, DecidableEq

structure Cfg where
  mode : Mode := .standalone
  forwardAuth : Bool := false
  inactivity : Int := 0          -- 0 = disabled, else the timeout in ns
  maxLifetime : Int := 3600000000000
  acr : String := ""             -- configured acr_values ("" = no requirement)
  includeIdToken : Bool := false
  autoLogin : Bool := false
  deriving Repr

def Cfg.ssoEnabled (c : Cfg) : Bool := c.mode != .standalone
/-- pkg/config/config.go:AutoRefreshDisabled -/
def Cfg.autoRefreshDisabled (c : Cfg) : Bool := c.ssoEnabled && !c.forwardAuth

/-- what the session cookie presented by the request amounts to -/
inductive CookieSt where
  | none            -- no session cookie
  | valid           -- decrypts under the deployment key to a ticket
  | undecryptable   -- not base64 / not a ciphertext of this deployment
  deriving Repr, DecidableEq

/-- the store entry under the ticket's key, as seen through the ticket's data key -/
inductive StoreSt where
  | absent
  | present (d : Data)
  | undecryptable
  deriving Repr, DecidableEq

inductive SessErr where
  | notFound | invalid | inactive | invalidExternal | other
  deriving Repr, DecidableEq

/-- answer of the identity provider to the refresh grant issued in this step (an input of the model) -/
inductive IdpPlan where
  | ok (expiresIn : Int)     -- 200 with a new access/refresh token pair, expires_in seconds
  | clientErr                -- HTTP 4xx
  | serverErr                -- HTTP 5xx for the whole retry budget
  | broken                   -- unusable answer (non-JSON 200, connection error)
  deriving Repr, DecidableEq

/-- pkg/openid/acr.Validate -/
def acrTranslate (s : String) : String :=
  if s = "Level3" then "idporten-loa-substantial" else if s = "Level4" then "idporten-loa-high" else s

def acrValid (expected actual : String) : Bool :=
  let e := acrTranslate expected
  if e = "idporten-loa-substantial" then actual = "idporten-loa-substantial" || actual = "idporten-loa-high"
  else if e = "idporten-loa-high" then actual = "idporten-loa-high"
  else e = actual

/-- result of Reader.Get: the session may accompany an error (Validate failures return both) -/
structure GetRes where
  err : Option SessErr
  sess : Option Data
  deriving Repr, DecidableEq

def validateErr (d : Data) (now : Int) : Option SessErr :=
  match d.Validate now with
  | [] => none
  | l => if l.contains "ErrInactive" then some .inactive else some .invalid

/-- session_reader.go: Get = getTicket; getForTicket -/
def getSess (ck : CookieSt) (st : StoreSt) (now : Int) : GetRes :=
  match ck with
  | .none => ⟨some .notFound, none⟩
  | .undecryptable => ⟨some .invalid, none⟩
  | .valid =>
    match st with
    | .absent => ⟨some .notFound, none⟩
    | .undecryptable => ⟨some .invalid, none⟩
    | .present d => ⟨validateErr d now, some d⟩

/-- errors.Is(err, ErrInvalid): `inactive` wraps ErrInvalid too -/
def SessErr.isInvalid : SessErr → Bool
  | .invalid | .inactive => true
  | _ => false

/-- session.go -/
def canRefresh (d : Data) (now : Int) : Bool := d.HasRefreshToken now && !d.Metadata.IsRefreshOnCooldown now
def shouldRefresh (d : Data) (now : Int) : Bool := d.Metadata.ShouldRefresh now
def accessToken (d : Data) (now : Int) : Option String := if d.HasActiveAccessToken now then some d.AccessToken else none

structure RefreshRes where
  err : Option SessErr
  sess : Option Data
  store : StoreSt
  contacted : Bool     -- the provider's token endpoint was called
  granted : Bool       -- … and issued a new pair
  deriving Repr, DecidableEq

def applyGrant (cfg : Cfg) (d : Data) (newAt newRt : String) (expiresIn now : Int) : Data :=
  let m := d.Metadata.Refresh expiresIn now
  let m := if cfg.inactivity > 0 then m.WithTimeout cfg.inactivity now else m
  { d with AccessToken := newAt, RefreshToken := newRt, Metadata := m }

/-- session_manager.go: Refresh (sequential: the lock is free, the re-read sees the same store) -/
def refresh (cfg : Cfg) (d : Data) (st : StoreSt) (plan : IdpPlan) (newAt newRt : String) (now : Int) : RefreshRes :=
  if !canRefresh d now then ⟨none, some d, st, false, false⟩
  else
    let r := getSess .valid st now          -- re-read under the lock
    match r.err, r.sess with
    | some e, _ => ⟨some e, none, st, false, false⟩
    | none, none => ⟨some .other, none, st, false, false⟩
    | none, some d2 =>
      if !canRefresh d2 now then ⟨none, some d2, st, false, false⟩
      else match plan with
        | .clientErr => ⟨some .invalidExternal, none, st, true, false⟩
        | .serverErr => ⟨some .other, none, st, true, false⟩
        | .broken => ⟨some .other, none, st, true, false⟩
        | .ok secs =>
          let d' := applyGrant cfg d2 newAt newRt secs now
          ⟨none, some d', .present d', true, true⟩

/-- session_manager.go: GetOrRefresh -/
def getOrRefresh (cfg : Cfg) (ck : CookieSt) (st : StoreSt) (plan : IdpPlan) (newAt newRt : String) (now : Int) : RefreshRes :=
  let g := getSess ck st now
  match g.err, g.sess with
  | some e, _ => ⟨some e, none, st, false, false⟩
  | none, none => ⟨some .other, none, st, false, false⟩
  | none, some d =>
    if !shouldRefresh d now then ⟨none, some d, st, false, false⟩
    else
      let r := refresh cfg d st plan newAt newRt now
      match r.err with
      | none => r
      | some e =>
        if e = .invalidExternal || e.isInvalid then { r with sess := none }
        else { r with err := none, sess := some d }     -- "falling back to existing tokens"

/-- handler.go / handler_sso_proxy.go: GetSession -/
def getSession (cfg : Cfg) (ck : CookieSt) (st : StoreSt) (plan : IdpPlan) (newAt newRt : String) (now : Int) : RefreshRes :=
  if cfg.mode = .ssoProxy || cfg.autoRefreshDisabled then
    let g := getSess ck st now
    match g.err with
    | some e => ⟨some e, none, st, false, false⟩
    | none => ⟨none, g.sess, st, false, false⟩
  else getOrRefresh cfg ck st plan newAt newRt now

structure ProxyObs where
  authenticated : Bool
  forwarded : Bool              -- the upstream saw the request
  upAuth : Option String        -- Authorization written by wonderwall: the access token
  upIdToken : Option String     -- X-Wonderwall-Id-Token written by wonderwall
  store : StoreSt
  contacted : Bool
  granted : Bool
  deriving Repr, DecidableEq

/-- the request is not authenticated: answered by auto-login, or forwarded as-is without any token -/
def proxyUnauth (cfg : Cfg) (ignored : Bool) (g : RefreshRes) : ProxyObs :=
  if cfg.autoLogin && !ignored then ⟨false, false, none, none, g.store, g.contacted, g.granted⟩
  else ⟨false, true, none, none, g.store, g.contacted, g.granted⟩

/-- reverseproxy.go: Handler + getSessionWithValidToken + Rewrite. `ignored` abstracts "path matches an ignore pattern" (C12). -/
def proxy (cfg : Cfg) (ck : CookieSt) (st : StoreSt) (plan : IdpPlan) (newAt newRt : String) (ignored : Bool) (now : Int) : ProxyObs :=
  let g := getSession cfg ck st plan newAt newRt now
  match g.err, g.sess with
  | none, some d =>
    match accessToken d now with
    | some t =>
      if cfg.acr = "" || acrValid cfg.acr d.Acr then
        ⟨true, true, some t, if cfg.includeIdToken then some d.IDToken else none, g.store, g.contacted, g.granted⟩
      else proxyUnauth cfg ignored g
    | none => proxyUnauth cfg ignored g
  | _, _ => proxyUnauth cfg ignored g

/-- HTTP status of the session endpoints -/
def statusOfErr : SessErr → Nat
  | .notFound => 401 | .invalid => 401 | .inactive => 401 | .invalidExternal => 401 | .other => 500

structure EndpointObs where
  status : Nat
  store : StoreSt
  contacted : Bool
  granted : Bool
  body : Option Data       -- the session whose metadata is rendered
  deriving Repr, DecidableEq

/-- handler.go: Session (read-only info; tolerates `inactive`). The SSO proxy forwards these endpoints to the server. -/
def sessionInfo (ck : CookieSt) (st : StoreSt) (now : Int) : EndpointObs :=
  let g := getSess ck st now
  match g.err, g.sess with
  | none, some d => ⟨200, st, false, false, some d⟩
  | some .inactive, some d => ⟨200, st, false, false, some d⟩
  | some e, _ => ⟨statusOfErr e, st, false, false, none⟩
  | none, none => ⟨500, st, false, false, none⟩

/-- handler.go: SessionRefresh (manual refresh) -/
def sessionRefresh (cfg : Cfg) (ck : CookieSt) (st : StoreSt) (plan : IdpPlan) (newAt newRt : String) (now : Int) : EndpointObs :=
  let g := getSess ck st now
  match g.err, g.sess with
  | some e, _ => ⟨statusOfErr e, st, false, false, none⟩
  | none, none => ⟨500, st, false, false, none⟩
  | none, some d =>
    let r := refresh cfg d st plan newAt newRt now
    match r.err with
    | some e => ⟨if e = .invalidExternal || e.isInvalid || e = .notFound then 401 else 500, r.store, r.contacted, r.granted, none⟩
    | none => ⟨200, r.store, r.contacted, r.granted, r.sess⟩

/-- handler.go: SessionForwardAuth -/
def forwardAuth (cfg : Cfg) (ck : CookieSt) (st : StoreSt) (plan : IdpPlan) (newAt newRt : String) (now : Int) : EndpointObs :=
  if !cfg.forwardAuth then ⟨404, st, false, false, none⟩
  else
    let g := getSession cfg ck st plan newAt newRt now
    match g.err with
    | some e => ⟨statusOfErr e, g.store, g.contacted, g.granted, none⟩
    | none => ⟨204, g.store, g.contacted, g.granted, none⟩

/-- handler.go: LogoutLocal / Logout / LogoutFrontChannel on a healthy store: the entry is deleted when the session could be looked up.
    (`keyKnown`: front-channel logout addresses the entry by `sid`, the others through the cookie.) -/
def logoutStore (ck : CookieSt) (st : StoreSt) (now : Int) : StoreSt :=
  match (getSess ck st now).sess with
  | some _ => .absent
  | none => st

/-- a new session as created by the callback (session_manager.go: Create) -/
def createData (cfg : Cfg) (atok rtok idt acr sid : String) (expiresIn now : Int) : Data :=
  let m := NewMetadata expiresIn cfg.maxLifetime now
  let m := if cfg.inactivity > 0 then m.WithTimeout cfg.inactivity now else m
  { ExternalSessionID := sid, AccessToken := atok, IDToken := idt, RefreshToken := rtok, Acr := acr, Metadata := m }

end Ww.Model
