/-!
# The authorization request built by /oauth2/login (C13)

Anchors: pkg/openid/client/login.go (newAuthorizationCodeParams, getAcrParam, getLocaleParam, getPromptParam, authCodeURL),
pkg/openid/oauth2.go (RequestParams, Cookie), pkg/url/url.go (makeCallbackURL), pkg/ingress/ingress.go (MatchingIngress, MatchingPath),
pkg/openid/client/client.go (MakeAssertion).
-/
namespace Ww.Model

structure Ingress where
  scheme : String
  host : String      -- host[:port] exactly as configured
  path : String      -- "" or "/prefix" (no trailing slash)
  deriving Repr, DecidableEq

def Ingress.url (i : Ingress) : String := i.scheme ++ "://" ++ i.host ++ i.path

/-- ingress.MatchingPath: the longest configured non-empty path that is a string prefix of the request path ("" if none) -/
def matchingPath (ings : List Ingress) (reqPath : String) : String :=
  ings.foldl (fun best i => if i.path ≠ "" && reqPath.startsWith i.path && i.path.length > best.length then i.path else best) ""

/-- ingress.MatchingIngress: host equals Host or X-Forwarded-Host, and path equals the matching path -/
def matchingIngress (ings : List Ingress) (host xfh reqPath : String) : Option Ingress :=
  ings.find? fun i => (i.host == host || i.host == xfh) && i.path == matchingPath ings reqPath

structure LoginCfg where
  clientId : String := "client-id"
  acrDefault : String := ""
  localeDefault : String := ""
  acrSupported : List String := []
  localesSupported : List String := []
  par : Bool := false
  deriving Repr

def legacyAcr (s : String) : Option String :=
  if s = "Level3" then some "idporten-loa-substantial" else if s = "Level4" then some "idporten-loa-high" else none

/-- getAcrParam -/
def acrParam (cfg : LoginCfg) (level : String) : String :=
  if cfg.acrDefault = "" then ""
  else
    let v := if level = "" then cfg.acrDefault else level
    if cfg.acrSupported.contains v then v
    else match legacyAcr v with
      | some t => if cfg.acrSupported.contains t then t else cfg.acrDefault
      | none => cfg.acrDefault

/-- getLocaleParam -/
def localeParam (cfg : LoginCfg) (locale : String) : String :=
  if cfg.localeDefault = "" then ""
  else
    let v := if locale = "" then cfg.localeDefault else locale
    if cfg.localesSupported.contains v then v else cfg.localeDefault

/-- getPromptParam -/
def promptParam (prompt : String) : String :=
  if prompt = "" then "" else if prompt = "login" ∨ prompt = "select_account" then prompt else "login"

/-- the per-attempt secrets drawn from the random source -/
structure Draw where
  state : String
  nonce : String
  verifier : String
  deriving Repr, DecidableEq

structure AuthRequest where
  params : List (String × String)       -- sent to the authorization endpoint, or to the PAR endpoint when PAR is configured
  cookieState : String
  cookieNonce : String
  cookieVerifier : String
  cookieRedirectUri : String
  cookieAcr : String
  deriving Repr, DecidableEq

/-- S256 is an injective function of the verifier as far as the model is concerned (tied by recomputing it in the harness) -/
def s256 (v : String) : String := "S256(" ++ v ++ ")"

def authRequest (cfg : LoginCfg) (ings : List Ingress) (host xfh reqPath level locale prompt : String) (d : Draw) : Option AuthRequest :=
  match matchingIngress ings host xfh reqPath with
  | none => none
  | some ing =>
    let redirectUri := ing.url ++ "/oauth2/callback"
    let acr := acrParam cfg level
    let loc := localeParam cfg locale
    let pr := promptParam prompt
    let ps : List (String × String) :=
      [("client_id", cfg.clientId), ("code_challenge", s256 d.verifier), ("code_challenge_method", "S256"), ("nonce", d.nonce),
       ("redirect_uri", redirectUri), ("response_mode", "query"), ("response_type", "code"), ("state", d.state)] ++
      (if acr ≠ "" then [("acr_values", acr)] else []) ++ (if loc ≠ "" then [("ui_locales", loc)] else []) ++
      (if pr ≠ "" then [("prompt", pr), ("max_age", "0")] else [])
    some ⟨ps, d.state, d.nonce, d.verifier, redirectUri, acr⟩

end Ww.Model
