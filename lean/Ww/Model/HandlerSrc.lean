import Ww.Gen.Handlers
/-!
# Paths through the session-bearing handlers, read off the source (tie G for C05 C06 C11 C14)

`Ww.Gen.Handlers.*` is regenerated from pkg/handler/*.go on every run (one entry per statement, logging / tracing dropped). `paths` enumerates every
control-flow path through such a skeleton: at each `if` the path records which way it went (condition text, taken?), collects the statements it
executes and stops at a `return`. The theorems in `Ww.Proofs.GenTie.Handlers` then quantify over ALL paths of the current source: "every path that
answers 204 has passed the lookup-error guard, deleted the session if there was one, and cleared the cookie with the request's cookie options".
-/
namespace Ww.Model.HandlerSrc
open Ww.Gen.Manager

structure Path where
  conds : List (String × Bool) := []     -- decisions taken, in order
  evs : List MgStmt := []                -- statements executed, in order
  returned : Bool := false               -- ended at an explicit return
  deriving Repr, DecidableEq

/-- split the statements following an `ifBegin` into (then-branch, else-branch, rest after the matching `ifEnd`) -/
def splitIf : Nat → List MgStmt → List MgStmt → (List MgStmt × List MgStmt × List MgStmt)
  | _, acc, [] => (acc.reverse, [], [])
  | 0, acc, .ifEnd :: rest => (acc.reverse, [], rest)
  | 0, acc, .elseBegin :: rest =>
    let (e, _, r) := splitIf 0 [] rest      -- the else-branch runs to the same ifEnd
    (acc.reverse, e, r)
  | d, acc, .ifBegin c :: rest => splitIf (d + 1) (.ifBegin c :: acc) rest
  | d + 1, acc, .ifEnd :: rest => splitIf d (.ifEnd :: acc) rest
  | d, acc, st :: rest => splitIf d (st :: acc) rest

/-- value of a boolean flag variable as far as the path's own assignments `v = true` / `v = false` determine it -/
def flagValue (evs : List MgStmt) (v : String) : Option Bool :=
  evs.foldl (fun acc st => match st with
    | .assign lhs rhs => if lhs = v then (if rhs = "true" then some true else if rhs = "false" then some false else none) else acc
    | .call lhs _ _ _ => if lhs.contains v then none else acc
    | _ => acc) none

def pathsAux : Nat → List MgStmt → Path → List Path
  | 0, _, p => [p]
  | _, [], p => [p]
  | f + 1, .ifBegin c :: rest, p =>
    let (t, e, r) := splitIf 0 [] rest
    let yes := pathsAux f (t ++ r) { p with conds := p.conds ++ [(c, true)] }
    let no := pathsAux f (e ++ r) { p with conds := p.conds ++ [(c, false)] }
    -- a condition that is just a flag the path itself has set: only the feasible way
    match flagValue p.evs c with
    | some true => yes
    | some false => no
    | none => yes ++ no
  | _ + 1, .ret v :: _, p => [{ p with evs := p.evs ++ [.ret v], returned := true }]
  | f + 1, st :: rest, p => pathsAux f rest { p with evs := p.evs ++ [st] }

def paths (l : List MgStmt) : List Path := pathsAux (l.length + 1) l {}

def Path.calls (p : Path) (fn : String) : List (List String) := p.evs.filterMap fun st => match st with
  | .call _ f args _ => if f = fn then some args else none
  | _ => none

def Path.called (p : Path) (fn : String) : Bool := !(p.calls fn).isEmpty

/-- index of the first call of `fn` among the executed statements -/
def Path.firstIdx (p : Path) (fn : String) : Option Nat :=
  (p.evs.zipIdx.find? fun (st, _) => match st with | .call _ f _ _ => f = fn | _ => false).map (·.2)

def Path.before (p : Path) (a b : String) : Bool := match p.firstIdx a, p.firstIdx b with
  | some i, some j => i < j
  | _, _ => false

def Path.took (p : Path) (c : String) (way : Bool) : Bool := p.conds.contains (c, way)

/-- HTTP statuses the path writes directly -/
def Path.statuses (p : Path) : List String := (p.calls "w.WriteHeader").map fun a => a.headD ""

end Ww.Model.HandlerSrc
