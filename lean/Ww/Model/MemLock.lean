/-!
# The in-memory refresh lock (pkg/session/store_memory.go: memoryLock)

One lock entry per session key: `(holder, expires)`. `Acquire` is refused only while ANOTHER holder's lease is unexpired; otherwise the caller becomes the holder with
`expires = now + lease`. `Release` removes the entry only if the caller is its holder. (The statements of the Go methods are regenerated on every run and compared
with exactly this shape by `Ww.Proofs.GenTie.HelpersSession.memory_store_paths`.)
-/
namespace Ww.Model.MemLock

structure Entry where
  holder : Nat
  expires : Nat
  deriving Repr, DecidableEq

abbrev St := Option Entry

def acquire (s : St) (me now lease : Nat) : St × Bool :=
  match s with
  | some h => if h.holder ≠ me ∧ now < h.expires then (s, false) else (some ⟨me, now + lease⟩, true)
  | none => (some ⟨me, now + lease⟩, true)

def release (s : St) (me : Nat) : St :=
  match s with
  | some h => if h.holder = me then none else s
  | none => none

inductive Op where
  | acq (who now lease : Nat)
  | rel (who : Nat)
  deriving Repr, DecidableEq

def step (s : St) : Op → St × Bool
  | .acq w n l => acquire s w n l
  | .rel w => (release s w, true)

/-- `p` holds the lock at time `now`: the entry is its own and the lease has not run out -/
def holds (s : St) (p now : Nat) : Bool :=
  match s with
  | some h => h.holder == p && now < h.expires
  | none => false

end Ww.Model.MemLock
