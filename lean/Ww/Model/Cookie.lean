/-!
# Cookies: options per mode, Make/Clear, an RFC 6265 jar, the retry counter and the login rate limit

Anchors: pkg/cookie/{cookie,options}.go, pkg/handler/handler.go (GetCookieOptions, applyLoginRateLimit), pkg/handler/handler_sso_server.go (NewSSOServer),
pkg/handler/error.go (respondError, incrementRetryAttempt, getRetryAttempts), pkg/config/cookie.go (Validate). Jar: RFC 6265 §5.3/§5.4 (DESIGN Appendix B).
-/
namespace Ww.Model

inductive SameSite where
  | lax | strict | none | default
  deriving Repr, DecidableEq

structure CookieOpts where
  domain : String := ""
  path : String := ""
  sameSite : SameSite := .lax
  secure : Bool := true
  deriving Repr, DecidableEq

/-- a Set-Cookie header as wonderwall emits it -/
structure SetCookie where
  name : String
  value : String
  domain : String
  path : String
  secure : Bool
  httpOnly : Bool
  sameSite : SameSite
  maxAge : Int          -- 0 = attribute absent, < 0 = delete now, > 0 seconds
  expiresPast : Bool    -- Expires attribute present and in the past
  deriving Repr, DecidableEq

/-- cookie.Make -/
def makeCookie (name value : String) (o : CookieOpts) : SetCookie :=
  { name, value, domain := o.domain, path := if o.path = "" then "/" else o.path, secure := o.secure, httpOnly := true, sameSite := o.sameSite, maxAge := 0, expiresPast := false }

/-- cookie.Clear -/
def clearCookie (name : String) (o : CookieOpts) : SetCookie :=
  { name, value := "", domain := o.domain, path := if o.path = "" then "/" else o.path, secure := o.secure, httpOnly := true, sameSite := o.sameSite, maxAge := -1, expiresPast := true }

structure CookieCfg where
  sso : Bool := false
  ssoDomain : String := ""
  secure : Bool := true
  sameSite : SameSite := .lax        -- cookie.same-site (only honoured in SSO mode)
  deriving Repr

/-- NewStandalone / NewSSOServer: the handler's base options -/
def baseOpts (c : CookieCfg) : CookieOpts :=
  if c.sso then { domain := c.ssoDomain, path := "/", sameSite := c.sameSite, secure := c.secure }
  else { sameSite := .lax, secure := c.secure }

/-- handler.go:GetCookieOptions — standalone scopes to the matching ingress path, SSO keeps the base options -/
def requestOpts (c : CookieCfg) (ingressPath : String) : CookieOpts :=
  if c.sso then baseOpts c else { baseOpts c with path := ingressPath }

/-- pkg/config/cookie.go:Validate — insecure cookies only when every ingress is plain-http localhost -/
def secureExemptionOk (secure : Bool) (ingresses : List (String × String)) : Bool :=   -- (scheme, hostname)
  secure || ingresses.all fun (s, h) => h.toLower == "localhost" && s == "http"

/-! ## jar -/

structure JarCookie where
  name : String
  value : String
  domain : String
  path : String
  hostOnly : Bool
  expires : Option Int        -- absolute seconds; none = session cookie
  secure : Bool
  deriving Repr, DecidableEq

def domainMatch (host dom : String) : Bool := host.toLower == dom.toLower || host.toLower.endsWith ("." ++ dom.toLower)

def trimDot (d : String) : String := if d.startsWith "." then (d.drop 1).toString else d

def JarCookie.sameKey (a b : JarCookie) : Bool := a.name == b.name && a.domain == b.domain && a.path == b.path && a.hostOnly == b.hostOnly

/-- the jar entry a Set-Cookie turns into for a request to `host` (none = ignored by the browser) -/
def toJarCookie (now : Int) (https : Bool) (host : String) (sc : SetCookie) : Option JarCookie :=
  if sc.secure && !https then none
  else if sc.domain != "" && !domainMatch host (trimDot sc.domain) then none
  else some { name := sc.name, value := sc.value, domain := if sc.domain != "" then (trimDot sc.domain).toLower else host.toLower, path := sc.path,
              hostOnly := sc.domain == "", expires := if sc.maxAge > 0 then some (now + sc.maxAge) else none, secure := sc.secure }

def isDelete (sc : SetCookie) : Bool := sc.maxAge < 0 || (sc.maxAge == 0 && sc.expiresPast)

/-- RFC 6265 §5.3 storage: a cookie with the same (name, domain, host-only, path) is replaced; Max-Age ≤ 0 / past Expires removes it -/
def jarStore (jar : List JarCookie) (now : Int) (https : Bool) (host : String) (sc : SetCookie) : List JarCookie :=
  match toJarCookie now https host sc with
  | none => jar
  | some jc =>
    let rest := jar.filter fun e => !e.sameKey jc
    if isDelete sc then rest else rest ++ [jc]

/-! ## retry counter and rate limit -/

def maxAutoRetry : Int := 3

/-- error.go:respondError — (redirect?, new retry-cookie value) from the retry cookie the request carried (none = absent or not a number) -/
def retryStep (cookie : Option Int) (status : Nat) : Bool × Int :=
  let newVal := match cookie with | some v => v + 1 | none => 1
  let redirect := (match cookie with | some v => decide (v < maxAutoRetry) | none => true) && status != 429
  (redirect, newVal)

/-- handler.go:applyLoginRateLimit for a browser WITH a session — (limited?, new counter cookie) -/
def rateLimitStep (enabled : Bool) (logins : Int) (counter : Option Int) : Bool × Option Int :=
  if !enabled then (false, counter)
  else
    let attempts := counter.getD 0
    if attempts ≥ logins then (true, counter) else (false, some (attempts + 1))

end Ww.Model
