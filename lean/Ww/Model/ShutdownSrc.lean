import Ww.Gen.Shutdown
import Ww.Model.Shutdown
/-!
# Source-order semantics of the signal goroutine (C19, tie G)

`Ww.Gen.Shutdown.shutdownOps` is regenerated from pkg/server/server.go:Start on every run: one entry per statement of the goroutine that receives the
signal, in source order. This file gives that list a timed meaning - a clock that starts at the signal and advances only by `sleep`; `withTimeout`
arms a deadline at (clock + duration); `shutdown ctx` closes the listeners at the clock's value and drains under `ctx`. `timing` is what the
protocol model (`Ww.Model.Shutdown`) needs: (instant the listeners close, instant of the forced exit). The theorem `Ww.Proofs.C19.source_timing`
proves, for EVERY period setting, that the source yields exactly the model's parameters.
-/
namespace Ww.Model.ShutdownSrc
open Ww.Gen.Shutdown Ww.Model

abbrev Env := List (String × Int)

def evalE (c : ShutdownCfg) (env : Env) : SdExpr → Option Int
  | .waitBefore => some c.wait
  | .graceful => some c.grace
  | .sub a b => match evalE c env a, evalE c env b with | some x, some y => some (x - y) | _, _ => none
  | .add a b => match evalE c env a, evalE c env b with | some x, some y => some (x + y) | _, _ => none
  | .var n => env.lookup n
  | .other _ => none

structure Run where
  t : Int := 0                              -- time since the signal was received
  env : Env := []
  deadlines : List (String × Int) := []     -- context ↦ absolute instant at which it is cancelled with DeadlineExceeded
  watched : List String := []               -- contexts whose deadline ends the process with a fatal log (non-zero exit)
  closeAt : Option Int := none              -- http.Server.Shutdown called (listeners closed) at
  drainCtx : Option String := none          -- the context Shutdown drains under
  fatalOnErr : Bool := false                -- an error from Shutdown (incl. its context's deadline) ends the process with a fatal log
  hardClose : Bool := false                 -- server.Close(): in-flight requests are cut
  bad : Bool := false                       -- an expression the translator does not understand
  deriving Repr

def stepOp (c : ShutdownCfg) (r : Run) : SdOp → Run
  | .recv _ => r
  | .sleep e => match evalE c r.env e with | some d => { r with t := r.t + d } | none => { r with bad := true }
  | .letVar n e => match evalE c r.env e with | some v => { r with env := (n, v) :: r.env } | none => { r with bad := true }
  | .withTimeout ctx _ e => match evalE c r.env e with | some d => { r with deadlines := (ctx, r.t + d) :: r.deadlines } | none => { r with bad := true }
  | .deadlineFatal ctx => { r with watched := ctx :: r.watched }
  | .shutdown ctx => if r.closeAt.isNone then { r with closeAt := some r.t, drainCtx := some ctx } else r
  | .close => { r with hardClose := true }
  | .fatal => r
  | .fatalOnErr => if r.closeAt.isSome then { r with fatalOnErr := true } else r
  | .call _ => r

def runOps (c : ShutdownCfg) (ops : List SdOp) : Run := ops.foldl (stepOp c) {}

/-- (listeners close at, forced non-zero exit at), when the shape is one the model covers: graceful Shutdown (never Close) under a context that carries a
    deadline whose expiry is fatal -/
def timing (c : ShutdownCfg) (ops : List SdOp) : Option (Int × Int) :=
  let r := runOps c ops
  if r.bad || r.hardClose then none else
  match r.closeAt, r.drainCtx with
  | some ca, some ctx =>
    match r.deadlines.lookup ctx with
    | some dl => if r.watched.contains ctx || r.fatalOnErr then some (ca, dl) else none
    | none => none
  | _, _ => none

end Ww.Model.ShutdownSrc
