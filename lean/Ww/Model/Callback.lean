/-!
# The login callback gate (C02) and the ID-token acceptance decision (C03)

Anchors: pkg/handler/handler.go:LoginCallback, pkg/openid/client/login_callback.go, pkg/openid/cookies.go, pkg/openid/oauth2.go:StateMismatchError,
pkg/openid/tokens.go:IDToken.Validate, pkg/openid/acr/acr.go.
-/
namespace Ww.Model

/-- plaintext of the login cookie as `json.Unmarshal` into `openid.LoginCookie` yields it (unknown fields ignored, missing fields empty) -/
structure LoginCookie where
  state : String := ""
  nonce : String := ""
  verifier : String := ""
  redirectUri : String := ""
  referer : String := ""
  acr : String := ""
  deriving Repr, DecidableEq

/-- which `EncryptAndSet` of this deployment produced the ciphertext presented under the login-cookie name (ghost information; under AEAD
    authenticity every ciphertext that decrypts was produced by one of them) -/
inductive Minted where
  | login (c : LoginCookie)                        -- Login.SetCookie of some attempt
  | logout (state redirectTo : String)             -- Logout.SetCookie: {"state":…, "redirect_to":…}
  | session                                        -- Ticket.SetCookie: {"id":…, "dek":…}
  deriving Repr, DecidableEq

/-- Go's struct decoding applied to the three plaintext shapes: only same-named JSON keys carry over -/
def Minted.asLoginCookie : Minted → LoginCookie
  | .login c => c
  | .logout st _ => { state := st }
  | .session => {}

inductive CookieIn where
  | absent
  | undecryptable                 -- not base64 / too short / does not authenticate under the deployment key / plaintext not JSON
  | authentic (m : Minted)
  deriving Repr, DecidableEq

structure CbQuery where
  state : String := ""
  code : String := ""
  error : String := ""
  iss : String := ""
  deriving Repr, DecidableEq

structure CbCfg where
  issSupported : Bool := false
  issuer : String := ""
  deriving Repr

inductive CbOutcome where
  | unauthorized          -- 401 path (no / bad cookie, state or issuer mismatch)
  | error                 -- 500 path (provider error parameter, incomplete cookie)
  | redeem (code verifier redirectUri : String) (c : LoginCookie)   -- the ONE back-channel call that is made
  deriving Repr, DecidableEq

/-- a login cookie must carry everything the redemption is bound to -/
def LoginCookie.complete (c : LoginCookie) : Bool := c.state != "" && c.verifier != "" && c.nonce != "" && c.redirectUri != ""

/-- handler.go:LoginCallback up to and including client.LoginCallback's browser-side checks -/
def callbackGate (cfg : CbCfg) (ck : CookieIn) (q : CbQuery) : CbOutcome :=
  match ck with
  | .absent => .unauthorized
  | .undecryptable => .unauthorized
  | .authentic m =>
    let c := m.asLoginCookie
    if !c.complete then .error
    else if q.error != "" then .error
    else if q.state == "" || q.state != c.state then .unauthorized
    else if cfg.issSupported && (q.iss == "" || q.iss != cfg.issuer) then .unauthorized
    else .redeem q.code c.verifier c.redirectUri c

end Ww.Model
