/-!
# The login callback gate (C02) and the ID-token acceptance decision (C03)

Anchors: pkg/handler/handler.go:LoginCallback, pkg/openid/client/login_callback.go, pkg/openid/cookies.go, pkg/openid/oauth2.go:StateMismatchError,
pkg/openid/tokens.go:IDToken.Validate, pkg/openid/acr/acr.go.
-/
namespace Ww.Model

/-- plaintext of the login cookie as `json.Unmarshal` into `openid.LoginCookie` yields it (unknown fields ignored, missing fields empty) -/
structure LoginCookie where
  state : String := ""
  nonce : String := ""
  verifier : String := ""
  redirectUri : String := ""
  referer : String := ""
  acr : String := ""
  deriving Repr, DecidableEq

/-- which `EncryptAndSet` of this deployment produced the ciphertext presented under the login-cookie name (ghost information; under AEAD
    authenticity every ciphertext that decrypts was produced by one of them) -/
inductive Minted where
  | login (c : LoginCookie)                        -- Login.SetCookie of some attempt
  | logout (state redirectTo : String)             -- Logout.SetCookie: {"state":…, "redirect_to":…}
  | session                                        -- Ticket.SetCookie: {"id":…, "dek":…}
  deriving Repr, DecidableEq

/-- Go's struct decoding applied to the three plaintext shapes: only same-named JSON keys carry over -/
def Minted.asLoginCookie : Minted → LoginCookie
  | .login c => c
  | .logout st _ => { state := st }
  | .session => {}

inductive CookieIn where
  | absent
  | undecryptable                 -- not base64 / too short / does not authenticate under the deployment key / plaintext not JSON
  | authentic (m : Minted)
  deriving Repr, DecidableEq

structure CbQuery where
  state : String := ""
  code : String := ""
  error : String := ""
  iss : String := ""
  deriving Repr, DecidableEq

structure CbCfg where
  issSupported : Bool := false
  issuer : String := ""
  deriving Repr

inductive CbOutcome where
  | unauthorized          -- 401 path (no / bad cookie, state or issuer mismatch)
  | error                 -- 500 path (provider error parameter, incomplete cookie)
  | redeem (code verifier redirectUri : String) (c : LoginCookie)   -- the ONE back-channel call that is made
  deriving Repr, DecidableEq

/-- a login cookie must carry everything the redemption is bound to -/
def LoginCookie.complete (c : LoginCookie) : Bool := c.state != "" && c.verifier != "" && c.nonce != "" && c.redirectUri != ""

/-- handler.go:LoginCallback up to and including client.LoginCallback's browser-side checks -/
def callbackGate (cfg : CbCfg) (ck : CookieIn) (q : CbQuery) : CbOutcome :=
  match ck with
  | .absent => .unauthorized
  | .undecryptable => .unauthorized
  | .authentic m =>
    let c := m.asLoginCookie
    if !c.complete then .error
    else if q.error != "" then .error
    else if q.state == "" || q.state != c.state then .unauthorized
    else if cfg.issSupported && (q.iss == "" || q.iss != cfg.issuer) then .unauthorized
    else .redeem q.code c.verifier c.redirectUri c


/-! ## ID-token acceptance (pkg/openid/tokens.go: NewTokens, IDToken.Validate; jwx v2 semantics as in DESIGN Appendix C) -/

/-- how the token's signature relates to the provider's currently published key set (after the configured algorithm was filled in for keys
    without `alg`): the only verifying case is a signature made with the private half of a published key under THAT KEY'S algorithm -/
inductive Sig where
  | publishedKey        -- verifies under a published key with the key's own algorithm
  | otherKey            -- well-formed signature by a key that is not published
  | algNone             -- unsecured JWT (alg=none)
  | symmetricWithPublic -- HS* keyed with public key material
  | malformed           -- signature bytes do not verify / token not a JWS
  deriving Repr, DecidableEq

structure IdToken where
  sig : Sig
  iss : Option String := none
  aud : List String := []
  exp : Option Int := none      -- seconds
  iat : Option Int := none
  nbf : Option Int := none
  nonce : Option String := none
  sub : Option String := none
  sid : Option String := none
  acr : Option String := none
  deriving Repr, DecidableEq

structure OidcCfg where
  issuer : String
  clientId : String
  trusted : List String := []      -- additional trusted audiences (the client id is always trusted)
  sidRequired : Bool := false
  acrConfigured : Bool := false    -- openid.acr-values non-empty
  skew : Int := 5
  deriving Repr

def acrTranslate' (s : String) : String :=
  if s = "Level3" then "idporten-loa-substantial" else if s = "Level4" then "idporten-loa-high" else s

/-- pkg/openid/acr.Validate -/
def acrAccepts (expected actual : String) : Bool :=
  let e := acrTranslate' expected
  if e = "idporten-loa-substantial" then actual = "idporten-loa-substantial" || actual = "idporten-loa-high"
  else if e = "idporten-loa-high" then actual = "idporten-loa-high"
  else e = actual

/-- `none` = no id_token member in the token response -/
def acceptIdToken (cfg : OidcCfg) (cookieNonce cookieAcr : String) (now : Int) (t : Option IdToken) : Bool :=
  match t with
  | none => false
  | some t =>
    t.sig = .publishedKey &&
    (!cfg.acrConfigured || (t.acr.isSome && (cookieAcr = "" || acrAccepts cookieAcr (t.acr.getD "")))) &&
    t.iss = some cfg.issuer && t.sub.isSome && !t.aud.isEmpty && t.aud.contains cfg.clientId &&
    (match t.exp with | some e => decide (now < e + cfg.skew) | none => false) &&
    (match t.iat with | some i => decide (i - cfg.skew ≤ now) | none => false) &&
    (match t.nbf with | some n => decide (n - cfg.skew ≤ now) | none => true) &&
    t.nonce = some cookieNonce &&
    (!cfg.sidRequired || t.sid.isSome) &&
    (decide (t.aud.length ≤ 1) || t.aud.all fun a => a = cfg.clientId || cfg.trusted.contains a)

end Ww.Model
