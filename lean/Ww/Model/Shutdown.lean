/-!
# Graceful shutdown as a timed protocol (C19)

Anchors: pkg/server/server.go:Start (signal → sleep(wait-before) → http.Server.Shutdown with timeout graceful − wait-before → Fatalf on deadline),
pkg/config/config.go:Validate (graceful > wait-before). Times in milliseconds relative to the signal (signal at 0).
`http.Server.Shutdown` closes the listeners at once and returns when every in-flight request has completed (it polls idle connections at ≤ 500 ms).
-/
namespace Ww.Model

structure ShutdownCfg where
  wait : Int       -- shutdown-wait-before-period
  grace : Int      -- shutdown-graceful-period
  deriving Repr

structure Req where
  arrive : Int     -- relative to the signal (negative = before)
  dur : Int        -- how long the upstream takes
  deriving Repr, DecidableEq

inductive ReqOutcome where
  | complete | refused | cut
  deriving Repr, DecidableEq

/-- the timeout handed to Shutdown: graceful − wait-before -/
def shutdownTimeout (c : ShutdownCfg) : Int := c.grace - c.wait
/-- the instant the process is forced to exit -/
def deadline (c : ShutdownCfg) : Int := c.wait + shutdownTimeout c

def accepted (c : ShutdownCfg) (r : Req) : Bool := r.arrive < c.wait
def finish (r : Req) : Int := r.arrive + r.dur

def outcome (c : ShutdownCfg) (r : Req) : ReqOutcome :=
  if !accepted c r then .refused else if finish r ≤ deadline c then .complete else .cut

def allDrain (c : ShutdownCfg) (rs : List Req) : Bool := rs.all fun r => !accepted c r || finish r ≤ deadline c

def lastFinish (c : ShutdownCfg) (rs : List Req) : Int := (rs.filter (accepted c)).foldl (fun m r => max m (finish r)) c.wait

/-- (exit time, exit code 0?) -/
def exitOf (c : ShutdownCfg) (rs : List Req) : Int × Bool :=
  if allDrain c rs then (lastFinish c rs, true) else (deadline c, false)

end Ww.Model
