/-!
# Start-up validation chain (C20)

Anchors, in the order `cmd/wonderwall/main.go:run` reaches them: pkg/config/config.go (Initialize → Validate: cookie, openid alg, sso, upstream, shutdown
periods), internal/crypto/crypter.go (EncryptionKeyOrGenerate), pkg/openid/config/client.go (NewClientConfig), pkg/openid/config/provider.go
(NewProviderConfig → ProviderMetadata.Validate), pkg/session/store.go (NewStore), pkg/ingress/ingress.go (ParseIngresses), pkg/url/redirect.go
(NewSSOServerRedirect), pkg/handler/handler_sso_proxy.go (NewSSOProxy). Every field is the OUTCOME of parsing one setting (what the parser says about
the supplied text), so the model is about the chain of checks, not about string parsing.
-/
namespace Ww.Model

inductive KeySt where
  | absent                -- no key supplied: an ephemeral one is generated
  | bytes (n : Nat)       -- decodes (standard base64) to n bytes, n > 0
  | empty                 -- supplied, but decodes to zero bytes (e.g. only line breaks)
  | notBase64
  deriving Repr, DecidableEq

inductive SsoMode where | server | proxy | other
  deriving Repr, DecidableEq

inductive JwkSt where | absent | valid | malformed
  deriving Repr, DecidableEq

structure IngressSt where
  parses : Bool          -- url.ParseRequestURI succeeds
  scheme : String
  hasHost : Bool
  hostname : String      -- lower-cased
  deriving Repr, DecidableEq

structure StartCfg where
  key : KeySt := .absent
  ingresses : List IngressSt := []
  providerName : Bool := true         -- openid.provider non-empty
  clientId : Bool := true
  clientJwk : JwkSt := .valid
  clientSecret : Bool := false
  wellKnown : Bool := true            -- URL present
  discoveryReachable : Bool := true   -- fetch + JSON decode succeed
  sso : Bool := false
  ssoMode : SsoMode := .server
  redis : Bool := false               -- redis.address or redis.uri set
  redisReachable : Bool := true
  ssoCookieName : Bool := false
  ssoServerUrlParses : Bool := false
  ssoDomain : Bool := false
  ssoDefaultRedirectParses : Bool := false
  cookieSecure : Bool := true
  sameSiteValid : Bool := true
  upstreamIp : Bool := false
  upstreamPort : Int := 0
  graceful : Int := 30
  waitBefore : Int := 0
  algIsJwa : Bool := true             -- openid.id-token-signing-alg is a JWA signature algorithm
  algInDiscovery : Bool := true
  acr : Bool := false                 -- openid.acr-values set
  acrInDiscovery : Bool := true       -- it, or its legacy translation, is advertised
  locale : Bool := false
  localeInDiscovery : Bool := true
  deriving Repr

def ingressOk (i : IngressSt) : Bool := i.parses && i.hasHost && (i.scheme == "http" || i.scheme == "https")

/-- config/cookie.go:Validate -/
def cookieOk (c : StartCfg) : Bool :=
  c.sameSiteValid && (c.cookieSecure || c.ingresses.all fun i => i.parses && i.hostname == "localhost" && i.scheme == "http")

/-- config/sso.go:Validate -/
def ssoOk (c : StartCfg) : Bool :=
  !c.sso || (c.redis && c.ssoCookieName &&
    (match c.ssoMode with
     | .proxy => c.ssoServerUrlParses
     | .server => c.ssoDomain && c.ssoDefaultRedirectParses
     | .other => false))

def upstreamOk (c : StartCfg) : Bool :=
  (!c.upstreamIp && c.upstreamPort == 0) || (c.upstreamIp && c.upstreamPort != 0 && decide (1 ≤ c.upstreamPort) && decide (c.upstreamPort ≤ 65535))

/-- Config.Validate, in source order -/
def validateOk (c : StartCfg) : Bool :=
  cookieOk c && c.algIsJwa && ssoOk c && upstreamOk c && decide (c.graceful > c.waitBefore)

/-- crypter.go:EncryptionKeyOrGenerate -/
def keyOk (c : StartCfg) : Bool :=
  match c.key with
  | .absent => true
  | .bytes n => n == 32
  | .empty => false
  | .notBase64 => false

/-- NewClientConfig + NewProviderConfig (not reached by an SSO proxy) -/
def openidOk (c : StartCfg) : Bool :=
  (c.clientJwk != .absent || c.clientSecret) && c.clientJwk != .malformed && c.providerName && c.clientId && c.wellKnown &&
  c.discoveryReachable && (!c.acr || c.acrInDiscovery) && (!c.locale || c.localeInDiscovery) && c.algInDiscovery

def storeOk (c : StartCfg) : Bool := !c.redis || c.redisReachable

def ingressesOk (c : StartCfg) : Bool := !c.ingresses.isEmpty && c.ingresses.all ingressOk

/-- the whole chain of `run()`: true = the process reaches `server.Start` (listens) -/
def startOk (c : StartCfg) : Bool :=
  if !validateOk c then false
  else if !keyOk c then false
  else if c.sso && c.ssoMode == .proxy then ingressesOk c && storeOk c && c.ssoServerUrlParses
  else
    if !openidOk c then false
    else if !storeOk c then false
    else if !ingressesOk c then false
    else if c.sso then c.ssoDefaultRedirectParses else true

end Ww.Model
