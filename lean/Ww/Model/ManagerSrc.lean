import Ww.Gen.Manager
import Ww.Model.Sched
/-!
# Source-order semantics of the session manager (tie G for C05 C07 C08 C10 C11)

`Ww.Gen.Manager.*` is regenerated from pkg/session/{session_manager,session_reader,store_redis,store_memory,lock}.go on every run: one entry per
statement, in source order (logging / tracing dropped). This file runs such a list symbolically: it tracks whether the refresh lock is held, whether its
release has been deferred, whether `sess` is the value RE-READ under the lock and whether `canRefresh` has been re-checked on it, and records every
effect (lock, re-read, provider grant, store write / update / delete) together with those flags. `Ww.Proofs.GenTie.C07` proves that the recorded
effects of the CURRENT source are the ones the interleaving model (`Ww.Model.Sched`) and the fault model assume.
-/
namespace Ww.Model.ManagerSrc
open Ww.Gen.Manager

structure Flags where
  held : Bool := false       -- acquireLock succeeded on the lock made for this session's key
  deferred : Bool := false   -- lock.Release is deferred: every later return releases it
  fresh : Bool := false      -- `sess` was assigned from in.getForTicket(…, sess.ticket) while the lock was held
  guarded : Bool := false    -- `if !sess.canRefresh() { return sess, nil }` was evaluated on that value
  granted : Bool := false    -- the provider answered the refresh grant; `resp` holds the new tokens
  deriving Repr, DecidableEq

inductive Ev where
  | guardCan                                         -- early exit "nothing to refresh" (returns the session unchanged)
  | makeLock (key : String)
  | acquire (fl : Flags)
  | deferRelease
  | reread (ticket : String) (fl : Flags)
  | grant (token : String) (defaultRetry : Bool) (retryOn stopOn : List String) (fl : Flags)
  | setTokens (lhs rhs : String)
  | metaCall (fn : String) (args : List String)
  | storeCall (fn : String) (args : List String) (defaultRetry : Bool) (stopOn : List String) (fl : Flags)   -- in.store.* through retry
  | managerCall (fn : String) (args : List String) (fl : Flags)                                              -- in.update / in.getForTicket / in.Refresh …
  | exit (vals : List MgVal) (fl : Flags)
  | unknownEffect (s : String)
  deriving Repr, DecidableEq

structure Run where
  fl : Flags := {}
  lockVar : Option String := none
  evs : List Ev := []
  deriving Repr

/-- calls that neither touch the store / provider / lock nor rebind `sess` -/
def neutralFns : List String := ["r.Context", "trace.SpanFromContext", "ExternalID", "in.key", "time.Until", "NewMetadata", "metadata.WithTimeout", "NewTicket", "NewData",
  "data.Encrypt", "NewSession", "sess.encrypt", "encrypted.Decrypt", "data.Validate", "getTicket", "time.NewTimer", "time.NewTicker"]

def emit (r : Run) (e : Ev) : Run := { r with evs := r.evs ++ [e] }

def stepStmt (r : Run) : MgStmt → Run
  | .call lhs fn args _ =>
    if fn = "in.store.MakeLock" then { emit r (.makeLock (args.headD "")) with lockVar := lhs.head? }
    else if fn = "acquireLock" then emit r (.unknownEffect "acquireLock whose failure is not handled on the spot")   -- the handled form is a unit of `run`
    else if fn = "in.getForTicket" then
      let r' := emit r (.reread (args.getLast?.getD "") r.fl)
      if lhs.head? = some "sess" then { r' with fl := { r'.fl with fresh := r.fl.held, guarded := false } } else r'
    else if fn = "sess.data.Metadata.Refresh" || fn = "sess.data.Metadata.WithTimeout" then emit r (.metaCall fn args)
    else if fn = "in.update" || fn = "in.Refresh" || fn = "in.Get" || fn = "in.deleteForKey" then
      let r' := emit r (.managerCall fn args r.fl)
      if lhs.contains "sess" then { r' with fl := { r'.fl with fresh := false, guarded := false } } else r'
    else if neutralFns.contains fn then
      if lhs.contains "sess" && fn != "NewSession" then { r with fl := { r.fl with fresh := false, guarded := false } } else r
    else emit r (.unknownEffect fn)
  | .retry lhs fn args dr ro so =>
    if fn = "in.client.RefreshGrant" then { emit r (.grant (args.getLast?.getD "") dr ro so r.fl) with fl := { r.fl with granted := true } }
    else
      let r' := emit r (.storeCall fn args dr so r.fl)
      if lhs.contains "sess" then { r' with fl := { r'.fl with fresh := false, guarded := false } } else r'
  | .assign lhs rhs =>
    if lhs = "sess" then { r with fl := { r.fl with fresh := false, guarded := false } }
    else if lhs = "sess.data.AccessToken" || lhs = "sess.data.RefreshToken" then emit r (.setTokens lhs rhs)
    else r
  | .deferCalls fns => if fns.contains "lock.Release" then { emit r .deferRelease with fl := { r.fl with deferred := true } } else r
  | .ret vals => emit r (.exit vals r.fl)
  | .other s => emit r (.unknownEffect s)
  | _ => r

/-- the re-check `if !sess.canRefresh() { return sess, nil }` is ONE unit: it exits with the session, and afterwards `sess` is known to be refreshable -/
def run : Run → List MgStmt → Run
  | r, .ifBegin "!sess.canRefresh()" :: .ret [.expr "sess", .nil] :: .ifEnd :: rest =>
    run { emit r .guardCan with fl := { r.fl with guarded := r.fl.fresh } } rest
  | r, .call _ "acquireLock" args _ :: .ifBegin "err != nil" :: .ret v :: .ifEnd :: rest =>
    -- acquire + its failure exit: on that exit the lock is NOT held; afterwards it is
    if args.getLast? = r.lockVar && r.lockVar.isSome then
      run { emit (emit r (.acquire r.fl)) (.exit v r.fl) with fl := { r.fl with held := true } } rest
    else run (emit r (.unknownEffect s!"acquireLock on {args}")) rest
  | r, st :: rest => run (stepStmt r st) rest
  | r, [] => r

def events (l : List MgStmt) : List Ev := (run {} l).evs

/-- every exit that happens while the lock is held is covered by the deferred release -/
def noLeak (l : List MgStmt) : Bool := (events l).all fun e => match e with
  | .exit _ fl => !fl.held || fl.deferred
  | _ => true

def noUnknown (l : List MgStmt) : Bool := (events l).all fun e => match e with | .unknownEffect _ => false | _ => true

/-- effects only (exits, lock bookkeeping and metadata calls dropped): what the interleaving model's program counters stand for -/
def effects (l : List MgStmt) : List Ev := (events l).filter fun e => match e with
  | .exit .. | .metaCall .. | .setTokens .. | .makeLock .. | .deferRelease => false
  | _ => true

open Ww.Model.Sched in
/-- program counters of `Ww.Model.Sched` visited by a request whose refresh goes through, read off the source's effects -/
def pcsOf : List Ev → List PC
  | [] => []
  | .acquire _ :: rest => .lock :: pcsOf rest
  | .reread .. :: rest => .reread :: pcsOf rest
  | .grant .. :: rest => .idp :: pcsOf rest
  | .managerCall "in.update" .. :: rest => .update :: pcsOf rest
  | .storeCall "in.store.Write" .. :: rest => .write :: pcsOf rest
  | _ :: rest => pcsOf rest

/-- the calls a store method makes inside the closures it hands to the latency observer: the store commands it issues
    (the extractor drops methods applied to a call's result, `.Err()` / `.Scan(..)`, so only the commands remain) -/
def clientCommands (l : List MgStmt) : List String :=
  l.flatMap fun st => match st with
    | .call _ _ _ inner => inner
    | _ => []

end Ww.Model.ManagerSrc
