/-!
# Go `net/url` (go1.24): Parse, ParseRequestURI, URL.String and the escaping tables

A byte-exact functional model: strings are `List Char` with one char per byte (0..255). Every function below follows the Go source
statement by statement (anchors in the doc comments); the correspondence check runs both on the same strings.
Not modelled: `url.Error` wrapping (only success/failure is kept).
-/
namespace Ww.Model.Url

abbrev Str := List Char

inductive Mode where
  | path | pathSegment | host | zone | userPassword | queryComponent | fragment
  deriving Repr, DecidableEq

def isAlpha (c : Char) : Bool := ('a' ≤ c && c ≤ 'z') || ('A' ≤ c && c ≤ 'Z')
def isDigit (c : Char) : Bool := '0' ≤ c && c ≤ '9'
def isAlnum (c : Char) : Bool := isAlpha c || isDigit c

def hostExtra : List Char := ['!', '$', '&', '\'', '(', ')', '*', '+', ',', ';', '=', ':', '[', ']', '<', '>', '"']
def unreservedMarks : List Char := ['-', '_', '.', '~']
def reservedChars : List Char := ['$', '&', '+', ',', '/', ':', ';', '=', '?', '@']

/-- url.go: shouldEscape -/
def shouldEscape (c : Char) (m : Mode) : Bool :=
  if isAlnum c then false
  else if (m = .host ∨ m = .zone) ∧ hostExtra.contains c then false
  else if unreservedMarks.contains c then false
  else if reservedChars.contains c ∧ m = .path then c = '?'
  else if reservedChars.contains c ∧ m = .pathSegment then c = '/' || c = ';' || c = ',' || c = '?'
  else if reservedChars.contains c ∧ m = .userPassword then c = '@' || c = '/' || c = '?' || c = ':'
  else if reservedChars.contains c ∧ m = .queryComponent then true
  else if reservedChars.contains c ∧ m = .fragment then false
  else if m = .fragment ∧ ['!', '(', ')', '*'].contains c then false
  else true

def ishex (c : Char) : Bool := isDigit c || ('a' ≤ c && c ≤ 'f') || ('A' ≤ c && c ≤ 'F')
def unhex (c : Char) : Nat :=
  if isDigit c then c.toNat - '0'.toNat
  else if 'a' ≤ c && c ≤ 'f' then c.toNat - 'a'.toNat + 10
  else if 'A' ≤ c && c ≤ 'F' then c.toNat - 'A'.toNat + 10
  else 0

def upperhex (n : Nat) : Char := if n < 10 then Char.ofNat ('0'.toNat + n) else Char.ofNat ('A'.toNat + (n - 10))

/-- first pass of url.go: unescape — is the string well-formed for this mode? -/
def unescapeOk (m : Mode) : Str → Bool
  | [] => true
  | c :: rest =>
    if c = '%' then
      match rest with
      | a :: b :: rest' =>
        ishex a && ishex b
        && !(m = .host && unhex a < 8 && !(a = '2' && b = '5'))
        && !(m = .zone && !(a = '2' && b = '5') && Char.ofNat (unhex a * 16 + unhex b) ≠ ' '
              && shouldEscape (Char.ofNat (unhex a * 16 + unhex b)) .host)
        && unescapeOk m rest'
      | _ => false
    else if c = '+' then unescapeOk m rest
    else if (m = .host ∨ m = .zone) ∧ c.toNat < 128 ∧ shouldEscape c m then false
    else unescapeOk m rest

/-- second pass of url.go: unescape -/
def unescapeRaw (m : Mode) : Str → Str
  | [] => []
  | c :: rest =>
    if c = '%' then
      match rest with
      | a :: b :: rest' => Char.ofNat (unhex a * 16 + unhex b) :: unescapeRaw m rest'
      | _ => []
    else if c = '+' then (if m = .queryComponent then ' ' else '+') :: unescapeRaw m rest
    else c :: unescapeRaw m rest

def unescape (m : Mode) (s : Str) : Option Str := if unescapeOk m s then some (unescapeRaw m s) else none

def escChar (m : Mode) (c : Char) : Str :=
  if shouldEscape c m then
    (if c = ' ' ∧ m = .queryComponent then ['+'] else ['%', upperhex (c.toNat / 16 % 16), upperhex (c.toNat % 16)])
  else [c]

/-- url.go: escape -/
def escape (m : Mode) (s : Str) : Str := s.flatMap (escChar m)

def validExtra : List Char := ['!', '$', '&', '\'', '(', ')', '*', '+', ',', ';', '=', ':', '@', '[', ']', '%']

/-- url.go: validEncoded -/
def validEncoded (m : Mode) (s : Str) : Bool := s.all fun c => validExtra.contains c || !shouldEscape c m

structure URL where
  scheme : Str := []
  opaq : Str := []
  user : Option (Str × Option Str) := none
  host : Str := []
  path : Str := []
  rawPath : Str := []
  omitHost : Bool := false
  forceQuery : Bool := false
  rawQuery : Str := []
  fragment : Str := []
  rawFragment : Str := []
  deriving Repr, DecidableEq

def isCTL (c : Char) : Bool := c.toNat < 32 || c.toNat = 127

/-- strings.Cut(s, c): (before, after, found) -/
def cut (c : Char) : Str → Str × Str × Bool
  | [] => ([], [], false)
  | d :: rest =>
    if d = c then ([], rest, true)
    else let r := cut c rest; (d :: r.1, r.2.1, r.2.2)

/-- split at the LAST occurrence of c: (before, after) -/
def cutLast (c : Char) (s : Str) : Option (Str × Str) :=
  let r := cut c s.reverse
  if r.2.2 then some (r.2.1.reverse, r.1.reverse) else none

def startsWith (p s : Str) : Bool := p.isPrefixOf s
def endsWith (p s : Str) : Bool := p.isSuffixOf s

def toLowerC (c : Char) : Char := if 'A' ≤ c && c ≤ 'Z' then Char.ofNat (c.toNat + 32) else c
def toLower (s : Str) : Str := s.map toLowerC

/-- url.go: getScheme; `acc` = reversed prefix scanned so far. none = "missing protocol scheme" -/
def getSchemeGo (acc : Str) : Str → Option (Str × Str)
  | [] => some ([], acc.reverse)
  | c :: cs =>
    if isAlpha c then getSchemeGo (c :: acc) cs
    else if isDigit c || c = '+' || c = '-' || c = '.' then
      (if acc = [] then some ([], c :: cs) else getSchemeGo (c :: acc) cs)
    else if c = ':' then (if acc = [] then none else some (acc.reverse, cs))
    else some ([], acc.reverse ++ c :: cs)

def getScheme (raw : Str) : Option (Str × Str) := getSchemeGo [] raw

/-- url.go: validOptionalPort -/
def validOptionalPort : Str → Bool
  | [] => true
  | c :: ds => c = ':' && ds.all isDigit

/-- strings.Index(s, "%25") as a split: (before, from the match on) -/
def splitZone : Str → Option (Str × Str)
  | [] => none
  | c :: rest =>
    if startsWith ['%', '2', '5'] (c :: rest) then some ([], c :: rest)
    else (splitZone rest).map fun r => (c :: r.1, r.2)

/-- url.go: parseHost -/
def parseHost (host : Str) : Option Str :=
  if startsWith ['['] host then
    match cutLast ']' host with
    | none => none
    | some (inside, colonPort) =>
      if !validOptionalPort colonPort then none
      else
        match splitZone inside with
        | some (h1, zoneOn) =>
          -- host[:zone], host[zone:i], host[i:] (i = index of the last ']')
          match unescape .host h1, unescape .zone zoneOn, unescape .host (']' :: colonPort) with
          | some a, some b, some c => some (a ++ b ++ c)
          | _, _, _ => none
        | none => unescape .host host
  else
    match cutLast ':' host with
    | some (_, port) => if !validOptionalPort (':' :: port) then none else unescape .host host
    | none => unescape .host host

def userinfoExtra : List Char := ['-', '.', '_', ':', '~', '!', '$', '&', '\'', '(', ')', '*', '+', ',', ';', '=', '%', '@']

/-- url.go: validUserinfo (ranging over runes: any byte ≥ 0x80 is part of a non-ASCII rune or U+FFFD, never in the list) -/
def validUserinfo (s : Str) : Bool := s.all fun c => isAlnum c || userinfoExtra.contains c

/-- url.go: parseAuthority -/
def parseAuthority (authority : Str) : Option (Option (Str × Option Str) × Str) :=
  match cutLast '@' authority with
  | none => (parseHost authority).map fun h => (none, h)
  | some (userinfo, hostpart) =>
    match parseHost hostpart with
    | none => none
    | some h =>
      if !validUserinfo userinfo then none
      else
        let r := cut ':' userinfo
        if !r.2.2 then
          (unescape .userPassword userinfo).map fun u => (some (u, none), h)
        else
          match unescape .userPassword r.1, unescape .userPassword r.2.1 with
          | some u, some p => some (some (u, some p), h)
          | _, _ => none

/-- url.go: setPath -/
def setPath (u : URL) (p : Str) : Option URL :=
  match unescape .path p with
  | none => none
  | some path => some { u with path := path, rawPath := if escape .path path = p then [] else p }

/-- url.go: setFragment -/
def setFragment (u : URL) (f : Str) : Option URL :=
  match unescape .fragment f with
  | none => none
  | some frag => some { u with fragment := frag, rawFragment := if escape .fragment frag = f then [] else f }

/-- rest with its query removed: (rest, rawQuery, forceQuery) -/
def splitQuery (rest : Str) : Str × Str × Bool :=
  if endsWith ['?'] rest ∧ rest.count '?' = 1 then (rest.dropLast, [], true)
  else let r := cut '?' rest; (r.1, r.2.1, false)

/-- url.go: parse -/
def parse (raw : Str) (viaRequest : Bool) : Option URL :=
  if raw.any isCTL then none
  else if raw = [] ∧ viaRequest then none
  else if raw = ['*'] then some { path := ['*'] }
  else
    match getScheme raw with
    | none => none
    | some (scheme0, rest0) =>
      let scheme := toLower scheme0
      let q := splitQuery rest0
      let rest := q.1
      let u : URL := { scheme := scheme, rawQuery := q.2.1, forceQuery := q.2.2 }
      if !startsWith ['/'] rest ∧ scheme ≠ [] then some { u with opaq := rest }
      else if !startsWith ['/'] rest ∧ viaRequest then none
      else if !startsWith ['/'] rest ∧ (cut '/' rest).1.contains ':' then none
      else if (scheme ≠ [] ∨ (!viaRequest ∧ !startsWith ['/', '/', '/'] rest)) ∧ startsWith ['/', '/'] rest then
        let a := cut '/' (rest.drop 2)
        let authority := a.1
        let rest' := if a.2.2 then '/' :: a.2.1 else []
        match parseAuthority authority with
        | none => none
        | some (user, host) => setPath { u with user := user, host := host } rest'
      else if scheme ≠ [] ∧ startsWith ['/'] rest then setPath { u with omitHost := true } rest
      else setPath u rest

/-- url.go: ParseRequestURI -/
def parseRequestURI (raw : Str) : Option URL := parse raw true

/-- url.go: Parse -/
def parseURL (raw : Str) : Option URL :=
  let c := cut '#' raw
  match parse c.1 false with
  | none => none
  | some u => if c.2.1 = [] then some u else setFragment u c.2.1

/-- url.go: EscapedPath -/
def escapedPath (u : URL) : Str :=
  if u.rawPath ≠ [] ∧ validEncoded .path u.rawPath ∧ unescape .path u.rawPath = some u.path then u.rawPath
  else if u.path = ['*'] then ['*']
  else escape .path u.path

/-- url.go: EscapedFragment -/
def escapedFragment (u : URL) : Str :=
  if u.rawFragment ≠ [] ∧ validEncoded .fragment u.rawFragment ∧ unescape .fragment u.rawFragment = some u.fragment then u.rawFragment
  else escape .fragment u.fragment

/-- url.go: Userinfo.String -/
def userString (user : Str × Option Str) : Str :=
  escape .userPassword user.1 ++ (match user.2 with | some p => ':' :: escape .userPassword p | none => [])

/-- the "//user@host" part of URL.String -/
def authorityString (u : URL) : Str :=
  if u.scheme ≠ [] ∨ u.host ≠ [] ∨ u.user.isSome then
    if u.omitHost ∧ u.host = [] ∧ u.user.isNone then []
    else
      (if u.host ≠ [] ∨ u.path ≠ [] ∨ u.user.isSome then ['/', '/'] else [])
      ++ (match u.user with | some ui => userString ui ++ ['@'] | none => [])
      ++ (if u.host ≠ [] then escape .host u.host else [])
  else []

def queryString (u : URL) : Str := if u.forceQuery ∨ u.rawQuery ≠ [] then '?' :: u.rawQuery else []
def fragmentString (u : URL) : Str := if u.fragment ≠ [] then '#' :: escapedFragment u else []

/-- the part of URL.String before query and fragment when Opaque is empty -/
def hierString (u : URL) : Str :=
  let pre := (if u.scheme ≠ [] then u.scheme ++ [':'] else []) ++ authorityString u
  let path := escapedPath u
  let pre := if path ≠ [] ∧ path.head? ≠ some '/' ∧ u.host ≠ [] then pre ++ ['/'] else pre
  let pre := if pre = [] ∧ (cut '/' path).1.contains ':' then ['.', '/'] else pre
  pre ++ path

/-- url.go: URL.String -/
def toStr (u : URL) : Str :=
  (if u.opaq ≠ [] then (if u.scheme ≠ [] then u.scheme ++ [':'] else []) ++ u.opaq else hierString u)
  ++ queryString u ++ fragmentString u

/-- url.go: splitHostPort + Hostname -/
def hostname (host : Str) : Str :=
  let h := match cutLast ':' host with
    | some (before, port) => if validOptionalPort (':' :: port) then before else host
    | none => host
  if startsWith ['['] h ∧ endsWith [']'] h then (h.drop 1).dropLast else h

end Ww.Model.Url
