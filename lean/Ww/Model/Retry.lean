/-!
# The retry policy (pkg/retry over sethvargo/go-retry): Fibonacci back-off under a time budget

`retry.Do(ctx, fibonacci(), f)`: `f` is attempted; on a retryable error the back-off is asked for the next pause. `WithMaxDuration(max, NewFibonacci(base))`
answers "stop" once `max` has passed since the back-off was MADE (pkg/retry makes a fresh one per call), otherwise the next Fibonacci number
(base, 2·base, 3·base, 5·base, …) cut down to the time that is left. Time is in the unit of the constants (ns); the wrapped function and the timers are taken
as exact (an operation takes no time) - the harness compares the real library against this schedule with a tolerance.
-/
namespace Ww.Model.Retry

/-- the pause `WithMaxDuration` hands out when `left > 0` is left of the budget and the inner back-off says `next` -/
def pause (next left : Nat) : Nat := if next = 0 ∨ left < next then left else next

/-- offsets (from the start of the call) at which the wrapped function is attempted when EVERY attempt fails with a retryable error -/
def attempts (max : Nat) : Nat → Nat → Nat → Nat → List Nat
  | 0, _, _, t => [t]
  | f + 1, prev, curr, t =>
    if max ≤ t then [t]                 -- the budget is used up: `Next` says stop, Do returns the last error
    else t :: attempts max f curr (prev + curr) (t + pause (prev + curr) (max - t))

/-- a call as pkg/retry makes it: fresh Fibonacci state (0, base), clock at 0 -/
def schedule (base max fuel : Nat) : List Nat := attempts max fuel 0 base 0

inductive Outcome where
  | ok (offset : Nat) (tries : Nat)       -- the attempt at offset `offset` succeeded; it was attempt number `tries`
  | gaveUp (offset : Nat) (tries : Nat)    -- all attempts failed, the last one at offset `offset`
  deriving Repr, DecidableEq

/-- the store / provider fails (retryably) until offset `d` and works from then on -/
def outcomeOf (d : Nat) : List Nat → Nat → Outcome
  | [], n => .gaveUp 0 n
  | [t], n => if d ≤ t then .ok t (n + 1) else .gaveUp t (n + 1)
  | t :: rest, n => if d ≤ t then .ok t (n + 1) else outcomeOf d rest (n + 1)

def outcome (base max fuel d : Nat) : Outcome := outcomeOf d (schedule base max fuel) 0

end Ww.Model.Retry
