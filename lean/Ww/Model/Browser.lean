import Ww.Model.Url
/-!
# How a browser resolves a `Location` header against an http(s) request URL

A digest of the WHATWG URL "basic URL parser" for the states that decide WHERE a navigation goes: input clean-up (strip leading and
trailing C0-control-or-space, delete every TAB/LF/CR), scheme state, special-relative-or-authority / special-authority-slashes /
relative / relative-slash states (`\` ≡ `/` for special schemes), authority state (last `@`), host state (first `:` outside brackets),
port state, host parsing (percent-decode, ASCII lower-case, forbidden host code points). Not modelled: UTS-46 mapping of non-ASCII
hosts (the host bytes are kept as they are) and the IPv4 number parser. There is no browser in the sandbox: this model is the
oracle, cross-checked against Go's own resolver where the two standards agree.
-/
namespace Ww.Model.Browser
open Ww.Model.Url

inductive Target where
  | same                                    -- stays on the origin of the base URL
  | abs (scheme host port : Str)            -- http(s) URL with its own authority (port = [] for the scheme's default)
  | other (scheme : Str)                    -- any other scheme (javascript:, data:, ftp:, …)
  | failure                                 -- the browser refuses to navigate
  deriving Repr, DecidableEq

def isC0Space (c : Char) : Bool := c.toNat ≤ 32
def isTabNl (c : Char) : Bool := c = '\t' || c = '\n' || c = '\r'
def isSep (c : Char) : Bool := c = '/' || c = '\\'

def cleanInput (s : Str) : Str :=
  (((s.dropWhile isC0Space).reverse.dropWhile isC0Space).reverse).filter (fun c => !isTabNl c)

/-- scheme state: ASCII alpha, then alphanumerics / + - . up to a ':' -/
def schemeRest (acc : Str) : Str → Option (Str × Str)
  | [] => none
  | c :: cs =>
    if c = ':' then some (acc.reverse, cs)
    else if isAlnum c || c = '+' || c = '-' || c = '.' then schemeRest (c :: acc) cs
    else none

def schemeOf : Str → Option (Str × Str)
  | [] => none
  | c :: cs => if isAlpha c then schemeRest [c] cs else none

def forbiddenHost (c : Char) : Bool :=
  c.toNat ≤ 32 || c.toNat = 127 || ['#', '/', ':', '<', '>', '?', '@', '[', '\\', ']', '^', '|', '%'].contains c

/-- percent-decode (invalid sequences are left as they are) -/
def hexPair : Str → Bool
  | a :: b :: _ => ishex a && ishex b
  | _ => false
def hexPairVal : Str → Char
  | a :: b :: _ => Char.ofNat (unhex a * 16 + unhex b)
  | _ => '%'
def pctDecode : Str → Str
  | [] => []
  | c :: rest => if c = '%' ∧ hexPair rest then hexPairVal rest :: pctDecode (rest.drop 2) else c :: pctDecode rest
termination_by s => s.length
decreasing_by all_goals (simp_wf; try omega)

def defaultPort (scheme : Str) : Str := if scheme = "https".toList then "443".toList else if scheme = "http".toList then "80".toList else []

def stripZeros (p : Str) : Str := match p.dropWhile (· = '0') with | [] => (if p = [] then [] else ['0']) | r => r

def portVal (p : Str) : Nat := p.foldl (fun n c => n * 10 + (c.toNat - '0'.toNat)) 0

/-- host and port states + host parser -/
def hostPort (scheme hp : Str) : Target :=
  if startsWith ['['] hp then
    match cut ']' hp with
    | (inside, after, true) =>
      let port := match after with | ':' :: p => some p | [] => some [] | _ => none
      match port with
      | some p =>
        -- an IPv6 literal: hex digits, ':' and '.' only, at least two colons (anything else fails the IPv6 parser)
        if (inside.drop 1).all (fun c => ishex c || c = ':' || c = '.') && (inside.count ':') ≥ 2 && p.all isDigit && portVal p ≤ 65535
        then .abs scheme (toLower (inside ++ [']'])) (if stripZeros p = defaultPort scheme then [] else stripZeros p) else .failure
      | none => .failure
    | _ => .failure
  else
    let r := cut ':' hp
    let host := toLower (pctDecode r.1)
    let port := r.2.1
    if host = [] then .failure
    else if host.any forbiddenHost then .failure
    else if !port.all isDigit then .failure
    else if portVal port > 65535 then .failure
    else .abs scheme host (if stripZeros port = defaultPort scheme then [] else stripZeros port)

/-- authority state: up to the first `/ \ ? #`; credentials end at the LAST `@` -/
def authority (scheme s : Str) : Target :=
  let a := s.takeWhile (fun c => !(isSep c || c = '?' || c = '#'))
  match cutLast '@' a with
  | some (_, hp) => hostPort scheme hp
  | none => hostPort scheme a

/-- relative state + relative slash state for a special base -/
def relRef (scheme s : Str) : Target :=
  match s with
  | c :: d :: _ => if isSep c && isSep d then authority scheme (s.dropWhile isSep) else .same
  | _ => .same

def isHttp (s : Str) : Bool := s = "http".toList || s = "https".toList

/-- where does `loc` lead when resolved against a base URL with scheme `baseScheme` (http or https)? -/
def browse (baseScheme loc : Str) : Target :=
  let s := cleanInput loc
  match schemeOf s with
  | some (sch, rest) =>
    let sch := toLower sch
    if isHttp sch then
      if sch = baseScheme then relRef sch rest
      else authority sch (rest.dropWhile isSep)
    else .other sch
  | none => relRef baseScheme s

end Ww.Model.Browser
