import Ww.Model.Sys
/-!
# Store and identity-provider faults (C11)

The handlers of `Ww.Model.Sys` re-stated with an adversarial fault oracle. A store operation is wrapped in a bounded retry
(pkg/retry: Fibonacci back-off from 50 ms, 5 s budget): it fails only if the fault outlasts the budget (`true` below = the operation
fails for good); transient faults are absorbed and do not appear. Lock acquisition is NOT retried on errors other than "not obtained".
Anchors: session_manager.go (GetOrRefresh, Refresh, update, deleteForKey), session_reader.go (getForTicket), retry/retry.go,
handler.go (Logout, LogoutLocal, LogoutFrontChannel), reverseproxy.go.
-/
namespace Ww.Model
open Ww.Gen

structure Faults where
  read : Bool := false        -- the first lookup (Get) fails for good
  lock : Bool := false        -- lock acquisition answers an error
  reread : Bool := false      -- the re-read under the lock fails for good
  update : Bool := false      -- the write-back fails for good
  del : Bool := false         -- the delete fails for good
  deriving Repr, DecidableEq

def getSessF (f : Bool) (ck : CookieSt) (st : StoreSt) (now : Int) : GetRes :=
  match ck with
  | .valid => if f then ⟨some .other, none⟩ else getSess ck st now
  | _ => getSess ck st now       -- no store access without a ticket

/-- session_manager.go:Refresh under faults -/
def refreshF (cfg : Cfg) (fl : Faults) (d : Data) (st : StoreSt) (plan : IdpPlan) (newAt newRt : String) (now : Int) : RefreshRes :=
  if !canRefresh d now then ⟨none, some d, st, false, false⟩
  else if fl.lock then ⟨some .other, none, st, false, false⟩
  else
    let r := getSessF fl.reread .valid st now
    match r.err, r.sess with
    | some e, _ => ⟨some e, none, st, false, false⟩
    | none, none => ⟨some .other, none, st, false, false⟩
    | none, some d2 =>
      if !canRefresh d2 now then ⟨none, some d2, st, false, false⟩
      else match plan with
        | .clientErr => ⟨some .invalidExternal, none, st, true, false⟩
        | .serverErr => ⟨some .other, none, st, true, false⟩
        | .broken => ⟨some .other, none, st, true, false⟩
        | .ok secs =>
          if fl.update then ⟨some .other, none, st, true, true⟩            -- granted at the provider, but not stored
          else
            let d' := applyGrant cfg d2 newAt newRt secs now
            ⟨none, some d', .present d', true, true⟩

def getOrRefreshF (cfg : Cfg) (fl : Faults) (ck : CookieSt) (st : StoreSt) (plan : IdpPlan) (newAt newRt : String) (now : Int) : RefreshRes :=
  let g := getSessF fl.read ck st now
  match g.err, g.sess with
  | some e, _ => ⟨some e, none, st, false, false⟩
  | none, none => ⟨some .other, none, st, false, false⟩
  | none, some d =>
    if !shouldRefresh d now then ⟨none, some d, st, false, false⟩
    else
      let r := refreshF cfg fl d st plan newAt newRt now
      match r.err with
      | none => r
      | some e =>
        if e = .invalidExternal || e.isInvalid then { r with sess := none }
        else { r with err := none, sess := some d }     -- "falling back to existing tokens"

def getSessionF (cfg : Cfg) (fl : Faults) (ck : CookieSt) (st : StoreSt) (plan : IdpPlan) (newAt newRt : String) (now : Int) : RefreshRes :=
  if cfg.mode = .ssoProxy || cfg.autoRefreshDisabled then
    let g := getSessF fl.read ck st now
    match g.err with
    | some e => ⟨some e, none, st, false, false⟩
    | none => ⟨none, g.sess, st, false, false⟩
  else getOrRefreshF cfg fl ck st plan newAt newRt now

def proxyF (cfg : Cfg) (fl : Faults) (ck : CookieSt) (st : StoreSt) (plan : IdpPlan) (newAt newRt : String) (ignored : Bool) (now : Int) : ProxyObs :=
  let g := getSessionF cfg fl ck st plan newAt newRt now
  match g.err, g.sess with
  | none, some d =>
    match accessToken d now with
    | some t =>
      if cfg.acr = "" || acrValid cfg.acr d.Acr then
        ⟨true, true, some t, if cfg.includeIdToken then some d.IDToken else none, g.store, g.contacted, g.granted⟩
      else proxyUnauth cfg ignored g
    | none => proxyUnauth cfg ignored g
  | _, _ => proxyUnauth cfg ignored g

def sessionRefreshF (cfg : Cfg) (fl : Faults) (ck : CookieSt) (st : StoreSt) (plan : IdpPlan) (newAt newRt : String) (now : Int) : EndpointObs :=
  let g := getSessF fl.read ck st now
  match g.err, g.sess with
  | some e, _ => ⟨statusOfErr e, st, false, false, none⟩
  | none, none => ⟨500, st, false, false, none⟩
  | none, some d =>
    let r := refreshF cfg fl d st plan newAt newRt now
    match r.err with
    | some e => ⟨if e = .invalidExternal || e.isInvalid || e = .notFound then 401 else 500, r.store, r.contacted, r.granted, none⟩
    | none => ⟨200, r.store, r.contacted, r.granted, r.sess⟩

def forwardAuthF (cfg : Cfg) (fl : Faults) (ck : CookieSt) (st : StoreSt) (plan : IdpPlan) (newAt newRt : String) (now : Int) : EndpointObs :=
  if !cfg.forwardAuth then ⟨404, st, false, false, none⟩
  else
    let g := getSessionF cfg fl ck st plan newAt newRt now
    match g.err with
    | some e => ⟨statusOfErr e, g.store, g.contacted, g.granted, none⟩
    | none => ⟨204, g.store, g.contacted, g.granted, none⟩

def sessionInfoF (fl : Faults) (ck : CookieSt) (st : StoreSt) (now : Int) : EndpointObs :=
  let g := getSessF fl.read ck st now
  match g.err, g.sess with
  | none, some d => ⟨200, st, false, false, some d⟩
  | some .inactive, some d => ⟨200, st, false, false, some d⟩
  | some e, _ => ⟨statusOfErr e, st, false, false, none⟩
  | none, none => ⟨500, st, false, false, none⟩

inductive LogoutKind where
  | local_ | global | frontchannel
  deriving Repr, DecidableEq

/-- (status, store afterwards). handler.go: Logout / LogoutLocal look the session up, delete it when found, and answer; a lookup that fails for a
    reason other than "not found" / "invalid" is an error, as is a failing delete. Front-channel logout deletes by sid and answers 202 when it could not. -/
def logoutF (k : LogoutKind) (fl : Faults) (ck : CookieSt) (st : StoreSt) (now : Int) : Nat × StoreSt :=
  match k with
  | .frontchannel => if fl.del then (202, st) else (200, .absent)
  | _ =>
    let ok := if k = .local_ then 204 else 302
    let g := getSessF fl.read ck st now
    match g.err, g.sess with
    | some .other, _ => (500, st)                  -- the lookup itself failed: report an error, do not claim success
    | _, some _ => if fl.del then (500, st) else (ok, .absent)
    | _, none => (ok, st)

end Ww.Model
