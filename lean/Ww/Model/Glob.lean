import Ww.Model.Path
/-!
# doublestar.Match for the pattern alphabet {literal, `*`, `**`, `/`} and the auto-login decision

Anchors: github.com/bmatcuk/doublestar/v4 `Match` (modelled, tied differentially), pkg/handler/autologin/autologin.go.
-/
namespace Ww.Model

def star : Char := '*'
def globstar : Seg := ['*', '*']

/-- one pattern segment against one name segment: `*` matches any (possibly empty) run of characters of the segment -/
def segMatch : List Char → List Char → Bool
  | [], n => n.isEmpty
  | c :: p, n =>
    if c = '*' then (suffixes n).any (segMatch p)
    else match n with
      | [] => false
      | d :: n' => c == d && segMatch p n'

/-- whole patterns: a segment that is exactly `**` matches zero or more whole segments -/
def globMatch : List Seg → List Seg → Bool
  | [], n => n.isEmpty
  | p :: ps, n =>
    if p = globstar then (suffixes n).any (globMatch ps)
    else match n with
      | [] => false
      | s :: ns => segMatch p s && globMatch ps ns

/-- doublestar.Match(pattern, name) on strings -/
def matchStr (pattern name : List Char) : Bool := globMatch (splitSlash pattern) (splitSlash name)

/-- characters with a meaning in doublestar beyond this model's alphabet -/
def outsideAlphabet (p : List Char) : Bool := p.any fun c => c = '?' || c = '[' || c = ']' || c = '{' || c = '}' || c = '\\'

/-- doublestar v4.8.1 decides "name exhausted, is the rest of the pattern empty-matching?" by comparing the rest with six literal forms, so a
    few nullable tails (`***`, `x*/**`, `/**/**`, a trailing `/`) do not match the empty remainder although `*`/`**` could. Those pattern
    shapes are outside the modelled contract (DESIGN Appendix C); the correspondence check skips them. -/
def threeStars : List Char → Bool
  | '*' :: '*' :: '*' :: _ => true
  | _ :: cs => threeStars cs
  | [] => false

def quirkySegs : List Seg → Bool
  | p :: q :: rest => (q = globstar && (p.getLast? = some '*')) || quirkySegs (q :: rest)
  | _ => false

def wellBehaved (pattern : List Char) : Bool :=
  !outsideAlphabet pattern && !threeStars pattern && !quirkySegs (splitSlash pattern) && !(pattern.getLast? = some '/' && pattern ≠ ['/'])

/-- same quirk seen from the name side: a name whose last segment is empty (a trailing slash, or "/" itself) is exhausted right after its last
    slash; the pattern's tail is then compared literally. The contract is modelled only for tails `lit/`, `lit/*`, `lit/**`. -/
def tailOkForTrailingSlash (pattern : List Char) : Bool :=
  match (splitSlash pattern).reverse with
  | last :: prev :: _ => (!last.contains '*' || last = ['*'] || last = globstar) && !prev.contains '*'
  | _ => true

def inContract (pattern name : List Char) : Bool :=
  wellBehaved pattern && (name.getLast? ≠ some '/' || tailOkForTrailingSlash pattern)

/-- autologin.New: drop empty patterns, trim one trailing slash (except "/"), de-duplicate; defaults first -/
def trimTrailingSlash (p : List Char) : List Char :=
  if p = ['/'] then p else if p.getLast? = some '/' then p.dropLast else p

def defaultIgnore : List (List Char) := ["/favicon.ico".toList, "/robots.txt".toList]

def normPatterns (ps : List (List Char)) : List (List Char) :=
  ((defaultIgnore ++ ps).filter (· ≠ [])).map trimTrailingSlash |>.eraseDups

/-- the path NeedsLogin matches on: ensure a leading slash, then path.Clean -/
def loginPath (urlPath : List Char) : List Char :=
  cleanRootedStr (match urlPath with | '/' :: _ => urlPath | _ => '/' :: urlPath)

/-- autologin.go: NeedsLogin -/
def needsLogin (enabled : Bool) (patterns : List (List Char)) (urlPath : List Char) (isAuthenticated : Bool) : Bool :=
  if isAuthenticated || !enabled then false
  else !(patterns.any fun p => matchStr p (loginPath urlPath))

end Ww.Model
