# Per-property configuration of bin/check: proof modules, harness drivers, reason-code prefixes, evidence rules.

TRUSTED_COMMON = [
    "Lean 4.33.0 kernel; axioms of every property theorem audited on each run to be within {propext, Classical.choice, Quot.sound}",
    "no sorry/admit/axiom/native_decide/bv_decide/implemented_by/unsafe in any Lean source (grep on each run)",
    "/verif/extract (Go go/ast translator + table extractor): regenerates lean/Ww/Gen from /repo's working tree on each run",
    "/verif/harness (Go, compiled into the wonderwall module by -overlay) and lean/Driver.lean (line-protocol oracle): correspondence check",
]

def _meta_nontrivial(f):
    return any(f.get(k) == '1' for k in ('isEnded', 'isExpired', 'isTimedOut', 'onCooldown', 'shouldRefresh')) or f.get('validate', '-') != '-'

META_CLASS = {'meta': ['isEnded', 'isExpired', 'isTimedOut', 'onCooldown', 'shouldRefresh', 'validate', 'access', 'refresh', 'vActive', 'vCooldown', 'hasActive'],
              'mrefresh': ['secs', 'inact'], 'mnew': ['expiresIn', 'inact']}

PROPS = {
    'C08': {
        'proofs': ['Ww.Proofs.C08'],
        'gen_sections': ['Meta', 'Consts', 'pkg/session/data.go'],
        'drivers': [{'name': 'meta'}],
        'reasons': ['C08.'],
        'class_fields': META_CLASS,
        'nontrivial': {'meta': _meta_nontrivial},
        'rule': "meta driver: boundary grid {refreshed,cooldown,half-life,expiry-5min,expiry,timeout,end} x {-1s,-1ns,0,+1ns,+1s} x 14 token lifetimes x 5 inactivity "
                "settings x 4 session ages, plus seeded random placements; distinct = distinct vector of predicate results; non-trivial = at least one predicate true",
        'level_text': "Proof: the refresh-schedule rules (refresh once expired, never during cooldown, never before expiry-5min / half-life, cooldown <= 1 min and never outlasting the token, "
                      "refresh opportunity before expiry, metadata endpoint fields) are Lean theorems, for every metadata record and every clock value, over definitions that are machine-translated from "
                      "pkg/session/data.go on each run; the translation is validated on a synctest boundary grid and the Spec is evaluated on the implementation's own answers.",
        'level_note': "Trusted: Lean kernel, the data.go translator (validated differentially every run), one clock reading per method (H-CLOCK), no int64 overflow. Mode wiring (which handlers may refresh) is checked by the handler-level drivers, see DESIGN.",
        'technique': 'Lean 4 proof (omega/simp over Int) on definitions regenerated from data.go + synctest differential grid',
        'trusted': ["H-CLOCK: one clock reading per method evaluation; no int64 overflow; float64 Duration.Seconds() modelled as truncating division"],
        'assumptions': ["H-CLOCK", "Go time.Time/Duration arithmetic modelled as unbounded Int nanoseconds (translator rule, validated by the synctest grid)"],
    },
}
