# Per-property configuration of bin/check: proof modules, harness drivers, reason-code prefixes, evidence rules.

TRUSTED_COMMON = [
    "Lean 4.33.0 kernel; axioms of every property theorem audited on each run to be within {propext, Classical.choice, Quot.sound}",
    "no sorry/admit/axiom/native_decide/bv_decide/implemented_by/unsafe in any Lean source (grep on each run)",
    "/verif/extract (Go go/ast translator + table extractor): regenerates lean/Ww/Gen from /repo's working tree on each run",
    "/verif/harness (Go, compiled into the wonderwall module by -overlay) and lean/Driver.lean (line-protocol oracle): correspondence check",
]

def _meta_nontrivial(f):
    return any(f.get(k) == '1' for k in ('isEnded', 'isExpired', 'isTimedOut', 'onCooldown', 'shouldRefresh')) or f.get('validate', '-') != '-'

META_CLASS = {'meta': ['isEnded', 'isExpired', 'isTimedOut', 'onCooldown', 'shouldRefresh', 'validate', 'access', 'refresh', 'vActive', 'vCooldown', 'hasActive'],
              'mrefresh': ['secs', 'inact'], 'mnew': ['expiresIn', 'inact']}

HIST_CLASS = {'hstep': ['mode', 'cfwd', 'op', 'ck', 'st', 'plan', 'status', 'fwd', 'upauth', 'contacted', 'granted', 'pst', 'idtok', 'autologin', 'ignored'],
              'hafter': ['op', 'lstatus', 'deleted', 'status', 'upauth'], 'hstart': ['mode']}
HIST_CLASS['lockwait'] = ['handler', 'what', 'status', 'contacted', 'upauth', 'exists']
HIST_CLASS['memlock'] = ['n']
HIST_CLASS['lease'] = ['handler', 'unlock', 'status', 'lockleft', 'latecmds']
HIST_CLASS['mixedcfg'] = ['handler', 'idlemin', 'status', 'contacted', 'upauth']
HIST_NT = {'hstep': lambda f: f.get('ck') != '0', 'hstart': lambda f: False}
LOCKWAIT_RULE = (" lockwait driver: a refreshing request (manual refresh, proxied request, forward-auth) waits for the refresh lock held by another replica while the session "
                 "passes its inactivity timeout / its end / is logged out / nothing happens; after the lock is released the request must judge the re-read session again (no provider contact, no token, 401). ")
HIST_RULE = ("hist driver: seeded random histories (login, proxied request with forged headers, session info, manual refresh, forward-auth, three logout variants, "
             "cookie/store tampering, provider answers ok/4xx/5xx/garbage, time shifts aimed at cooldown/leeway/expiry/timeout/end) over 135 configurations "
             "(mode x forward-auth x inactivity x ACR x token lifetime); distinct = (mode, op, cookie state, store state, provider plan, status, forwarded, token written, provider contacted, post state); "
             "non-trivial = a session cookie was presented. ")

MANAGER_SECTIONS = ['Manager/' + n for n in ('create', 'delete', 'deleteForExternalID', 'getOrRefresh', 'refresh', 'deleteForKey', 'update', 'acquireLock', 'readerGet', 'getForTicket', 'redisRead', 'redisWrite', 'redisUpdate', 'redisDelete', 'redisMakeLock', 'memoryUpdate', 'memoryMakeLock', 'redisLockAcquire', 'redisLockRelease', 'retryFibonacci', 'retryDo', 'retryDoValue')] + \
    ['pkg/session/session_manager.go', 'pkg/session/session_reader.go', 'pkg/session/store_redis.go', 'pkg/session/store_memory.go', 'pkg/session/lock.go']
HANDLER_SECTIONS = ['Handlers/' + n for n in ('getSession', 'logout', 'logoutLocal', 'logoutCallback', 'logoutFrontChannel', 'sessionInfo', 'sessionRefresh', 'sessionForwardAuth', 'handleGetSessionError', 'loginCallback', 'proxyGetSession', 'proxyHandler', 'getSessionWithValidToken', 'handleAutologin', 'proxyRewrite', 'proxyErrorHandler', 'newUpstreamProxy', 'mwWithAccessToken', 'mwAccessTokenFrom', 'mwWithIdToken', 'mwIdTokenFrom', 'proxyGetSSOServerURL', 'proxyLogin', 'proxyLoginCallback', 'proxyLogout', 'proxyLogoutCallback', 'proxyLogoutFrontChannel', 'proxyLogoutLocal', 'proxySession', 'proxySessionRefresh', 'proxySessionForwardAuth', 'proxyWildcard', 'serverLogout', 'serverLogoutFrontChannel', 'serverLogoutLocal', 'serverWildcard', 'clientLoginCallback', 'issuerIdentification', 'redeemTokens', 'stateMismatchError', 'getCookieOptions', 'login', 'applyLoginRateLimit', 'respondError', 'retryURI', 'newStandaloneRedirect', 'standaloneCanonical', 'standaloneClean', 'standaloneFallback', 'newSSOServerRedirect', 'ssoServerCanonical', 'ssoServerClean', 'newSSOProxyRedirect', 'ssoProxyCanonical', 'ssoProxyClean', 'ssoProxyFallback', 'cleanRedirect', 'redirectQueryParam', 'fallbackRedirect', 'absoluteIsValid', 'relativeIsValid', 'parsableRequestURI', 'isAllowedHost', 'isValidScheme', 'isRelativeURL', 'isValidAbsolutePath', 'isAllowedDomain', 'acrHandlerValidate', 'acrNewHandler', 'matchingIngress', 'matchingPath', 'parseIngress', 'mustScheme', 'clientLogin', 'newAuthorizationCodeParams', 'authCodeURL', 'loginSetCookie', 'authRequestParams', 'authCookie', 'parRequestParams')] + \
    ['pkg/handler/handler.go', 'pkg/handler/handler_sso_proxy.go', 'pkg/handler/handler_sso_server.go', 'pkg/handler/reverseproxy.go', 'pkg/openid/client/login_callback.go', 'pkg/openid/oauth2.go', 'pkg/handler/error.go', 'pkg/url/redirect.go', 'pkg/url/validator.go', 'pkg/handler/acr/acr.go', 'pkg/ingress/ingress.go', 'pkg/openid/client/login.go']
ENVELOPE_SECTIONS = ['Envelope/' + n for n in ('newCrypter', 'encryptionKeyOrGenerate', 'crypterEncrypt', 'crypterDecrypt', 'cookieEncrypt', 'cookieDecrypt', 'cookieGet', 'cookieGetDecrypted', 'cookieEncryptAndSet', 'cookieSet', 'newTicket', 'ticketCrypter', 'ticketKey', 'ticketSetCookie', 'getTicket', 'encryptedDataDecrypt', 'dataEncrypt', 'dataValidate', 'sessionEncrypt', 'sessionKey', 'sessionSetCookie', 'sessionAccessToken', 'newSession')]
PROVIDER_SECTIONS = ['Provider/' + n for n in ('newTokens', 'parseIDToken', 'idTokenValidate', 'idTokenClaim', 'idTokenStringClaim', 'idTokenSid', 'idTokenAcr', 'authCodeGrant', 'refreshGrant', 'clientAuthenticationParams', 'makeAssertion', 'oauthPostRequest', 'newLogout', 'singleLogoutURL', 'logoutSetCookie', 'newLogoutCallback', 'postLogoutRedirectURI', 'logoutStateMismatchError', 'newLogoutFrontchannel', 'frontchannelSid', 'frontchannelMissingSid', 'jwksGet', 'jwksRefresh', 'newJwksProvider', 'keySetMutator', 'ingressMiddleware', 'autologinNew', 'sidClaimRequired', 'sessionStateRequired', 'issParameterSupported', 'providerIssuer', 'providerJwksURI', 'providerTokenEndpoint', 'supportedContains', 'trustedAudiences', 'clientAudiences', 'clientClientID')]
STARTUP_SECTIONS = ['Startup/' + n for n in ('mainRun', 'mainStandalone', 'mainSsoServer', 'mainSsoProxy', 'configValidate', 'validateUpstream', 'cookieCfgValidate', 'sameSiteValidate', 'ssoValidate', 'openidCfgValidate', 'providerValidate', 'providerValidateAcr', 'providerValidateLocale', 'providerValidateAlg', 'newClientConfig', 'newOpenidConfig', 'newProviderConfig', 'parseIngresses', 'newStore', 'configInitialize', 'newStandalone', 'newSSOProxy', 'newSSOServer', 'newManager', 'newReader')]
HELPER_SECTIONS = ['Helpers/' + n for n in ('paramsWith', 'paramsAuthCodeOptions', 'paramsURLValues', 'exchangeParams', 'refreshGrantParams', 'clientAuthSecretParams', 'clientAuthJwtBearerParams', 'getLoginCookie', 'getLogoutCookie', 'externalID', 'getSessionStateFrom', 'managerKey', 'lockKey', 'newRedisLock', 'memoryRead', 'memoryWrite', 'memoryDelete', 'memoryLockAcquire', 'memoryLockRelease', 'urlLoginCallback', 'urlLogoutCallback', 'makeCallbackURL', 'urlMatchingIngress', 'urlMatchingPath', 'urlLoginRelative', 'getRetryAttempts', 'defaultErrorResponse', 'standaloneWildcard', 'handlerGetPath', 'removeMiddlewareHeaders', 'disallowNonNavigational', 'generateBase64', 'generateBytes', 'configureCookieNames', 'setLegacyCookie', 'clearLegacyCookies')]
HANDLER_TIE = (" Every control-flow path through the real logout / session / reverse-proxy handlers is enumerated from a statement-by-statement translation regenerated on each run (Gen/Handlers) and "
               "the kernel decides, over ALL paths, what the handler model assumes (Proofs/GenTie/Handlers): success answers only after the lookup-error guard and the delete, cookies cleared with the request's options first, "
               "the upstream token set only when the validated lookup and the ACR gate passed, and always then.")
MANAGER_TIE = (" The order lock -> re-read -> re-check -> grant (presenting the RE-READ token) -> write-back -> release, the lock around session creation, the one-command store update (SET XX KEEPTTL) and the error classes "
               "that the model assumes are read off a statement-by-statement translation of session_manager.go / session_reader.go / store_*.go regenerated on every run (Gen/Manager) and decided by the kernel (Proofs/GenTie/C07).")
SCHED_RULE = ("sched driver: 2-3 concurrent requests on one session (manual refresh, proxied request with refresh due, session info, logout, local logout, front-channel logout, and the callback of a NEW login that the provider gives the same sid = same store key), each on its own replica over one miniredis, "
              "executed under explicit schedules: all schedules with at most two preemptions of 9 process pairs (A runs i steps, B runs j, then round-robin), random 3-process schedules, crash at every step of the refresher, "
              "and the in-memory store with the provider call as scheduling point; distinct = (store, processes, executed trace); non-trivial = more than one process actually interleaves.")

def _merge(*ds):
    out = {}
    for d in ds:
        out.update(d)
    return out

PROPS = {
    'C01': {
        'proofs': ['Ww.Proofs.C01', 'Ww.Proofs.GenTie.C01', 'Ww.Proofs.GenTie.Handlers', 'Ww.Proofs.GenTie.Ingress', 'Ww.Proofs.GenTie.Grant', 'Ww.Proofs.GenTie.ProxyHeaders', 'Ww.Proofs.GenTie.C07'],
        'gen_sections': HANDLER_SECTIONS + ['Meta', 'pkg/session/data.go', 'Dec/acrValidate', 'pkg/openid/acr/acr.go', 'Dec/sessionCanRefresh', 'Dec/sessionShouldRefresh', 'Dec/sessionYieldsToken', 'Dec/acrValidate', 'pkg/session/session.go'] + PROVIDER_SECTIONS + MANAGER_SECTIONS,
        'drivers': [{'name': 'hist'}, {'name': 'meta'}, {'name': 'fault', 'timeout': 1500}],
        'reasons': ['C01.'],
        'class_fields': _merge(META_CLASS, HIST_CLASS, {'fault': ['handler', 'prestate', 'fpos', 'fkind', 'fcount', 'status', 'upauth'], 'faultdry': ['handler', 'prestate']}),
        'nontrivial': _merge({'meta': _meta_nontrivial}, HIST_NT, {'faultdry': lambda f: False}),
        'rule': HIST_RULE + "meta driver as for C08. fault driver as for C11 (a fault at every store / provider position of every handler): the token the upstream receives must be one the stored session held before or holds after the request.",
        'level_text': "Proof: soundness (a token reaches the upstream only for a decryptable ticket whose stored session is live, unexpired, of sufficient ACR, and it is that session's current token, "
                      "also right after an automatic refresh), completeness (such a session always gets its token set, replacing client values) and the no-session corollary are Lean theorems about the "
                      "handler model for EVERY cookie/store state, provider answer, configuration and clock value; the time predicates inside are regenerated from data.go on each run; the hand-written "
                      "handler model is tied to the real handlers by per-step differential histories in all three modes, and the Spec is evaluated on every implementation step." + HANDLER_TIE +
                      " Client.RefreshGrant and the back-channel POST are translated on every run (Gen/Provider): a refresh answer is accepted on one path only (authenticated POST of the caller's refresh token to the token endpoint, body parsed, access token present); 4xx is a client error, 5xx a server error, a body is handed on only from a non-error answer." +
                      " The Rewrite function of the reverse proxy and the context helpers are translated on every run (Gen/Handlers: proxyRewrite, mw*): authorization is SET (replacing the client's) to \"Bearer \" + the token found in the inbound request's context iff there is one, the ID-token header likewise, nothing else is set, added or deleted.",
        'level_note': "Trusted: Lean kernel; AEAD authenticity (a ciphertext that decrypts under a key was produced under it); one clock reading per request; httputil.ReverseProxy header handling "
                      "(exercised with forged / hop-by-hop headers); hand-written model of session_manager/reverseproxy tied only by differential runs.",
        'technique': 'Lean 4 proof over handler model (decision logic) + regenerated time predicates + differential histories',
        'trusted': ["H-AEAD, H-CLOCK; Ww.Model.Sys hand-written from session_reader.go/session_manager.go/reverseproxy.go/handler.go, tied by the hist driver"],
        'assumptions': ["H-AEAD", "H-CLOCK"],
    },
    'C02': {
        'proofs': ['Ww.Proofs.C02', 'Ww.Proofs.GenTie.Handlers', 'Ww.Proofs.GenTie.C02', 'Ww.Proofs.GenTie.HelpersAuth', 'Ww.Proofs.GenTie.ProviderCfg'],
        'gen_sections': HANDLER_SECTIONS + [] + HELPER_SECTIONS + PROVIDER_SECTIONS,
        'drivers': [{'name': 'c02'}],
        'reasons': ['C02.'],
        'class_fields': {},
        'nontrivial': {'cb': lambda f: f.get('kind') != 'absent' or f.get('calls') != '0'},
        'rule': "c02 driver: callback lattice {login cookie: own, absent, empty, not base64, truncated, bit-flipped, other key, other attempt's, LOGOUT cookie's ciphertext, SESSION cookie's ciphertext, plaintext JSON} x "
                "{state: equal, absent, empty, other attempt's, garbage, the presented cookie's} x {code: valid, absent, empty, other attempt's} x {error} x {iss: absent, equal, different} x {iss supported}; "
                "quick = all single and pairwise deviations + a sample of higher ones, thorough = full product; fresh login attempts per case (two interleaved attempts). distinct = lattice point; non-trivial = a cookie was presented or the provider was called.",
        'level_text': "Proof: for every cookie condition and every query, the callback model makes a back-channel call only if the cookie is authentic AND was minted by Login (a logout or session ciphertext decodes "
                      "to an incomplete LoginCookie and is refused), there is no error parameter, state is present and equal to the cookie's, iss equals the issuer when advertised - and the call carries exactly the "
                      "cookie's verifier and redirect URI; otherwise no call is made. The model is tied to the real handler by the full lattice; the Spec is evaluated on the provider's request log and the store key set." + HANDLER_TIE,
        'level_note': "Trusted: Lean kernel; AEAD authenticity (an authentic ciphertext was produced by one of this deployment's three EncryptAndSet sites); encoding/json struct decoding rule (modelled in Minted.asLoginCookie, tied by the cookie-swap cases); ID-token checks are C03.",
        'technique': 'Lean 4 proof of the decision chain (cookie-type reasoning under symbolic AEAD) + exhaustive lattice correspondence against the real callback handler',
        'trusted': ["H-AEAD", "encoding/json decoding rule"],
        'assumptions': ["H-AEAD"],
    },
    'C03': {
        'proofs': ['Ww.Proofs.C03', 'Ww.Proofs.GenTie.C03', 'Ww.Proofs.GenTie.C02', 'Ww.Proofs.GenTie.Tokens', 'Ww.Proofs.GenTie.Jwks', 'Ww.Proofs.GenTie.ProviderCfg'],
        'gen_sections': HANDLER_SECTIONS + ['Dec/acrValidate', 'pkg/openid/acr/acr.go'] + PROVIDER_SECTIONS,
        'drivers': [{'name': 'c03'}],
        'reasons': ['C03.'],
        'class_fields': {},
        'nontrivial': {},
        'rule': "c03 driver: the provider mints really signed tokens (RS256 by the published key, by an unpublished key, alg=none, HS256 keyed with the public modulus, garbage signature, no id_token) x iss x 7 aud shapes x exp/iat/nbf "
                "around the 5 s skew x nonce x sub x sid x acr, under 4 configurations (sid required, ACR configured / requested level, extra trusted audience, JWKS with and without alg, fetched over HTTP through the real "
                "JwksProvider); base point + all single deviations + pairwise deviations (sampled in quick, all in thorough) + random points; each through the REAL callback; distinct = lattice point x config. Plus, per configuration, a CONCURRENT phase at function level: one really signed token validated at the same time by workers whose login cookie "
                "carries its nonce (accept), another attempt's nonce (reject) or a higher requested level (reject): each decision must be the sequential one, whatever is validated beside it.",
        'level_text': "Proof: acceptIdToken = true implies every listed check (signature under a published key with that key's algorithm, so never none / symmetric-with-public; iss; aud contains client and no untrusted extra; "
                      "exp/iat/nbf within skew; nonce; sub; sid when required; acr present and at least the requested level, with the order substantial <= high and legacy names proved) - for every token, configuration and clock value. "
                      "The decision model is tied to the real callback (jwx verify/validate included) on the lattice; the Spec is evaluated on 'was a session created'." +
                      " IDToken.Validate, NewTokens and ParseIDToken are translated statement by statement on every run (Gen/Provider) and every ACCEPTING control-flow path is shown to have verified the signature under the key set first, built the validator options once (required iss/sub/aud/exp/iat, issuer, client id audience, THIS cookie's nonce, skew), added 'sid required' iff advertised and 'acr required' iff configured, compared acr with the cookie's level when present, passed jwt.Validate and found no untrusted extra audience; tokens exist only behind Validate(cfg, cookie, jwks).",
        'level_note': "Trusted: Lean kernel; RSA/JWS and the jwx parser and validator (their accept/reject contract is what the lattice differential-tests, incl. alg confusion); the JWKS cache; AcceptableSkew read as 5 s (Gen.Consts). acr.Validate is machine-translated from acr.go on each run and the model's acrAccepts is PROVED equal to it (Ww.Proofs.GenTie.C03).",
        'technique': 'Lean 4 proof of the acceptance decision + really-signed fault lattice through the real callback',
        'trusted': ["H-JWS", "jwx v2.1.4 verify/validate contract (Appendix C)"],
        'assumptions': ["H-JWS"],
    },
    'C05': {
        'proofs': ['Ww.Proofs.C05', 'Ww.Proofs.GenTie.C07', 'Ww.Proofs.GenTie.Handlers', 'Ww.Proofs.GenTie.LogoutSrc', 'Ww.Proofs.GenTie.HelpersSession'],
        'gen_sections': HANDLER_SECTIONS + MANAGER_SECTIONS + PROVIDER_SECTIONS + HELPER_SECTIONS,
        'drivers': [{'name': 'sched'}, {'name': 'hist'}, {'name': 'cook'}, {'name': 'lockwait'}],
        'reasons': ['C05.'],
        'class_fields': _merge(HIST_CLASS, {'sched': ['store', 'procs', 'crash', 'trace', 'statuses', 'exists'], 'jar': ['after', 'status', 'names', 'sso'], 'setcookie': ['op', 'class', 'clear', 'path', 'domain']}),
        'nontrivial': _merge(HIST_NT, {'sched': lambda f: ',' in f.get('schedule', ''), 'jar': lambda f: f.get('after') != 'callback', 'setcookie': lambda f: False, 'cookieval14': lambda f: False,
                                       'retrychain': lambda f: False, 'retryreset': lambda f: False, 'ratelimit': lambda f: False}),
        'rule': SCHED_RULE + " hist driver: every logout variant is followed by a request with the old cookie. cook driver: the jar of an RFC 6265 browser after each logout variant in 8 configurations (ingress with path prefix, SSO domain spellings) - the session cookie must be gone.",
        'level_text': "Proof: in the small-step model (one transition = one store command / lock script / provider call of one process; any number of refreshing, reading and logging-out processes and of new logins landing on the same store key; any schedule; crashes) a deleted "
                      "session entry never becomes readable with the old cookie again (the refresh write-back is update-only-if-present in ONE step, and a new login writes only under the refresh lock, so a write-back cannot land on it), so for every schedule pre ++ [delete of a logout] ++ post nothing the old cookie can read exists at the end and at every later moment; "
                      "a request that had not reached the provider by then never does. The model is tied to the real handlers step by step by executing explicit schedules on real replicas over one miniredis (pre-hook = scheduling point)." + MANAGER_TIE + HANDLER_TIE +
                      " The logout helpers are translated on every run (Gen/Provider): the logout callback's target is the cookie's redirect only with a logout cookie, matching state and an accepting validator, else the operator's post-logout URI, else the ingress, else '/'; the end-session URL carries this deployment's callback URL and the fresh state; front-channel logout names the session by the sid parameter alone.",
        'level_note': "Trusted: Lean kernel; Redis command atomicity and redislock scripts (through miniredis); one store command is one atomic step (goroutine scheduling inside a command is not observable); cookie clearing is C14.",
        'technique': 'Lean 4 inductive invariant over an interleaving model (unbounded processes and schedule length) + deterministic schedule executor on real replicas',
        'trusted': ["Redis/miniredis command semantics (Appendix C)", "H-AEAD"],
        'assumptions': ["store commands are atomic steps"],
    },
    'C07': {
        'proofs': ['Ww.Proofs.C07', 'Ww.Proofs.GenTie.C07', 'Ww.Proofs.GenTie.Grant', 'Ww.Proofs.GenTie.HelpersAuth', 'Ww.Proofs.GenTie.HelpersSession', 'Ww.Proofs.MemLock'],
        'gen_sections': MANAGER_SECTIONS + PROVIDER_SECTIONS + HELPER_SECTIONS,
        'drivers': [{'name': 'sched'}, {'name': 'fault', 'timeout': 1500}, {'name': 'hist'}, {'name': 'memlock'}],
        'reasons': ['C07.'],
        'class_fields': _merge(HIST_CLASS, {'sched': ['store', 'procs', 'crash', 'trace', 'statuses', 'exists'], 'fault': ['handler', 'prestate', 'fpos', 'fkind', 'fcount', 'status', 'contacted'], 'faultdry': ['handler', 'prestate']}),
        'nontrivial': _merge(HIST_NT, {'sched': lambda f: ',' in f.get('schedule', ''), 'fault': lambda f: f.get('fkind', '').startswith('idp'), 'faultdry': lambda f: False}),
        'rule': SCHED_RULE + " fault driver (as C11): provider faults at the grant, incl. an answer LOST in transit after the provider processed the grant - the number of times the refresh token is sent is counted.",
        'level_text': "Proof: inductive invariant (7 fields) over the small-step model for any number of processes and any schedule: mutual exclusion between lock and unlock; under the lock the re-read token is the provider's current one; "
                      "hence every presentation is a grant, the presented generations are strictly increasing - no refresh token is presented twice - and the stored pair is the provider's current pair whenever nobody is in the critical section; at most one grant per schedule (one_refresh) and, by a range invariant over every token generation "
                      "in the state, every proxied request hands the upstream the previous or the new token and nothing else (served_previous_or_new), new logins on the same key included. "
                      "Within the lock lease and crash-free (the property's proviso). Tied step by step on Redis; on the in-memory store the provider log and the statuses are checked by the Spec (the provider call is its only scheduling point)." + MANAGER_TIE +
                      " Client.RefreshGrant and the back-channel POST are translated on every run (Gen/Provider): a refresh answer is accepted on one path only (authenticated POST of the caller's refresh token to the token endpoint, body parsed, access token present); 4xx is a client error, 5xx a server error, a body is handed on only from a non-error answer." +
                      " The in-memory lock is modelled (Model/MemLock) and proved exclusive over every reachable state, obtainable at once after its lease ran out and released only by its holder; its Go statements are regenerated and compared with the model's shape, and random acquire/release histories of the real lock are replayed on the model (memlock driver).",
        'level_note': "Trusted: Lean kernel; redislock obtain/release = SET NX PX / delete-if-token (modelled as one step each, tied by the executor); lease not expiring while held (H-LEASE); the cooldown outlasts a schedule (schedules run in milliseconds).",
        'technique': 'Lean 4 inductive invariant (grind) over an interleaving model + deterministic schedule executor; provider-side presentation log as observation',
        'trusted': ["H-LEASE", "redislock contract"],
        'assumptions': ["H-LEASE"],
    },
    'C10': {
        'proofs': ['Ww.Proofs.C10', 'Ww.Proofs.GenTie.C07', 'Ww.Proofs.GenTie.HelpersSession', 'Ww.Proofs.MemLock'],
        'gen_sections': ['Consts'] + MANAGER_SECTIONS + HELPER_SECTIONS,
        'drivers': [{'name': 'sched'}, {'name': 'hist'}, {'name': 'lease'}, {'name': 'memlock'}],
        'reasons': ['C10.'],
        'class_fields': _merge(HIST_CLASS, {'sched': ['store', 'procs', 'crash', 'trace', 'statuses', 'exists']}),
        'nontrivial': _merge(HIST_NT, {'sched': lambda f: True}),
        'rule': SCHED_RULE + " Crash cases kill the refreshing / logging-out process at each of its steps, let the other process run, let the lock lease pass (FastForward) and read TTLs, lock key and the session endpoint. hist driver: TTL after every step of every history.",
        'level_text': "Proof: TTL invariant over the small-step model with crash events at arbitrary points (an update never drops the expiry and never creates a key); a finishing refresh removes its lock; a crashed holder blocks others only until "
                      "the lease passes, after which the next process obtains the lock; a session left stale by a crash between the provider's answer and the write-back is rejected cleanly (401, nothing written, lock released). "
                      "TTL values (<= creation + max lifetime, never extended) are checked on the implementation after every step of every history and schedule." + MANAGER_TIE +
                      " The in-memory lock is modelled (Model/MemLock) and proved exclusive over every reachable state, obtainable at once after its lease ran out and released only by its holder; its Go statements are regenerated and compared with the model's shape, and random acquire/release histories of the real lock are replayed on the model (memlock driver).",
        'level_note': "Trusted: Lean kernel; Redis expiry semantics via miniredis (SET XX KEEPTTL, PX leases, FastForward); crash = the process's connection goes dead at a store-command boundary.",
        'technique': 'Lean 4 invariant with crash events + crash-point enumeration on real replicas (TTL / lock key / follow-up request)',
        'trusted': ["Redis/miniredis expiry semantics"],
        'assumptions': ["crash happens at a store-command boundary"],
    },
    'C06': {
        'proofs': ['Ww.Proofs.C06', 'Ww.Proofs.GenTie.C01', 'Ww.Proofs.GenTie.Handlers'],
        'gen_sections': HANDLER_SECTIONS + ['Meta', 'pkg/session/data.go', 'Dec/sessionCanRefresh', 'Dec/sessionShouldRefresh', 'Dec/sessionYieldsToken', 'Dec/acrValidate', 'pkg/session/session.go'],
        'drivers': [{'name': 'hist'}, {'name': 'meta'}, {'name': 'lockwait'}],
        'reasons': ['C06.'],
        'class_fields': _merge(META_CLASS, HIST_CLASS),
        'nontrivial': _merge({'meta': _meta_nontrivial}, HIST_NT),
        'rule': HIST_RULE + LOCKWAIT_RULE + "meta driver as for C08 (includes Refresh/WithTimeout/NewMetadata mutators).",
        'level_text': "Proof: Inv (end = creation + max lifetime; timeout = last refresh + inactivity; token never outlives the timeout) is established by login and preserved by every handler step, "
                      "lifted by induction over arbitrary event lists (login/proxy/manual refresh/forward-auth/info/logout/clock movement); accepted => within lifetime and within inactivity timeout; "
                      "ended => 401 on session endpoints; inactive => readable as inactive, not refreshable; provider never contacted for a dead session. Metadata functions regenerated from data.go." + HANDLER_TIE,
        'level_note': "Trusted: Lean kernel; translator (validated by the synctest grid each run); hand-written handler model tied by differential histories with time shifting; H-CLOCK; store TTL behaviour is C10.",
        'technique': 'Lean 4 inductive invariant over event histories + regenerated metadata functions + differential histories with time shifting',
        'trusted': ["H-CLOCK; time shifting = moving stored timestamps back and fast-forwarding the store (observationally a clock advance)"],
        'assumptions': ["H-CLOCK", "H-AEAD"],
    },
    'C11': {
        'proofs': ['Ww.Proofs.C11', 'Ww.Proofs.GenTie.C01', 'Ww.Proofs.GenTie.C07', 'Ww.Proofs.GenTie.Handlers', 'Ww.Proofs.GenTie.Grant', 'Ww.Proofs.Retry', 'Ww.Proofs.GenTie.Retry'],
        'gen_sections': HANDLER_SECTIONS + MANAGER_SECTIONS + ['Consts', 'Meta', 'Dec/sessionCanRefresh', 'Dec/sessionShouldRefresh', 'Dec/sessionYieldsToken', 'Dec/acrValidate', 'pkg/session/session.go'] + PROVIDER_SECTIONS,
        'drivers': [{'name': 'fault', 'timeout': 1500}, {'name': 'hist'}, {'name': 'retry'}],
        'reasons': ['C11.'],
        'class_fields': _merge(HIST_CLASS, {'fault': ['handler', 'prestate', 'fpos', 'fkind', 'fcount', 'status', 'upauth'], 'faultdry': ['handler', 'prestate'], 'retry': ['wave', 'mode', 'kind', 'd', 'outcome']}),
        'nontrivial': _merge(HIST_NT, {'faultdry': lambda f: False}),
        'rule': "fault driver: for 7 handlers x pre-states {fresh, refresh due, expired} the fault-free sequence of store commands / lock scripts / provider calls is recorded, then at EVERY position a fault is injected: "
                "1 failure, 2 failures, a fault outlasting the 5 s retry budget; for the provider 5xx (1, 2, persistent), 4xx and a non-JSON 200 (quick drops the double failures except at the lookup; 24 cases in parallel). "
                "hist driver: provider answers ok/4xx/5xx/garbage along random histories. retry driver: the real pkg/retry around a function failing until d (10 durations + never, Do and DoValue, non-retryable errors), attempt offsets against the model schedule, a second wave after a whole budget has passed. distinct = (handler, pre-state, position, fault kind, count, outcome).",
        'level_text': "Proof: with an adversarial fault oracle over lookup, lock, re-read, provider answer, write-back and delete, a token is forwarded only if the session was read (or just granted and stored) and validated in this request and is unexpired; "
                      "an expired token is never forwarded whichever fault prevents the refresh; a 4xx from the provider makes proxied requests go on without token and forward-auth / manual refresh answer 401; a logout whose lookup or delete failed "
                      "never answers success; without faults the faulty handlers equal the ordinary ones. Retries are modelled as 'fails only if the fault outlasts the budget'; that abstraction is itself proved for the back-off policy (Model/Retry, Proofs/Retry): for EVERY base, budget and fault length, a fault ending within the budget is absorbed by an attempt made within the budget (the last attempt is made exactly when the budget runs out), a longer one ends the call after finitely many strictly increasing attempts; instantiated at the constants and statements regenerated from pkg/retry/retry.go (fresh back-off per call) and tied to the real library by attempt offsets in two waves." + HANDLER_TIE +
                      " Client.RefreshGrant and the back-channel POST are translated on every run (Gen/Provider): a refresh answer is accepted on one path only (authenticated POST of the caller's refresh token to the token endpoint, body parsed, access token present); 4xx is a client error, 5xx a server error, a body is handed on only from a non-error answer.",
        'level_note': "Trusted: Lean kernel; go-retry's timers and Fibonacci state (modelled in Model/Retry with operations taking no time; tied by the retry driver with a tolerance of +400 ms per attempt); an error from the lock script is not retried (observed, noted in DESIGN); fault = error reply on the replica's connection at a command boundary.",
        'technique': 'Lean 4 proof over the handler model with a fault oracle + fault injection at every store/provider position on real replicas',
        'trusted': ["go-retry contract (Appendix C)", "H-CLOCK"],
        'assumptions': ["faults occur at store-command / provider-call boundaries"],
    },
    'C12': {
        'proofs': ['Ww.Proofs.C12', 'Ww.Proofs.GenTie.C12', 'Ww.Proofs.GenTie.Handlers', 'Ww.Proofs.GenTie.MiddlewareSrc'],
        'gen_sections': HANDLER_SECTIONS + ['Dec/needsLogin', 'pkg/handler/autologin/autologin.go'] + PROVIDER_SECTIONS,
        'drivers': [{'name': 'c12'}],
        'reasons': ['C12.'],
        'class_fields': {'glob': ['dm'], 'needslogin': ['nl'], 'alog': ['method', 'nav', 'authed', 'status', 'fwd', 'hasloc', 'prefix']},
        'nontrivial': {},
        'rule': "c12 driver: (a) doublestar.Match vs the Lean matcher on generated (pattern, path) pairs over {literal,*,**,/}; (b) autologin.NeedsLogin on generated pattern sets and raw paths "
                "(dot segments, doubled/trailing slashes); (c) full handler through the router (method x Sec-Fetch/Accept x Referer x prefix x encoded separators). "
                "distinct = (line kind, outcome fields); every case is non-trivial (a decision is made).",
        'level_text': "Proof: the executable glob matcher is proved equal to the declarative documented semantics (`*` within a segment, `**` spanning segments) for ALL patterns and paths; "
                      "NeedsLogin = false for an unauthenticated request iff some pattern Matches the path.Clean-ed path, which never contains a dot segment; the handler forwards an unauthenticated "
                      "request only if ignored. doublestar itself and the handler wiring are tied by differential runs (incl. the real router) and the Spec is evaluated on every implementation answer." + HANDLER_TIE,
        'level_note': "Trusted: Lean kernel; doublestar modelled for the alphabet {literal,*,**,/} and for pattern tails it compares literally at end-of-name (see DESIGN Appendix C: ***, x*/**, trailing slash are outside the contract and skipped); "
                      "net/url path decoding; chi routing (C15). NeedsLogin is machine-translated from autologin.go on each run (memo cache dropped) and PROVED to have the model's decision structure for any path.Clean / matcher (Ww.Proofs.GenTie.C12).",
        'technique': 'Lean 4 proof (matcher = inductive relation, by induction on patterns) + differential runs against doublestar / NeedsLogin / router',
        'trusted': ["doublestar v4.8.1 modelled (not verified) for the pattern alphabet; path.Clean modelled on segment lists"],
        'assumptions': ["patterns over {literal, *, **, /}"],
    },
    'C13': {
        'proofs': ['Ww.Proofs.C13', 'Ww.Proofs.GenTie.C13', 'Ww.Proofs.GenTie.Login', 'Ww.Proofs.GenTie.Ingress', 'Ww.Proofs.GenTie.Authz', 'Ww.Proofs.GenTie.HelpersAuth'],
        'gen_sections': HANDLER_SECTIONS + ['Dec/getAcrParam', 'Dec/getLocaleParam', 'Dec/getPromptParam', 'pkg/openid/client/login.go', 'pkg/openid/acr/acr.go'] + HELPER_SECTIONS,
        'drivers': [{'name': 'c13'}],
        'reasons': ['C13.'],
        'class_fields': {'login13': ['variant', 'ep', 'status', 'hascookie', 'parcalled', 'p_acr', 'p_locale', 'p_prompt', 'p_redirect'], 'fresh13': ['dups']},
        'nontrivial': {'login13': lambda f: f.get('status') in ('302', '307', '500')},
        'rule': "c13 driver: /oauth2/login and /oauth2/logout for Host x X-Forwarded-Host (configured, unconfigured, upper case, with port) x path prefix x level x locale x prompt, 4 variants "
                "(1-3 ingresses with path prefixes, PAR on/off, client secret vs private-key JWT, three ACR defaults); the provider-side parameters (front channel or PAR body), the decrypted login cookie, the verified client "
                "assertion and a scan of everything browser-visible are observed; a freshness summary counts repeats of state/nonce/verifier/jti over all visits (a test, not a proof). distinct = (variant, endpoint, status, parameter values).",
        'level_text': "Proof: the authorization-request builder binds state/nonce/redirect_uri/S256(verifier) to the sealed cookie, names only a CONFIGURED ingress matching Host or X-Forwarded-Host (none => no request at all), and "
                      "emits only allowed acr_values / ui_locales / prompt values with max_age=0 on prompt - for all inputs; uniqueness of state/nonce/verifier across visits follows from an injective random source. Partial: unpredictability "
                      "(>= 256 bits) is an assumption on crypto/rand; the builder model is tied to the real endpoints by the driver, which also verifies client assertions and scans for credentials.",
        'level_note': "Trusted: Lean kernel; crypto/rand (H-RND); S256 modelled as an injective symbol and recomputed in the harness; golang.org/x/oauth2 and url.Values encoding; fake provider as observer. getAcrParam / getLocaleParam / getPromptParam are machine-translated from login.go on each run and the model's acrParam / localeParam / promptParam are PROVED equal to the translations (Ww.Proofs.GenTie.C13).",
        'technique': 'Lean 4 proof of the request-builder decision logic + freshness from an injective oracle; differential runs incl. PAR bodies and assertion verification',
        'trusted': ["H-RND", "S256 as injective symbol"],
        'assumptions': ["H-RND"],
    },
    'C14': {
        'proofs': ['Ww.Proofs.C14', 'Ww.Proofs.GenTie.C14', 'Ww.Proofs.GenTie.Handlers', 'Ww.Proofs.GenTie.Login', 'Ww.Proofs.GenTie.HelpersWeb'],
        'gen_sections': HANDLER_SECTIONS + ['Cookies', 'Dec/cookieMake', 'Dec/cookieClear', 'pkg/cookie/cookie.go'] + HELPER_SECTIONS,
        'drivers': [{'name': 'cook'}],
        'reasons': ['C14.'],
        'class_fields': {'setcookie': ['sso', 'cfgsecure', 'cfgsamesite', 'op', 'class', 'clear', 'domain', 'path', 'secure', 'samesite'], 'jar': ['after', 'status', 'names', 'sso'], 'cookieval14': ['secure', 'samesite', 'hostnames', 'schemes', 'accepted'],
                         'retrychain': ['cause', 'statuses'], 'retryreset': ['via', 'after'], 'ratelimit': ['enabled', 'logins', 'windowms', 'session', 'statuses', 'afterwindow']},
        'nontrivial': {},
        'rule': "cook driver: 7 configurations (secure x https / http-localhost ingress x path prefix x SSO domain with/without dot x same-site); every Set-Cookie of login, callback, the four logout variants, logout callback and "
                "five error causes is compared attribute by attribute with the model; the jar of an RFC 6265 browser is inspected after callback and after each logout; distinct = (config, operation, cookie, attributes).",
        'level_text': "Proof: Make/Clear always set HttpOnly and copy Secure/SameSite/Domain/Path; per-mode options (Secure = configured flag, SameSite=None only in SSO mode with that setting, standalone scoped to the ingress path without Domain, "
                      "SSO to the configured domain); insecure cookies only with all-localhost http ingresses (validation); over the REGENERATED call-site table every cookie is set and cleared with one scope expression; jar theorem: after any history "
                      "of consistently scoped Set-Cookies ending in an accepted clear of n, no cookie named n remains (induction over the history)." + HANDLER_TIE,
        'level_note': "Trusted: Lean kernel; call-site extractor (receiver-name heuristic for SetCookie methods, checked: no 'unknown:' entries); net/http cookie serialisation (leading dot dropped) compared by the driver; RFC 6265 browser (H-BROWSER) - the harness jar implements the same rules as the Lean jar. cookie.Make / cookie.Clear are machine-translated from cookie.go on each run and the model's makeCookie / clearCookie are PROVED equal to the translations (Ww.Proofs.GenTie.C14).",
        'technique': 'Lean 4: attribute lemmas, decide over the regenerated cookie call-site table, inductive jar invariant; per-attribute differential of every emitted Set-Cookie',
        'trusted': ["H-BROWSER (RFC 6265)", "net/http SetCookie serialisation"],
        'assumptions': ["H-BROWSER"],
    },
    'C17': {
        'proofs': ['Ww.Proofs.C17', 'Ww.Proofs.GenTie.C17', 'Ww.Proofs.GenTie.Handlers', 'Ww.Proofs.GenTie.Login', 'Ww.Proofs.GenTie.HelpersWeb'],
        'gen_sections': HANDLER_SECTIONS + ['Consts', 'Dec/retryCondition', 'Dec/nextRetryValue', 'pkg/handler/error.go'] + HELPER_SECTIONS,
        'drivers': [{'name': 'cook'}],
        'reasons': ['C17.'],
        'class_fields': {'setcookie': ['op', 'class', 'clear'], 'jar': ['after'], 'retrychain': ['cause', 'statuses', 'sso', 'gap'], 'retryreset': ['via', 'before', 'after'],
                         'ratelimit': ['enabled', 'logins', 'windowms', 'session', 'statuses', 'afterwindow', 'maxage']},
        'nontrivial': {'setcookie': lambda f: False, 'jar': lambda f: False, 'cookieval14': lambda f: False},
        'rule': "cook driver: a cookie-keeping browser is sent round the failing loop (callback without cookie, bad state, provider 5xx, provider 4xx, logout on an unconfigured host) 7 times per cause and configuration; "
                "success after failures (login, logout callback); rate limit grid enabled x logins {0,1,2,5} x window {0.5,1,5,90 s} x with/without session with the jar clock moved past the window. distinct = (cause/config, status sequence).",
        'level_text': "Proof: from any counter a browser can hold, at most three consecutive failures are answered with the retry redirect and the error page is terminal (induction over the failure run with a budget function; bound = the constant "
                      "regenerated from error.go); 429 is never retried; with a session exactly `logins` visits pass and all further ones are 429 (for every logins, by induction), the counter is untouched by a 429; off/without session never 429. "
                      "Model tied to the real handlers by following the chains." + HANDLER_TIE,
        'level_note': "Trusted: Lean kernel; H-BROWSER (the retry cookie comes back: scope checked by C14 and by the chains). A host outside the SSO cookie domain makes the browser drop the counter cookie (endless 307): outside the quantifier, see DESIGN. The retry condition and the counter increment are machine-translated from error.go on each run and the model's retryStep is PROVED equal to them (Ww.Proofs.GenTie.C17).",
        'technique': 'Lean 4 induction over failure runs / login runs of the counter state machines + chain-following differential runs',
        'trusted': ["H-BROWSER"],
        'assumptions': ["H-BROWSER"],
    },
    'C15': {
        'proofs': ['Ww.Proofs.C15', 'Ww.Proofs.GenTie.C15', 'Ww.Proofs.GenTie.Login', 'Ww.Proofs.GenTie.MiddlewareSrc', 'Ww.Proofs.GenTie.HelpersWeb'],
        'gen_sections': HANDLER_SECTIONS + ['Routes', 'pkg/router/router.go', 'pkg/router/paths/paths.go', 'Dec/isNavigationRequest', 'Dec/hasSecFetchMetadata', 'internal/http/request.go'] + PROVIDER_SECTIONS + HELPER_SECTIONS,
        'drivers': [{'name': 'c15'}, {'name': 'hist'}],
        'reasons': ['C15.'],
        'class_fields': _merge(HIST_CLASS, {'route': ['sso', 'idporten', 'method', 'impl', 'nocache'], 'guard': ['ep', 'method', 'mode', 'dest', 'status'], 'errpage': ['ep', 'status']}),
        'nontrivial': HIST_NT,
        'rule': "c15 driver: real router.New over a recording Source: (method x request target) over 5 prefix sets x SSO-server on/off x idporten on/off, targets = every endpoint tail incl. trailing slash, "
                "case change, percent-escapes, dot segments, doubled slashes, look-alike prefixes; non-navigation guard on the 4 interactive endpoints x 9 Sec-Fetch combinations; error page with hostile text. "
                "hist driver scans every owned-endpoint response for the session's tokens. distinct = (config, method, handler reached/404/405, no-cache).",
        'level_text': "Proof over the route table regenerated from router.go on each run: the catch-all proxy route exists once, at top level; every path in a configured <prefix>/oauth2 subtree routes to a handler, "
                      "404 or 405 and never to the proxy (for every method, path, prefix list, configuration); NoCache wraps every response in the subtree incl. 404/405; the four interactive endpoints are wrapped by "
                      "the non-navigation guard, which answers 401 for every Fetch-metadata combination that is not a top-level navigation. chi's matching is modelled and tied against the real router; token "
                      "absence in responses and HTML escaping are checked on the implementation (monitor), not proved.",
        'level_note': "Trusted: Lean kernel; route-table extractor; chi v5 mount/static matching and unknown-method 405 (modelled, differential); html/template escaping (tested with hostile strings); "
                      "RFC 3986 reading of 'under the subtree' (split on literal '/'; %2F is data). Non-standard methods (e.g. PROPFIND) are answered by chi's top-level 405 without the group middlewares: outside the quantifier, noted in DESIGN. IsNavigationRequest / HasSecFetchMetadata are machine-translated from internal/http/request.go on each run and the model's guard functions are PROVED equal to them (Ww.Proofs.GenTie.C15).",
        'technique': 'Lean 4: decide over the regenerated route table + routing theorem; differential routing against router.New',
        'trusted': ["chi v5 routing contract (Appendix C)", "html/template contextual escaping"],
        'assumptions': ["chi routes on RawPath when set, else Path"],
    },
    'C16': {
        'proofs': ['Ww.Proofs.C16', 'Ww.Proofs.GenTie.C16', 'Ww.Proofs.GenTie.Login'],
        'gen_sections': HANDLER_SECTIONS + ['Routes', 'Facts', 'pkg/router/router.go'],
        'drivers': [{'name': 'c16'}, {'name': 'hist'}, {'name': 'cook'}],
        'reasons': ['C16.'],
        'class_fields': _merge(HIST_CLASS, {'cors': ['dom', 'corsep', 'preflight', 'acac', 'status'], 'proxycmds': ['op', 'status', 'cmds'], 'setcookie': ['sso', 'ssodomain', 'op', 'class', 'clear', 'domain', 'path']}),
        'nontrivial': _merge(HIST_NT, {'setcookie': lambda f: f.get('sso') == '1', 'jar': lambda f: False, 'cookieval14': lambda f: False, 'retrychain': lambda f: False, 'retryreset': lambda f: False, 'ratelimit': lambda f: False}),
        'rule': "c16 driver: Origin values (8 schemes x 22 host shapes incl. look-alikes, suffix/prefix confusions, case, ports, userinfo) x 4 SSO-domain spellings x 7 endpoints x simple/preflight against the real "
                "SSO-server router; an SSO proxy and server on one miniredis with every command attributed by client name while the proxy serves 13 operations over shifted clocks. hist driver: sso-proxy and sso-server histories.",
        'level_text': "Proof: for EVERY origin string and domain spelling, corsAllows implies the lower-cased origin is https:// followed by the SSO domain or something ending in '.'+domain (string theorem); "
                      "structural theorems (decide over regenerated facts): the SSOProxy type holds only a session Reader and its methods call no mutating/provider operation, the server wildcard only redirects; "
                      "behavioural theorem on the handler model: a proxied request in proxy mode never contacts the provider nor changes the store. rs/cors matching is modelled and tied; the dynamic command log ties the rest." + HANDLER_TIE,
        'level_note': "Trusted: Lean kernel; rs/cors v1.11.1 wildcard rule (modelled, differential); browsers send Origin as scheme://host[:port] (values with / ? # @ are outside the quantifier); static call facts are by name (over-approximate).",
        'technique': 'Lean 4 string theorem for the CORS rule + decide over regenerated structural facts + differential/command-log runs',
        'trusted': ["rs/cors wildcard contract", "H-BROWSER (Origin syntax)"],
        'assumptions': ["H-BROWSER"],
    },
    'C08': {
        'proofs': ['Ww.Proofs.C08', 'Ww.Proofs.C07', 'Ww.Proofs.GenTie.C01', 'Ww.Proofs.GenTie.C07'],
        'gen_sections': MANAGER_SECTIONS + ['Meta', 'Consts', 'pkg/session/data.go', 'Dec/sessionCanRefresh', 'Dec/sessionShouldRefresh', 'Dec/sessionYieldsToken', 'Dec/acrValidate', 'pkg/session/session.go'],
        'drivers': [{'name': 'meta'}, {'name': 'hist'}, {'name': 'sched'}, {'name': 'lockwait'}],
        'reasons': ['C08.'],
        'class_fields': _merge(META_CLASS, HIST_CLASS, {'sched': ['store', 'procs', 'crash', 'trace', 'statuses', 'exists']}),
        'nontrivial': _merge({'meta': _meta_nontrivial}, HIST_NT, {'sched': lambda f: ',' in f.get('schedule', '')}),
        'rule': HIST_RULE + SCHED_RULE + " (for C08: the number of successful grants per schedule - requests that raced must not refresh during the cooldown of the winner) " + "meta driver: boundary grid {refreshed,cooldown,half-life,expiry-5min,expiry,timeout,end} x {-1s,-1ns,0,+1ns,+1s} x 14 token lifetimes x 5 inactivity "
                "settings x 4 session ages, plus seeded random placements; distinct = distinct vector of predicate results; non-trivial = at least one predicate true",
        'level_text': "Proof: the refresh-schedule rules (refresh once expired, never during cooldown, never before expiry-5min / half-life, cooldown <= 1 min and never outlasting the token, "
                      "refresh opportunity before expiry, metadata endpoint fields) are Lean theorems, for every metadata record and every clock value, over definitions that are machine-translated from "
                      "pkg/session/data.go on each run; the translation is validated on a synctest boundary grid and the Spec is evaluated on the implementation's own answers.",
        'level_note': "Trusted: Lean kernel, the data.go translator (validated differentially every run), one clock reading per method (H-CLOCK), no int64 overflow. Mode rules, 'never' rules and idempotence are theorems over the hand-written handler model (Ww.Model.Sys), tied by the hist driver.",
        'technique': 'Lean 4 proof (omega/simp over Int) on definitions regenerated from data.go + synctest differential grid',
        'trusted': ["H-CLOCK: one clock reading per method evaluation; no int64 overflow; float64 Duration.Seconds() modelled as truncating division"],
        'assumptions': ["H-CLOCK", "Go time.Time/Duration arithmetic modelled as unbounded Int nanoseconds (translator rule, validated by the synctest grid)"],
    },

    'C18': {
        'proofs': ['Ww.Proofs.C18'],
        'gen_sections': ['LogSites'],
        'drivers': [{'name': 'c20'}, {'name': 'hist'}, {'name': 'c02'}, {'name': 'c13'}, {'name': 'cook'}, {'name': 'c09'}, {'name': 'fault', 'timeout': 1500}],
        'reasons': ['C18.'],
        'class_fields': {'logscan': ['where', 'kind', 'found'], 'start20': ['key', 'jwk', 'secret', 'redissecret', 'viaenv', 'listening']},
        'nontrivial': _merge({k: (lambda f: False) for k in ['hstep', 'hstart', 'hafter', 'cb', 'login13', 'fresh13', 'burst13', 'setcookie', 'jar', 'cookieval14', 'retrychain', 'retryreset', 'ratelimit', 'fault', 'faultdry', 'crypt', 'nonces', 'cookiedec', 'tamper09', 'relogin09', 'outscan']},
                             {'logscan': lambda f: True, 'start20': lambda f: f.get('redissecret') != 'none' or f.get('secret') == '1' or f.get('key') == 'ok'}),
        'rule': "Monitor: logrus captured process-wide at TRACE level while the hist, c02, c13, cook and fault drivers run (histories, callback lattice, login visits, cookie/error paths, fault injection); every secret the harness learns "
                "(tokens issued by the fake provider, code verifiers, client assertions, client secret, every Set-Cookie value, session data keys in raw/base64/hex, the deployment key) is searched in everything logged. "
                "c20 driver: the real binary is started with every secret supplied by flag, by WONDERWALL_* variable and (Redis) inside redis.uri; stdout/stderr are searched. non-trivial = a scan report / a launch that supplies a secret.",
        'level_text': "PARTIAL. Decidable theorems over the regenerated table of ALL log statements and error constructions (270+): no argument mentions a secret-bearing identifier (trusted word list with 3 named exceptions), %+v/%v only on "
                      "errors / the masked configuration / provider metadata, the start-up banner masks every secret-bearing field incl. redis.uri, request attributes never read header maps, cookie values or raw queries. "
                      "Runtime monitor over every explored history, schedule and fault sequence and over real start-ups. Third-party libraries' own logging is covered by the monitor only.",
        'level_note': "Trusted: Lean kernel; the log-site extractor (syntactic: receiver looks like a logger; it also drops string-literal arguments and emits the remaining ones as code-point lists, since the kernel decodes string literals very slowly - `tables_aligned` checks the shapes agree, `word_codes_are_the_words` that the coded word list is the readable one); the classification word list; errors can still carry provider response bodies (5xx text) - not secrets of wonderwall. OpenTelemetry span attributes are outside 'log line'.",
        'technique': 'Lean 4 decide over the regenerated log/error-site table + process-wide runtime log monitor + real-binary start-up scan',
        'trusted': ["identifier classification (secretWords / exceptions in Proofs/C18.lean)"],
        'assumptions': ["classification of identifiers is trusted"],
    },
    'C20': {
        'proofs': ['Ww.Proofs.C20', 'Ww.Proofs.GenTie.Ingress', 'Ww.Proofs.GenTie.Startup', 'Ww.Proofs.GenTie.C09', 'Ww.Proofs.GenTie.Jwks'],
        'gen_sections': HANDLER_SECTIONS + STARTUP_SECTIONS + ENVELOPE_SECTIONS + PROVIDER_SECTIONS,
        'drivers': [{'name': 'c20'}],
        'reasons': ['C20.'],
        'class_fields': {'start20': ['key', 'ingress', 'clientid', 'jwk', 'secret', 'wellknown', 'mode', 'redis', 'cookiename', 'serverurl', 'domain', 'defaulturl', 'secure', 'samesite', 'upstream', 'shutdown', 'alg', 'acr', 'locale', 'disco', 'listening'],
                         'logscan': ['kind']},
        'nontrivial': {'logscan': lambda f: False},
        'rule': "c20 driver: the REAL binary built from the working tree is launched (16 at a time) against a loopback discovery document, JWKS and miniredis with: the valid base configuration, every single deviation of 20 factors "
                "(also inside both SSO modes), and random 2-3-factor combinations; settings supplied as flags or as WONDERWALL_* variables at random; observation = accepts TCP on the bind address within 4 s vs exits before. distinct = factor vector.",
        'level_text': "Proof: the model of the start-up chain (Validate: cookie, signing alg, SSO, upstream, shutdown periods; encryption key; client config; discovery metadata; store; ingresses; SSO redirect) reaches 'listen' IF AND ONLY IF the "
                      "documented rules hold (both directions proved), for every configuration. The chain model is tied to the real binary by launching it across the configuration space; the documented rules are evaluated on each launch. "
                      "Each check of the chain is also decided on the CURRENT source (Gen/Startup, regenerated on every run, all control-flow paths): run() reaches server.Start on one kind of path only - after Initialize (whose last step is Validate), the key, and the mode's constructor all succeeded; Validate = cookie, openid, sso, upstream, shutdown periods in this order; insecure cookies only when every ingress parsed, is localhost and http (checked inside the loop); SSO needs store, cookie name and its mode's URL / domain; discovery is fetched, decoded and validated (acr incl. legacy mapping, locale, alg); a client config needs JWK or secret, provider, client id, well-known URL; at least one ingress and every one parsed; a configured store must answer PING; the key's length check (Gen/Envelope).",
        'level_note': "Trusted: Lean kernel; viper/pflag binding and each parser's verdict on its setting (the model takes 'parses / does not parse' as input; the driver supplies representative texts); provider-specific variables (IDPORTEN_*, AZURE_APP_*) are not in the quick tier.",
        'technique': 'Lean 4 equivalence proof (validation chain <-> documented rules) + real-binary launches over the configuration space',
        'trusted': ["viper/pflag binding", "net/url, base64, jwk parsers' verdicts"],
        'assumptions': ["each setting's parser verdict is an input of the model"],
    },

    'C19': {
        'proofs': ['Ww.Proofs.C19'],
        'gen_sections': ['Facts', 'Shutdown', 'pkg/server/server.go'],
        'drivers': [{'name': 'c19'}],
        'reasons': ['C19.'],
        'class_fields': {'shutdown19': ['wait', 'grace', 'signal', 'reqs', 'exitcode'], 'logscan': ['kind']},
        'nontrivial': {'logscan': lambda f: False},
        'rule': "c19 driver: the REAL binary (built from the working tree) proxies to a slow upstream; SIGTERM or SIGINT at a chosen instant; requests arrive before the signal (finishing in time / not finishing), during the wait-before "
                "period and after it, with upstream durations from 20 ms to beyond the graceful period; wait-before in {0, 400 ms, 1 s, 1.2 s}, graceful in {1.6, 1.8, 2.2, 2.4, 2.6 s} (the long waits separate 'deadline = graceful' from 'deadline = graceful - wait-before'); per request completed / refused / cut with timestamps; exit status and time. "
                "Outcomes are compared with the timed model with a 250 ms tolerance (+ the 500 ms idle-connection polling of http.Server.Shutdown). distinct = scenario.",
        'level_text': "PARTIAL. Proved on the timed protocol model, for all period settings with wait < grace and all request arrival / duration patterns: exit no later than the graceful period; requests are accepted exactly until the wait-before "
                      "period is over; an accepted request that can finish before the deadline completes; when all do, the exit is successful and happens at max(wait, last completion); otherwise exit at the deadline with a failure status. "
                      "The signal goroutine of server.go is re-translated on each run into a list of timed operations in source order; source_timing proves, for all settings, that interpreting that list closes the listeners at wait-before and arms the fatal exit at graceful (the model's parameters); the coarser call-set shape is checked too. Signal delivery, http.Server.Shutdown and the scheduler are the runtime (H-RT).",
        'level_note': "Trusted: Lean kernel; net/http.Server.Shutdown (listeners closed at once, idle polling up to 500 ms: a request finishing < ~650 ms before the deadline may still end in a forced exit - not compared), signal delivery, timers; tolerance 250 ms.",
        'technique': 'Lean 4 proof over a timed protocol model + source-shape facts + timed runs of the real binary under signals',
        'trusted': ["H-RT (net/http Shutdown, signals, timers)"],
        'assumptions': ["H-RT"],
    },

    'C09': {
        'proofs': ['Ww.Proofs.C09', 'Ww.Proofs.GenTie.C09'],
        'gen_sections': ['Facts'] + ENVELOPE_SECTIONS,
        'drivers': [{'name': 'c09'}, {'name': 'cook'}, {'name': 'hist'}],
        'reasons': ['C09.'],
        'class_fields': _merge(HIST_CLASS, {'crypt': ['size'], 'tamper09': ['what', 'variant', 'ep', 'status'], 'relogin09': ['samekey', 'oldopens', 'newopens'], 'cookiedec': ['value'], 'nonces': ['dups'], 'outscan': ['sink', 'kind', 'found'],
                                            'setcookie': ['class', 'clear'], 'logscan': ['kind']}),
        'nontrivial': _merge(HIST_NT, {'logscan': lambda f: False, 'setcookie': lambda f: False, 'jar': lambda f: False, 'retrychain': lambda f: False, 'retryreset': lambda f: False, 'ratelimit': lambda f: False}),
        'rule': "c09 driver: real Crypter on plaintext sizes 0..64 KiB (1 MiB thorough): every single-bit flip (sampled above 20 kbit), every truncation, extension, other key, plaintext-as-ciphertext; 20 000 encryptions for nonce repeats; "
                "malformed cookie values; through the router: the session cookie truncated / extended / bit-flipped / replaced by a login or logout cookie's ciphertext / sealed under another key, and the store value replaced by another "
                "session's value / flipped / truncated / plaintext JSON, on 4 endpoints. Output monitor (all drivers): every Set-Cookie value and store value is searched for the tokens, verifiers, keys and client credentials the harness knows.",
        'level_text': "PARTIAL (relative to H-AEAD / H-RND). Proved on the symbolic model: a ciphertext opens only under the key it was made with, modified bytes open under no key; session cookie and store value expose nothing to an observer "
                      "without keys; a store value is readable only with the data key inside that user's own cookie, a cookie only with the deployment key, another cookie type's ciphertext is no ticket; whenever cookie or store value does not "
                      "open, no token reaches the upstream and the session endpoints answer 401 (never 5xx); framing round trip and minimum length; distinct ciphertexts from an injective nonce source. Bit-flip / truncation / swap runs are tests. "
                      "The shape the symbolic model assumes is decided on the CURRENT source on every run (Gen/Envelope, all control-flow paths): the one path of Encrypt that returns bytes builds the AEAD from the crypter's key, fills a nonce "
                      "of the AEAD's size from crypto/rand, checks that read and returns Seal(nonce, nonce, plaintext, nil); Decrypt refuses short input, splits at the nonce size and returns Open's verdict unchanged; a cookie value is "
                      "base64(seal(value)) and opens only through both; the ticket is read from the session cookie with the deployment crypter and its own crypter is made from its own key only; the store value is seal(json(data)) under ticket.Crypter().",
        'level_note': "Trusted: XChaCha20-Poly1305 and crypto/rand (assumptions); Lean kernel; the symbolic abstraction (Blob = sealed term | junk). Known finding F7: legacy-cookie=true puts the raw access token into the selvbetjening-idtoken cookie.",
        'technique': 'Lean 4 proofs over a symbolic (Dolev-Yao) AEAD model joined to the handler model + exhaustive tamper runs and an output monitor on the real code',
        'trusted': ["H-AEAD", "H-RND"],
        'assumptions': ["H-AEAD", "H-RND"],
    },
    'C04': {
        'proofs': ['Ww.Proofs.C04Lemmas', 'Ww.Proofs.C04', 'Ww.Proofs.C04Abs', 'Ww.Proofs.GenTie.Login', 'Ww.Proofs.GenTie.C04', 'Ww.Proofs.GenTie.LogoutSrc', 'Ww.Proofs.GenTie.HelpersWeb'],
        'gen_sections': HANDLER_SECTIONS + [] + PROVIDER_SECTIONS + HELPER_SECTIONS,
        'drivers': [{'name': 'c04', 'timeout': 6000}],
        'reasons': ['C04.'],
        'class_fields': {'url04': ['ok', 'rok'], 'valid04': ['rel', 'abs', 'regex'], 'canon04': ['mode'], 'redir04': [], 'esc04': ['pathunescok', 'queryunescok'], 'whatwg04': ['expect'],
                         'loc04': ['mode', 'emitter', 'status', 'hasembedded'], 'logscan': ['kind']},
        'nontrivial': {'url04': lambda f: f.get('ok') == '1', 'valid04': lambda f: f.get('rel') == '1' or f.get('abs') == '1', 'logscan': lambda f: False, 'esc04': lambda f: False, 'whatwg04': lambda f: False},
        'rule': "c04 driver. Function level: every string literal of the repository's own pkg/url tests + a curated attack list + minimised past failures, then grammar-generated URL-ish strings (schemes incl. javascript:/data:/scheme-only, "
                "authority forms with look-alike hosts, userinfo, ports, IPv6/zone, IDNA look-alikes, / \\ . %2f %5c %2e %09 raw TAB/LF/NUL/space, dot segments, doubled separators, odd ? # @ :) and byte-level mutations of both; on each: "
                "url.Parse (every field), String, EscapedPath, Hostname, ParseRequestURI, Path/QueryEscape/Unescape, both validators, the regular expression compiled from the current source, Canonical + Clean of the three modes over 6 configurations "
                "(ingress with and without path prefix, several ingresses, two spellings of the SSO domain), http.Redirect for 6 request paths. HTTP level: the same strings as redirect parameter, Referer and request target through every emitter "
                "(login, login callback, logout, logout callback, three automatic-retry paths, unknown-host retry, auto-login 302/401 and the login that follows it, SSO-server wildcard, SSO-proxy login/logout/callbacks) on 5 sites; each Location "
                "(and the redirect parameter an SSO proxy hands on) is judged by the browser model. distinct = (line kind, outcome fields); non-trivial = a string Go's parser accepts / a validator accepts / any emitted Location.",
        'level_text': "Proof (standalone chain) + PARTIAL (absolute modes). Proved for EVERY redirect-parameter string, request path and base scheme: the value StandaloneRedirect.Canonical returns, re-validated after the cookie round trip and "
                      "rewritten by http.Redirect, is a Location the browser model resolves inside the request's origin (relValid_shape, cleared_no_backslash, httpRedirect_safe, browse_safeLoc, standalone_redirect_stays). "
                      "The proof shows why the validator alone is not enough (it accepts a raw /\\evil.com) and that safety rests on validating only URL.String() output. SSO-server / SSO-proxy: model + differential + Spec on every Location." +
                      " The logout helpers are translated on every run (Gen/Provider): the logout callback's target is the cookie's redirect only with a logout cookie, matching state and an accepting validator, else the operator's post-logout URI, else the ingress, else '/'; the end-session URL carries this deployment's callback URL and the fresh state; front-channel logout names the session by the sid parameter alone.",
        'level_note': "Trusted: Lean kernel; the model of net/url, path.Clean and http.Redirect (tied field by field on every run); the browser model (digest of the WHATWG URL parser; no browser in the sandbox; checked against a hand-kept table "
                      "of 147 expectations; UTS-46 host mapping not modelled); AEAD authenticity of the login/logout cookie (C09).",
        'technique': 'Lean 4 proof over a functional model of net/url + validators + http.Redirect + a WHATWG browser model, tied by differential runs at function level and judged on every real Location at HTTP level',
        'trusted': ["net/url, path.Clean, http.Redirect modelled (not verified); WHATWG browser model is the oracle (no browser available)", "H-AEAD for the cookie-carried redirect", "H-IDNA: UTS-46 mapping of non-ASCII hosts not modelled"],
        'assumptions': ["H-BROWSER", "H-AEAD", "H-IDNA"],
    },
}
