package main

// table-shaped extractions (routes, cookies, log sites, start-up chain) are added in tables_*.go
func genTables() {
	for _, g := range tableGens {
		g()
	}
}

var tableGens []func()
